package main

import (
	"encoding/json"
	"flag"
	"fmt"
	"os"
	"runtime/debug"
	"strconv"
	"strings"

	"oapsa/internal/oblig"
	"oapsa/internal/prog"
	"oapsa/internal/walk"
	"oapsa/rules"
)

func main() {
	property := flag.String("property", "", "property id (C01...)")
	tier := flag.String("tier", "", "quick|thorough")
	replay := flag.String("replay", "", "replay file: re-evaluate the property and report only that obligation")
	dump := flag.String("dump-paths", "", "debug: print the paths of a function")
	list := flag.String("list-funcs", "", "debug: list module functions containing substring")
	version := flag.Bool("version", false, "print version")
	dumpAnchors := flag.Bool("dump-anchors", false, "maintenance: print the fingerprint file (internal/prog/anchors.json) for the loaded tree")
	explore := flag.Bool("explore-shared", false, "maintenance: list request-reachable non-local writes")
	flag.Parse()
	if *version {
		fmt.Println("oapsa static analyser for oauth2-proxy properties:", rules.IDs())
		return
	}
	repo := os.Getenv("VERIF_REPO")
	if repo == "" {
		repo = "/repo"
	}
	root := os.Getenv("VERIF_ROOT")
	if root == "" {
		root = "/verif"
	}
	if *tier == "" {
		*tier = os.Getenv("VERIF_TIER")
	}
	if *tier != "thorough" {
		*tier = "quick"
	}
	seed, _ := strconv.Atoi(os.Getenv("VERIF_SEED"))

	if *property == "ALL" {
		// developer mode (self-test of neutral patches): one load of the program, every property's rules in turn, each with
		// its own report and evidence file under root; exit 1 if any property fails. Registered commands never use it.
		p, err := prog.Load(repo, "")
		if err != nil {
			fmt.Println("VIOLATION property=ALL replay=- load error:", err)
			os.Exit(1)
		}
		code := 0
		for _, id := range rules.IDs() {
			if c := runLoaded(p, root, id, *tier, seed); c != 0 {
				code = 1
			}
		}
		os.Exit(code)
	}
	if *property != "" {
		os.Exit(runProperty(repo, root, *property, *tier, seed, *replay))
	}

	p, err := prog.Load(repo, "")
	if err != nil {
		fmt.Println("load error:", err)
		os.Exit(1)
	}
	if *explore {
		rules.ExploreShared(p)
		rules.ExploreUnexaminedErrors(p)
		return
	}
	if *dumpAnchors {
		b, _ := json.MarshalIndent(p.Fingerprints(), "", " ")
		fmt.Println(string(b))
		return
	}
	if *list != "" {
		for _, fn := range p.ModFns {
			if strings.Contains(prog.Name(fn), *list) {
				fmt.Println(prog.Name(fn))
			}
		}
	}
	if *dump != "" {
		fn := p.Func(*dump)
		if fn == nil {
			fmt.Println("no such function")
			os.Exit(1)
		}
		w := walk.New(p, fn)
		n := 0
		w.Run(func(pa *walk.Path) {
			n++
			fmt.Printf("--- path %d exit=%s at %s\n", n, pa.Exit.String(), p.InstrPos(pa.Exit))
			for _, c := range pa.Calls() {
				fmt.Printf("   call %s  [%s]\n", walk.CalleeName(c.C), pa.Key(c.DV()))
			}
			for _, a := range pa.Assumptions(pa.End()) {
				fmt.Printf("   assume %s\n", a)
			}
		})
		fmt.Printf("paths=%d pruned=%d overflow=%v\n", w.Paths, w.Pruned, w.Overflow)
	}
}

// runLoaded evaluates one property on an already loaded program (quick tier semantics; developer mode).
func runLoaded(p *prog.Program, root, id, tier string, seed int) (code int) {
	prop := rules.Registry[id]
	rep := oblig.New(id, tier, seed)
	rep.Explanation = prop.Explanation
	rep.NotDecided = prop.NotDecided
	defer func() {
		if r := recover(); r != nil {
			rep.Unknown("meta", "checker-panic", "-", fmt.Sprintf("checker panicked: %v\n%s", r, debug.Stack()))
			code = rep.Finish(root)
			if code == 0 {
				code = 1
			}
		}
	}()
	if len(p.Outside) > 2 {
		rep.Unknown("meta", "packages-outside-main", "-", fmt.Sprintf("module packages not imported by main (would escape analysis): %v", p.Outside))
	}
	prop.Run(&rules.Ctx{P: p, R: rep, Tier: tier})
	return rep.Finish(root)
}

func runProperty(repo, root, id, tier string, seed int, replay string) (code int) {
	prop := rules.Registry[id]
	if prop == nil {
		fmt.Printf("unknown property %s (registered: %v)\n", id, rules.IDs())
		return 2
	}
	rep := oblig.New(id, tier, seed)
	rep.Explanation = prop.Explanation
	rep.NotDecided = prop.NotDecided
	rep.Trusted = []string{"go/types and go/ssa (x/tools v0.29.0) model the built program", "semantics of the std/third-party callees named in the rules (hmac.Equal, http.Header.Del, crypto/rand, go-oidc Verify, alice.Chain.Then, gorilla/mux Use)", "reviewed tables in /verif/sa/rules (one construct, one reason each)"}
	rep.Assumptions = []string{"no reflection- or unsafe-driven calls in production packages", "the analysed program is package main and its dependency closure for GOOS=linux, built with the repository's toolchain"}
	defer func() {
		if r := recover(); r != nil {
			// a crash of the checker is never a pass
			rep.Unknown("meta", "checker-panic", "-", fmt.Sprintf("checker panicked: %v\n%s", r, debug.Stack()))
			code = rep.Finish(root)
			if code == 0 {
				code = 1
			}
		}
	}()
	p, err := prog.Load(repo, "")
	if err != nil {
		rep.Unknown("meta", "load", "-", "cannot load/type-check the repository: "+err.Error())
		return rep.Finish(root)
	}
	for _, rn := range p.Renames {
		rep.Notes = append(rep.Notes, "renamed anchor: "+rn)
	}
	if len(p.Outside) > 2 {
		rep.Unknown("meta", "packages-outside-main", "-", fmt.Sprintf("module packages not imported by main (would escape analysis): %v", p.Outside))
	}
	rep.Notes = append(rep.Notes, fmt.Sprintf("program: %d packages (%d production module packages), %d module functions; helper packages outside deps(main): %v", len(p.All), len(p.Mod), len(p.ModFns), p.Outside))
	prop.Run(&rules.Ctx{P: p, R: rep, Tier: tier})
	if tier == "thorough" {
		// second pass over the program as built for GOOS=windows (other build-tagged files, other branches)
		if pw, err := prog.Load(repo, "windows"); err != nil {
			rep.Unknown("meta", "load-windows", "-", "cannot load/type-check the repository for GOOS=windows: "+err.Error())
		} else {
			rep.Notes = append(rep.Notes, fmt.Sprintf("thorough: rules re-evaluated on the GOOS=windows program (%d module functions)", len(pw.ModFns)))
			prop.Run(&rules.Ctx{P: pw, R: rep, Tier: tier})
		}
	}
	if replay != "" {
		return rep.Replay(root, replay)
	}
	return rep.Finish(root)
}
