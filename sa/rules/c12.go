package rules

import (
	"go/token"
	"go/types"
	"sort"
	"strings"

	"golang.org/x/tools/go/ssa"

	"oapsa/internal/prog"
	"oapsa/internal/walk"
)

func init() {
	register(&Prop{
		ID:          "C12",
		Explanation: "Decides the shape of the refresh protocol (not its schedules): the provider refresh function value is called only in refreshSession, which is called only from refreshSessionIfNeeded; that call site is reached only on paths where ObtainLock returned nil, then SessionStore.Load returned a non-nil session without error, the request's session object was overwritten from it, and a needsRefresh evaluated after the overwrite was true; on every path on which the lock was obtained the deferred function that releases it has been registered, and that function calls ReleaseLock on every path with a non-nil session; once the first needsRefresh is true the function returns nil only because the post-reload needsRefresh was false, or returns validateSession's verdict evaluated after the refresh attempt; validateSession returns nil only if the session is not expired and the provider validator accepted it; getValidatedSession returns a nil session with every error and the loader calls store.Clear for every error other than ErrNoCookie; Manager.Save mints a new ticket only when the request's ticket could not be decoded and otherwise saves under the request's ticket; the redis lock maps redislock's sentinels to the session-lock sentinels the middleware's retry loop tests. Added during the build: Manager.Clear expires the cookie on every path (R8, shared with C11.R2); every provider redeemRefreshToken stores access token, issue time, expiry and — when the response carries one — the refresh token on every success path (R9). Round 3: Age() is Clock.Now() (truncated by at most one second) minus *CreatedAt, unrounded, and needsRefresh is Age() > period (R10); the token-validation helper answers true only for status 200 (R11). Round 4: the cookie store's Save expires every presented session cookie it did not overwrite, so a refreshed session supersedes what the browser holds (R12, shared with C10.R4); every Provider.ValidateSession answers true only as, or after, a true verdict of validateToken or of the ValidateSession it embeds, or after an error-free ID-token verification (R13). needsRefresh may be folded into its caller: the staleness test is then recognised as the comparison Age() > refreshPeriod itself. Round 5: the stored-session loader's refresh and validation callbacks are the provider's own method values and the loader keeps them as given (R14). Round 6: a delegating RefreshSession never answers (false, nil) after its delegate answered true (R15). Round 7: request handling keeps no state of its own between requests — no store, map update, in-place builtin, atomic/sync.Map write or pointer-receiver library call (singleflight, caches) reached from ServeHTTP targets a package-level variable, an object built at start-up, or a constructor variable captured by the handler it returned, declared in the packages implementing this property (RS; a class-wide who-may-write rule with zero instances today: a correct memoisation would be reported until reviewed). Under R9: a refresh that adopts the new ID token adopts its identity claims with it (generic OIDC path). Round 8: a RefreshSession override hands its delegate the caller's own session object, not a scratch copy (R16). Round 8 (class-wide, P12): in the packages implementing this property every named error result that is used at all is examined — compared with nil, returned, stored or handed to a non-formatting function — unless the code validates the value result instead (RE; zero instances today). Round 8/9: for a provider without refresh support the re-stamped session is saved only after re-validation (R17: KNOWN FINDING on the unchanged tree, defect 17); the go-oidc configuration behind ValidateSession never disables the expiry check (R18, shared with C04.R2).",
		NotDecided:  "'exactly one refresh' under interleavings, lock expiry versus identity-provider latency, token rotation at the provider: schedules and histories are not explored.",
		Run:         runC12,
	})
}

// c12Anchors resolves the anchors of the refresh protocol rules.
type c12Anchors struct {
	rin, rs, vs, needs, obtain, release, isExpired, ageFn *ssa.Function
	refresherF, validatorF, periodF                       *types.Var
	loadM, clearM                                         *types.Func
}

func (c *Ctx) c12Anchors(rule string) *c12Anchors {
	a := &c12Anchors{
		rin:        c.Fn(rule, "(*pkg/middleware.storedSessionLoader).refreshSessionIfNeeded"),
		rs:         c.Fn(rule, "(*pkg/middleware.storedSessionLoader).refreshSession"),
		vs:         c.Fn(rule, "(*pkg/middleware.storedSessionLoader).validateSession"),
		ageFn:      c.Fn(rule, "(*pkg/apis/sessions.SessionState).Age"),
		periodF:    c.Field(rule, "pkg/middleware.storedSessionLoader.refreshPeriod"),
		refresherF: c.Field(rule, "pkg/middleware.storedSessionLoader.sessionRefresher"),
		validatorF: c.Field(rule, "pkg/middleware.storedSessionLoader.sessionValidator"),
		obtain:     c.Fn(rule, "(*pkg/apis/sessions.SessionState).ObtainLock"),
		release:    c.Fn(rule, "(*pkg/apis/sessions.SessionState).ReleaseLock"),
		isExpired:  c.Fn(rule, "(*pkg/apis/sessions.SessionState).IsExpired"),
		loadM:      c.Method(rule, "pkg/apis/sessions.SessionStore.Load"),
		clearM:     c.Method(rule, "pkg/apis/sessions.SessionStore.Clear"),
	}
	// needsRefresh is optional: where it was folded into its caller, the staleness test is recognised as the
	// comparison session.Age() > refreshPeriod itself (see needsEvents)
	if c.P.Func("pkg/middleware.needsRefresh") != nil {
		a.needs = c.Fn(rule, "pkg/middleware.needsRefresh")
	}
	if a.ageFn == nil || a.periodF == nil {
		return nil
	}
	if a.rin == nil || a.rs == nil || a.vs == nil || a.refresherF == nil || a.validatorF == nil || a.obtain == nil || a.release == nil || a.isExpired == nil || a.loadM == nil || a.clearM == nil {
		return nil
	}
	return a
}

// needEv is one evaluation of "does this session need a refresh" on a path.
type needEv struct {
	Idx         int
	True, Known bool
}

// needsEvents lists the staleness tests applied to sess before step at: calls of needsRefresh where that helper
// exists, otherwise the comparisons session.Age() > s.refreshPeriod (and a false s.refreshPeriod > 0, which
// answers "no" without looking at the age).
func (a *c12Anchors) needsEvents(p *walk.Path, at int, sess ssa.Value) []needEv {
	var out []needEv
	if a.needs != nil {
		for _, k := range p.Find(walk.Static(a.needs), at) {
			if p.Resolve(p.Arg(k, 1)).V != sess {
				continue
			}
			b, known := p.ResultTruth(k.DV(), -1, at)
			out = append(out, needEv{k.Idx, b, known})
		}
		return out
	}
	isPeriod := func(dv walk.DV) bool { return walk.IsFieldLoad(p.Resolve(dv).V, a.periodF) }
	for _, at0 := range p.Atoms(at) {
		b, ok := at0.DV.V.(*ssa.BinOp)
		if !ok || at0.IsNil {
			continue
		}
		zeroR, zeroL := false, false
		if k, ok := ConstInt(p.Resolve(p.Op(b.Y, at0.DV)).V); ok && k == 0 {
			zeroR = true
		}
		if k, ok := ConstInt(p.Resolve(p.Op(b.X, at0.DV)).V); ok && k == 0 {
			zeroL = true
		}
		disabled := false
		switch {
		case b.Op == token.GTR && zeroR && isPeriod(p.Op(b.X, at0.DV)): // period > 0
			disabled = !at0.Val
		case b.Op == token.LSS && zeroL && isPeriod(p.Op(b.Y, at0.DV)): // 0 < period
			disabled = !at0.Val
		case b.Op == token.LEQ && zeroR && isPeriod(p.Op(b.X, at0.DV)): // period <= 0
			disabled = at0.Val
		}
		if disabled {
			out = append(out, needEv{at0.Step, false, true})
		}
	}
	for _, k := range p.Find(walk.Static(a.ageFn), at) {
		if p.Resolve(p.Arg(k, 0)).V != sess {
			continue
		}
		kv, _ := k.In.(ssa.Value)
		compared := false
		if kv != nil && kv.Referrers() != nil {
			for _, r := range *kv.Referrers() {
				if b, ok := r.(*ssa.BinOp); ok && (b.Op == token.GTR || b.Op == token.LSS || b.Op == token.LEQ || b.Op == token.GEQ) {
					compared = true
				}
			}
		}
		if !compared {
			continue // e.g. the age printed in a log line
		}
		ev := needEv{Idx: k.Idx}
		for i := k.Idx + 1; i < at && i < len(p.Steps); i++ {
			st := p.Steps[i]
			b, ok := st.In.(*ssa.BinOp)
			if !ok || st.F != k.Step.F || st.I != k.Step.I {
				continue
			}
			dv := walk.DV{V: b, I: st.I, F: st.F}
			switch {
			case b.Op == token.GTR && b.X == kv && isPeriod(p.Op(b.Y, dv)): // Age() > period
				ev.True, ev.Known = p.Truth(dv, at)
			case b.Op == token.LSS && b.Y == kv && isPeriod(p.Op(b.X, dv)): // period < Age()
				ev.True, ev.Known = p.Truth(dv, at)
			case b.Op == token.LEQ && b.X == kv && isPeriod(p.Op(b.Y, dv)): // Age() <= period
				t, k := p.Truth(dv, at)
				ev.True, ev.Known = !t, k
			}
		}
		out = append(out, ev)
	}
	sort.Slice(out, func(i, j int) bool { return out[i].Idx < out[j].Idx })
	return out
}

func runC12(c *Ctx) {
	c.R.Rule("RE-errors-examined", "in the packages implementing this property every named error result that is used at all is examined, or the value is validated instead (P12, class-wide, round 8)", 1)
	runErrorsExamined(c, "RE-errors-examined", "pkg/middleware", "pkg/sessions/redis")
	c.R.Rule("RS-no-request-time-state", "request handling writes no state that outlives the request (package-level variables, objects built at start-up, constructor variables captured by handlers) declared in the packages implementing this property", 1)
	runStateless(c, "RS-no-request-time-state", "pkg/middleware.storedSessionLoader", "providers", "pkg/sessions")
	r := c.R
	r.Rule("R1-single-refresh-site", "sessionRefresher is called only in refreshSession, called only from refreshSessionIfNeeded", 3)
	r.Rule("R2-protocol-order", "refreshSession reached only after lock obtained -> reload ok -> session overwritten -> second needsRefresh true", 1)
	r.Rule("R3-release-on-all-exits", "lock-obtained paths have the releasing defer registered; the deferred function releases", 3)
	r.Rule("R4-stale-path-result", "after a true first needsRefresh: nil only via fresh-enough reload or validateSession's verdict; validateSession nil => !IsExpired && validator true", 4)
	r.Rule("R5-loader-clears", "getValidatedSession returns nil session with every error; loader clears the store session for errors other than ErrNoCookie", 3)
	r.Rule("R6-ticket-reuse", "Manager.Save mints a new ticket only when the request ticket cannot be decoded", 2)
	r.Rule("R8-clear-expires-cookie", "Manager.Clear, which ends an unrefreshable session, expires the cookie on every path even when the store delete fails (shared with C11.R2)", 9)
	r.Rule("R16-delegate-refreshes-own-session", "a RefreshSession override hands its delegate the caller's own session object, not a scratch copy whose fields are copied back selectively (round 8)", 3)
	runRefreshOverrideOwnSession(c, "R16-delegate-refreshes-own-session")
	r.Rule("R17-timer-reset-needs-validation", "for a provider without refresh support the re-stamped session is saved only after the provider re-validated it (KNOWN FINDING on the unchanged tree: defect 17, DESIGN 7)", 1)
	runTimerResetNeedsValidation(c, "R17-timer-reset-needs-validation")
	r.Rule("R18-verifier-checks-expiry", "the go-oidc configuration behind ValidateSession never disables the expiry or signature check and skips the issuer check only by the operator's option: a stale session whose refresh failed is not re-validated by an expired ID token (shared with C04.R2, round 9)", 1)
	runOIDCConfigRule(c, "R18-verifier-checks-expiry")
	r.Rule("R9-refresh-adopts-tokens", "every provider redeemRefreshToken stores access token, issue time, expiry and (when the response carries one) the refresh token on every success path", 3)
	r.Rule("R10-age-exact", "Age() = Clock.Now() (truncated by at most 1s) - *CreatedAt, unrounded; needsRefresh = Age() > period", 2)
	r.Rule("R11-validation-needs-200", "the token-validation helper behind ValidateSession answers true only for status 200 of an error-free request with a non-empty token (shared with C14.R7)", 1)
	r.Rule("R12-saved-session-supersedes", "a re-saved (refreshed) cookie session replaces what the browser holds: Save expires every presented session cookie it did not overwrite (shared with C10.R4)", 3)
	r.Rule("R13-validator-asks-provider", "every Provider.ValidateSession answers true only after validateToken or the embedded ValidateSession answered true, or the ID-token verifier returned no error", 10)
	r.Rule("R14-loader-wired-to-provider", "the stored-session loader's refresh and validation callbacks are the provider's own RefreshSession and ValidateSession method values, and the loader keeps them as given", 4)
	r.Rule("R15-refreshed-verdict-kept", "a provider RefreshSession that delegates never answers (false, no error) after its delegate answered true: the loader persists the new tokens only on true", 3)
	r.Rule("R7-lock-sentinels", "redis lock maps redislock sentinels to the session-lock sentinels the retry loop tests", 6)

	rule := "R1-single-refresh-site"
	a := c.c12Anchors(rule)
	if a == nil {
		return
	}
	rin, rs, release := a.rin, a.rs, a.release
	refresherF := a.refresherF
	obtain := a.obtain
	for _, ref := range c.fieldRefs(refresherF) {
		key := ref.Kind + "|" + fnKey(ref.Fn)
		switch {
		case ref.Kind == "store":
			c.ok(rule, key, ref.In, "constructor wiring")
		case ref.Kind == "load" && ref.Fn == rs:
			c.ok(rule, key, ref.In, "the one place the provider refresh is invoked")
		default:
			c.bad(rule, key, ref.In, "the provider refresh function is reachable outside refreshSession: a refresh that is not under the session lock protocol", nil, 0)
		}
	}
	for _, cs := range c.callersOf(rs) {
		key := "caller|" + fnKey(cs.Parent())
		if cs.Parent() == rin {
			c.ok(rule, key, cs, "called under the lock protocol (R2)")
		} else {
			c.bad(rule, key, cs, "refreshSession is called outside refreshSessionIfNeeded", nil, 0)
		}
	}
	for _, u := range c.funcValueUses(rs) {
		c.bad(rule, "value-use|"+fnKey(u.Parent()), u, "refreshSession escapes as a function value", nil, 0)
	}

	c.checkRefreshProtocol("R2-protocol-order", a)

	// ---- R3 ---------------------------------------------------------------------------------
	rule = "R3-release-on-all-exits"
	var releasers []*ssa.Function
	for _, an := range rin.AnonFuncs {
		for _, cs := range c.callersOf(release) {
			if cs.Parent() == an {
				releasers = append(releasers, an)
			}
		}
	}
	c.Walk(rule, rin, func(p *walk.Path) {
		if _, ok := p.Exit.(*ssa.Return); !ok {
			return
		}
		at := p.End()
		ob, ok := Has(p, at, Need{M: walk.Static(obtain), Idx: -1, Out: ErrNil})
		if !ok {
			return // lock never obtained on this path
		}
		key := "defer-registered|" + fnKey(rin)
		registered := false
		for i, s := range p.Steps {
			if d, ok := s.In.(*ssa.Defer); ok && i > ob.Idx {
				for _, rel := range releasers {
					if mc, ok := d.Call.Value.(*ssa.MakeClosure); ok && mc.Fn == rel {
						registered = true
					}
					if fn, ok := d.Call.Value.(*ssa.Function); ok && fn == rel {
						registered = true
					}
				}
				if d.Call.StaticCallee() == release {
					registered = true
				}
			}
		}
		ran := false
		for _, s := range p.Steps {
			if _, ok := s.In.(*ssa.RunDefers); ok {
				ran = true
			}
		}
		if registered && ran {
			c.ok(rule, key, p.Exit, "lock obtained => releasing defer registered before this exit")
		} else {
			c.bad(rule, key, p.Exit, "the function can return with the session lock held: no releasing defer was registered on this path", p, at)
		}
	})
	for _, rel := range releasers {
		rel := rel
		c.Walk(rule, rel, func(p *walk.Path) {
			if _, ok := p.Exit.(*ssa.Return); !ok {
				return
			}
			key := "deferred-releases|" + fnKey(rel)
			if _, ok := Has(p, p.End(), Need{M: walk.Static(release), Out: Called}); ok {
				c.ok(rule, key, p.Exit, "ReleaseLock called")
				return
			}
			// allowed only when the session is nil
			nilSession := false
			for _, a := range p.Atoms(p.End()) {
				if a.IsNil && a.Val {
					nilSession = true
				}
			}
			if nilSession {
				c.ok(rule, key+"|nil-session", p.Exit, "nothing to release: session is nil")
			} else {
				c.bad(rule, key, p.Exit, "the deferred function returns without releasing the lock", p, p.End())
			}
		})
	}
	if len(releasers) == 0 {
		c.bad(rule, "deferred-releases|none", rin.Blocks[0].Instrs[0], "refreshSessionIfNeeded has no deferred function that calls ReleaseLock", nil, 0)
	}

	c.checkStaleResult("R4-stale-path-result", a)

	c.checkLoaderClears("R5-loader-clears", a)
	runManagerClearRule(c, "R8-clear-expires-cookie")
	runC12R9(c, "R9-refresh-adopts-tokens")
	runC12R10(c, "R10-age-exact")
	runC14R7(c, "R11-validation-needs-200")
	runC10R4(c, "R12-saved-session-supersedes")
	runValidatorAsksProvider(c, "R13-validator-asks-provider")
	runC12R14(c, "R14-loader-wired-to-provider")
	runC12R15(c, "R15-refreshed-verdict-kept")

	runTicketReuseRule(c, "R6-ticket-reuse")

	// ---- R7 ---------------------------------------------------------------------------------
	runLockSentinelRule(c, "R7-lock-sentinels")
}

// checkRefreshProtocol (C12.R2, also C13): the provider refresh is reached only after lock -> reload -> overwrite -> re-check.
func (c *Ctx) checkRefreshProtocol(rule string, a *c12Anchors) {
	rin, rs, obtain, loadM := a.rin, a.rs, a.obtain, a.loadM
	sessP := rin.Params[3]
	// ---- R2 ---------------------------------------------------------------------------------
	sites := 0
	c.Walk(rule, rin, func(p *walk.Path) {
		for _, rc := range p.Find(walk.Static(rs), p.End()) {
			sites++
			at := rc.Idx
			key := "refresh-under-protocol|" + fnKey(rin)
			fail := func(why string) { c.bad(rule, key, rc.In, why, p, at) }
			if p.Resolve(p.Arg(rc, 3)).V != sessP {
				fail("refreshSession is not called on the request's session object")
				continue
			}
			ob, ok := Has(p, at, Need{M: walk.Static(obtain), Idx: -1, Out: ErrNil, Where: func(p *walk.Path, k walk.Call) bool {
				return p.Resolve(p.Arg(k, 0)).V == sessP
			}})
			if !ok {
				fail("the provider refresh is reachable on a path where session.ObtainLock did not return nil")
				continue
			}
			ld, ok := Has(p, at, Need{M: walk.Invoke(c.P, loadM), Idx: 1, Out: ErrNil, Where: func(p *walk.Path, k walk.Call) bool { return k.Idx > ob.Idx }})
			if !ok {
				fail("the provider refresh is reachable without a successful reload of the session under the lock")
				continue
			}
			if n, k := p.ResultNil(ld.DV(), 0, at); !(k && !n) {
				fail("the reloaded session is not known to be non-nil")
				continue
			}
			// *session = *fresh
			overwrite := -1
			for i, s := range p.Steps {
				if i <= ld.Idx || i >= at {
					continue
				}
				st, ok := s.In.(*ssa.Store)
				if !ok || p.Resolve(p.StepOp(st.Addr, s)).V != sessP {
					continue
				}
				if u, ok := st.Val.(*ssa.UnOp); ok && u.Op == token.MUL && ResultIs(p, p.StepOp(u.X, s), ld, 0) {
					overwrite = i
				}
			}
			if overwrite < 0 {
				fail("the request's session object is not overwritten with the reloaded session before the refresh")
				continue
			}
			retested := false
			for _, ev := range a.needsEvents(p, at, sessP) {
				if ev.Idx > overwrite && ev.Known && ev.True {
					retested = true
				}
			}
			if !retested {
				fail("needsRefresh is not re-evaluated as true on the reloaded session before the refresh (a peer's refresh would be repeated)")
				continue
			}
			c.ok(rule, key, rc.In, "ObtainLock nil -> store.Load ok, non-nil -> *session = *fresh -> needsRefresh(session)==true")
		}
	})
	if sites == 0 {
		c.R.Unknown(rule, "refresh-under-protocol|none", c.P.Pos(rin.Pos()), "refreshSessionIfNeeded never calls refreshSession")
	}

}

// checkStaleResult (C12.R4, also C14.R2): a stale session is accepted only via validateSession's verdict.
func (c *Ctx) checkStaleResult(rule string, a *c12Anchors) {
	rin, rs, vs, isExpired, validatorF := a.rin, a.rs, a.vs, a.isExpired, a.validatorF
	sessP := rin.Params[3]
	// ---- R4 ---------------------------------------------------------------------------------
	c.Walk(rule, rin, func(p *walk.Path) {
		if _, ok := p.Exit.(*ssa.Return); !ok {
			return
		}
		at := p.End()
		ret, _ := p.ReturnDV(0)
		nr := a.needsEvents(p, at, sessP)
		if len(nr) == 0 {
			c.bad(rule, "first-check|"+fnKey(rin), p.Exit, "refreshSessionIfNeeded returns without evaluating needsRefresh", p, at)
			return
		}
		if nr[0].Known && !nr[0].True {
			return // fresh enough: nothing to do
		}
		if definitelyNonNil(p, ret, at) {
			return // failure: treated as unauthenticated by the caller (R5)
		}
		key := "stale-result|" + fnKey(rin)
		if len(nr) >= 2 {
			if last := nr[len(nr)-1]; last.Known && !last.True && DefinitelyNil(p, ret, at) {
				c.ok(rule, key+"|peer-refreshed", p.Exit, "reloaded session no longer needs a refresh")
				return
			}
		}
		vc, ok := extractOfCall(p, ret, 0)
		if ok && vc.C.StaticCallee() == vs && p.Resolve(p.Arg(vc, 2)).V == sessP {
			if rcs := p.Find(walk.Static(rs), vc.Idx); len(rcs) > 0 {
				c.ok(rule, key+"|validated", p.Exit, "returns validateSession(session) evaluated after the refresh attempt")
				return
			}
		}
		c.bad(rule, key, p.Exit, "a stale session can be accepted without having been refreshed or re-validated: the result is neither a definite error, nor nil-after-fresh-reload, nor validateSession's verdict after the refresh attempt", p, at)
	})
	vsess := vs.Params[2]
	c.Walk(rule, vs, func(p *walk.Path) {
		ret, ok := p.ReturnDV(0)
		if !ok || !DefinitelyNil(p, ret, p.End()) {
			return
		}
		key := "validate-nil|" + fnKey(vs)
		_, ok1 := Has(p, p.End(), Need{M: walk.Static(isExpired), Idx: -1, Out: IsFalse, Where: func(p *walk.Path, k walk.Call) bool {
			return p.Resolve(p.Arg(k, 0)).V == vsess
		}})
		_, ok2 := Has(p, p.End(), Need{M: walk.ThroughField(validatorF), Idx: -1, Out: IsTrue, Where: func(p *walk.Path, k walk.Call) bool {
			return p.Resolve(p.Arg(k, 1)).V == vsess
		}})
		if ok1 && ok2 {
			c.ok(rule, key, p.Exit, "!session.IsExpired() && sessionValidator(ctx, session)")
		} else {
			c.bad(rule, key, p.Exit, sprintf("validateSession accepts a session without both checks (not-expired:%v provider-validation:%v)", ok1, ok2), p, p.End())
		}
	})
	for _, ref := range c.fieldRefs(validatorF) {
		if ref.Kind == "load" && ref.Fn != vs {
			c.bad(rule, "validator-caller|"+fnKey(ref.Fn), ref.In, "the provider validator is invoked outside validateSession (bypassing the expiry check)", nil, 0)
		} else if ref.Kind == "load" {
			c.ok(rule, "validator-caller|"+fnKey(ref.Fn), ref.In, "only validateSession invokes the provider validator")
		}
	}

}

// checkLoaderClears (C12.R5, also C13): errors mean no session and a cleared store session.
func (c *Ctx) checkLoaderClears(rule string, a *c12Anchors) {
	clearM := a.clearM
	// ---- R5 ---------------------------------------------------------------------------------
	gvs := c.Fn(rule, "(*pkg/middleware.storedSessionLoader).getValidatedSession")
	loader := c.Fn(rule, "(*pkg/middleware.storedSessionLoader).loadSession$1")
	if gvs != nil && loader != nil {
		c.Walk(rule, gvs, func(p *walk.Path) {
			ev, ok := p.ReturnDV(1)
			if !ok || DefinitelyNil(p, ev, p.End()) {
				return
			}
			sv, _ := p.ReturnDV(0)
			key := "error-means-no-session|" + fnKey(gvs)
			if DefinitelyNil(p, sv, p.End()) {
				c.ok(rule, key, p.Exit, "nil session with every possibly non-nil error")
			} else {
				c.bad(rule, key, p.Exit, "getValidatedSession can return a session together with an error", p, p.End())
			}
		})
		c.Walk(rule, loader, func(p *walk.Path) {
			if _, ok := p.Exit.(*ssa.Return); !ok {
				return
			}
			at := p.End()
			g, ok := Has(p, at, Need{M: walk.Static(gvs), Out: Called})
			if !ok {
				return
			}
			if n, k := p.ResultNil(g.DV(), 1, at); !(k && !n) {
				return
			}
			noCookie := false
			for _, a := range p.Atoms(at) {
				if call, ok := a.DV.V.(*ssa.Call); ok && !a.IsNil && a.Val && isStd(&call.Call, "errors", "Is") && globalLoad(call.Call.Args[1]) == "net/http.ErrNoCookie" {
					noCookie = true
				}
				if b, ok := a.DV.V.(*ssa.BinOp); ok && !a.IsNil && a.Val && b.Op == token.EQL {
					if globalLoad(b.X) == "net/http.ErrNoCookie" || globalLoad(b.Y) == "net/http.ErrNoCookie" {
						noCookie = true
					}
				}
			}
			key := "clears-on-error|" + fnKey(loader)
			if noCookie {
				c.ok(rule, key+"|no-cookie", p.Exit, "no cookie: nothing to clear")
				return
			}
			if _, ok := Has(p, at, Need{M: walk.Invoke(c.P, clearM), Out: Called}); ok {
				c.ok(rule, key, p.Exit, "store.Clear(rw, req) is called when loading/refreshing/validating failed")
			} else {
				c.bad(rule, key, p.Exit, "a session that failed to load, refresh or validate is not cleared", p, at)
			}
		})
	}

}

// runC12R9: a successful provider refresh adopts everything the token response carried: the access
// token, the refresh token when the response has one (rotation), a fresh issue time and the expiry.
func runC12R9(c *Ctx, rule string) {
	sessT := c.P.Named("pkg/apis/sessions.SessionState")
	if sessT == nil {
		c.R.Unknown(rule, "anchor:SessionState", "-", "type not found")
		return
	}
	n := 0
	for _, fn := range c.P.ModFns {
		if fn.Name() != "redeemRefreshToken" || prog.Short(prog.FnPkg(fn).Path()) != "providers" || len(fn.Params) < 3 {
			continue
		}
		sp := fn.Params[2]
		if pt, ok := sp.Type().(*types.Pointer); !ok || !types.Identical(pt.Elem(), sessT) {
			continue
		}
		n++
		// does the function read a refresh token from anything but the session it refreshes?
		readsNew := false
		for _, b := range fn.Blocks {
			for _, in := range b.Instrs {
				var x ssa.Value
				var f *types.Var
				switch v := in.(type) {
				case *ssa.FieldAddr:
					x, f = v.X, walk.FieldOf(v.X.Type(), v.Field)
				case *ssa.Field:
					x, f = v.X, walk.FieldOf(v.X.Type(), v.Field)
				}
				if f == nil || f.Name() != "RefreshToken" || x == ssa.Value(sp) {
					continue
				}
				// a composite literal being filled (oauth2.Token{RefreshToken: s.RefreshToken}) is a write, not a read
				isWrite := false
				if fa, ok := in.(*ssa.FieldAddr); ok {
					for _, ref := range *fa.Referrers() {
						if st, ok := ref.(*ssa.Store); ok && st.Addr == ssa.Value(fa) {
							isWrite = true
						}
					}
				}
				if !isWrite {
					readsNew = true
				}
			}
		}
		fn := fn
		// identity fields this function takes over from the refreshed ID token on SOME path ...
		identity := map[string]bool{}
		idFields := map[string]bool{"Email": true, "User": true, "Groups": true, "PreferredUsername": true}
		type pathStores struct {
			stored map[string]bool
			exit   ssa.Instruction
		}
		var withToken []pathStores
		defer func() {
			// ... must be taken over on EVERY success path that adopts the new ID token: the session's identity is the
			// identity of the token it holds. A claim the refreshed token lacks (the user left every group) is not
			// "keep the old value" (round 7).
			// scope: the generic OIDC path (the function builds the new session with createSession from the verified
			// token). The legacy Azure provider merges claims best-effort from either token and keeps Graph groups by
			// design; it is listed as an unclaimed site under C04.
			usesCreateSession := false
			for _, b := range fn.Blocks {
				for _, in := range b.Instrs {
					if call, ok := in.(*ssa.Call); ok {
						if sc := call.Call.StaticCallee(); sc != nil && sc.Name() == "createSession" {
							usesCreateSession = true
						}
					}
				}
			}
			if len(identity) == 0 || !usesCreateSession {
				return
			}
			var all []string
			for f := range identity {
				all = append(all, f)
			}
			sort.Strings(all)
			key := "adopts-identity|" + fnKey(fn)
			bad := false
			for _, ps := range withToken {
				var missing []string
				for _, f := range all {
					if !ps.stored[f] {
						missing = append(missing, f)
					}
				}
				if len(missing) > 0 && !bad {
					bad = true
					c.R.Bad(rule, key, c.pos(ps.exit), "a successful refresh can adopt the new ID token without taking over "+strings.Join(missing, ", ")+" from it: the session keeps the identity of the OLD token (groups the user has since lost keep authorising, and keep being sent upstream)", nil, nil)
				}
			}
			if !bad {
				c.R.OK(rule, key, c.P.Pos(fn.Pos()), "every success path that stores the new ID token also stores "+strings.Join(all, ", "))
			}
		}()
		c.Walk(rule, fn, func(p *walk.Path) {
			ret, ok := p.ReturnDV(0)
			if !ok || !DefinitelyNil(p, ret, p.End()) {
				return
			}
			stored := map[string]bool{}
			defer func() {
				for f := range stored {
					if idFields[f] {
						identity[f] = true
					}
				}
				if stored["IDToken"] {
					withToken = append(withToken, pathStores{stored, p.Exit})
				}
			}()
			for _, s := range p.Steps {
				switch v := s.In.(type) {
				case *ssa.Store:
					if fa, ok := p.Resolve(p.StepOp(v.Addr, s)).V.(*ssa.FieldAddr); ok && p.Resolve(p.StepOp(fa.X, s)).V == ssa.Value(sp) {
						stored[walk.FieldOf(fa.X.Type(), fa.Field).Name()] = true
					}
				case *ssa.Call:
					if sc := v.Call.StaticCallee(); sc != nil && len(v.Call.Args) > 0 && p.Resolve(p.StepOp(v.Call.Args[0], s)).V == ssa.Value(sp) {
						switch sc.Name() {
						case "CreatedAtNow":
							stored["CreatedAt"] = true
						case "SetExpiresOn", "ExpiresIn":
							stored["ExpiresOn"] = true
						}
					}
				}
			}
			need := []string{"AccessToken", "CreatedAt", "ExpiresOn"}
			if readsNew {
				need = append(need, "RefreshToken")
			}
			var missing []string
			for _, f := range need {
				if !stored[f] {
					missing = append(missing, f)
				}
			}
			key := "adopts|" + fnKey(fn)
			if len(missing) == 0 {
				c.ok(rule, key, p.Exit, "success path stores "+strings.Join(need, ", ")+" into the refreshed session")
			} else {
				c.bad(rule, key, p.Exit, "a successful refresh returns without storing "+strings.Join(missing, ", ")+" into the session: later requests do not carry what the identity provider just issued (a rotated refresh token is lost, the next refresh replays the spent one)", p, p.End())
			}
		})
	}
	if n == 0 {
		c.R.Unknown(rule, "adopts|none", "-", "no provider redeemRefreshToken found")
	}
}

// runTicketReuseRule: Manager.Save mints a new ticket only when the request's ticket cannot be decoded
// and otherwise saves under the request's ticket (C12.R6, also C11: a re-login overwrites the stored
// session instead of orphaning it, so sign-out deletes everything the browser ever held).
func runTicketReuseRule(c *Ctx, rule string) {
	msave := c.Fn(rule, "(*pkg/sessions/persistence.Manager).Save")
	dtfr := c.Fn(rule, "pkg/sessions/persistence.decodeTicketFromRequest")
	newTicket := c.Fn(rule, "pkg/sessions/persistence.newTicket")
	saveSession := c.Fn(rule, "(*pkg/sessions/persistence.ticket).saveSession")
	if msave != nil && dtfr != nil && newTicket != nil && saveSession != nil {
		c.Walk(rule, msave, func(p *walk.Path) {
			at := p.End()
			for _, nt := range p.Find(walk.Static(newTicket), at) {
				key := "new-ticket-only-on-decode-error|" + fnKey(msave)
				if _, ok := Has(p, nt.Idx, Need{M: walk.Static(dtfr), Idx: 1, Out: NonNil}); ok {
					c.ok(rule, key, nt.In, "newTicket only after decodeTicketFromRequest failed")
				} else {
					c.bad(rule, key, nt.In, "a new ticket is minted although the request's ticket may be valid: concurrent requests no longer share the refreshed session", p, nt.Idx)
				}
			}
			for _, sv := range p.Find(walk.Static(saveSession), at) {
				dt, ok := Has(p, sv.Idx, Need{M: walk.Static(dtfr), Idx: 1, Out: ErrNil})
				if !ok {
					continue
				}
				key := "saves-under-request-ticket|" + fnKey(msave)
				if ResultIs(p, p.Arg(sv, 0), dt, 0) {
					c.ok(rule, key, sv.In, "decodable request ticket is the one saved under")
				} else {
					c.bad(rule, key, sv.In, "the session is not saved under the request's (decodable) ticket", p, sv.Idx)
				}
			}
		})
	}

}

// runC12R10: staleness is measured exactly. SessionState.Age returns (Clock.Now(), truncated by at most
// one second) minus *CreatedAt, and that difference is not rounded or truncated afterwards; needsRefresh
// compares it with the period by '>'. Rounding the age down by a coarser unit opens a window after the
// refresh period in which a stale session is served without refresh or validation.
func runC12R10(c *Ctx, rule string) {
	age := c.Fn(rule, "(*pkg/apis/sessions.SessionState).Age")
	var needs *ssa.Function
	if c.P.Func("pkg/middleware.needsRefresh") != nil {
		needs = c.Fn(rule, "pkg/middleware.needsRefresh")
	}
	createdF := c.Field(rule, "pkg/apis/sessions.SessionState.CreatedAt")
	if age == nil || createdF == nil {
		return
	}
	c.Walk(rule, age, func(p *walk.Path) {
		rv, ok := p.ReturnDV(0)
		if !ok {
			return
		}
		r := p.Resolve(rv)
		if k, isConst := r.V.(*ssa.Const); isConst && k.Value != nil && k.Value.String() == "0" {
			return // unset CreatedAt: age 0
		}
		key := "age-exact|" + fnKey(age)
		call, ok := r.V.(*ssa.Call)
		if !ok || !isTimeMethod(&call.Call, "Sub") {
			c.bad(rule, key, p.Exit, "the session's age is not returned as the plain difference now.Sub(*CreatedAt): a rounded or truncated age lets a session older than the refresh period look younger", p, p.End())
			return
		}
		// subtrahend: *s.CreatedAt
		sub := p.Resolve(p.Op(call.Call.Args[1], r))
		okCreated := false
		if u, isLoad := sub.V.(*ssa.UnOp); isLoad && u.Op == token.MUL {
			if base, isF := walk.FieldLoadBase(p.Resolve(p.Op(u.X, sub)).V, createdF); isF && base == ssa.Value(age.Params[0]) {
				okCreated = true
			}
		}
		// minuend: Clock.Now(), optionally .Truncate(d) with constant d <= 1s
		min := p.Resolve(p.Op(call.Call.Args[0], r))
		okNow := false
		for depth := 0; depth < 3; depth++ {
			mc, isCall := min.V.(*ssa.Call)
			if !isCall {
				break
			}
			if isTimeMethod(&mc.Call, "Truncate") || isTimeMethod(&mc.Call, "Round") {
				d, isConst := ConstInt(mc.Call.Args[1])
				if !isConst || d > 1_000_000_000 {
					break
				}
				min = p.Resolve(p.Op(mc.Call.Args[0], min))
				continue
			}
			if sc := mc.Call.StaticCallee(); sc != nil && sc.Name() == "Now" {
				okNow = true
			}
			if mc.Call.IsInvoke() && mc.Call.Method.Name() == "Now" { // the injectable test clock
				okNow = true
			}
			break
		}
		if okCreated && okNow {
			c.ok(rule, key, p.Exit, "Clock.Now() (truncated by at most 1s) minus *CreatedAt")
		} else {
			c.bad(rule, key, p.Exit, sprintf("the session's age is not now-minus-CreatedAt with at most one second of truncation (from CreatedAt: %v, from Now within 1s: %v)", okCreated, okNow), p, p.End())
		}
	})
	if needs == nil {
		// the helper was folded into its caller: every staleness test there is session.Age() > s.refreshPeriod
		a := c.c12Anchors(rule)
		if a == nil {
			return
		}
		n := 0
		c.Walk(rule, a.rin, func(p *walk.Path) {
			for _, ev := range a.needsEvents(p, p.End(), a.rin.Params[3]) {
				if _, isAge := p.Steps[ev.Idx].In.(*ssa.Call); !isAge {
					continue
				}
				n++
				key := "compares-age|" + fnKey(a.rin)
				if ev.Known {
					c.ok(rule, key, p.Steps[ev.Idx].In, "session.Age() > refreshPeriod")
				} else {
					c.bad(rule, key, p.Steps[ev.Idx].In, "the session's age is consulted but the path is not decided by session.Age() > refreshPeriod", p, p.End())
				}
			}
		})
		if n == 0 {
			c.R.Unknown(rule, "compares-age|none", c.P.Pos(a.rin.Pos()), "no staleness test found in refreshSessionIfNeeded")
		}
		return
	}
	// needsRefresh: true only if period > 0 and Age() > period
	c.Walk(rule, needs, func(p *walk.Path) {
		rv, ok := p.ReturnDV(0)
		if !ok {
			return
		}
		if b, k := p.Truth(rv, p.End()); k && !b {
			return
		}
		key := "compares-age|" + fnKey(needs)
		okCmp := false
		check := func(v ssa.Value, dv walk.DV) {
			b, ok := v.(*ssa.BinOp)
			if !ok || b.Op != token.GTR {
				return
			}
			if ac, ok := p.Resolve(p.Op(b.X, dv)).V.(*ssa.Call); ok && ac.Call.StaticCallee() == age && p.Resolve(p.Op(b.Y, dv)).V == ssa.Value(needs.Params[0]) {
				okCmp = true
			}
		}
		r := p.Resolve(rv)
		check(r.V, r)
		for _, a := range p.Atoms(p.End()) {
			if !a.IsNil && a.Val {
				check(a.DV.V, a.DV)
			}
		}
		if okCmp {
			c.ok(rule, key, p.Exit, "session.Age() > refreshPeriod")
		} else {
			c.bad(rule, key, p.Exit, "needsRefresh can be true/false other than by session.Age() > refreshPeriod", p, p.End())
		}
	})
}

// runValidatorAsksProvider (C12.R13): re-validation of a stale session is an answer of the identity provider. Every
// implementation of Provider.ValidateSession (walked with helpers inlined) returns a possibly-true verdict only
// as, or after, a true verdict of validateToken / of the ValidateSession it embeds, or after an error-free
// IDTokenVerifier.Verify. A branch that answers true from local data alone (an unverified claim of the stored
// token, a configuration list) honours sessions the provider would no longer vouch for.
func runValidatorAsksProvider(c *Ctx, rule string) {
	m := c.Method(rule, "providers.Provider.ValidateSession")
	vt := c.Fn(rule, "providers.validateToken")
	if m == nil || vt == nil {
		return
	}
	impls := map[*ssa.Function]bool{}
	for _, impl := range c.P.Implementations(m) {
		if c.P.InModule(impl) && len(impl.Blocks) > 0 && impl.Synthetic == "" {
			impls[impl] = true
		}
	}
	// implementations are anchors of this rule: a delegate call is judged by its verdict, not looked into
	for impl := range impls {
		c.Fn(rule, prog.Name(impl))
	}
	asked := func(p *walk.Path, cl walk.Call, self *ssa.Function) (isAsk bool, yes bool) {
		if sc := cl.C.StaticCallee(); sc != nil {
			if sc == vt || (impls[sc] && sc != self) {
				b, k := p.ResultTruth(cl.DV(), -1, p.End())
				return true, k && b
			}
			return false, false
		}
		if cl.C.IsInvoke() && cl.C.Method.Name() == "Verify" && cl.C.Signature().Results().Len() == 2 {
			isNil, k := p.ResultNil(cl.DV(), 1, p.End())
			return true, k && isNil
		}
		return false, false
	}
	for impl := range impls {
		impl := impl
		key := "true-verdict|" + fnKey(impl)
		n, bad := 0, false
		c.Walk(rule, impl, func(p *walk.Path) {
			rv, ok := p.ReturnDV(0)
			if !ok || bad {
				return
			}
			if b, k := p.Truth(rv, p.End()); k && !b {
				return
			}
			n++
			if cl, ok := extractOfCall(p, rv, 0); ok {
				if isAsk, _ := asked(p, cl, impl); isAsk {
					return // the provider-backed verdict itself
				}
			}
			for _, cl := range p.Calls() {
				if _, yes := asked(p, cl, impl); yes {
					return
				}
			}
			bad = true
			c.bad(rule, key, p.Exit, prog.Name(impl)+" can answer true on a path where neither validateToken nor the embedded ValidateSession answered true nor the ID-token verifier accepted the stored token: a stale session whose refresh failed is honoured without the provider vouching for it", p, p.End())
		})
		if !bad {
			c.R.OK(rule, key, c.P.Pos(impl.Pos()), sprintf("%d possibly-true return(s), each a provider-backed verdict", n))
		}
	}
}

// runLockSentinelRule (C12.R7, also C11.R8): the redis lock translates redislock's sentinels into the session-lock
// sentinels, and the middleware's retry loop tests exactly the one Obtain returns for a busy lock. A request that meets
// a refresh in flight — a sign-out in particular — then waits for it instead of acting on the stale stored session.
func runLockSentinelRule(c *Ctx, rule string) {
	rin := c.Fn(rule, "(*pkg/middleware.storedSessionLoader).refreshSessionIfNeeded")
	if rin == nil {
		return
	}
	mapping := []struct{ fn, from, to string }{
		{"(*pkg/sessions/redis.Lock).Obtain", "github.com/bsm/redislock.ErrNotObtained", "pkg/apis/sessions.ErrLockNotObtained"},
		{"(*pkg/sessions/redis.Lock).Refresh", "github.com/bsm/redislock.ErrNotObtained", "pkg/apis/sessions.ErrNotLocked"},
		{"(*pkg/sessions/redis.Lock).Release", "github.com/bsm/redislock.ErrLockNotHeld", "pkg/apis/sessions.ErrNotLocked"},
	}
	for _, m := range mapping {
		fn := c.Fn(rule, m.fn)
		if fn == nil {
			continue
		}
		m := m
		mapped := false
		c.Walk(rule, fn, func(p *walk.Path) {
			ret, ok := p.ReturnDV(errResultIndex(fn.Signature))
			if !ok {
				return
			}
			at := p.End()
			var isTrue, isFalse bool
			for _, a := range p.Atoms(at) {
				if call, ok := a.DV.V.(*ssa.Call); ok && !a.IsNil && isStd(&call.Call, "errors", "Is") && globalLoad(p.Resolve(p.Op(call.Call.Args[1], a.DV)).V) == m.from { // operand resolved through an inlined translating helper
					if a.Val {
						isTrue = true
					} else {
						isFalse = true
					}
				}
			}
			g := prog.Short(globalLoad(p.Resolve(ret).V))
			key := "maps|" + fnKey(fn)
			switch {
			case isTrue && g == m.to:
				mapped = true
				c.ok(rule, key, p.Exit, m.from[strings.LastIndex(m.from, ".")+1:]+" -> "+m.to[strings.LastIndex(m.to, ".")+1:])
			case isTrue:
				c.bad(rule, key, p.Exit, "redislock's "+m.from+" is not translated to "+m.to, p, at)
			case g == m.to && !isFalse && g == "pkg/apis/sessions.ErrNotLocked":
				// returned for a lock that was never obtained (l.lock == nil)
				c.ok(rule, key+"|no-lock", p.Exit, "no lock object: ErrNotLocked")
			case g == m.to:
				c.bad(rule, key, p.Exit, m.to+" is returned for an error that is not redislock's "+m.from, p, at)
			}
		})
		if !mapped {
			c.bad(rule, "maps|"+fnKey(fn), fn.Blocks[0].Instrs[0], "no path translates "+m.from+" to "+m.to+": the middleware's retry/unlock handling never sees the sentinel it tests", nil, 0)
		}
	}
	// the retry loop tests the same sentinel
	tests := false
	for fn := range c.staticReach(rin, 2) { // the loop may live in a helper of refreshSessionIfNeeded
		if prog.Short(prog.FnPkg(fn).Path()) != "pkg/middleware" {
			continue
		}
		for _, b := range fn.Blocks {
			for _, in := range b.Instrs {
				if call, ok := in.(*ssa.Call); ok && isStd(&call.Call, "errors", "Is") && prog.Short(globalLoad(call.Call.Args[1])) == "pkg/apis/sessions.ErrLockNotObtained" {
					tests = true
				}
			}
		}
	}
	if tests {
		c.ok(rule, "retry-tests|"+fnKey(rin), rin.Blocks[0].Instrs[0], "retry loop tests errors.Is(err, sessions.ErrLockNotObtained)")
	} else {
		c.bad(rule, "retry-tests|"+fnKey(rin), rin.Blocks[0].Instrs[0], "the retry loop does not test sessions.ErrLockNotObtained", nil, 0)
	}
}

// runC12R14: R4 and R13 decide what validateSession and the provider's ValidateSession do; this rule decides that the
// two are connected. Every StoredSessionLoaderOptions literal in non-test module code stores into ValidateSession /
// RefreshSession the bound method value provider.ValidateSession / provider.RefreshSession of a providers.Provider
// (no wrapper that answers for the provider), and NewStoredSessionLoader copies the two option fields unchanged into
// the loader's sessionValidator / sessionRefresher.
func runC12R14(c *Ctx, rule string) {
	optV := c.Field(rule, "pkg/middleware.StoredSessionLoaderOptions.ValidateSession")
	optR := c.Field(rule, "pkg/middleware.StoredSessionLoaderOptions.RefreshSession")
	ldV := c.Field(rule, "pkg/middleware.storedSessionLoader.sessionValidator")
	ldR := c.Field(rule, "pkg/middleware.storedSessionLoader.sessionRefresher")
	ctor := c.Fn(rule, "pkg/middleware.NewStoredSessionLoader")
	if optV == nil || optR == nil || ldV == nil || ldR == nil || ctor == nil {
		return
	}
	boundMethod := func(v ssa.Value, want string) bool {
		mc, ok := unwrap0(v).(*ssa.MakeClosure)
		if !ok {
			return false
		}
		fn, ok := mc.Fn.(*ssa.Function)
		if !ok || !strings.HasPrefix(fn.Synthetic, "bound method wrapper") || !strings.HasPrefix(fn.Name(), want+"$bound") {
			return false
		}
		return len(mc.Bindings) == 1 && strings.HasSuffix(mc.Bindings[0].Type().String(), "providers.Provider")
	}
	for _, pair := range []struct {
		f    *types.Var
		name string
	}{{optV, "ValidateSession"}, {optR, "RefreshSession"}} {
		n := 0
		for _, ref := range c.fieldRefs(pair.f) {
			if ref.Store == nil {
				continue
			}
			n++
			key := "wired|" + pair.name + "|" + fnKey(ref.Fn)
			if boundMethod(ref.Store.Val, pair.name) {
				c.ok(rule, key, ref.In, "provider."+pair.name+" (bound method value)")
			} else {
				c.R.Bad(rule, key, c.pos(ref.In), "the stored-session loader's "+pair.name+" callback is not the provider's own method value: something in between can answer for the identity provider (a stale session accepted without the provider having been asked)", nil, nil)
			}
		}
		if n == 0 {
			c.R.Unknown(rule, "wired|"+pair.name, "-", "no StoredSessionLoaderOptions literal sets "+pair.name)
		}
	}
	for _, pair := range []struct {
		to, from *types.Var
	}{{ldV, optV}, {ldR, optR}} {
		n := 0
		for _, ref := range c.fieldRefs(pair.to) {
			if ref.Store == nil {
				continue
			}
			n++
			key := "kept|" + pair.to.Name() + "|" + fnKey(ref.Fn)
			if ref.Fn == ctor && isFieldLoadOf(ref.Store.Val, pair.from) {
				c.ok(rule, key, ref.In, "copied from the options unchanged")
			} else {
				c.R.Bad(rule, key, c.pos(ref.In), "the loader's "+pair.to.Name()+" is set from something other than the option field the caller filled", nil, nil)
			}
		}
		if n == 0 {
			c.R.Unknown(rule, "kept|"+pair.to.Name(), "-", "the loader's "+pair.to.Name()+" is never set")
		}
	}
}

// runC12R15: the converse of C09.R10. refreshSession saves the session (new tokens, new issue time) only when the
// provider answers refreshed == true. A wrapper around the OIDC refresh that loses the delegate's true — a named
// result shadowed by := — serves the refreshing request from memory and leaves the old tokens and the spent refresh
// token in the store: every later request refreshes again. For each RefreshSession implementation that calls a
// delegate: no return path has the delegate's verdict known true, the own verdict known false and an error that is
// not definitely non-nil.
func runC12R15(c *Ctx, rule string) {
	m := c.Method(rule, "providers.Provider.RefreshSession")
	if m == nil {
		return
	}
	isDeleg := func(p *walk.Path, cl walk.Call) bool {
		if sc := cl.C.StaticCallee(); sc != nil {
			return sc.Name() == "RefreshSession" && c.P.InModule(sc)
		}
		return isDelegate(p, cl, nil, nil)
	}
	n := 0
	for _, impl := range c.P.Implementations(m) {
		if !c.P.InModule(impl) || len(impl.Blocks) == 0 || impl.Synthetic != "" {
			continue
		}
		impl := impl
		delegates := false
		bad := false
		key := "verdict-kept|" + fnKey(impl)
		c.WalkShallow(rule, impl, func(p *walk.Path) {
			rv, ok := p.ReturnDV(0)
			if !ok || bad {
				return
			}
			for _, cl := range p.Calls() {
				if !isDeleg(p, cl) {
					continue
				}
				delegates = true
				if b, k := p.ResultTruth(cl.DV(), 0, p.End()); !(k && b) {
					continue
				}
				own, known := p.Truth(rv, p.End())
				ev, _ := p.ReturnDV(1)
				if known && !own && !definitelyNonNil(p, ev, p.End()) {
					bad = true
					c.bad(rule, key, p.Exit, prog.Name(impl)+" can answer (false, nil) although the refresh it delegates to answered true: the loader then neither saves the new tokens nor resets the session's age, and every later request repeats the refresh with the spent refresh token", p, p.End())
				}
			}
		})
		if delegates {
			n++
			if !bad {
				c.R.OK(rule, key, c.P.Pos(impl.Pos()), "the delegate's true verdict is never turned into (false, nil)")
			}
		}
	}
	if n == 0 {
		c.R.Unknown(rule, "verdict-kept|none", "-", "no delegating RefreshSession implementation found")
	}
}
