package rules

import (
	"go/token"
	"go/types"
	"regexp"

	"golang.org/x/tools/go/ssa"

	"oapsa/internal/prog"
	"oapsa/internal/walk"
)

func init() {
	register(&Prop{
		ID:          "C03",
		Explanation: "Decides the structure that binds a callback to the login that started it: in OAuthCallback every path that saves a session passed decodeState ok, then LoadCSRFCookie under the name derived from that state's nonce, then CheckOAuthState(that nonce)==true on that very cookie object; LoadCSRFCookie yields a CSRF only from a cookie of the requested name that decodeCSRFCookie accepted, which needs encryption.Validate ok and decrypts/unmarshals Validate's value; the hash/check/set methods each read the nonce field they are named after; the start flow sends encodeState(csrf.HashOAuthState()) and HashOIDCNonce() of the same object whose SetCookie succeeded before the redirect, and NewCSRF draws state and nonce from two separate encryption.Nonce calls; both cookie-name derivations cut the hashed state at the same constant and encodeState/decodeState agree on the field order. Added during the build: csrf.ClearCookie deletes exactly its own cookie, so completing one login leaves other outstanding logins intact (R6). The Validate -> checkSignature -> checkHmac -> hmac.Equal chain the CSRF cookie rests on is checked under R2; the session-cookie sweeps that run when a login completes spare other logins' CSRF cookies (R7). Round 4: every Redeem implementation sends the verifier of this login's CSRF cookie (R8, shared with C05.R9); LoginURLParams returns a map made for this request, never the provider's shared default map (R9). Round 6: ExtractStateSubstring returns its cut whenever the state is long enough to cut (under R5). Round 7: request handling keeps no state of its own between requests — no store, map update, in-place builtin, atomic/sync.Map write or pointer-receiver library call (singleflight, caches) reached from ServeHTTP targets a package-level variable, an object built at start-up, or a constructor variable captured by the handler it returned, declared in the packages implementing this property (RS; a class-wide who-may-write rule with zero instances today: a correct memoisation would be reported until reviewed). decodeState divides nonce:redirect at the first colon only (R10). Round 8: makeLoginURL sends the state exactly as handed in (R11, shared with C06.R11). Round 8 (class-wide, P12): in the packages implementing this property every named error result that is used at all is examined — compared with nil, returned, stored or handed to a non-formatting function — unless the code validates the value result instead (RE; zero instances today).",
		NotDecided:  "the 'succeeds' direction of the biconditional and the ordering of concurrent logins (behaviour over histories); entropy of crypto/rand (trusted).",
		Run:         runC03,
	})
}

// eqAtom looks for an assumed generic equality atom L==R (truth want) whose sides satisfy the predicates (either order).
func eqAtom(p *walk.Path, at int, want bool, isA, isB func(walk.DV) bool) bool {
	for _, a := range p.Atoms(at) {
		if a.IsNil || a.Val != want {
			continue
		}
		b, ok := a.DV.V.(*ssa.BinOp)
		if !ok || (b.Op != token.EQL && b.Op != token.NEQ) {
			continue
		}
		l, r := p.Resolve(p.Op(b.X, a.DV)), p.Resolve(p.Op(b.Y, a.DV))
		if (isA(l) && isB(r)) || (isA(r) && isB(l)) {
			return true
		}
	}
	return false
}

// fieldsRead returns which of the given fields fn loads (directly).
func fieldsRead(fn *ssa.Function, fields ...*types.Var) map[*types.Var]bool {
	out := map[*types.Var]bool{}
	for _, b := range fn.Blocks {
		for _, in := range b.Instrs {
			if fa, ok := in.(*ssa.FieldAddr); ok {
				f := walk.FieldOf(fa.X.Type(), fa.Field)
				for _, want := range fields {
					if f == want {
						out[f] = true
					}
				}
			}
		}
	}
	return out
}

func runC03(c *Ctx) {
	c.R.Rule("RE-errors-examined", "in the packages implementing this property every named error result that is used at all is examined, or the value is validated instead (P12, class-wide, round 8)", 1)
	runErrorsExamined(c, "RE-errors-examined", "main", "pkg/cookies")
	c.R.Rule("RS-no-request-time-state", "request handling writes no state that outlives the request (package-level variables, objects built at start-up, constructor variables captured by handlers) declared in the packages implementing this property", 1)
	runStateless(c, "RS-no-request-time-state", "main.OAuthProxy", "pkg/cookies")
	r := c.R
	r.Rule("R1-callback-gating", "save in OAuthCallback needs decodeState ok -> LoadCSRFCookie(name(nonce)) ok -> CheckOAuthState(nonce) on that object", 1)
	r.Rule("R2-csrf-load", "LoadCSRFCookie returns a CSRF only from a same-named cookie that decodeCSRFCookie accepted; decodeCSRFCookie needs Validate ok", 2)
	r.Rule("R3-field-agreement", "hash/check/set methods read the nonce field they are named after", 6)
	r.Rule("R4-start-side", "login URL carries encodeState(csrf.HashOAuthState()) and HashOIDCNonce() of the object whose cookie was set before the redirect; NewCSRF uses two Nonce calls", 6)
	r.Rule("R7-sweeps-spare-csrf", "the session-cookie sweeps (Clear, stale-part sweep on Save) select cookies by the name(_N)? template that rejects <name>_<hash>_csrf (shared with C11.R3/R4, C10.R4)", 10)
	r.Rule("R8-own-verifier-redeemed", "every Redeem implementation sends the verifier of this login's CSRF cookie as code_verifier, so a callback with its own state and cookie can complete under PKCE (shared with C05.R9)", 4)
	r.Rule("R10-state-split-at-first-colon", "decodeState divides nonce:redirect at the first colon only, so the login's own state decodes whatever the application redirect contains (round 7)", 1)
	runFirstColonRule(c, "R10-state-split-at-first-colon", "main.decodeState")
	r.Rule("R11-state-sent-verbatim", "makeLoginURL sends the state exactly as handed in, so the state echoed back is the one the CSRF cookie was derived from (shared with C06.R11, round 8)", 2)
	runLoginURLParamsVerbatim(c, "R11-state-sent-verbatim")
	r.Rule("R9-login-params-fresh", "LoginURLParams returns a map made for this request, never the provider's shared default map", 1)
	r.Rule("R6-clears-own-cookie-only", "csrf.ClearCookie deletes exactly its own cookie", 2)
	r.Rule("R5-name-agreement", "cookieName and ExtractStateSubstring cut the hashed state at the same constant, and the latter returns its cut whenever it made one; encodeState/decodeState agree on field order", 5)

	a := c.cbAnchors("R1-callback-gating")
	if a == nil {
		return
	}
	c.checkCallbackSave("R1-callback-gating", a, FacetState, "save-needs-state-check")
	runC03R6(c)
	// the session-cookie sweeps must not touch other logins' CSRF cookies (<name>_<hash>_csrf): they select by the
	// ^QuoteMeta(name)(_\d+)?$ template, whose probe set includes NAME_0_csrf and NAME_csrf as must-reject
	runC11R3R4(c, "R7-sweeps-spare-csrf", "R7-sweeps-spare-csrf")
	runC10R4(c, "R7-sweeps-spare-csrf")
	runC05R9(c, "R8-own-verifier-redeemed")
	runLoginParamsFresh(c, "R9-login-params-fresh")

	runC03R2Rule(c, "R2-csrf-load")

	// ---- R3 ---------------------------------------------------------------------------------
	rule := "R3-field-agreement"
	stateF := c.Field(rule, "pkg/cookies.csrf.OAuthState")
	nonceF := c.Field(rule, "pkg/cookies.csrf.OIDCNonce")
	verF := c.Field(rule, "pkg/cookies.csrf.CodeVerifier")
	if stateF != nil && nonceF != nil && verF != nil {
		want := map[string]*types.Var{
			"HashOAuthState": stateF, "CheckOAuthState": stateF,
			"HashOIDCNonce": nonceF, "CheckOIDCNonce": nonceF, "SetSessionNonce": nonceF,
			"GetCodeVerifier": verF,
		}
		for name, f := range want {
			fn := c.Fn(rule, "(*pkg/cookies.csrf)."+name)
			if fn == nil {
				continue
			}
			got := fieldsRead(fn, stateF, nonceF, verF)
			key := "reads|" + fnKey(fn)
			if len(got) == 1 && got[f] {
				c.ok(rule, key, fn.Blocks[0].Instrs[0], "reads only csrf."+f.Name())
			} else {
				names := ""
				for g := range got {
					names += " " + g.Name()
				}
				c.bad(rule, key, fn.Blocks[0].Instrs[0], name+" must read exactly csrf."+f.Name()+" but reads:"+names, nil, 0)
			}
		}
	}

	// ---- R4 ---------------------------------------------------------------------------------
	rule = "R4-start-side"
	start := c.Fn(rule, "(*main.OAuthProxy).doOAuthStart")
	newCSRF := c.Fn(rule, "pkg/cookies.NewCSRF")
	encodeState := c.Fn(rule, "main.encodeState")
	getLoginURL := c.Method(rule, "providers.Provider.GetLoginURL")
	nonceFn := c.Fn(rule, "pkg/encryption.Nonce")
	if start != nil && newCSRF != nil && encodeState != nil && getLoginURL != nil && nonceFn != nil {
		redirects := 0
		c.Walk(rule, start, func(p *walk.Path) {
			for _, rd := range p.Find(walk.Static(a.httpRedirect), p.End()) {
				redirects++
				at := rd.Idx
				key := "login-redirect|" + fnKey(start)
				gl, ok := extractOfCall(p, p.Arg(rd, 2), 0)
				if !ok || !walk.Invoke(c.P, getLoginURL)(p, gl) {
					c.bad(rule, key, rd.In, "the start redirect does not target provider.GetLoginURL(...)", p, at)
					continue
				}
				es, ok := extractOfCall(p, p.Arg(gl, 1), 0)
				if !ok || es.C.StaticCallee() != encodeState {
					c.bad(rule, key, rd.In, "the state parameter is not encodeState(...)", p, at)
					continue
				}
				hs, ok := extractOfCall(p, p.Arg(es, 0), 0)
				if !ok || !walk.Invoke(c.P, a.hashState)(p, hs) {
					c.bad(rule, key, rd.In, "the state's nonce component is not csrf.HashOAuthState()", p, at)
					continue
				}
				csrf := p.Recv(hs)
				nc, ok := extractOfCall(p, csrf, 0)
				if !ok || nc.C.StaticCallee() != newCSRF {
					c.bad(rule, key, rd.In, "the CSRF object of this login is not a fresh NewCSRF result", p, at)
					continue
				}
				if n, k := p.ResultNil(nc.DV(), 1, at); !(k && n) {
					c.bad(rule, key, rd.In, "NewCSRF's error is not known to be nil", p, at)
					continue
				}
				hn, ok := extractOfCall(p, p.Arg(gl, 2), 0)
				if !ok || !walk.Invoke(c.P, a.hashNonce)(p, hn) || !p.Same(p.Recv(hn), csrf) {
					c.bad(rule, key, rd.In, "the nonce parameter is not HashOIDCNonce() of the same CSRF object", p, at)
					continue
				}
				if _, ok := Has(p, at, Need{M: walk.Invoke(c.P, a.setCookie), Idx: 1, Out: ErrNil, Where: func(p *walk.Path, k walk.Call) bool {
					return p.Same(p.Recv(k), csrf)
				}}); !ok {
					c.bad(rule, key, rd.In, "the browser is redirected to the IdP on a path where this login's CSRF cookie was not set successfully", p, at)
					continue
				}
				c.ok(rule, key, rd.In, "GetLoginURL(_, encodeState(csrf.HashOAuthState(),..), csrf.HashOIDCNonce(), _) after csrf.SetCookie ok; csrf = NewCSRF()")
			}
		})
		if redirects == 0 {
			c.R.Unknown(rule, "login-redirect|none", c.P.Pos(start.Pos()), "doOAuthStart performs no http.Redirect")
		}
		// NewCSRF: two distinct Nonce calls feed OAuthState and OIDCNonce
		c.Walk(rule, newCSRF, func(p *walk.Path) {
			rv, ok := p.ReturnDV(0)
			if !ok || DefinitelyNil(p, rv, p.End()) {
				return
			}
			key := "fresh-nonces|" + fnKey(newCSRF)
			inner := p.Resolve(rv)
			if mi, ok := inner.V.(*ssa.MakeInterface); ok {
				inner = p.Resolve(p.Op(mi.X, inner))
			}
			al, ok := inner.V.(*ssa.Alloc)
			if !ok {
				c.bad(rule, key, p.Exit, "NewCSRF does not return a freshly allocated csrf", p, p.End())
				return
			}
			src := map[*types.Var]string{}
			for _, s := range p.Steps {
				st, ok := s.In.(*ssa.Store)
				if !ok {
					continue
				}
				fa, ok := st.Addr.(*ssa.FieldAddr)
				if !ok || fa.X != al {
					continue
				}
				f := walk.FieldOf(fa.X.Type(), fa.Field)
				if cl, ok := extractOfCall(p, p.StepOp(st.Val, s), 0); ok && cl.C.StaticCallee() == nonceFn {
					if n, k := p.ResultNil(cl.DV(), 1, p.End()); k && n {
						src[f] = p.Key(cl.DV())
					}
				}
			}
			if src[stateF] == "" || src[nonceF] == "" || src[stateF] == src[nonceF] {
				c.bad(rule, key, p.Exit, "OAuthState and OIDCNonce are not results of two distinct successful encryption.Nonce calls", p, p.End())
				return
			}
			c.ok(rule, key, p.Exit, "OAuthState and OIDCNonce come from two separate encryption.Nonce calls with nil error")
		})
		// Nonce returns crypto/rand bytes
		randRead := c.StdFunc(rule, "crypto/rand.Read")
		if randRead != nil {
			c.Walk(rule, nonceFn, func(p *walk.Path) {
				rv, ok := p.ReturnDV(0)
				if !ok || DefinitelyNil(p, rv, p.End()) {
					return
				}
				key := "rand|" + fnKey(nonceFn)
				if _, ok := Has(p, p.End(), Need{M: walk.Static(randRead), Idx: 1, Out: ErrNil, Where: func(p *walk.Path, k walk.Call) bool {
					return p.Same(p.Arg(k, 0), rv)
				}}); !ok {
					c.bad(rule, key, p.Exit, "Nonce returns a buffer that was not filled by a successful crypto/rand.Read", p, p.End())
					return
				}
				c.ok(rule, key, p.Exit, "returns the buffer crypto/rand.Read filled without error")
			})
			// and the length is the parameter
			for _, b := range nonceFn.Blocks {
				for _, in := range b.Instrs {
					if ms, ok := in.(*ssa.MakeSlice); ok {
						if ms.Len != nonceFn.Params[0] {
							c.bad(rule, "len|"+fnKey(nonceFn), in, "Nonce's buffer length is not its length parameter", nil, 0)
						} else {
							c.ok(rule, "len|"+fnKey(nonceFn), in, "buffer length is the parameter")
						}
					}
				}
			}
		}
		// the constants passed to Nonce by NewCSRF: at least 16 bytes
		for _, cs := range c.callersOf(nonceFn) {
			n, ok := ConstInt(cs.Common().Args[0])
			key := "nonce-size|" + fnKey(cs.Parent())
			if ok && n >= 16 {
				c.ok(rule, key, cs, sprintf("Nonce(%d)", n))
			} else {
				c.bad(rule, key, cs, "encryption.Nonce is called with a length below 16 bytes or a non-constant length", nil, 0)
			}
		}
	}

	// ---- R5 ---------------------------------------------------------------------------------
	rule = "R5-name-agreement"
	cookieName := c.Fn(rule, "(*pkg/cookies.csrf).cookieName")
	extract := c.Fn(rule, "pkg/cookies.ExtractStateSubstring")
	hashNonce := c.Fn(rule, "pkg/encryption.HashNonce")
	csrfCookieName := c.Fn(rule, "pkg/cookies.csrfCookieName")
	decodeState := a.decodeState
	if cookieName != nil && extract != nil && hashNonce != nil && csrfCookieName != nil && encodeState != nil {
		type cut struct {
			lo, hi int64
			in     *ssa.Slice
		}
		cuts := func(fn *ssa.Function) []cut {
			var out []cut
			for _, b := range fn.Blocks {
				for _, in := range b.Instrs {
					if sl, ok := in.(*ssa.Slice); ok {
						if _, isStr := sl.X.Type().Underlying().(*types.Basic); !isStr {
							continue
						}
						var lo, hi int64 = 0, -1
						if sl.Low != nil {
							lo, _ = ConstInt(sl.Low)
						}
						if sl.High != nil {
							if h, ok := ConstInt(sl.High); ok {
								hi = h
							}
						}
						out = append(out, cut{lo, hi, sl})
					}
				}
			}
			return out
		}
		c1, c2 := cuts(cookieName), cuts(extract)
		key := "cut|" + fnKey(cookieName) + "~" + fnKey(extract)
		switch {
		case len(c1) != 1 || len(c2) != 1:
			c.R.Unknown(rule, key, c.P.Pos(cookieName.Pos()), "expected exactly one string cut in each of cookieName and ExtractStateSubstring")
		case c1[0].lo != c2[0].lo || c1[0].hi != c2[0].hi || c1[0].hi < 0:
			c.bad(rule, key, c1[0].in, sprintf("setter cuts the hashed state at [%d:%d] but the callback derives the name with [%d:%d]: per-request CSRF cookies are never found (or collide)", c1[0].lo, c1[0].hi, c2[0].lo, c2[0].hi), nil, 0)
		default:
			// the setter must cut HashNonce(OAuthState), the extractor its parameter
			okSetter := false
			if call, ok := c1[0].in.X.(*ssa.Call); ok && call.Call.StaticCallee() == hashNonce && stateF != nil && walk.IsFieldLoad(call.Call.Args[0], stateF) {
				okSetter = true
			}
			okExtract := c2[0].in.X == extract.Params[0]
			if okSetter && okExtract {
				c.ok(rule, key, c1[0].in, sprintf("both cut [%d:%d] of the hashed state", c1[0].lo, c1[0].hi))
			} else {
				c.bad(rule, key, c1[0].in, "the cookie-name substring is not taken from HashNonce(OAuthState) on the setter side / from the state argument on the callback side", nil, 0)
			}
		}
		// the callback side returns the cut whenever it made one: "" (which selects the fixed cookie name) only for a state too
		// short to cut. A further test on the substring — an alphabet check, say — that answers "" for some states the
		// setter produces makes those logins look for a cookie that was never set
		if len(c2) == 1 {
			key := "extract-total|" + fnKey(extract)
			n, bad := 0, false
			c.WalkShallow(rule, extract, func(p *walk.Path) {
				rv, ok := p.ReturnDV(0)
				if !ok || bad {
					return
				}
				n++
				cutDone := false
				for _, st := range p.Steps {
					if st.In == ssa.Instruction(c2[0].in) {
						cutDone = true
					}
				}
				r := p.Resolve(rv)
				switch {
				case r.V == ssa.Value(c2[0].in):
				case !cutDone:
					if s, isC := ConstString(r.V); !isC || s != "" {
						bad = true
						c.bad(rule, key, p.Exit, "ExtractStateSubstring returns something other than the cut or the empty string", p, p.End())
					}
				default:
					bad = true
					c.bad(rule, key, p.Exit, "ExtractStateSubstring cut the state and then returns something else: for states the start side produces, the callback derives a different (or the fixed) cookie name and the login's own CSRF cookie is not found", p, p.End())
				}
			})
			if !bad && n > 0 {
				c.R.OK(rule, key, c.P.Pos(extract.Pos()), "returns the cut whenever the state is long enough, \"\" otherwise")
			}
		}
		// both sides finish with csrfCookieName(opts, substring), and the per-request switch is the same option
		perReqF := c.Field(rule, "pkg/apis/options.Cookie.CSRFPerRequest")
		for _, fn := range []*ssa.Function{cookieName, a.genName} {
			key := "name-fn|" + fnKey(fn)
			calls := 0
			for _, cs := range c.callersOf(csrfCookieName) {
				if cs.Parent() == fn {
					calls++
				}
			}
			reads := perReqF != nil && fieldsRead(fn, perReqF)[perReqF]
			if calls == 1 && reads {
				c.ok(rule, key, fn.Blocks[0].Instrs[0], "name = csrfCookieName(opts, substring) switched by Cookie.CSRFPerRequest")
			} else {
				c.bad(rule, key, fn.Blocks[0].Instrs[0], "cookie name is not built by csrfCookieName under the CSRFPerRequest switch on this side", nil, 0)
			}
		}
		// encodeState / decodeState field order
		okEnc := false
		sprintfFn := c.StdFunc(rule, "fmt.Sprintf")
		for _, cs := range c.callersOf(sprintfFn) {
			if cs.Parent() != encodeState {
				continue
			}
			f, _ := ConstString(cs.Common().Args[0])
			if regexp.MustCompile(`^%[vs]:%[vs]$`).MatchString(f) {
				// varargs slice: element 0 must be the nonce parameter
				if first := varargElem(cs.Common().Args[1], 0); first != nil && unwrap(first) == encodeState.Params[0] {
					if second := varargElem(cs.Common().Args[1], 1); second != nil && unwrap(second) == encodeState.Params[1] {
						okEnc = true
					}
				}
			}
		}
		// ... or the same two operands joined by concatenation: nonce + ":" + redirect (neutral batch 9)
		for _, b := range encodeState.Blocks {
			for _, in := range b.Instrs {
				bo, ok := in.(*ssa.BinOp)
				if !ok || bo.Op != token.ADD {
					continue
				}
				var flat []ssa.Value
				var rec func(v ssa.Value)
				rec = func(v ssa.Value) {
					if x, ok := v.(*ssa.BinOp); ok && x.Op == token.ADD {
						rec(x.X)
						rec(x.Y)
						return
					}
					flat = append(flat, unwrap(v))
				}
				rec(bo)
				if len(flat) == 3 && flat[0] == encodeState.Params[0] && flat[2] == encodeState.Params[1] {
					if s, ok := ConstString(flat[1]); ok && s == ":" {
						okEnc = true
					}
				}
			}
		}
		key = "state-order|" + fnKey(encodeState) + "~" + fnKey(decodeState)
		// part k of the state: an element of strings.Split/SplitN(·, ":"…) or a result of strings.Cut(·, ":")
		statePart := func(v ssa.Value) (int64, bool) {
			if n, ok := indexLoad(v); ok {
				return n, true
			}
			if ex, ok := v.(*ssa.Extract); ok && ex.Index <= 1 {
				if call, ok := ex.Tuple.(*ssa.Call); ok && isStd(&call.Call, "strings", "Cut") {
					if s, _ := ConstString(call.Call.Args[1]); s == ":" {
						return int64(ex.Index), true
					}
				}
			}
			return -1, false
		}
		okDec := false
		c.Walk(rule, decodeState, func(p *walk.Path) {
			e, _ := p.ReturnDV(2)
			if !DefinitelyNil(p, e, p.End()) {
				return
			}
			r0, _ := p.ReturnDV(0)
			r1, _ := p.ReturnDV(1)
			i0, ok0 := statePart(p.Resolve(r0).V)
			i1, ok1 := statePart(p.Resolve(r1).V)
			if ok0 && ok1 && i0 == 0 && i1 == 1 {
				okDec = true
			} else {
				okDec = false
				c.bad(rule, key, p.Exit, "decodeState does not return (part 0, part 1) of the split state", p, p.End())
			}
		})
		if okEnc && okDec {
			c.ok(rule, key, encodeState.Blocks[0].Instrs[0], "encodeState writes nonce:redirect, decodeState returns parts 0 and 1")
		} else if !okEnc {
			c.bad(rule, key, encodeState.Blocks[0].Instrs[0], "encodeState does not format \"<nonce>:<redirect>\" from its first two parameters in that order", nil, 0)
		}
	}
	_ = prog.Name
}

// varargElem returns the value stored at index i of a varargs slice built inline.
func varargElem(slice ssa.Value, i int64) ssa.Value {
	sl, ok := slice.(*ssa.Slice)
	if !ok {
		return nil
	}
	al, ok := sl.X.(*ssa.Alloc)
	if !ok {
		return nil
	}
	for _, r := range *al.Referrers() {
		ia, ok := r.(*ssa.IndexAddr)
		if !ok {
			continue
		}
		if n, ok := ConstInt(ia.Index); !ok || n != i {
			continue
		}
		for _, r2 := range *ia.Referrers() {
			if st, ok := r2.(*ssa.Store); ok && st.Addr == ia {
				return st.Val
			}
		}
	}
	return nil
}

// indexLoad: v is *(&x[const]) — returns the constant index.
func indexLoad(v ssa.Value) (int64, bool) {
	u, ok := v.(*ssa.UnOp)
	if !ok || u.Op != token.MUL {
		return 0, false
	}
	ia, ok := u.X.(*ssa.IndexAddr)
	if !ok {
		return 0, false
	}
	return ConstInt(ia.Index)
}

// runC03R2Rule: CSRF cookie loading/decoding accepts only a same-named, Validate-ok cookie (also C02.R3).
func runC03R2Rule(c *Ctx, rule string) {
	a := c.cbAnchors(rule)
	if a == nil {
		return
	}
	decodeCSRF := c.Fn(rule, "pkg/cookies.decodeCSRFCookie")
	validate := c.Fn(rule, "pkg/encryption.Validate")
	decryptM := c.Method(rule, "pkg/encryption.Cipher.Decrypt")
	unmarshal := c.StdFunc(rule, "github.com/vmihailenco/msgpack/v5.Unmarshal")
	cookieNameF := c.P.Field("net/http.Cookie.Name")
	if decodeCSRF != nil && validate != nil && decryptM != nil && unmarshal != nil && cookieNameF != nil {
		c.Walk(rule, a.loadCSRF, func(p *walk.Path) {
			rv, ok := p.ReturnDV(0)
			if !ok || DefinitelyNil(p, rv, p.End()) {
				return
			}
			key := "non-nil-return|" + fnKey(a.loadCSRF)
			inner := p.Resolve(rv)
			if mi, ok := inner.V.(*ssa.MakeInterface); ok {
				inner = p.Op(mi.X, inner)
			}
			dc, ok := extractOfCall(p, inner, 0)
			if !ok || dc.C.StaticCallee() != decodeCSRF {
				c.bad(rule, key, p.Exit, "LoadCSRFCookie returns a CSRF that is not decodeCSRFCookie's result", p, p.End())
				return
			}
			if n, k := p.ResultNil(dc.DV(), 1, p.End()); !(k && n) {
				c.bad(rule, key, p.Exit, "LoadCSRFCookie returns decodeCSRFCookie's result although its error is not known to be nil", p, p.End())
				return
			}
			cookie := p.Arg(dc, 0)
			nameParam := a.loadCSRF.Params[1]
			if !eqAtom(p, p.End(), true,
				func(x walk.DV) bool { return fieldLoadOn(p, x, cookieNameF, cookie) },
				func(x walk.DV) bool { return x.V == nameParam }) {
				c.bad(rule, key, p.Exit, "the decoded cookie's Name was not compared equal to the requested cookie name", p, p.End())
				return
			}
			c.ok(rule, key, p.Exit, "cookie.Name==cookieName and decodeCSRFCookie(cookie) err==nil")
		})
		c.Walk(rule, decodeCSRF, func(p *walk.Path) {
			rv, ok := p.ReturnDV(0)
			if !ok || DefinitelyNil(p, rv, p.End()) {
				return
			}
			key := "non-nil-return|" + fnKey(decodeCSRF)
			vc, ok := Has(p, p.End(), Need{M: walk.Static(validate), Idx: 2, Out: IsTrue, Where: func(p *walk.Path, k walk.Call) bool {
				return p.Resolve(p.Arg(k, 0)).V == decodeCSRF.Params[0]
			}})
			if !ok {
				c.bad(rule, key, p.Exit, "decodeCSRFCookie returns a CSRF on a path where encryption.Validate(cookie) was not ok", p, p.End())
				return
			}
			dcr, ok := Has(p, p.End(), Need{M: walk.Invoke(c.P, decryptM), Idx: 1, Out: ErrNil, Where: func(p *walk.Path, k walk.Call) bool {
				return ResultIs(p, p.Arg(k, 0), vc, 0)
			}})
			if !ok {
				c.bad(rule, key, p.Exit, "the CSRF is not decrypted from the value Validate returned", p, p.End())
				return
			}
			if _, ok := Has(p, p.End(), Need{M: walk.Static(unmarshal), Idx: -1, Out: ErrNil, Where: func(p *walk.Path, k walk.Call) bool {
				return ResultIs(p, p.Arg(k, 0), dcr, 0) && p.Same(p.Op(unwrap(p.Resolve(p.Arg(k, 1)).V), p.Resolve(p.Arg(k, 1))), rv)
			}}); !ok {
				c.bad(rule, key, p.Exit, "the returned CSRF is not the object the decrypted bytes were unmarshalled into (or unmarshal may have failed)", p, p.End())
				return
			}
			c.ok(rule, key, p.Exit, "Validate ok -> decrypt(value) ok -> msgpack.Unmarshal into the returned object ok")
		})
	}
	if rule == "R2-csrf-load" { // under C02.R3 the chain is already run by C01.R7's rule function
		runValidateChain(c, rule)
	}

}

// runC03R6: finishing one login deletes exactly that login's CSRF cookie.
func runC03R6(c *Ctx) {
	rule := "R6-clears-own-cookie-only"
	clear := c.Fn(rule, "(*pkg/cookies.csrf).ClearCookie")
	mk := c.Fn(rule, "pkg/cookies.MakeCookieFromOptions")
	cookieName := c.Fn(rule, "(*pkg/cookies.csrf).cookieName")
	setCookie := c.StdFunc(rule, "net/http.SetCookie")
	if clear == nil || mk == nil || cookieName == nil || setCookie == nil {
		return
	}
	c.Walk(rule, clear, func(p *walk.Path) {
		if _, ok := p.Exit.(*ssa.Return); !ok {
			return
		}
		n := 0
		for _, sc := range p.Find(walk.Static(setCookie), p.End()) {
			n++
			key := "deletion|" + fnKey(clear)
			mc, ok := extractOfCall(p, p.Arg(sc, 1), 0)
			okOwn := false
			if ok && mc.C.StaticCallee() == mk {
				if nc, ok := extractOfCall(p, p.Arg(mc, 1), 0); ok && nc.C.StaticCallee() == cookieName && p.Resolve(p.Arg(nc, 0)).V == clear.Params[0] {
					okOwn = true
				}
			}
			if okOwn {
				c.ok(rule, key, sc.In, "deletes the cookie named c.cookieName()")
			} else {
				c.bad(rule, key, sc.In, "completing a login deletes a cookie other than this login's own CSRF cookie: other outstanding logins of the browser can no longer complete", p, sc.Idx)
			}
		}
		if n != 1 {
			c.bad(rule, "count|"+fnKey(clear), p.Exit, sprintf("ClearCookie emits %d deletions on this path instead of exactly one", n), p, p.End())
		} else {
			c.ok(rule, "count|"+fnKey(clear), p.Exit, "exactly one deletion")
		}
	})
}

// runLoginParamsFresh: the parameter set a login start adds its nonce / PKCE challenge to is made for that request.
// LoginURLParams returns, on every path, a map created in that invocation (never the provider's long-lived
// default map), so what one login adds cannot leak into — and break — the next login's authorization request.
func runLoginParamsFresh(c *Ctx, rule string) {
	fn := c.Fn(rule, "(*providers.ProviderData).LoginURLParams")
	if fn == nil {
		return
	}
	n := 0
	for _, b := range fn.Blocks {
		ret, ok := b.Instrs[len(b.Instrs)-1].(*ssa.Return)
		if !ok || len(ret.Results) == 0 {
			continue
		}
		n++
		key := "fresh-map|" + fnKey(fn)
		if locallyMade(ret.Results[0], 0) {
			c.ok(rule, key, ret, "returns a map made in this invocation")
		} else {
			c.R.Bad(rule, key, c.pos(ret), "LoginURLParams hands out a map that is not made in this invocation ("+mapText(ret.Results[0])+"): callers add the login's nonce and code challenge to it, so later logins send an earlier login's values and their own callbacks fail", nil, nil)
		}
	}
	if n == 0 {
		c.R.Unknown(rule, "fresh-map|none", c.P.Pos(fn.Pos()), "LoginURLParams has no return")
	}
}
