package rules

import (
	"go/token"
	"go/types"

	"golang.org/x/tools/go/ssa"

	"oapsa/internal/prog"
	"oapsa/internal/walk"
)

// possibleCallees resolves the functions a call may target, looking through phis, closures,
// captured variables (to the stores in the enclosing function) and struct fields are NOT followed.
// ok=false when some origin is not a function constant.
func possibleCallees(cc *ssa.CallCommon) (fns []*ssa.Function, ok bool) {
	if cc.IsInvoke() {
		return nil, false
	}
	seen := map[ssa.Value]bool{}
	ok = true
	var visit func(v ssa.Value, depth int)
	visit = func(v ssa.Value, depth int) {
		if seen[v] || depth > 8 {
			return
		}
		seen[v] = true
		switch x := v.(type) {
		case *ssa.Function:
			fns = append(fns, x)
		case *ssa.MakeClosure:
			fns = append(fns, x.Fn.(*ssa.Function))
		case *ssa.Phi:
			for _, e := range x.Edges {
				visit(e, depth+1)
			}
		case *ssa.ChangeType:
			visit(x.X, depth+1)
		case *ssa.UnOp:
			if x.Op != token.MUL {
				ok = false
				return
			}
			switch a := x.X.(type) {
			case *ssa.Alloc:
				for _, st := range storesTo(a) {
					visit(st.Val, depth+1)
				}
			case *ssa.FreeVar:
				al := bindingOf(a)
				if al == nil {
					ok = false
					return
				}
				if alloc, isAlloc := al.(*ssa.Alloc); isAlloc {
					for _, st := range storesTo(alloc) {
						visit(st.Val, depth+1)
					}
				} else {
					ok = false
				}
			default:
				ok = false
			}
		default:
			ok = false
		}
	}
	visit(cc.Value, 0)
	return fns, ok && len(fns) > 0
}

// storesTo lists the stores to a cell, including those made by closures capturing it.
func storesTo(a *ssa.Alloc) []*ssa.Store {
	var out []*ssa.Store
	var refs func(v ssa.Value, depth int)
	refs = func(v ssa.Value, depth int) {
		if depth > 3 {
			return
		}
		for _, r := range *v.Referrers() {
			switch x := r.(type) {
			case *ssa.Store:
				if x.Addr == v {
					out = append(out, x)
				}
			case *ssa.MakeClosure:
				fn := x.Fn.(*ssa.Function)
				for i, b := range x.Bindings {
					if b == v {
						refs(fn.FreeVars[i], depth+1)
					}
				}
			}
		}
	}
	refs(a, 0)
	return out
}

// bindingOf returns the value bound to a free variable where its closure is created.
func bindingOf(fv *ssa.FreeVar) ssa.Value {
	fn := fv.Parent()
	idx := -1
	for i, f := range fn.FreeVars {
		if f == fv {
			idx = i
		}
	}
	parent := fn.Parent()
	if idx < 0 || parent == nil {
		return nil
	}
	for _, b := range parent.Blocks {
		for _, in := range b.Instrs {
			if mc, ok := in.(*ssa.MakeClosure); ok && mc.Fn == fn {
				v := mc.Bindings[idx]
				if inner, ok := v.(*ssa.FreeVar); ok {
					return bindingOf(inner)
				}
				return v
			}
		}
	}
	return nil
}

// extractOfCall: if dv is (after resolution) result idx of a call, return that call as a path Call.
func extractOfCall(p *walk.Path, dv walk.DV, idx int) (walk.Call, bool) {
	r := p.Resolve(dv)
	var callV ssa.Value
	var inst, frame int
	switch x := r.V.(type) {
	case *ssa.Extract:
		if x.Index != idx {
			return walk.Call{}, false
		}
		t := p.Resolve(p.Op(x.Tuple, r))
		callV, inst, frame = t.V, t.I, t.F
	case *ssa.Call:
		if idx > 0 {
			return walk.Call{}, false
		}
		callV, inst, frame = x, r.I, r.F
	default:
		return walk.Call{}, false
	}
	for _, cl := range p.Calls() {
		// the same call instruction can occur in several inlined instances of a helper on one path: the frame tells them apart
		if v, ok := cl.In.(ssa.Value); ok && v == callV && cl.Step.I == inst && cl.Step.F == frame {
			return cl, true
		}
	}
	return walk.Call{}, false
}

func runC01R5R6(c *Ctx, scopeSessF *types.Var) {
	if scopeSessF == nil {
		return
	}
	r5, r6 := "R5-session-writers", "R6-getters-verified"
	getBasic := c.Fn(r6, "pkg/middleware.getBasicSession")
	getJwt := c.Fn(r6, "(*pkg/middleware.jwtSessionLoader).getJwtSession")
	getValidated := c.Fn(r6, "(*pkg/middleware.storedSessionLoader).getValidatedSession")
	if getBasic == nil || getJwt == nil || getValidated == nil {
		return
	}
	verified := map[*ssa.Function]bool{getBasic: true, getJwt: true, getValidated: true}
	wrappers := map[*ssa.Function]bool{}

	for _, ref := range c.fieldRefs(scopeSessF) {
		switch ref.Kind {
		case "load":
			continue
		case "addr":
			c.bad(r5, "addr|"+fnKey(ref.Fn), ref.In, "the address of RequestScope.Session escapes: writers can no longer be enumerated", nil, 0)
			continue
		}
		c.R.CallSites++
		key := "store|" + fnKey(ref.Fn)
		v := ref.Store.Val
		if k, ok := v.(*ssa.Const); ok && k.Value == nil {
			c.ok(r5, key+"|nil", ref.In, "stores nil")
			continue
		}
		ex, ok := v.(*ssa.Extract)
		var call *ssa.Call
		if ok && ex.Index == 0 {
			call, _ = ex.Tuple.(*ssa.Call)
		}
		if call == nil {
			c.bad(r5, key, ref.In, "RequestScope.Session is assigned a value that is not result #0 of a session getter", nil, 0)
			continue
		}
		fns, ok := possibleCallees(&call.Call)
		if !ok {
			c.bad(r5, key, ref.In, "RequestScope.Session is assigned the result of a call whose targets cannot be enumerated", nil, 0)
			continue
		}
		good := true
		for _, f := range fns {
			if !verified[f] {
				wrappers[f] = true
			}
		}
		if good {
			names := ""
			for _, f := range fns {
				names += " " + prog.Name(f)
			}
			c.ok(r5, key, ref.In, "stores result #0 of:"+names+" (each checked by R6)")
		}
	}

	// wrappers: must return only nil or result #0 of a verified getter
	for w := range wrappers {
		w := w
		c.Walk(r6, w, func(p *walk.Path) {
			if _, ok := p.Exit.(*ssa.Return); !ok {
				return
			}
			rv, ok := p.ReturnDV(0)
			key := "wrapper|" + fnKey(w)
			if !ok {
				c.bad(r6, key, p.Exit, "a function whose result is stored as the request session has no session result", p, p.End())
				return
			}
			if DefinitelyNil(p, rv, p.End()) {
				return
			}
			if cl, ok := extractOfCall(p, rv, 0); ok && cl.C.StaticCallee() != nil && verified[cl.C.StaticCallee()] {
				c.ok(r6, key, p.Exit, "returns result #0 of "+prog.Name(cl.C.StaticCallee()))
				return
			}
			c.bad(r6, key, p.Exit, "returns a session that is not the result of a verified getter", p, p.End())
		})
	}

	// getBasicSession
	validateM := c.Method(r6, "pkg/authentication/basic.Validator.Validate")
	userF := c.Field(r6, "pkg/apis/sessions.SessionState.User")
	if validateM != nil && userF != nil {
		c.Walk(r6, getBasic, func(p *walk.Path) {
			rv, ok := p.ReturnDV(0)
			if !ok || DefinitelyNil(p, rv, p.End()) {
				return
			}
			key := "non-nil-return|" + fnKey(getBasic)
			cl, ok := Has(p, p.End(), Need{M: walk.Invoke(c.P, validateM), Idx: -1, Out: IsTrue})
			if !ok {
				c.bad(r6, key, p.Exit, "returns a session on a path where validator.Validate(user, password) was not true", p, p.End())
				return
			}
			// the session's User is the user that was validated
			al, isAlloc := p.Resolve(rv).V.(*ssa.Alloc)
			userOK := false
			if isAlloc {
				for _, ref := range *al.Referrers() {
					fa, ok := ref.(*ssa.FieldAddr)
					if !ok || walk.FieldOf(fa.X.Type(), fa.Field) != userF {
						continue
					}
					for _, r2 := range *fa.Referrers() {
						if st, ok := r2.(*ssa.Store); ok && st.Addr == fa {
							if p.Same(p.Operand(st.Val, st.Block(), 1), p.Arg(cl, 0)) {
								userOK = true
							}
						}
					}
				}
			}
			if !userOK {
				c.bad(r6, key, p.Exit, "the returned session's User is not the user name that was validated", p, p.End())
				return
			}
			c.ok(r6, key, p.Exit, "fresh session for the user that validator.Validate accepted")
		})
	}

	// getJwtSession
	loadersF := c.Field(r6, "pkg/middleware.jwtSessionLoader.sessionLoaders")
	if loadersF != nil {
		c.Walk(r6, getJwt, func(p *walk.Path) {
			rv, ok := p.ReturnDV(0)
			if !ok || DefinitelyNil(p, rv, p.End()) {
				return
			}
			key := "non-nil-return|" + fnKey(getJwt)
			cl, ok := extractOfCall(p, rv, 0)
			if !ok {
				c.bad(r6, key, p.Exit, "returns a session that is not the result of a session loader call", p, p.End())
				return
			}
			// callee: element of j.sessionLoaders
			cv := p.Resolve(p.StepOp(cl.C.Value, cl.Step))
			fromLoaders := false
			if ld, ok := cv.V.(*ssa.UnOp); ok && ld.Op == token.MUL {
				if ia, ok := ld.X.(*ssa.IndexAddr); ok {
					if walk.IsFieldLoad(ia.X, loadersF) {
						fromLoaders = true
					}
				}
			}
			if !fromLoaders {
				c.bad(r6, key, p.Exit, "the session comes from a call that is not one of the configured sessionLoaders", p, p.End())
				return
			}
			if n, k := p.ResultNil(cl.DV(), 1, p.End()); !(k && n) {
				c.bad(r6, key, p.Exit, "returns the loader's session on a path where the loader's error is not known to be nil", p, p.End())
				return
			}
			c.ok(r6, key, p.Exit, "result #0 of a configured loader whose error is nil")
		})
	}

	// getValidatedSession
	loadM := c.Method(r6, "pkg/apis/sessions.SessionStore.Load")
	refresh := c.Fn(r6, "(*pkg/middleware.storedSessionLoader).refreshSessionIfNeeded")
	if loadM != nil && refresh != nil {
		c.Walk(r6, getValidated, func(p *walk.Path) {
			rv, ok := p.ReturnDV(0)
			if !ok || DefinitelyNil(p, rv, p.End()) {
				return
			}
			key := "non-nil-return|" + fnKey(getValidated)
			cl, ok := extractOfCall(p, rv, 0)
			if !ok || !walk.Invoke(c.P, loadM)(p, cl) {
				c.bad(r6, key, p.Exit, "returns a session that is not the result of SessionStore.Load", p, p.End())
				return
			}
			if n, k := p.ResultNil(cl.DV(), 1, p.End()); !(k && n) {
				c.bad(r6, key, p.Exit, "returns the loaded session although Load's error is not known to be nil", p, p.End())
				return
			}
			if _, ok := Has(p, p.End(), Need{M: walk.Static(refresh), Idx: -1, Out: ErrNil, Where: func(p *walk.Path, rc walk.Call) bool {
				return p.Same(p.Arg(rc, 3), rv)
			}}); !ok {
				c.bad(r6, key, p.Exit, "returns the loaded session on a path where refreshSessionIfNeeded(session) did not return nil", p, p.End())
				return
			}
			c.ok(r6, key, p.Exit, "store.Load ok and refreshSessionIfNeeded(session)==nil")
		})
	}
}

func runC01R7(c *Ctx) { runC01R7Named(c, "R7-store-validation") }

func runC01R7Named(c *Ctx, rule string) {
	validate := c.Fn(rule, "pkg/encryption.Validate")
	checkSig := c.Fn(rule, "pkg/encryption.checkSignature")
	cookieSig := c.Fn(rule, "pkg/encryption.cookieSignature")
	load := c.Fn(rule, "(*pkg/sessions/cookie.SessionStore).Load")
	decodeSS := c.Fn(rule, "pkg/apis/sessions.DecodeSessionState")
	dtfr := c.Fn(rule, "pkg/sessions/persistence.decodeTicketFromRequest")
	decodeTicket := c.Fn(rule, "pkg/sessions/persistence.decodeTicket")
	hmacEqual := c.StdFunc(rule, "crypto/hmac.Equal")
	if validate == nil || checkSig == nil || cookieSig == nil || load == nil || decodeSS == nil || dtfr == nil || decodeTicket == nil || hmacEqual == nil {
		return
	}
	validated := func(p *walk.Path) (walk.Call, bool) {
		return Has(p, p.End(), Need{M: walk.Static(validate), Idx: 2, Out: IsTrue})
	}
	// cookie store Load
	c.Walk(rule, load, func(p *walk.Path) {
		rv, ok := p.ReturnDV(0)
		if !ok || DefinitelyNil(p, rv, p.End()) {
			return
		}
		key := "non-nil-return|" + fnKey(load)
		vc, ok := validated(p)
		if !ok {
			c.bad(rule, key, p.Exit, "cookie store Load returns a session on a path where encryption.Validate's ok result is not true", p, p.End())
			return
		}
		dc, ok := extractOfCall(p, rv, 0)
		if !ok || dc.C.StaticCallee() != decodeSS || p.Key(p.Arg(dc, 0)) != p.ResultKey(vc.DV(), 0) {
			c.bad(rule, key, p.Exit, "the returned session is not DecodeSessionState of the bytes Validate returned", p, p.End())
			return
		}
		c.ok(rule, key, p.Exit, "Validate ok, session decoded from Validate's value")
	})
	// ticket
	c.Walk(rule, dtfr, func(p *walk.Path) {
		rv, ok := p.ReturnDV(0)
		if !ok || DefinitelyNil(p, rv, p.End()) {
			return
		}
		key := "non-nil-return|" + fnKey(dtfr)
		vc, ok := validated(p)
		if !ok {
			c.bad(rule, key, p.Exit, "decodeTicketFromRequest returns a ticket on a path where encryption.Validate's ok result is not true", p, p.End())
			return
		}
		dc, ok := extractOfCall(p, rv, 0)
		if !ok || dc.C.StaticCallee() != decodeTicket || p.Key(p.Arg(dc, 0)) != "cv<string>("+p.ResultKey(vc.DV(), 0)+")" {
			c.bad(rule, key, p.Exit, "the returned ticket is not decodeTicket of the value Validate returned", p, p.End())
			return
		}
		c.ok(rule, key, p.Exit, "Validate ok, ticket decoded from Validate's value")
	})
	runValidateChain(c, rule)
}

// runValidateChain: Validate ok => checkSignature => checkHmac(signature, cookieSignature) => hmac.Equal
// (C01.R7, C02.R3; also C03.R2: the CSRF cookie is only as good as this chain).
func runValidateChain(c *Ctx, rule string) {
	validate := c.Fn(rule, "pkg/encryption.Validate")
	checkSig := c.Fn(rule, "pkg/encryption.checkSignature")
	cookieSig := c.Fn(rule, "pkg/encryption.cookieSignature")
	hmacEqual := c.StdFunc(rule, "crypto/hmac.Equal")
	if validate == nil || checkSig == nil || cookieSig == nil || hmacEqual == nil {
		return
	}
	// Validate: ok ⇒ checkSignature
	c.Walk(rule, validate, func(p *walk.Path) {
		rv, ok := p.ReturnDV(2)
		if !ok {
			return
		}
		if b, k := p.Truth(rv, p.End()); k && !b {
			return
		}
		key := "ok-return|" + fnKey(validate)
		if _, ok := Has(p, p.End(), Need{M: walk.Static(checkSig), Idx: -1, Out: IsTrue}); !ok {
			c.bad(rule, key, p.Exit, "Validate reports ok on a path where checkSignature was not true", p, p.End())
			return
		}
		c.ok(rule, key, p.Exit, "checkSignature(...)==true")
	})
	checkSigCompare(c, rule)
}

// checkSigCompare: checkSignature answers true only as hmac.Equal(decode(presented signature),
// decode(cookieSignature(...)#0)) with both base64 decodings and the MAC computation error-free — the complete,
// constant-time comparison. The small comparing helper (checkHmac today) is not an anchor: the walker inlines it
// when it exists and the rule reads the same whether or not a refactoring has folded it into checkSignature
// (C01.R7, C02.R5, C03.R2).
func checkSigCompare(c *Ctx, rule string) {
	checkSig := c.Fn(rule, "pkg/encryption.checkSignature")
	cookieSig := c.Fn(rule, "pkg/encryption.cookieSignature")
	hmacEqual := c.StdFunc(rule, "crypto/hmac.Equal")
	if checkSig == nil || cookieSig == nil || hmacEqual == nil {
		return
	}
	c.Walk(rule, checkSig, func(p *walk.Path) {
		rv, ok := p.ReturnDV(0)
		if !ok {
			return
		}
		if b, k := p.Truth(rv, p.End()); k && !b {
			return
		}
		at := p.End()
		key := "true-return|" + fnKey(checkSig)
		eq, ok := extractOfCall(p, rv, 0)
		if !ok || eq.C.StaticCallee() != hmacEqual {
			// the verdict may have been tested rather than returned: if hmac.Equal(...) { return true }
			for _, cl := range p.Find(walk.Static(hmacEqual), at) {
				if b, k := p.ResultTruth(cl.DV(), -1, at); k && b {
					eq, ok = cl, true
				}
			}
			if !ok || eq.C.StaticCallee() != hmacEqual {
				c.bad(rule, key, p.Exit, "checkSignature may return true other than as hmac.Equal's verdict", p, at)
				return
			}
		}
		decoded := func(arg walk.DV) (walk.Call, bool) {
			dc, ok := extractOfCall(p, arg, 0)
			if !ok || dc.C.StaticCallee() == nil || dc.C.StaticCallee().Name() != "DecodeString" {
				return walk.Call{}, false
			}
			if n, k := p.ResultNil(dc.DV(), 1, at); !(k && n) {
				return walk.Call{}, false
			}
			return dc, true
		}
		d0, ok0 := decoded(p.Arg(eq, 0))
		d1, ok1 := decoded(p.Arg(eq, 1))
		if !ok0 || !ok1 {
			c.bad(rule, key, p.Exit, "the signatures compared are not the complete, error-free base64 decodings of two strings (a prefix, trimmed or raw compare accepts truncated signatures)", p, at)
			return
		}
		isPresented := func(d walk.Call) bool { return p.Resolve(p.Arg(d, 1)).V == ssa.Value(checkSig.Params[0]) }
		isExpected := func(d walk.Call) bool {
			sc, ok := extractOfCall(p, p.Arg(d, 1), 0)
			if !ok || sc.C.StaticCallee() != cookieSig {
				return false
			}
			n, k := p.ResultNil(sc.DV(), 1, at)
			return k && n
		}
		if (isPresented(d0) && isExpected(d1)) || (isPresented(d1) && isExpected(d0)) {
			c.ok(rule, key, p.Exit, "hmac.Equal(decode(signature), decode(cookieSignature(...))) with every step error-free")
		} else {
			c.bad(rule, key, p.Exit, "what is compared is not the presented signature against cookieSignature's error-free result", p, at)
		}
	})
}
