package rules

import (
	"go/token"
	"go/types"

	"golang.org/x/tools/go/ssa"

	"oapsa/internal/walk"
)

// origins traces a value backwards (A5): through phis, representation-preserving conversions and,
// for parameters, to the corresponding argument of every static call site in the module (bounded
// depth). It returns the set of origin values reached; a parameter of a function whose callers
// cannot all be enumerated (used as a value, interface implementation, no callers) is itself an
// origin.
func (c *Ctx) origins(v ssa.Value, depth int) []ssa.Value { return c.originsOpt(v, depth, false) }

// originsThroughHelpers is origins that also follows result i of a module helper into what the helper returns there
// (two levels), so that a value keeps its origins when the code computing it is extracted into a helper.
func (c *Ctx) originsThroughHelpers(v ssa.Value, depth int) []ssa.Value {
	return c.originsOpt(v, depth, true)
}

func (c *Ctx) originsOpt(v ssa.Value, depth int, throughHelpers bool) []ssa.Value {
	seen := map[ssa.Value]bool{}
	var out []ssa.Value
	down := 0
	var visit func(v ssa.Value, d int)
	visit = func(v ssa.Value, d int) {
		if seen[v] {
			return
		}
		seen[v] = true
		switch x := v.(type) {
		case *ssa.Phi:
			for _, e := range x.Edges {
				visit(e, d)
			}
			return
		case *ssa.ChangeType:
			visit(x.X, d)
			return
		case *ssa.ChangeInterface:
			visit(x.X, d)
			return
		case *ssa.Parameter:
			fn := x.Parent()
			idx := -1
			for i, p := range fn.Params {
				if p == x {
					idx = i
				}
			}
			callers := c.callersOf(fn)
			if d >= depth || idx < 0 || len(callers) == 0 || len(c.funcValueUses(fn)) > 0 {
				out = append(out, v)
				return
			}
			for _, cs := range callers {
				args := cs.Common().Args
				if idx < len(args) {
					visit(args[idx], d+1)
				}
			}
			return
		case *ssa.FreeVar:
			if b := bindingOf(x); b != nil {
				if al, ok := b.(*ssa.Alloc); ok {
					for _, st := range storesTo(al) {
						visit(st.Val, d)
					}
					return
				}
				visit(b, d)
				return
			}
		case *ssa.Extract:
			// result i of a module helper: what the helper returns there (an extracted helper keeps its origins)
			if call, ok := x.Tuple.(*ssa.Call); ok && throughHelpers && down < 2 {
				if sc := call.Call.StaticCallee(); sc != nil && c.P.InModule(sc) && len(sc.Blocks) > 0 {
					down++
					for _, b := range sc.Blocks {
						if ret, ok := b.Instrs[len(b.Instrs)-1].(*ssa.Return); ok && x.Index < len(ret.Results) {
							visit(ret.Results[x.Index], d)
						}
					}
					down--
					return
				}
			}
		case *ssa.UnOp:
			if x.Op == token.MUL {
				// load of a captured variable's cell: the values stored into it
				if fv, ok := x.X.(*ssa.FreeVar); ok {
					if b := bindingOf(fv); b != nil {
						if al, ok := b.(*ssa.Alloc); ok {
							for _, st := range storesTo(al) {
								visit(st.Val, d)
							}
							return
						}
					}
				}
				if al, ok := x.X.(*ssa.Alloc); ok && !addressEscapes(al) {
					sts := storesTo(al)
					if len(sts) > 0 {
						for _, st := range sts {
							visit(st.Val, d)
						}
						return
					}
				}
			}
		}
		out = append(out, v)
	}
	visit(v, 0)
	return out
}

func addressEscapes(a *ssa.Alloc) bool {
	for _, r := range *a.Referrers() {
		switch x := r.(type) {
		case *ssa.Store:
			if x.Val == a {
				return true
			}
		case *ssa.UnOp, *ssa.DebugRef, *ssa.MakeClosure:
		default:
			return true
		}
	}
	return false
}

// isFieldLoadOf: v is a load of field f (any base).
func isFieldLoadOf(v ssa.Value, f *types.Var) bool { return walk.IsFieldLoad(unwrap0(v), f) }

func unwrap0(v ssa.Value) ssa.Value {
	for {
		switch x := v.(type) {
		case *ssa.ChangeType:
			v = x.X
		default:
			return v
		}
	}
}

// derefOfFieldLoad: v is *(X.f) — a dereference of pointer field f.
func derefOfFieldLoad(v ssa.Value, f *types.Var) (base ssa.Value, ok bool) {
	u, ok := v.(*ssa.UnOp)
	if !ok || u.Op != token.MUL {
		return nil, false
	}
	return walk.FieldLoadBase(u.X, f)
}
