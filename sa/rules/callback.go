package rules

import (
	"go/types"

	"golang.org/x/tools/go/ssa"

	"oapsa/internal/walk"
)

// cbAnchors are the objects the callback rules are stated over.
type cbAnchors struct {
	callback, decodeState, genName, loadCSRF, redeemCode, enrich, saveSession *ssa.Function
	checkState, checkNonce, setNonce, getVerifier, clearCookie, setCookie     *types.Func
	hashState, hashNonce                                                      *types.Func
	validateSession, authorize, storeSave, isValidRedirect                    *types.Func
	validatorF, emailF                                                        *types.Var
	httpRedirect                                                              *ssa.Function
}

func (c *Ctx) cbAnchors(rule string) *cbAnchors {
	a := &cbAnchors{
		callback:        c.Fn(rule, "(*main.OAuthProxy).OAuthCallback"),
		decodeState:     c.Fn(rule, "main.decodeState"),
		genName:         c.Fn(rule, "pkg/cookies.GenerateCookieName"),
		loadCSRF:        c.Fn(rule, "pkg/cookies.LoadCSRFCookie"),
		redeemCode:      c.Fn(rule, "(*main.OAuthProxy).redeemCode"),
		enrich:          c.Fn(rule, "(*main.OAuthProxy).enrichSessionState"),
		saveSession:     c.Fn(rule, "(*main.OAuthProxy).SaveSession"),
		checkState:      c.Method(rule, "pkg/cookies.CSRF.CheckOAuthState"),
		checkNonce:      c.Method(rule, "pkg/cookies.CSRF.CheckOIDCNonce"),
		setNonce:        c.Method(rule, "pkg/cookies.CSRF.SetSessionNonce"),
		getVerifier:     c.Method(rule, "pkg/cookies.CSRF.GetCodeVerifier"),
		clearCookie:     c.Method(rule, "pkg/cookies.CSRF.ClearCookie"),
		setCookie:       c.Method(rule, "pkg/cookies.CSRF.SetCookie"),
		hashState:       c.Method(rule, "pkg/cookies.CSRF.HashOAuthState"),
		hashNonce:       c.Method(rule, "pkg/cookies.CSRF.HashOIDCNonce"),
		validateSession: c.Method(rule, "providers.Provider.ValidateSession"),
		authorize:       c.Method(rule, "providers.Provider.Authorize"),
		storeSave:       c.Method(rule, "pkg/apis/sessions.SessionStore.Save"),
		isValidRedirect: c.Method(rule, "pkg/app/redirect.Validator.IsValidRedirect"),
		validatorF:      c.Field(rule, "main.OAuthProxy.Validator"),
		emailF:          c.Field(rule, "pkg/apis/sessions.SessionState.Email"),
		httpRedirect:    c.StdFunc(rule, "net/http.Redirect"),
	}
	if a.callback == nil || a.decodeState == nil || a.genName == nil || a.loadCSRF == nil || a.redeemCode == nil || a.enrich == nil ||
		a.saveSession == nil || a.checkState == nil || a.checkNonce == nil || a.setNonce == nil || a.getVerifier == nil ||
		a.validateSession == nil || a.authorize == nil || a.storeSave == nil || a.validatorF == nil || a.emailF == nil ||
		a.httpRedirect == nil || a.isValidRedirect == nil || a.hashState == nil || a.hashNonce == nil || a.setCookie == nil || a.clearCookie == nil {
		return nil
	}
	return a
}

// saveMatcher matches every call that persists a session: SessionStore.Save itself or the
// OAuthProxy.SaveSession wrapper.
func (a *cbAnchors) saveMatcher(c *Ctx) walk.Matcher {
	return walk.Or(walk.Static(a.saveSession), walk.Invoke(c.P, a.storeSave))
}

// savedSession returns the session argument of a save call.
func savedSession(p *walk.Path, cl walk.Call) walk.DV {
	// SaveSession(p, rw, req, s) static: index 3; invoke Save(rw, req, s): index 2
	if cl.C.IsInvoke() {
		return p.Arg(cl, 2)
	}
	return p.Arg(cl, len(cl.C.Args)-1)
}

// Facet is one group of facts demanded at the callback's save sink.
type Facet int

const (
	FacetState Facet = iota // C03: decodeState ok, CSRF cookie loaded by derived name, CheckOAuthState(nonce)
	FacetNonce              // C05: SetSessionNonce before ValidateSession==true, same csrf/session
	FacetPKCE               // C05: redeemCode gets csrf.GetCodeVerifier() of the loaded cookie
	FacetIdP                // C14: redeemCode err==nil, enrichSessionState==nil, session is redeemCode's
	FacetAuthz              // C08: Validator(session.Email) && Authorize(session)
)

// checkCallbackSave walks OAuthCallback once and checks the requested facet at every save sink.
func (c *Ctx) checkCallbackSave(rule string, a *cbAnchors, facet Facet, label string) {
	sinkM := a.saveMatcher(c)
	sinks := 0
	c.Walk(rule, a.callback, func(p *walk.Path) {
		for _, sv := range p.Find(sinkM, p.End()) {
			sinks++
			at := sv.Idx
			sess := savedSession(p, sv)
			key := label + "|" + fnKey(a.callback)
			fail := func(why string) { c.bad(rule, key, sv.In, why, p, at) }

			ds, okDS := Has(p, at, Need{M: walk.Static(a.decodeState), Idx: 2, Out: ErrNil})
			var lc walk.Call
			okLC := false
			if okDS {
				lc, okLC = Has(p, at, Need{M: walk.Static(a.loadCSRF), Idx: 1, Out: ErrNil, Where: func(p *walk.Path, l walk.Call) bool {
					gn, ok := extractOfCall(p, p.Arg(l, 1), 0)
					return ok && gn.C.StaticCallee() == a.genName && ResultIs(p, p.Arg(gn, 1), ds, 0)
				}})
			}
			switch facet {
			case FacetState:
				if !okDS {
					fail("session is saved on a path where decodeState(state) did not succeed")
					continue
				}
				if !okLC {
					fail("session is saved on a path where no CSRF cookie was loaded under the name derived from this state's nonce")
					continue
				}
				if _, ok := Has(p, at, Need{M: walk.Invoke(c.P, a.checkState), Idx: -1, Out: IsTrue, Where: func(p *walk.Path, k walk.Call) bool {
					return ResultIs(p, p.Recv(k), lc, 0) && ResultIs(p, p.Arg(k, 0), ds, 0)
				}}); !ok {
					fail("session is saved on a path where CheckOAuthState(nonce of this state) on the loaded CSRF cookie was not true")
					continue
				}
				c.ok(rule, key, sv.In, "decodeState ok -> LoadCSRFCookie(GenerateCookieName(nonce)) ok -> csrf.CheckOAuthState(nonce)==true")
			case FacetNonce:
				if !okLC {
					fail("session is saved without a loaded CSRF cookie (nonce source)")
					continue
				}
				sn, ok := Has(p, at, Need{M: walk.Invoke(c.P, a.setNonce), Out: Called, Where: func(p *walk.Path, k walk.Call) bool {
					return ResultIs(p, p.Recv(k), lc, 0) && p.Same(p.Arg(k, 0), sess)
				}})
				if !ok {
					fail("the saved session never received this login's nonce (csrf.SetSessionNonce(session) missing on the path)")
					continue
				}
				if _, ok := Has(p, at, Need{M: walk.Invoke(c.P, a.validateSession), Idx: -1, Out: IsTrue, Where: func(p *walk.Path, k walk.Call) bool {
					return k.Idx > sn.Idx && p.Same(p.Arg(k, 1), sess)
				}}); !ok {
					fail("session is saved on a path where provider.ValidateSession(session) was not true after the nonce was set")
					continue
				}
				c.ok(rule, key, sv.In, "csrf.SetSessionNonce(session) precedes provider.ValidateSession(session)==true")
			case FacetPKCE:
				rc, ok := extractOfCall(p, sess, 0)
				if !ok || rc.C.StaticCallee() != a.redeemCode || !okLC {
					fail("the saved session is not the one redeemCode returned for this login's CSRF cookie")
					continue
				}
				gv, ok := extractOfCall(p, p.Arg(rc, 2), 0)
				if !ok || !walk.Invoke(c.P, a.getVerifier)(p, gv) || !ResultIs(p, p.Recv(gv), lc, 0) {
					fail("the code verifier presented at redemption is not GetCodeVerifier() of this login's CSRF cookie")
					continue
				}
				c.ok(rule, key, sv.In, "redeemCode(req, loadedCSRF.GetCodeVerifier())")
			case FacetIdP:
				rc, ok := extractOfCall(p, sess, 0)
				if !ok || rc.C.StaticCallee() != a.redeemCode {
					fail("the saved session is not the result of redeemCode")
					continue
				}
				if n, k := p.ResultNil(rc.DV(), 1, at); !(k && n) {
					fail("session is saved on a path where redeemCode's error is not known to be nil")
					continue
				}
				if _, ok := Has(p, at, Need{M: walk.Static(a.enrich), Idx: -1, Out: ErrNil, Where: func(p *walk.Path, k walk.Call) bool {
					return p.Same(p.Arg(k, 2), sess)
				}}); !ok {
					fail("session is saved on a path where enrichSessionState(session) did not return nil")
					continue
				}
				c.ok(rule, key, sv.In, "redeemCode err==nil and enrichSessionState(session)==nil")
			case FacetAuthz:
				if _, ok := Has(p, at, Need{M: walk.ThroughField(a.validatorF), Idx: -1, Out: IsTrue, Where: func(p *walk.Path, k walk.Call) bool {
					return fieldLoadOn(p, p.Arg(k, 0), a.emailF, sess)
				}}); !ok {
					fail("session is saved on a path where Validator(session.Email) was not true")
					continue
				}
				if _, ok := Has(p, at, Need{M: walk.Invoke(c.P, a.authorize), Idx: 0, Out: IsTrue, Where: func(p *walk.Path, k walk.Call) bool {
					return p.Same(p.Arg(k, 1), sess)
				}}); !ok {
					fail("session is saved on a path where provider.Authorize(session) was not true")
					continue
				}
				c.ok(rule, key, sv.In, "Validator(session.Email) && Authorize(session)#0")
			}
		}
	})
	if sinks == 0 {
		c.R.Unknown(rule, label+"|no-save-sink", c.P.Pos(a.callback.Pos()), "OAuthCallback contains no session save: the sink has moved")
	}
}
