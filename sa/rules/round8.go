package rules

import (
	"go/token"
	"go/types"
	"strings"

	"golang.org/x/tools/go/ssa"

	"oapsa/internal/prog"
	"oapsa/internal/walk"
)

// Rules written for the eighth seeding round (one change per property, caches excluded by the prompt).

// runLoginURLParamsVerbatim (C06.R11, C03.R11): makeLoginURL — the one builder behind every provider's GetLoginURL —
// puts its state and redirect_uri parameters into the query exactly as handed in. The state carries the application
// redirect; url.Values.Encode escapes it once and the identity provider echoes it back decoded once. A helper that
// unescapes (or re-escapes) it first makes the callback decode a different string: the user lands on /a/b instead of
// /a%2Fb, and a state whose redirect contains "%3A" no longer splits where it was joined.
func runLoginURLParamsVerbatim(c *Ctx, rule string) {
	fn := c.Fn(rule, "providers.makeLoginURL")
	if fn == nil || len(fn.Params) < 3 {
		return
	}
	want := map[string]ssa.Value{"redirect_uri": fn.Params[1], "state": fn.Params[2]}
	seen := map[string]bool{}
	for _, b := range fn.Blocks {
		for _, in := range b.Instrs {
			call, ok := in.(*ssa.Call)
			if !ok {
				continue
			}
			sc := call.Call.StaticCallee()
			if sc == nil || sc.Signature.Recv() == nil || !(sc.Name() == "Set" || sc.Name() == "Add") || !strings.HasSuffix(sc.Signature.Recv().Type().String(), "net/url.Values") || len(call.Call.Args) < 3 {
				continue
			}
			k, ok := ConstString(call.Call.Args[1])
			if !ok || want[k] == nil {
				continue
			}
			seen[k] = true
			key := "verbatim|" + k + "|" + fnKey(fn)
			if unwrap0(call.Call.Args[2]) == want[k] {
				c.ok(rule, key, in, "params."+sc.Name()+"(\""+k+"\", <the parameter itself>)")
			} else {
				c.R.Bad(rule, key, c.pos(in), "the "+k+" sent to the identity provider is not the value makeLoginURL was handed (it is transformed first): what comes back at the callback decodes to a different state / redirect than the one this login started with", nil, nil)
			}
		}
	}
	for k := range want {
		if !seen[k] {
			c.R.Unknown(rule, "verbatim|"+k+"|none", c.P.Pos(fn.Pos()), "makeLoginURL no longer adds "+k+" through url.Values.Set/Add with a constant key")
		}
	}
}

// runNonceErrorsTested (C05.R12, under C03.R4): NewCSRF hands out a CSRF object only on paths where EVERY
// encryption.Nonce call it made returned a nil error — each call's own error, not a neighbour's. An untested failure of
// the second draw yields an empty OIDC nonce; HashNonce("") == "" then matches an ID token without a nonce claim.
func runNonceErrorsTested(c *Ctx, rule string) {
	fn := c.Fn(rule, "pkg/cookies.NewCSRF")
	nonce := c.Fn(rule, "pkg/encryption.Nonce")
	if fn == nil || nonce == nil {
		return
	}
	key := "each-draw-tested|" + fnKey(fn)
	n, bad := 0, false
	c.Walk(rule, fn, func(p *walk.Path) {
		ev, ok := p.ReturnDV(1)
		if !ok || !DefinitelyNil(p, ev, p.End()) {
			return
		}
		draws := p.Find(walk.Static(nonce), p.End())
		n += len(draws)
		for _, d := range draws {
			if isNil, known := p.ResultNil(d.DV(), 1, p.End()); !(known && isNil) && !bad {
				bad = true
				c.bad(rule, key, d.In, "NewCSRF returns a CSRF object on a path where the error of this random draw was never found nil (another call's error was tested instead): a failed draw leaves the state or the OIDC nonce empty, and an empty nonce matches a token that carries none", p, p.End())
			}
		}
	})
	switch {
	case n == 0:
		c.R.Unknown(rule, key, c.P.Pos(fn.Pos()), "no encryption.Nonce call on NewCSRF's success paths")
	case !bad:
		c.R.OK(rule, key, c.P.Pos(fn.Pos()), "every random draw on a success path had its own error tested nil")
	}
}

// runRefreshOverrideOwnSession (C12.R16): a RefreshSession override that delegates hands the delegate the caller's own
// session object. Refreshing a scratch copy and copying "the interesting fields" back loses whatever the list forgets —
// a rotated refresh token, for one: the next refresh replays the spent token.
func runRefreshOverrideOwnSession(c *Ctx, rule string) {
	sessT := c.P.Named("pkg/apis/sessions.SessionState")
	if sessT == nil {
		c.R.Unknown(rule, "anchor:SessionState", "-", "type not found")
		return
	}
	isRefreshSig := func(sig *types.Signature) bool {
		if sig == nil || sig.Params().Len() != 2 || sig.Results().Len() != 2 {
			return false
		}
		pt, ok := sig.Params().At(1).Type().(*types.Pointer)
		if !ok || !types.Identical(pt.Elem(), sessT) {
			return false
		}
		b, ok := sig.Results().At(0).Type().Underlying().(*types.Basic)
		return ok && b.Kind() == types.Bool
	}
	n := 0
	for _, fn := range c.P.ModFns {
		if fn.Name() != "RefreshSession" || prog.Short(prog.FnPkg(fn).Path()) != "providers" || len(fn.Params) < 3 || len(fn.Blocks) == 0 {
			continue
		}
		sp := fn.Params[2]
		for _, b := range fn.Blocks {
			for _, in := range b.Instrs {
				call, ok := in.(*ssa.Call)
				if !ok || !isRefreshSig(call.Call.Signature()) {
					continue
				}
				n++
				key := "delegate-gets-own-session|" + fnKey(fn)
				args := call.Call.Args
				if len(args) > 0 && unwrap0(args[len(args)-1]) == ssa.Value(sp) {
					c.ok(rule, key, in, "the delegate refreshes the caller's session object")
				} else {
					c.R.Bad(rule, key, c.pos(in), "the delegated refresh is run on something other than the session this method was handed (a scratch copy): fields not copied back — the rotated refresh token — are lost, and the next refresh replays the spent one", nil, nil)
				}
			}
		}
	}
	if n == 0 {
		c.R.Unknown(rule, "delegate-gets-own-session|none", "-", "no delegating RefreshSession override found (Keycloak-OIDC, GitLab, Entra ID, ADFS today)")
	}
}

// runStatusOnlyAfterError (C14.R12): the status code of a requests.Result is meaningful only when the round trip
// happened. StatusCode() answers 0 when there was no response at all (refused or dropped connection, cancelled
// context, body cut short), so every consultation of it in provider code sits behind result.Error() == nil on the path.
// A range test such as "not 200 but below 400 means nothing to add" otherwise reads a transport failure as success.
func runStatusOnlyAfterError(c *Ctx, rule string) {
	errM := c.Method(rule, "pkg/requests.Result.Error")
	statusM := c.Method(rule, "pkg/requests.Result.StatusCode")
	if errM == nil || statusM == nil {
		return
	}
	n := 0
	for _, fn := range c.P.ModFns {
		pk := prog.Short(prog.FnPkg(fn).Path())
		if !(pk == "providers" || strings.HasPrefix(pk, "pkg/providers")) || len(fn.Blocks) == 0 {
			continue
		}
		uses := false
		for _, b := range fn.Blocks {
			for _, in := range b.Instrs {
				if ci, ok := in.(ssa.CallInstruction); ok && ci.Common().IsInvoke() && walk.SameMethod(ci.Common().Method, statusM) {
					uses = true
				}
			}
		}
		if !uses {
			continue
		}
		fn := fn
		key := "status-after-error|" + fnKey(fn)
		bad := false
		c.WalkShallow(rule, fn, func(p *walk.Path) {
			for _, sc := range p.FindTop(walk.Invoke(c.P, statusM), p.End()) {
				n++
				okErr := false
				for _, ec := range p.FindTop(walk.Invoke(c.P, errM), sc.Idx) {
					if p.Same(p.Recv(ec), p.Recv(sc)) {
						if isNil, known := p.ResultNil(ec.DV(), -1, sc.Idx); known && isNil {
							okErr = true
						}
					}
				}
				if !okErr && !bad {
					bad = true
					c.bad(rule, key, sc.In, "the status code of an identity-provider call is consulted on a path where result.Error() was not found nil: with no response at all (connection refused or dropped, truncated body) StatusCode() is 0, and a range test reads that as an answer", p, sc.Idx)
				}
			}
		})
		if !bad {
			c.R.OK(rule, key, c.P.Pos(fn.Pos()), "StatusCode() consulted only after Error()==nil")
		}
	}
	if n == 0 {
		c.R.Unknown(rule, "status-after-error|none", "-", "no provider code consults Result.StatusCode() (validateToken, GitHub isCollaborator today)")
	}
}

// runOwnEndpointKeyVerbatim (C13.R12, C17.R12): the ping/health middleware answers a request only when the request's
// own escaped path (or its User-Agent) IS a member of the configured set: the key looked up is the accessor's result
// itself. Prefix walks, trimming or a forwarded path make it answer for other paths — the readiness endpoint configured
// beneath the ping path is then answered 200 by the health check while the store is down, and authenticated traffic for
// such paths never reaches its upstream.
func runOwnEndpointKeyVerbatim(c *Ctx, rule string) {
	fn := c.Fn(rule, "pkg/middleware.isHealthCheckRequest")
	if fn == nil {
		return
	}
	key := "member-of-set|" + fnKey(fn)
	n, bad := 0, false
	c.Walk(rule, fn, func(p *walk.Path) {
		rv, ok := p.ReturnDV(0)
		if !ok {
			return
		}
		if b, k := p.Truth(rv, p.End()); k && !b {
			return
		}
		n++
		// a true verdict needs a comma-ok map lookup that hit, keyed by EscapedPath() or Header.Get(...) verbatim
		hit := false
		for _, a := range p.Atoms(p.End()) {
			if a.IsNil || !a.Val {
				continue
			}
			ex, ok := p.Resolve(a.DV).V.(*ssa.Extract)
			if !ok || ex.Index != 1 {
				continue
			}
			lk, ok := ex.Tuple.(*ssa.Lookup)
			if !ok || !lk.CommaOk {
				continue
			}
			kv := p.Resolve(p.Op(lk.Index, p.Resolve(p.Op(ex.Tuple, p.Resolve(a.DV))))).V
			if call, ok := kv.(*ssa.Call); ok {
				if sc := call.Call.StaticCallee(); sc != nil && (sc.Name() == "EscapedPath" || (sc.Name() == "Get" && sc.Signature.Recv() != nil && strings.HasSuffix(sc.Signature.Recv().Type().String(), "net/http.Header"))) {
					hit = true
				}
			}
		}
		if !hit && !bad {
			bad = true
			c.bad(rule, key, p.Exit, "the health-check middleware can claim a request without its own escaped path (or User-Agent) being a member of the configured set as it stands: paths beneath, beside or forwarded as the ping path — the readiness endpoint among them — are answered 200 here and never reach the store check or the upstream", p, p.End())
		}
	})
	switch {
	case n == 0:
		c.R.Unknown(rule, key, c.P.Pos(fn.Pos()), "isHealthCheckRequest has no true return")
	case !bad:
		c.R.OK(rule, key, c.P.Pos(fn.Pos()), "true only on a set hit of req.URL.EscapedPath() or the User-Agent header, verbatim")
	}
}

// runAzureVerifyNilOnlyVerified (C04.R13): the legacy Azure provider's verifySessionToken answers nil only without a
// verifier or after some Verifier.Verify call of that path returned a nil error. (Which token's claims are then read
// stays the unclaimed site noted under C04; this decides that SOMETHING verified.)
func runAzureVerifyNilOnlyVerified(c *Ctx, rule string) {
	fn := c.Fn(rule, "(*providers.AzureProvider).verifySessionToken")
	verifierF := c.Field(rule, "providers.ProviderData.Verifier")
	if fn == nil || verifierF == nil {
		return
	}
	key := "nil-only-verified|" + fnKey(fn)
	n, bad := 0, false
	c.Walk(rule, fn, func(p *walk.Path) {
		ev, ok := p.ReturnDV(0)
		if !ok || !DefinitelyNil(p, ev, p.End()) {
			// a return whose error is not definitely nil: also fine when it is definitely non-nil; "unknown" is judged below
			if ok {
				if isNil, known := p.Nil(ev, p.End()); known && !isNil {
					return
				}
			} else {
				return
			}
		}
		n++
		verified := false
		for _, cl := range p.Calls() {
			if cl.C.IsInvoke() && cl.C.Method.Name() == "Verify" {
				if isNil, known := p.ResultNil(cl.DV(), 1, p.End()); known && isNil {
					verified = true
				}
			}
		}
		noVerifier := false
		for _, a := range p.Atoms(p.End()) {
			if a.IsNil && a.Val && walk.IsFieldLoad(p.Resolve(a.DV).V, verifierF) {
				noVerifier = true
			}
		}
		if !verified && !noVerifier && !bad {
			bad = true
			c.bad(rule, key, p.Exit, "verifySessionToken can answer nil (or an error not known to be non-nil) with a verifier configured and no Verify call of the path having succeeded: claims are then read from a token nobody verified", p, p.End())
		}
	})
	switch {
	case n == 0:
		c.R.Unknown(rule, key, c.P.Pos(fn.Pos()), "verifySessionToken has no nil return")
	case !bad:
		c.R.OK(rule, key, c.P.Pos(fn.Pos()), "nil only without a verifier or after a Verify that returned nil")
	}
}

// runGoogleValidatorRederivesGroups (C08.R12): the Google group validator — run at login and on every refresh — replaces
// the session's groups on EVERY path with the memberships it just found (possibly none). Authorize reads s.Groups on
// every request; a validator that leaves the login-time groups in place when it finds no membership keeps a removed
// member authorised for as long as the refresh token works.
func runGoogleValidatorRederivesGroups(c *Ctx, rule string) {
	outer := c.Fn(rule, "(*providers.GoogleProvider).setGroupRestriction")
	groupsF := c.Field(rule, "pkg/apis/sessions.SessionState.Groups")
	if outer == nil || groupsF == nil {
		return
	}
	n := 0
	// the validator is whatever setGroupRestriction stores into the provider's groupValidator field: a closure literal or
	// a bound method value (neutral batch 9); its session is its last parameter
	var validators []*ssa.Function
	for _, b := range outer.Blocks {
		for _, in := range b.Instrs {
			st, ok := in.(*ssa.Store)
			if !ok {
				continue
			}
			fa, ok := st.Addr.(*ssa.FieldAddr)
			if !ok || walk.FieldOf(fa.X.Type(), fa.Field) == nil || walk.FieldOf(fa.X.Type(), fa.Field).Name() != "groupValidator" {
				continue
			}
			var fn *ssa.Function
			switch x := unwrap0(st.Val).(type) {
			case *ssa.MakeClosure:
				fn, _ = x.Fn.(*ssa.Function)
			case *ssa.Function:
				fn = x
			}
			if fn != nil && fn.Synthetic != "" {
				if m := boundOf(fn); m != nil {
					fn = m
				}
			}
			if fn != nil && len(fn.Blocks) > 0 && len(fn.Params) > 0 {
				validators = append(validators, fn)
			}
		}
	}
	for _, an := range validators {
		an := an
		sessP := an.Params[len(an.Params)-1]
		key := "groups-reset-on-every-path|" + fnKey(an)
		bad := false
		c.Walk(rule, an, func(p *walk.Path) {
			if _, ok := p.Exit.(*ssa.Return); !ok {
				return
			}
			n++
			// the first store to s.Groups on the path must not depend on the groups the session came with
			reset := false
			for _, s := range p.Steps {
				st, ok := s.In.(*ssa.Store)
				if !ok || s.F != 0 {
					continue
				}
				fa, ok := st.Addr.(*ssa.FieldAddr)
				if !ok || fa.X != ssa.Value(sessP) || walk.FieldOf(fa.X.Type(), fa.Field) != groupsF {
					continue
				}
				dependsOnOld := false
				seen := map[ssa.Value]bool{}
				var dep func(v ssa.Value, d int)
				dep = func(v ssa.Value, d int) {
					if v == nil || d > 8 || seen[v] {
						return
					}
					seen[v] = true
					if ld, ok := v.(*ssa.UnOp); ok && ld.Op == token.MUL {
						if a, ok := ld.X.(*ssa.FieldAddr); ok && a.X == ssa.Value(sessP) && walk.FieldOf(a.X.Type(), a.Field) == groupsF {
							dependsOnOld = true
						}
					}
					if in, ok := v.(ssa.Instruction); ok {
						for _, op := range in.Operands(nil) {
							if op != nil && *op != nil {
								dep(*op, d+1)
							}
						}
					}
				}
				dep(st.Val, 0)
				reset = !dependsOnOld
				break
			}
			if !reset && !bad {
				bad = true
				c.bad(rule, key, p.Exit, "the Google group validator can return without having replaced the session's groups by the memberships it just looked up (the first write to s.Groups is missing on this path, or extends the old list): a member removed from every allowed group keeps the login-time groups, and Authorize keeps passing", p, p.End())
			}
		})
		if !bad && n > 0 {
			c.R.OK(rule, key, c.P.Pos(an.Pos()), "every path first replaces s.Groups by a freshly made list")
		}
	}
	if n == 0 {
		c.R.Unknown(rule, "groups-reset-on-every-path|none", c.P.Pos(outer.Pos()), "the group validator closure of setGroupRestriction was not found")
	}
}

// runNoCookieSentinelOnlyFromRequest (C11.R11, C13.R13): Manager.Clear and Manager.Save read http.ErrNoCookie from
// decodeTicketFromRequest as "the request carries no ticket: nothing to delete". The decoder therefore hands that
// sentinel back only as the error of req.Cookie itself; a ticket cookie that is present but fails validation (another
// replica's clock, a rotated secret) is an error of its own — otherwise sign-out answers the success redirect without
// ever asking the store to delete the session.
func runNoCookieSentinelOnlyFromRequest(c *Ctx, rule string) {
	fn := c.Fn(rule, "pkg/sessions/persistence.decodeTicketFromRequest")
	if fn == nil {
		return
	}
	key := "sentinel-only-from-request|" + fnKey(fn)
	n, bad := 0, false
	for _, b := range fn.Blocks {
		ret, ok := b.Instrs[len(b.Instrs)-1].(*ssa.Return)
		if !ok || len(ret.Results) < 2 {
			continue
		}
		n++
		for _, o := range c.origins(ret.Results[1], 0) {
			if globalLoad(o) == "net/http.ErrNoCookie" {
				bad = true
				c.R.Bad(rule, key, c.pos(ret), "decodeTicketFromRequest answers http.ErrNoCookie for a ticket cookie that IS present (it failed validation or decoding): Manager.Clear reads the sentinel as 'nothing to clear' and sign-out redirects while the stored session is still there", nil, nil)
			}
		}
	}
	if n > 0 && !bad {
		c.R.OK(rule, key, c.P.Pos(fn.Pos()), "http.ErrNoCookie reaches the caller only as req.Cookie's own error")
	}
}

// runTimerResetNeedsValidation (C12.R17) — reports defect 17, recorded as a KNOWN FINDING (known_findings.json; DESIGN §7).
// For providers without refresh support refreshSession "pretends it refreshed": it re-stamps the session and SAVES it,
// and only afterwards refreshSessionIfNeeded asks the provider to re-validate. Between that save and the loader's Clear
// after a failed validation the store holds a session that looks fresh: a second request with the same ticket is served
// without any validation (shown against the real code with the Redis store; see findings/). The
// rule: on the not-implemented path, the save of the re-stamped session comes after sessionValidator answered true.
func runTimerResetNeedsValidation(c *Ctx, rule string) {
	a := c.c12Anchors(rule)
	saveM := c.Method(rule, "pkg/apis/sessions.SessionStore.Save")
	if a == nil || saveM == nil {
		return
	}
	n := 0
	key := "restamp-saved-before-validation|" + fnKey(a.rs)
	bad := false
	c.Walk(rule, a.rs, func(p *walk.Path) {
		for _, sv := range p.FindTop(walk.Invoke(c.P, saveM), p.End()) {
			rc, ok := Has(p, sv.Idx, Need{M: walk.ThroughField(a.refresherF), Out: Called})
			if !ok {
				continue
			}
			ek, _, _ := callErrDV(p, rc)
			if !hasErrorsIsAtom(p, sv.Idx, ek, "providers.ErrNotImplemented", true) {
				continue // a real refresh: the provider just issued these tokens
			}
			n++
			validated := false
			for _, v := range p.Find(walk.ThroughField(a.validatorF), sv.Idx) {
				if t, known := p.ResultTruth(v.DV(), 0, sv.Idx); known && t {
					validated = true
				}
			}
			for _, v := range p.Find(walk.Static(a.vs), sv.Idx) {
				if isNil, known := p.ResultNil(v.DV(), -1, sv.Idx); known && isNil {
					validated = true // validateSession(...) == nil: not expired and accepted by the provider
				}
			}
			if validated {
				continue
			}
			if !bad {
				bad = true
				c.bad(rule, key, sv.In, "for a provider without refresh support the stale session is re-stamped and saved BEFORE the provider has re-validated it: until the failed validation clears it, any request with the same ticket loads a session that looks fresh and is served unvalidated", p, sv.Idx)
			}
		}
	})
	switch {
	case n == 0:
		c.R.OK(rule, key, c.P.Pos(a.rs.Pos()), "refreshSession does not save on the not-implemented path (the timer is reset elsewhere, after validation)")
	case !bad:
		c.R.OK(rule, key, c.P.Pos(a.rs.Pos()), "the re-stamped session is saved only after sessionValidator answered true")
	}
}

// runPartNamesMatchTheSweep (C11.R12, C10.R12) — reports defect 18, recorded as a KNOWN FINDING (known_findings.json;
// DESIGN §7). The loader finds the parts of a split session by splitCookieName(name, i); Clear and the stale-cookie sweep
// of Save select them by ^QuoteMeta(name)(_\d+)?$. The two agree only while splitCookieName returns name_i. It
// TRUNCATES the name when name_i would exceed 256 bytes, and validation accepts names of up to 256 bytes: for a 255-byte
// name every part is called name[:254]_i, which the sweeps never match — sign-out reports success and leaves every part
// in the browser. The rule: the name operand of splitCookieName's result is the parameter itself on every path.
func runPartNamesMatchTheSweep(c *Ctx, rule string) {
	fn := c.Fn(rule, "pkg/sessions/cookie.splitCookieName")
	if fn == nil || len(fn.Params) == 0 {
		return
	}
	key := "part-name-is-name_i|" + fnKey(fn)
	bad := false
	for _, b := range fn.Blocks {
		for _, in := range b.Instrs {
			if sl, ok := in.(*ssa.Slice); ok && unwrap0(sl.X) == ssa.Value(fn.Params[0]) && !bad {
				bad = true
				c.R.Bad(rule, key, c.pos(in), "splitCookieName cuts the configured cookie name short for long names: the part names it hands the splitter and the loader are then not of the form name_i, which is what Clear and the stale-cookie sweep select by — for a validated cookie name of 255 or 256 bytes sign-out leaves every part of a split session in the browser and the session loads again", nil, nil)
			}
		}
	}
	if !bad {
		c.R.OK(rule, key, c.P.Pos(fn.Pos()), "part names are always <configured name>_<i>")
	}
}

// ---- round 9 (half round: ten properties) -------------------------------------------------------------------------

// runLoginGovVerifyNilOnlyParsed (C04.R14): login.gov's checkNonce — that provider's only verification of the ID token
// (signature, expiry, not-before through golang-jwt) — answers nil only on paths where jwt.ParseWithClaims returned a nil
// error. golang-jwt wraps EVERY registered-claim failure (expired, not yet valid) in ErrTokenInvalidClaims; tolerating
// that sentinel "for clock skew" accepts expired tokens.
func runLoginGovVerifyNilOnlyParsed(c *Ctx, rule string) {
	fn := c.Fn(rule, "providers.checkNonce")
	if fn == nil {
		return
	}
	key := "nil-only-parsed|" + fnKey(fn)
	n, bad := 0, false
	c.Walk(rule, fn, func(p *walk.Path) {
		ev, ok := p.ReturnDV(0)
		if !ok {
			return
		}
		if isNil, known := p.Nil(ev, p.End()); known && !isNil {
			return
		}
		n++
		parsed := false
		for _, cl := range p.Calls() {
			if sc := cl.C.StaticCallee(); sc != nil && sc.Name() == "ParseWithClaims" {
				if isNil, known := p.ResultNil(cl.DV(), 1, p.End()); known && isNil {
					parsed = true
				}
			}
		}
		if !parsed && !bad {
			bad = true
			c.bad(rule, key, p.Exit, "login.gov's checkNonce can answer nil although jwt.ParseWithClaims did not return a nil error (an error class is tolerated): an expired or not-yet-valid ID token is accepted at the callback", p, p.End())
		}
	})
	switch {
	case n == 0:
		c.R.Unknown(rule, key, c.P.Pos(fn.Pos()), "checkNonce has no nil return")
	case !bad:
		c.R.OK(rule, key, c.P.Pos(fn.Pos()), "nil only after ParseWithClaims returned no error (and the nonce matched)")
	}
}

// runHtpasswdRecordStoredOrReported (C20.R10): passShaOrBcrypt — called once per record of the file — either stores the
// record in the map being built or reports it as invalid; no record is dropped silently. createHtpasswdMap turns any
// reported record into a parse failure, which is what keeps the previous contents in force for a file cut off in the
// middle of a record ("user:" with the hash still unwritten).
func runHtpasswdRecordStoredOrReported(c *Ctx, rule string) {
	fn := c.Fn(rule, "pkg/authentication/basic.passShaOrBcrypt")
	if fn == nil {
		return
	}
	key := "stored-or-reported|" + fnKey(fn)
	n, bad := 0, false
	c.Walk(rule, fn, func(p *walk.Path) {
		if _, ok := p.Exit.(*ssa.Return); !ok {
			return
		}
		n++
		stored, reported := false, false
		for _, s := range p.Steps {
			switch x := s.In.(type) {
			case *ssa.MapUpdate:
				stored = true
			case *ssa.Call:
				if b, ok := x.Call.Value.(*ssa.Builtin); ok && b.Name() == "append" {
					reported = true
				}
			}
		}
		if !stored && !reported && !bad {
			bad = true
			c.bad(rule, key, p.Exit, "a record of the htpasswd file can be neither stored nor reported as invalid: a file cut off inside a record then parses as a success and replaces the previous contents, dropping that user until the next reload", p, p.End())
		}
	})
	switch {
	case n == 0:
		c.R.Unknown(rule, key, c.P.Pos(fn.Pos()), "passShaOrBcrypt has no return")
	case !bad:
		c.R.OK(rule, key, c.P.Pos(fn.Pos()), "every path stores the record or appends it to the invalid entries")
	}
}

// runEmailDomainsVerbatim (C08.R13): the operator's email_domains are rewritten by nobody between option loading and the
// validator built from them; the validator's own constructor (newValidatorImpl) lower-cases its input in place, which is
// the consumer normalising what it was handed.
func runEmailDomainsVerbatim(c *Ctx, rule string) {
	f := c.Field(rule, "pkg/apis/options.Options.EmailDomains")
	if f == nil {
		return
	}
	n, bad := 0, false
	for _, fn := range c.P.ModFns {
		if strings.HasPrefix(prog.Short(prog.FnPkg(fn).Path()), "pkg/apis/options") {
			continue
		}
		for _, b := range fn.Blocks {
			for _, in := range b.Instrs {
				ld, ok := in.(*ssa.UnOp)
				if !ok || !walk.IsFieldLoad(ld, f) {
					continue
				}
				n++
				if why := mutatesSlice(c, ld, 0); why != "" && !strings.Contains(why, "main.newValidatorImpl") {
					bad = true
					c.bad(rule, "mutated|EmailDomains|"+fnKey(fn), in, "the operator's email_domains list is "+why+" before the validator is built from it: '.example.com' (sub-domains only) trimmed to 'example.com' admits other addresses than the rule that was configured", nil, 0)
				}
			}
		}
	}
	for _, ref := range c.fieldRefs(f) {
		if ref.Kind == "store" && !strings.HasPrefix(prog.Short(prog.FnPkg(ref.Fn).Path()), "pkg/apis/options") {
			bad = true
			c.bad(rule, "field-store|EmailDomains|"+fnKey(ref.Fn), ref.In, "Options.EmailDomains is reassigned outside option loading", nil, 0)
		}
	}
	switch {
	case n == 0:
		c.R.Unknown(rule, "readers|EmailDomains", "-", "no reader of Options.EmailDomains found")
	case !bad:
		c.R.OK(rule, "read-only|EmailDomains", "-", sprintf("%d load(s) of Options.EmailDomains outside option loading; only the validator's own constructor normalises its copy", n))
	}
}
