package rules

import (
	"go/token"
	"go/types"
	"strings"

	"golang.org/x/tools/go/ssa"

	"oapsa/internal/prog"
	"oapsa/internal/walk"
)

// staticReach: functions reachable from fn through static calls and closures created, within the module.
func (c *Ctx) staticReach(fn *ssa.Function, depth int) map[*ssa.Function]bool {
	seen := map[*ssa.Function]bool{}
	var visit func(f *ssa.Function, d int)
	visit = func(f *ssa.Function, d int) {
		if f == nil || seen[f] || d > depth || !c.P.InModule(f) {
			return
		}
		seen[f] = true
		for _, b := range f.Blocks {
			for _, in := range b.Instrs {
				switch x := in.(type) {
				case ssa.CallInstruction:
					if sc := x.Common().StaticCallee(); sc != nil {
						visit(sc, d+1)
					}
				case *ssa.MakeClosure:
					visit(x.Fn.(*ssa.Function), d+1)
				}
				for _, op := range in.Operands(nil) {
					if g, ok := (*op).(*ssa.Function); ok && g.Parent() == f {
						visit(g, d+1)
					}
				}
			}
		}
	}
	visit(fn, 0)
	return seen
}

// handlerTarget resolves the handler value registered on a route: the function that will run and
// the alice chain field (if any) it is wrapped in.
func handlerTarget(v ssa.Value) (target *ssa.Function, chain *types.Var, ok bool) {
	v = unwrap(v)
	switch x := v.(type) {
	case *ssa.MakeClosure:
		fn := x.Fn.(*ssa.Function)
		if fn.Synthetic != "" && strings.HasSuffix(fn.Name(), "$bound") {
			if b := boundOf(fn); b != nil {
				return b, nil, true
			}
		}
		return fn, nil, true
	case *ssa.Function:
		return x, nil, true
	case *ssa.Call:
		sc := x.Call.StaticCallee()
		if sc != nil && sc.Pkg != nil && sc.Pkg.Pkg.Path() == "github.com/justinas/alice" && (sc.Name() == "ThenFunc" || sc.Name() == "Then") && len(x.Call.Args) == 2 {
			t, inner, ok := handlerTarget(x.Call.Args[1])
			if !ok || inner != nil {
				return nil, nil, false
			}
			if ld, ok := x.Call.Args[0].(*ssa.UnOp); ok && ld.Op == token.MUL {
				if fa, ok := ld.X.(*ssa.FieldAddr); ok {
					return t, walk.FieldOf(fa.X.Type(), fa.Field), true
				}
			}
			return nil, nil, false
		}
		if sc != nil && sc.Pkg != nil && sc.Pkg.Pkg.Path() == "net/http" {
			// std handlers (file server, StripPrefix): no module code runs
			return nil, nil, true
		}
	}
	return nil, nil, false
}

func runC01R8(c *Ctx, sessionHandlers map[*ssa.Function]bool, gas *ssa.Function) {
	rule := "R8-route-table"
	sessionChainF := c.Field(rule, "main.OAuthProxy.sessionChain")
	preAuthF := c.Field(rule, "main.OAuthProxy.preAuthChain")
	bsm := c.Fn(rule, "(*main.OAuthProxy).buildServeMux")
	if sessionChainF == nil || preAuthF == nil || bsm == nil {
		return
	}
	mainPkg := c.P.Main.Types
	registered := map[*ssa.Function]bool{}
	for _, fn := range c.P.ModFns {
		if prog.FnPkg(fn) != mainPkg {
			continue
		}
		for _, b := range fn.Blocks {
			for _, in := range b.Instrs {
				ci, ok := in.(ssa.CallInstruction)
				if !ok {
					continue
				}
				sc := ci.Common().StaticCallee()
				if sc == nil || sc.Pkg == nil || sc.Pkg.Pkg.Path() != "github.com/gorilla/mux" || (sc.Name() != "Handler" && sc.Name() != "HandlerFunc") {
					continue
				}
				c.R.CallSites++
				target, chain, ok := handlerTarget(ci.Common().Args[1])
				if !ok {
					c.R.Unknown(rule, "route|unresolved|"+fnKey(fn), c.pos(in), "cannot resolve the handler registered on this route")
					continue
				}
				if target == nil {
					c.ok(rule, "route|std-handler|"+fnKey(fn), in, "standard-library handler, consumes no session")
					continue
				}
				registered[target] = true
				key := "route|" + prog.Name(target)
				consumes := c.staticReach(target, 6)[gas]
				switch {
				case consumes && chain == sessionChainF:
					c.ok(rule, key, in, "session-consuming handler registered through sessionChain")
				case consumes:
					c.bad(rule, key, in, "handler "+prog.Name(target)+" reads the authenticated session but is registered without sessionChain: a valid credential is never loaded for it", nil, 0)
				default:
					c.ok(rule, key, in, "handler does not call getAuthenticatedSession")
				}
			}
		}
	}
	for h := range sessionHandlers {
		if !registered[h] {
			c.R.Unknown(rule, "route|missing|"+prog.Name(h), "-", "protected handler is not registered on any route")
		}
	}
	// preAuthChain installed on the root router before any route
	installed := false
	for _, b := range bsm.Blocks {
		for _, in := range b.Instrs {
			ci, ok := in.(ssa.CallInstruction)
			if !ok {
				continue
			}
			sc := ci.Common().StaticCallee()
			if sc == nil || sc.Pkg == nil || sc.Pkg.Pkg.Path() != "github.com/gorilla/mux" {
				continue
			}
			if sc.Name() == "Use" {
				// some closure bound over a load of p.preAuthChain must exist before this call in the same block
				for _, in2 := range b.Instrs {
					if in2 == in {
						break
					}
					if mc, ok := in2.(*ssa.MakeClosure); ok && len(mc.Bindings) == 1 {
						if walk.IsFieldLoad(mc.Bindings[0], preAuthF) && strings.HasPrefix(mc.Fn.Name(), "Then") {
							installed = true
						}
					}
				}
				if installed {
					c.ok(rule, "preauth|Use", in, "root router Use(p.preAuthChain.Then) precedes every route")
				}
			}
			if (sc.Name() == "Handler" || sc.Name() == "HandlerFunc") && !installed {
				c.bad(rule, "preauth|order", in, "a route is registered before preAuthChain is installed on the root router", nil, 0)
			}
		}
	}
	if !installed {
		c.bad(rule, "preauth|Use", bsm.Blocks[0].Instrs[0], "preAuthChain is not installed with Use on the root router: no request scope, no health/readiness handling", nil, 0)
	}
}

// runBasicSplitRule: a Basic credential "user:password" is split at the FIRST colon only (RFC 7617: the
// password may contain colons). getBasicAuthCredentials divides the decoded token with
// strings.SplitN(·, ":", 2) / strings.Cut / an index of the first ':' — never a full strings.Split whose part
// count rejects a correct password that contains a colon (the converse clause: a credential that verifies is served).
func runBasicSplitRule(c *Ctx, rule string) {
	runFirstColonRule(c, rule, "pkg/middleware.getBasicAuthCredentials")
}

// runFirstColonRule: the named function divides its "a:b" input at the FIRST colon only; the second part may itself
// contain colons (a password; the application redirect carried in the OAuth state, e.g. "https://app/..." or
// "/reports?from=08:30").
func runFirstColonRule(c *Ctx, rule, name string) {
	fn := c.Fn(rule, name)
	if fn == nil {
		return
	}
	n := 0
	for _, b := range fn.Blocks {
		for _, in := range b.Instrs {
			call, ok := in.(*ssa.Call)
			if !ok {
				continue
			}
			cc := &call.Call
			sepOK := func(i int) bool {
				if i >= len(cc.Args) {
					return false
				}
				s, ok := ConstString(cc.Args[i])
				return ok && s == ":"
			}
			key := "first-colon|" + fnKey(fn)
			switch {
			case isStd(cc, "strings", "SplitN") && sepOK(1):
				n++
				if k, ok := ConstInt(cc.Args[2]); ok && k == 2 {
					c.ok(rule, key, in, "strings.SplitN(token, \":\", 2)")
				} else {
					c.R.Bad(rule, key, c.pos(in), "the value is split into a number of parts other than two: a second part containing ':' is mangled or refused", nil, nil)
				}
			case isStd(cc, "strings", "Cut") && sepOK(1), isStd(cc, "strings", "Index") && sepOK(1), isStd(cc, "strings", "IndexByte"), isStd(cc, "strings", "IndexRune"):
				n++
				c.ok(rule, key, in, "cut at the first ':'")
			case isStd(cc, "strings", "Split") && sepOK(1), isStd(cc, "strings", "LastIndex") && sepOK(1), isStd(cc, "strings", "Fields"):
				n++
				c.R.Bad(rule, key, c.pos(in), "the value is split at every ':' (or at the last one): a correct second part that contains a colon (a password, a redirect such as https://… or /x?t=08:30) is refused", nil, nil)
			}
		}
	}
	if n == 0 {
		c.R.Unknown(rule, "first-colon|none", c.P.Pos(fn.Pos()), name+" does not split its input with a recognised first-colon idiom")
	}
}
