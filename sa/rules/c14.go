package rules

import (
	"go/token"
	"sort"
	"strings"

	"golang.org/x/tools/go/ssa"

	"oapsa/internal/prog"
	"oapsa/internal/walk"
)

func init() {
	register(&Prop{
		ID:          "C14",
		Explanation: "Decides that identity-provider failures cannot yield a session by code shape: every saving path of the callback has redeemCode's error nil, the saved session is redeemCode's and enrichSessionState(session) returned nil; redeemCode returns a session only when provider.Redeem's error was nil; after a stale session's refresh attempt the result is validateSession's verdict (not-expired and provider validation), shared with C12.R4; at every call site of a Provider method (Redeem, EnrichSession, RefreshSession, ValidateSession, Authorize, CreateSessionFromToken, GetEmailAddress) the error result is returned/converted to a non-nil error or examined by a branch, and the boolean/session result is used; OIDC createSession tolerates a failed ID-token verification only for refresh with ErrMissingIDToken; and in all provider, claim-extraction and request packages reachable from ServeHTTP every unchecked type assertion, explicit panic, compiler-unproven index/slice and decoder-filled pointer used without a nil test is guarded or reviewed (the panic-source enumeration of C19 restricted to code that handles identity-provider data). Added during the build: createSession failure clauses (R5); provider code never finds a module callee's error non-nil and then returns success, reviewed fallbacks listed (R6); validateToken answers true only for a non-empty token, an error-free request and status 200 (R7); result-before-error-check dereferences in provider code (under R4). Round 3: bearer sessions only with a typed email_verified absent or true (R8); GitHub's isCollaborator pairs a nil error only with a true verdict (R9). Round 4: the HTTP helper all provider calls go through hands back a Result without error only when building, sending and completely reading the exchange all returned no error (R10). Round 5: every local structure an identity-provider response is decoded into is still zero at the decode call (R11). Round 7: request handling keeps no state of its own between requests — no store, map update, in-place builtin, atomic/sync.Map write or pointer-receiver library call (singleflight, caches) reached from ServeHTTP targets a package-level variable, an object built at start-up, or a constructor variable captured by the handler it returned, declared in the packages implementing this property (RS; a class-wide who-may-write rule with zero instances today: a correct memoisation would be reported until reviewed). P11 (nilable single-value map lookups never compared with nil) joins the panic-source scan. Round 8: provider code consults Result.StatusCode() only where Result.Error() was found nil (R12). Round 8 (class-wide, P12): in the packages implementing this property every named error result that is used at all is examined — compared with nil, returned, stored or handed to a non-formatting function — unless the code validates the value result instead (RE; zero instances today).",
		NotDecided:  "time-outs, oversized bodies and other resource behaviour; panics inside third-party decoders (go-oidc, jose, simplejson) on hostile bytes.",
		Run:         runC14,
	})
}

func runC14(c *Ctx) {
	c.R.Rule("RE-errors-examined", "in the packages implementing this property every named error result that is used at all is examined, or the value is validated instead (P12, class-wide, round 8)", 1)
	runErrorsExamined(c, "RE-errors-examined", "main", "providers", "pkg/providers", "pkg/requests")
	c.R.Rule("R12-status-only-after-error", "provider code consults Result.StatusCode() only on paths where Result.Error() was found nil: with no response at all the status is 0 (round 8)", 2)
	runStatusOnlyAfterError(c, "R12-status-only-after-error")
	c.R.Rule("RS-no-request-time-state", "request handling writes no state that outlives the request (package-level variables, objects built at start-up, constructor variables captured by handlers) declared in the packages implementing this property", 1)
	runStateless(c, "RS-no-request-time-state", "providers", "pkg/providers", "pkg/requests")
	r := c.R
	r.Rule("R1-callback", "save only with redeemCode err==nil and enrichSessionState==nil; redeemCode non-nil => Redeem err==nil", 2)
	r.Rule("R2-refresh-error", "a failed refresh keeps the session only by validateSession's verdict (C12.R4)", 4)
	r.Rule("R3-provider-results", "no Provider method result is dropped: errors propagated or examined, verdicts used", 8)
	r.Rule("R6-tested-then-dropped", "provider code never finds a module callee's error non-nil and then returns a nil error (shadowed or overwritten error variables, break-and-forget)", 50)
	r.Rule("R8-bearer-email-verified", "bearer sessions only with email_verified absent or true after typed decoding (shared with C04.R4)", 1)
	r.Rule("R9-github-collaborator-verdict", "isCollaborator pairs a nil error only with a true verdict (its caller returns the error when the verdict is false)", 1)
	r.Rule("R10-transport-failure-is-error", "the HTTP helper all provider calls go through hands back a Result without error only when building, sending and completely reading the exchange all returned no error", 1)
	r.Rule("R11-decode-target-zeroed", "every structure an identity-provider response is decoded into starts zeroed: a field the response leaves out reads as absent, never as a value of the old session", 15)
	r.Rule("R7-validate-token", "validateToken true => token non-empty, request error-free, status 200", 1)
	r.Rule("R4-panic-sources", "no unguarded panic source on decoded identity-provider data in request-reachable provider code", 8)
	r.Rule("R5-verification-failures", "createSession tolerates a verification failure only for refresh && ErrMissingIDToken", 2)

	// ---- R1 ---------------------------------------------------------------------------------
	rule := "R1-callback"
	a := c.cbAnchors(rule)
	redeemM := c.Method(rule, "providers.Provider.Redeem")
	if a != nil && redeemM != nil {
		c.checkCallbackSave(rule, a, FacetIdP, "save-needs-idp-success")
		c.Walk(rule, a.redeemCode, func(p *walk.Path) {
			rv, ok := p.ReturnDV(0)
			if !ok || DefinitelyNil(p, rv, p.End()) {
				return
			}
			key := "non-nil-return|" + fnKey(a.redeemCode)
			cl, ok := extractOfCall(p, rv, 0)
			if !ok || !walk.Invoke(c.P, redeemM)(p, cl) {
				c.bad(rule, key, p.Exit, "redeemCode returns a session that is not provider.Redeem's result", p, p.End())
				return
			}
			if n, k := p.ResultNil(cl.DV(), 1, p.End()); !(k && n) {
				c.bad(rule, key, p.Exit, "redeemCode returns the redeemed session although Redeem's error is not known to be nil", p, p.End())
				return
			}
			c.ok(rule, key, p.Exit, "provider.Redeem(...) err==nil")
		})
	}

	// ---- R2 ---------------------------------------------------------------------------------
	if a12 := c.c12Anchors("R2-refresh-error"); a12 != nil {
		c.checkStaleResult("R2-refresh-error", a12)
	}

	// ---- R3 ---------------------------------------------------------------------------------
	rule = "R3-provider-results"
	provT := c.P.Named("providers.Provider")
	if provT == nil {
		c.R.Unknown(rule, "anchor:providers.Provider", "-", "Provider interface not found")
	} else {
		family := map[string]bool{"Redeem": true, "EnrichSession": true, "RefreshSession": true, "ValidateSession": true, "Authorize": true, "CreateSessionFromToken": true, "GetEmailAddress": true}
		isFam := func(cc *ssa.CallCommon) string {
			if cc.IsInvoke() && family[cc.Method.Name()] && cc.Value.Type().String() == provT.String() {
				return "Provider." + cc.Method.Name()
			}
			return ""
		}
		for _, fn := range c.P.ModFns {
			has := false
			for _, b := range fn.Blocks {
				for _, in := range b.Instrs {
					if ci, ok := in.(ssa.CallInstruction); ok && isFam(ci.Common()) != "" {
						has = true
					}
				}
			}
			if !has {
				continue
			}
			fn := fn
			retIdx := errResultIndex(fn.Signature)
			c.WalkShallow(rule, fn, func(p *walk.Path) {
				if _, ok := p.Exit.(*ssa.Return); !ok {
					return
				}
				at := p.End()
				for _, cl := range p.Calls() {
					name := isFam(cl.C)
					if name == "" {
						continue
					}
					c.R.CallSites++
					key := "site|" + fnKey(fn) + "|" + name
					ek, single, idx := callErrDV(p, cl)
					if idx < 0 {
						// ValidateSession: boolean verdict must be examined or returned
						if _, known := p.ResultTruth(cl.DV(), -1, at); known {
							c.ok(rule, key, cl.In, "verdict examined")
						} else if ret, ok := p.ReturnDV(0); ok && p.Key(ret) == p.Key(cl.DV()) {
							c.ok(rule, key, cl.In, "verdict returned")
						} else {
							c.bad(rule, key, cl.In, "the provider's verdict is ignored on this path", p, at)
						}
						continue
					}
					ri := idx
					if single {
						ri = -1
					}
					isNil, known := p.ResultNil(cl.DV(), ri, at)
					if retIdx >= 0 {
						ret, _ := p.ReturnDV(retIdx)
						if p.Key(ret) == ek || (known && isNil) || definitelyNonNil(p, ret, at) {
							c.ok(rule, key, cl.In, "error returned / nil / converted to a non-nil error")
							continue
						}
						// reviewed: ErrNotImplemented from the deprecated GetEmailAddress is tolerated
						if name == "Provider.GetEmailAddress" && hasErrorsIsAtom(p, at, ek, "providers.ErrNotImplemented", true) {
							c.ok(rule, key+"|not-implemented", cl.In, "reviewed: ErrNotImplemented from the deprecated GetEmailAddress hook is ignored, EnrichSession decides")
							continue
						}
						// a (verdict, error) pair whose error is examined and whose verdict gates the path
						if known && cl.C.Signature().Results().Len() == 2 {
							if _, vk := p.ResultTruth(cl.DV(), 0, at); vk {
								c.ok(rule, key+"|verdict-decides", cl.In, "error examined (logged) and the boolean verdict, false on failure, decides the path")
								continue
							}
						}
						c.bad(rule, key, cl.In, "a failure of "+name+" can be swallowed by "+prog.Name(fn), p, at)
						continue
					}
					if known {
						c.ok(rule, key, cl.In, "error examined by a branch")
					} else {
						c.bad(rule, key, cl.In, "the error of "+name+" is not examined on this path", p, at)
					}
				}
			})
		}
	}

	// ---- R6 ---------------------------------------------------------------------------------
	{
		var pf []*ssa.Function
		for _, fn := range c.P.ModFns {
			pk := prog.Short(prog.FnPkg(fn).Path())
			if pk == "providers" || strings.HasPrefix(pk, "pkg/providers/") || pk == "pkg/requests" {
				pf = append(pf, fn)
			}
		}
		c.checkModuleErrorDiscipline("R6-tested-then-dropped", pf, reviewedProviderErrDrops)
	}

	runC14R7(c, "R7-validate-token")
	runBearerEmailVerified(c, "R8-bearer-email-verified")
	runC14R9(c, "R9-github-collaborator-verdict")
	runC14R10(c, "R10-transport-failure-is-error")
	runC14R11(c, "R11-decode-target-zeroed")

	// ---- R4 ---------------------------------------------------------------------------------
	rule = "R4-panic-sources"
	R := c.requestReachable(rule)
	if R != nil {
		idp := func(fn *ssa.Function) bool {
			pk := prog.Short(prog.FnPkg(fn).Path())
			return pk == "providers" || strings.HasPrefix(pk, "pkg/providers/") || pk == "pkg/requests" || pk == "pkg/apis/middleware"
		}
		sub := map[*ssa.Function]bool{}
		var fns []*ssa.Function
		for fn := range R {
			if idp(fn) {
				sub[fn] = true
				fns = append(fns, fn)
			}
		}
		sort.Slice(fns, func(i, j int) bool { return fns[i].String() < fns[j].String() })
		if len(fns) < 80 {
			c.R.Unknown(rule, "reach", "-", sprintf("only %d request-reachable provider functions (expected about 150)", len(fns)))
		}
		sites := c.ssaPanicSites(sub)
		bce, _ := c.bceResidue(rule)
		for _, s := range bce {
			if sub[s.Fn] {
				sites = append(sites, s)
			}
		}
		c.R.Notes = append(c.R.Notes, sprintf("request-reachable functions handling identity-provider data: %d", len(fns)))
		c.dischargeSites(rule, sites, reviewedPanics, c.panicAuto(rule))
		c.checkDecodedPointers(rule, fns)
		c.checkErrResults(rule, fns)
		// claim coercion helpers use checked conversions: no single-value assertion anywhere in pkg/providers/util
		n := 0
		for _, fn := range c.P.ModFns {
			if prog.Short(prog.FnPkg(fn).Path()) != "pkg/providers/util" {
				continue
			}
			for _, b := range fn.Blocks {
				for _, in := range b.Instrs {
					if ta, ok := in.(*ssa.TypeAssert); ok {
						n++
						if !ta.CommaOk && c.typeAssertAt(ta.Pos()) != nil {
							c.bad(rule, "claim-extractor|"+fnKey(fn), in, "claim coercion uses an unchecked type assertion", nil, 0)
						}
					}
				}
			}
		}
		if n > 0 {
			c.ok(rule, "claim-extractor|checked-assertions", c.P.ModFns[0].Blocks[0].Instrs[0], sprintf("all %d type assertions/switches in pkg/providers/util are checked forms", n))
		}
	}

	// ---- R5 ---------------------------------------------------------------------------------
	// (the same-token rule of C04.R3 restricted to its failure clause)
	rule = "R5-verification-failures"
	runC14R5(c, rule)
}

func hasErrorsIsAtom(p *walk.Path, at int, errKey, targetSuffix string, want bool) bool {
	for _, a := range p.Atoms(at) {
		if call, ok := a.DV.V.(*ssa.Call); ok && !a.IsNil && a.Val == want && isStd(&call.Call, "errors", "Is") &&
			p.Key(p.Op(call.Call.Args[0], a.DV)) == errKey && strings.HasSuffix(prog.Short(globalLoad(call.Call.Args[1])), targetSuffix) {
			return true
		}
	}
	return false
}

func runC14R5(c *Ctx, rule string) {
	createSession := c.Fn(rule, "(*providers.OIDCProvider).createSession")
	verifyIDToken := c.Fn(rule, "(*providers.ProviderData).verifyIDToken")
	if createSession == nil || verifyIDToken == nil {
		return
	}
	tokP, refreshP := createSession.Params[2], createSession.Params[3]
	c.Walk(rule, createSession, func(p *walk.Path) {
		rv, ok := p.ReturnDV(0)
		if !ok || DefinitelyNil(p, rv, p.End()) {
			return
		}
		at := p.End()
		key := "success-return|" + fnKey(createSession)
		vc, ok := Has(p, at, Need{M: walk.Static(verifyIDToken), Out: Called, Where: func(p *walk.Path, k walk.Call) bool {
			return p.Resolve(p.Arg(k, 2)).V == tokP
		}})
		if !ok {
			c.bad(rule, key, p.Exit, "createSession succeeds without verifyIDToken(token)", p, at)
			return
		}
		if n, k := p.ResultNil(vc.DV(), 1, at); k && n {
			c.ok(rule, key+"|verified", p.Exit, "verification succeeded")
			return
		}
		refresh := false
		if b, k := p.Truth(walk.DV{V: refreshP}, at); k && b {
			refresh = true
		}
		ek := p.ResultKey(vc.DV(), 1)
		missing := hasErrorsIsAtom(p, at, ek, "providers.ErrMissingIDToken", true)
		for _, a := range p.Atoms(at) {
			if b, ok := a.DV.V.(*ssa.BinOp); ok && !a.IsNil && a.Val {
				l, r := p.Op(b.X, a.DV), p.Op(b.Y, a.DV)
				if (p.Key(l) == ek && strings.HasSuffix(globalLoad(p.Resolve(r).V), "providers.ErrMissingIDToken")) ||
					(p.Key(r) == ek && strings.HasSuffix(globalLoad(p.Resolve(l).V), "providers.ErrMissingIDToken")) {
					missing = true
				}
			}
		}
		if refresh && missing {
			c.ok(rule, key+"|refresh-without-id-token", p.Exit, "refresh response without id_token")
		} else {
			c.bad(rule, key, p.Exit, "a token response whose ID token failed verification still produces/extends a session (tolerated only for refresh && ErrMissingIDToken)", p, at)
		}
	})
}

// reviewedProviderErrDrops: callee|function -> reason.
var reviewedProviderErrDrops = map[string]string{
	"(*providers.AzureProvider).extractClaimsIntoSession|(*providers.AzureProvider).EnrichSession":          "claims failure is logged; the e-mail is then fetched from the profile API and an empty e-mail is an error",
	"(*providers.ProviderData).buildSessionFromClaims|(*providers.AzureProvider).extractClaimsIntoSession":  "first attempt (ID token) falls back to the access token; the second call's error decides",
	"(*providers.AzureProvider).extractClaimsIntoSession|(*providers.AzureProvider).redeemRefreshToken":     "the refresh itself succeeded and the tokens are already stored; a claims failure is logged and leaves e-mail/groups as they were",
	"pkg/providers/oidc.IDTokenVerifier.Verify|(*providers.AzureProvider).verifySessionToken":               "a failed ID-token verification falls back to verifying the access token; the second Verify's error is returned",
	"pkg/requests.Result.UnmarshalSimpleJSON|(*providers.MicrosoftEntraIDProvider).addGraphGroupsToSession": "documented best-effort group-overage lookup: on failure no groups are added (fails closed for group authorisation) and the error is logged",
	"pkg/requests.Result.UnmarshalInto|(*providers.ProviderData).Redeem":                                    "a body that is not JSON is then parsed as x-www-form-urlencoded; without an access_token there the redeem fails",
	"(*providers.ProviderData).verifyIDToken|(*providers.OIDCProvider).createSession":                       "ErrMissingIDToken during a refresh only (structure checked by C04.R3-same-token)",
}

// runC14R7: validateToken answers true only for a non-empty token, a configured validate URL, a
// request that did not fail and a 200 status.
func runC14R7(c *Ctx, rule string) {
	vt := c.Fn(rule, "providers.validateToken")
	resErr := c.Method(rule, "pkg/requests.Result.Error")
	resStatus := c.Method(rule, "pkg/requests.Result.StatusCode")
	if vt == nil || resErr == nil || resStatus == nil {
		return
	}
	c.Walk(rule, vt, func(p *walk.Path) {
		rv, ok := p.ReturnDV(0)
		if !ok {
			return
		}
		if b, k := p.Truth(rv, p.End()); k && !b {
			return
		}
		at := p.End()
		key := "true-return|" + fnKey(vt)
		isTok := func(x walk.DV) bool { return p.Resolve(x).V == vt.Params[2] }
		var missing []string
		if !eqConstAtom(p, at, false, "", isTok) {
			missing = append(missing, "accessToken != \"\"")
		}
		if _, ok := Has(p, at, Need{M: walk.Invoke(c.P, resErr), Idx: -1, Out: ErrNil}); !ok {
			missing = append(missing, "result.Error() == nil")
		}
		st := false
		for _, a := range p.Atoms(at) {
			b, ok := a.DV.V.(*ssa.BinOp)
			if !ok || a.IsNil || !a.Val || (b.Op != token.EQL && b.Op != token.NEQ) {
				continue
			}
			for _, pair := range [][2]ssa.Value{{b.X, b.Y}, {b.Y, b.X}} {
				if n, ok := ConstInt(pair[1]); ok && n == 200 {
					if call, ok := p.Resolve(p.Op(pair[0], a.DV)).V.(*ssa.Call); ok && call.Call.IsInvoke() && call.Call.Method == resStatus {
						st = true
					}
				}
			}
		}
		if !st {
			missing = append(missing, "result.StatusCode() == 200")
		}
		if len(missing) == 0 {
			c.ok(rule, key, p.Exit, "true only with a non-empty token, an error-free request and status 200")
		} else {
			c.bad(rule, key, p.Exit, "validateToken can answer true without "+strings.Join(missing, ", ")+": an empty or unverified token validates a session", p, at)
		}
	})
}

// runC14R9: GitHub's collaborator restriction fails closed. getUser passes the collaborator check only
// with a true verdict: on every path on which isCollaborator ran, a nil result of getUser needs that
// verdict to be true (so every non-204 answer of the collaborators endpoint, error or not, ends the login).
func runC14R9(c *Ctx, rule string) {
	getUser := c.Fn(rule, "(*providers.GitHubProvider).getUser")
	isCollab := c.P.Func("(*providers.GitHubProvider).isCollaborator")
	if getUser == nil {
		return
	}
	if isCollab == nil {
		c.R.Unknown(rule, "anchor:isCollaborator", "-", "anchor function (*providers.GitHubProvider).isCollaborator not found")
		return
	}
	n := 0
	// the caller's idiom is `if ok, err := p.isCollaborator(...); err != nil || !ok { return err }`: it fails closed
	// exactly as long as the callee never pairs a false verdict with a nil error
	usesIdiom := false
	for _, cs := range c.callersOf(isCollab) {
		if cs.Parent() == getUser {
			usesIdiom = true
		}
	}
	if !usesIdiom {
		c.R.Unknown(rule, "collaborator-caller|"+fnKey(getUser), c.P.Pos(getUser.Pos()), "getUser no longer calls isCollaborator")
		return
	}
	{
		c.Walk(rule, isCollab, func(p *walk.Path) {
			ev, ok := p.ReturnDV(1)
			if !ok || !DefinitelyNil(p, ev, p.End()) {
				return
			}
			n++
			key := "collaborator-pairs|" + fnKey(isCollab)
			v, _ := p.ReturnDV(0)
			if b, k := p.Truth(v, p.End()); k && b {
				c.ok(rule, key, p.Exit, "a nil error comes only with verdict true")
			} else {
				c.bad(rule, key, p.Exit, "isCollaborator can return (false, nil); its caller's `err != nil || !ok { return err }` then returns nil and the login proceeds", p, p.End())
			}
		})
	}
	if n == 0 {
		c.R.Unknown(rule, "collaborator-verdict|none", c.P.Pos(getUser.Pos()), "no path of getUser reaches the collaborator check")
	}
}

// runC14R10: every provider call (redeem, refresh, validation, profile and group look-ups) goes through
// (*requests.builder).do, and its callers take Result.Error()==nil to mean "this is what the identity provider sent".
// On every path of do on which one of the fallible steps (building the request, the round trip, reading the body to
// its end) returned an error that is not known to be nil, the Result carries a non-nil err. A tolerated read error
// hands truncated bodies to validateToken (which only looks at the status) and to the form-decoding fallback of
// Redeem.
func runC14R10(c *Ctx, rule string) {
	do := c.Fn(rule, "(*pkg/requests.builder).do")
	errF := c.Field(rule, "pkg/requests.result.err")
	if do == nil || errF == nil {
		return
	}
	key := "failed-exchange-has-error|" + fnKey(do)
	n, bad := 0, false
	c.Walk(rule, do, func(p *walk.Path) { // helpers inlined: a constructor of the error Result keeps its store visible
		if _, ok := p.Exit.(*ssa.Return); !ok || bad {
			return
		}
		var failed *walk.Call
		for _, cl := range p.Calls() {
			cl := cl
			if _, isDefer := cl.In.(*ssa.Defer); isDefer {
				continue
			}
			sig := cl.C.Signature()
			ei := errResultIndex(sig)
			if ei < 0 || sig.Results().Len() < 2 {
				continue // constructors of errors (fmt.Errorf) and verdict helpers are not fallible steps
			}
			if isNil, k := p.ResultNil(cl.DV(), ei, p.End()); !(k && isNil) {
				failed = &cl
				break
			}
		}
		n++
		if failed == nil {
			return
		}
		carries := false
		for i, st := range p.Steps {
			s, ok := st.In.(*ssa.Store)
			if !ok {
				continue
			}
			fa, ok := s.Addr.(*ssa.FieldAddr)
			if !ok || walk.FieldOf(fa.X.Type(), fa.Field) != errF {
				continue
			}
			if i > failed.Idx && !DefinitelyNil(p, p.StepOp(s.Val, st), p.End()) {
				carries = true
			}
		}
		if !carries {
			bad = true
			c.bad(rule, key, p.Exit, "the error of "+walk.CalleeName(failed.C)+" is not known to be nil on this path, yet the Result handed to the provider code carries no error: an incomplete or failed exchange is taken for the identity provider's answer", p, p.End())
		}
	})
	if !bad && n > 0 {
		c.R.OK(rule, key, c.P.Pos(do.Pos()), sprintf("%d return path(s): a Result without err only when every fallible step returned nil", n))
	} else if !bad {
		c.R.Unknown(rule, key, c.P.Pos(do.Pos()), "no return path found")
	}
}

// runC14R11: the JSON decoders leave fields alone that the document does not mention. Provider code tells "the
// response carried no access_token / id_token / email" by the zero value of the decoded field, so every local
// structure handed to (*requests.result).UnmarshalInto, json.Unmarshal or (*json.Decoder).Decode in provider code
// must still be zero at that point: no store into it (or into one of its fields) dominates the decode call. A target
// pre-filled from the session turns a malformed 200 answer into "refreshed, same tokens, new lifetime".
func runC14R11(c *Ctx, rule string) {
	isDecode := func(cc *ssa.CallCommon) int {
		if cc.IsInvoke() {
			if cc.Method.Name() == "UnmarshalInto" {
				return 0
			}
			return -1
		}
		sc := cc.StaticCallee()
		if sc == nil {
			return -1
		}
		switch {
		case sc.Name() == "UnmarshalInto":
			return 1
		case sc.String() == "encoding/json.Unmarshal":
			return 1
		case sc.String() == "(*encoding/json.Decoder).Decode":
			return 1
		}
		return -1
	}
	n := 0
	for _, fn := range c.P.ModFns {
		pk := prog.Short(prog.FnPkg(fn).Path())
		if pk != "providers" && !strings.HasPrefix(pk, "pkg/providers") {
			continue
		}
		for _, b := range fn.Blocks {
			for idx, in := range b.Instrs {
				call, ok := in.(*ssa.Call)
				if !ok {
					continue
				}
				ai := isDecode(&call.Call)
				if ai < 0 || ai >= len(call.Call.Args) {
					continue
				}
				t := unwrap0(call.Call.Args[ai])
				if mi, ok := t.(*ssa.MakeInterface); ok {
					t = unwrap0(mi.X)
				}
				al, ok := t.(*ssa.Alloc)
				if !ok {
					// a parameter: the caller's object, judged at the call sites — each call must hand in a variable of
					// its own iteration (one variable declared before a loop and decoded into on every round keeps the
					// members of the previous answer)
					if pa, isParam := t.(*ssa.Parameter); isParam {
						pidx := -1
						for i, q := range fn.Params {
							if q == pa {
								pidx = i
							}
						}
						for _, cs := range c.callersOf(fn) {
							if pidx < 0 || pidx >= len(cs.Common().Args) {
								continue
							}
							arg := unwrap0(cs.Common().Args[pidx])
							cal, isAlloc := arg.(*ssa.Alloc)
							if !isAlloc {
								continue
							}
							n++
							key := "decode-target|" + fnKey(cs.Parent()) + "|via|" + fnKey(fn)
							if inLoopWithout(cs.Block(), cal.Block()) {
								c.R.Bad(rule, key, c.pos(cs), "one variable, declared outside the loop, receives the identity provider's answer on every round: members the next answer omits keep the previous answer's values (the access level of the project looked up before)", nil, nil)
							} else {
								c.ok(rule, key, cs, "each call decodes into a variable of its own")
							}
						}
					}
					continue
				}
				n++
				key := "decode-target|" + fnKey(fn)
				if inLoopWithout(b, al.Block()) {
					c.R.Bad(rule, key, c.pos(in), "one variable, declared outside the loop, receives the identity provider's answer on every round: members the next answer omits keep the previous answer's values", nil, nil)
					continue
				}
				var pre ssa.Instruction
				var visit func(addr ssa.Value, depth int)
				visit = func(addr ssa.Value, depth int) {
					if depth > 3 || addr.Referrers() == nil {
						return
					}
					for _, r := range *addr.Referrers() {
						switch x := r.(type) {
						case *ssa.Store:
							if x.Addr != addr {
								continue
							}
							if k, isConst := x.Val.(*ssa.Const); isConst && (k.Value == nil || k.IsNil()) {
								continue // explicit zeroing
							}
							if _, isMap := x.Val.(*ssa.MakeMap); isMap {
								continue // an empty map to decode into
							}
							sb := x.Block()
							before := false
							if sb == b {
								for j := 0; j < idx; j++ {
									if b.Instrs[j] == ssa.Instruction(x) {
										before = true
									}
								}
							} else if sb.Dominates(b) {
								before = true
							}
							if before {
								pre = x
							}
						case *ssa.FieldAddr:
							visit(x, depth+1)
						case *ssa.IndexAddr:
							visit(x, depth+1)
						}
					}
				}
				visit(al, 0)
				if pre == nil {
					c.ok(rule, key, in, "decoded into a zero local")
				} else {
					c.R.Bad(rule, key, c.pos(pre), "the structure an identity-provider response is decoded into is filled in before decoding: a field the response omits keeps that value, so a malformed answer (no access_token) is taken for a complete one and the session is re-issued with the old token", nil, nil)
				}
			}
		}
	}
	if n == 0 {
		c.R.Unknown(rule, "decode-target|none", "-", "no decode of an identity-provider response into a local found")
	}
}

// inLoopWithout: block b lies on a cycle of the control-flow graph that does not contain block a — an instruction in b
// runs once per iteration of a loop that an allocation in a is outside of.
func inLoopWithout(b, a *ssa.BasicBlock) bool {
	reach := func(from *ssa.BasicBlock) map[*ssa.BasicBlock]bool {
		seen := map[*ssa.BasicBlock]bool{}
		var visit func(x *ssa.BasicBlock)
		visit = func(x *ssa.BasicBlock) {
			for _, s := range x.Succs {
				if !seen[s] {
					seen[s] = true
					visit(s)
				}
			}
		}
		visit(from)
		return seen
	}
	fromB := reach(b)
	if !fromB[b] {
		return false // b is not in a loop
	}
	if a == b {
		return false
	}
	// same strongly connected component?
	return !(fromB[a] && reach(a)[b])
}
