package rules

import (
	"go/token"
	"go/types"
	"regexp"
	"sort"
	"strings"

	"golang.org/x/tools/go/ssa"

	"oapsa/internal/prog"
	"oapsa/internal/walk"
)

func init() {
	register(&Prop{
		ID:          "C11",
		Explanation: "Decides the structure of sign-out: SignOut issues its success redirect only on paths where ClearSessionCookie returned nil; Manager.Clear emits the ticket-cookie deletion on every path, returns nil for an undecodable ticket only when the error is http.ErrNoCookie, and otherwise returns clearSession's result, which is the Store.Clear error passed up unchanged through the closure, the redis store (non-nil whenever Client.Del's error is non-nil) and the client wrappers; the cookie store's Clear ranges over every cookie of the request and, for each whose name matches a pattern compiled from regexp.QuoteMeta(Cookie.Name) plus an optional _<digits> suffix (a constant accepted/rejected on a fixed probe set, agreeing with splitCookieName's format), sets a deletion cookie under the presented name; setters and deleters of ticket, CSRF and session cookies use the same name expression and the same options object. Added during the build: a request that waited for the refresh lock writes the session back only after a successful reload under the lock, so a signed-out session is not re-created (R5, shared with C12.R2). Round 3: the cookie-domain list setters and deleters choose from is sorted once and never reordered (R6); a save over a decodable request ticket reuses it, so a re-login leaves no orphan (R7). Round 4: the cookie ticket.clearCookie emits carries an empty value and a negative constant lifetime, not one derived from configuration (under R2). Round 5: the redis lock returns for a busy lock exactly the sentinel the loader's retry loop tests, so a sign-out waits for a refresh in flight (R8, shared with C12.R7). Round 6: the signed-timestamp window of Validate keeps its clock-skew tolerance (R9, shared with C09.R1); Clear also expires session cookies already queued on the response (under R3, defect 16). Round 7: request handling keeps no state of its own between requests — no store, map update, in-place builtin, atomic/sync.Map write or pointer-receiver library call (singleflight, caches) reached from ServeHTTP targets a package-level variable, an object built at start-up, or a constructor variable captured by the handler it returned, declared in the packages implementing this property (RS; a class-wide who-may-write rule with zero instances today: a correct memoisation would be reported until reviewed). ClearSessionCookie answers with the store's Clear result of that path, on every path (R10, shared with C13.R11). Round 8: decodeTicketFromRequest hands back http.ErrNoCookie — read by Manager.Clear as 'nothing to delete' — only as req.Cookie's own error (R11). Part names of a split session are always name_i, the form Clear selects by (R12: KNOWN FINDING on the unchanged tree, defect 18).",
		NotDecided:  "replay histories against a live store; truncated split names for 251-256 byte cookie names (arithmetic); what a browser does with the deletions.",
		Run:         runC11,
	})
}

func runC11(c *Ctx) {
	c.R.Rule("RS-no-request-time-state", "request handling writes no state that outlives the request (package-level variables, objects built at start-up, constructor variables captured by handlers) declared in the packages implementing this property", 1)
	runStateless(c, "RS-no-request-time-state", "main.OAuthProxy", "pkg/sessions")
	r := c.R
	r.Rule("R1-redirect-after-clear", "SignOut: success redirect only after ClearSessionCookie()==nil", 2)
	r.Rule("R2-clear-propagates", "Manager.Clear always clears the cookie and returns the store-delete error unchanged up the chain", 9)
	r.Rule("R3-cookie-store-clear", "cookie store Clear sweeps all presented cookies matching ^QuoteMeta(name)(_\\d+)?$ and deletes each under its presented name", 3)
	r.Rule("R5-no-resurrection", "a request that waited for the refresh lock writes the session back only after reloading it successfully under the lock, so a session deleted by sign-out in between is not re-created (shared with C12.R2)", 1)
	r.Rule("R6-stable-domain-order", "the cookie-domain list both setters and deleters choose from is sorted once and never reordered (shared with C18.R5)", 4)
	r.Rule("R7-relogin-overwrites", "a save over a decodable request ticket reuses that ticket: a re-login overwrites the stored session instead of leaving an orphan sign-out cannot reach (shared with C12.R6)", 2)
	r.Rule("R10-store-wrappers-delegate", "ClearSessionCookie answers with the result of the store's Clear made on that path, on every path (shared with C13.R11, round 7)", 3)
	runStoreWrappersDelegate(c, "R10-store-wrappers-delegate")
	r.Rule("R11-no-cookie-sentinel-only-from-request", "decodeTicketFromRequest hands back http.ErrNoCookie — which Manager.Clear reads as 'nothing to delete' — only as req.Cookie's own error, never for a ticket cookie that is present but fails validation (round 8)", 1)
	runNoCookieSentinelOnlyFromRequest(c, "R11-no-cookie-sentinel-only-from-request")
	r.Rule("R12-part-names-match-the-sweep", "the part names the splitter and loader use are always name_i, the form Clear selects by (KNOWN FINDING on the unchanged tree: defect 18, DESIGN 7)", 1)
	runPartNamesMatchTheSweep(c, "R12-part-names-match-the-sweep")
	r.Rule("R8-signout-waits-for-refresh", "a sign-out that meets a refresh in flight waits for the lock: the redis lock returns for a busy lock exactly the sentinel the loader's retry loop tests (shared with C12.R7), so the refreshed session is not saved back after the stored session was deleted", 6)
	runLockSentinelRule(c, "R8-signout-waits-for-refresh")
	r.Rule("R9-ticket-verdict-stable", "a ticket cookie is judged inside the same window on every replica and at every moment: signed timestamp within (now - cookie-expire, now + 5 minutes) (shared with C09.R1), so a ticket refused now is not honoured later, after its stored session escaped the sign-out", 2)
	runValidateWindowRule(c, "R9-ticket-verdict-stable")
	r.Rule("R4-same-name-opts", "setters and deleters agree on cookie name expression and options", 5)

	runSignOutRule(c, "R1-redirect-after-clear")
	runManagerClearRule(c, "R2-clear-propagates")
	c.checkRefreshProtocol("R5-no-resurrection", c.c12Anchors("R5-no-resurrection"))
	runDomainOrderRule(c, "R6-stable-domain-order")
	runTicketReuseRule(c, "R7-relogin-overwrites")
	runC11R3R4(c, "R3-cookie-store-clear", "R4-same-name-opts", true)
}

// runC11R3R4 holds the cookie-store sweep and setter/deleter agreement rules (also used by C18.R4).
func runC11R3R4(c *Ctx, r3, r4 string, withQueuedSweep ...bool) {
	queuedRule := len(withQueuedSweep) > 0 && withQueuedSweep[0]
	rule := r3
	cclear := c.Fn(rule, "(*pkg/sessions/cookie.SessionStore).Clear")
	setCookie := c.StdFunc(rule, "net/http.SetCookie")
	// the store's makeCookie wrapper is not an anchor: the walker inlines it where it exists, and the rule
	// looks at the MakeCookieFromOptions call either way
	makeCookie := c.Fn(rule, "pkg/cookies.MakeCookieFromOptions")
	wrapper := c.P.Func("(*pkg/sessions/cookie.SessionStore).makeCookie")
	nameOptF := c.Field(rule, "pkg/apis/options.Cookie.Name")
	cookieNameF := c.P.Field("net/http.Cookie.Name")
	splitName := c.Fn(rule, "pkg/sessions/cookie.splitCookieName")
	if cclear != nil && setCookie != nil && makeCookie != nil && nameOptF != nil && cookieNameF != nil && splitName != nil {
		// pattern
		pattern := findPatternCall(c, cclear, 0)
		key := "pattern|" + fnKey(cclear)
		if pattern == nil {
			c.bad(rule, key, cclear.Blocks[0].Instrs[0], "cookie store Clear no longer matches presented cookie names against a name(_N)? pattern: split parts or stale cookies are left behind", nil, 0)
		} else {
			ok, why := clearPatternOK(pattern.Call.Args[0], nameOptF)
			if ok {
				c.ok(rule, key, pattern, "^"+"QuoteMeta(Cookie.Name)(_\\d+)?$ (probe set accepted/rejected as required)")
			} else {
				c.bad(rule, key, pattern, "session-cookie clearing pattern: "+why, nil, 0)
			}
			// splitCookieName's format agrees: "%s_%d"
			agree := false
			for _, b := range splitName.Blocks {
				for _, in := range b.Instrs {
					if call, ok := in.(*ssa.Call); ok && isStd(&call.Call, "fmt", "Sprintf") {
						if f, ok := ConstString(call.Call.Args[0]); ok && f == "%s_%d" {
							agree = true
						}
					}
				}
			}
			if agree {
				c.ok(rule, "split-format|"+fnKey(splitName), splitName.Blocks[0].Instrs[0], "parts are named %s_%d, which the clearing pattern's _\\d+ suffix covers")
			} else {
				c.bad(rule, "split-format|"+fnKey(splitName), splitName.Blocks[0].Instrs[0], "split cookie parts are no longer named <name>_<number>: the clearing pattern does not cover them", nil, 0)
			}
			// sweep: for a matching presented cookie a deletion under its presented name is set
			swept, queuedSwept := false, false
			c.Walk(rule, cclear, func(p *walk.Path) {
				for _, ms := range p.Calls() {
					sc := ms.C.StaticCallee()
					if sc == nil || sc.Name() != "MatchString" || p.Resolve(p.Arg(ms, 0)).V != pattern {
						continue
					}
					if b, k := p.ResultTruth(ms.DV(), -1, p.End()); !(k && b) {
						continue
					}
					key := "sweep|" + fnKey(cclear)
					// matched cookie: element of req.Cookies()
					elem := elementOfCookies(p, p.Arg(ms, 1), cookieNameF)
					if src := cookiesCallOf(elem); src != nil && src.Call.StaticCallee() != nil && src.Call.StaticCallee().String() == "(*net/http.Response).Cookies" {
						// second sweep: cookies this response has already set (a save earlier on the same response)
						qkey := "queued-sweep|" + fnKey(cclear)
						if !queuedRule {
							continue // decided under C10.R6 / C11.R3
						}
						if !responseOfWriter(src.Call.Args[0], cclear.Params[1]) {
							c.bad(rule, qkey, ms.In, "the response whose queued cookies are swept is not built from this writer's Header()", p, p.End())
							continue
						}
						presented := false
						for _, rc := range p.Calls() {
							if rc.Idx > ms.Idx && rc.C.StaticCallee() != nil && rc.C.StaticCallee().String() == "(*net/http.Request).Cookie" && elementOfCookies(p, p.Arg(rc, 1), cookieNameF) == elem {
								if isNil, k := p.ResultNil(rc.DV(), 1, p.End()); k && isNil {
									presented = true // the request presented it: the first sweep expired it
								}
							}
						}
						if presented {
							continue
						}
						found := false
						for _, sc2 := range p.Calls() {
							if sc2.Idx < ms.Idx || sc2.C.StaticCallee() != setCookie {
								continue
							}
							mk, ok := extractOfCall(p, p.Arg(sc2, 1), 0)
							if !ok || mk.C.StaticCallee() != makeCookie {
								continue
							}
							val, _ := ConstString(p.Resolve(p.Arg(mk, 2)).V)
							exp, expOK := ConstInt(p.Resolve(p.Arg(mk, 4)).V)
							if elementOfCookies(p, p.Arg(mk, 1), cookieNameF) == elem && val == "" && expOK && exp < 0 {
								found = true
							}
						}
						if found {
							queuedSwept = true
							c.ok(rule, qkey, ms.In, "a session cookie already set on this response and not presented by the request is expired too")
						} else {
							c.bad(rule, qkey, ms.In, "a session cookie already set on this response matches the pattern but is not expired on this path", p, p.End())
						}
						continue
					}
					if elem == nil {
						c.bad(rule, key, ms.In, "the name matched against the pattern is not the name of an element of req.Cookies()", p, p.End())
						continue
					}
					found := false
					for _, sc2 := range p.Calls() {
						if sc2.Idx < ms.Idx || sc2.C.StaticCallee() != setCookie {
							continue
						}
						mk, ok := extractOfCall(p, p.Arg(sc2, 1), 0)
						if !ok || mk.C.StaticCallee() != makeCookie {
							continue
						}
						nameOK := elementOfCookies(p, p.Arg(mk, 1), cookieNameF) == elem
						val, _ := ConstString(p.Resolve(p.Arg(mk, 2)).V)
						exp, expOK := ConstInt(p.Resolve(p.Arg(mk, 4)).V)
						if nameOK && val == "" && expOK && exp < 0 {
							found = true
						}
					}
					if found {
						swept = true
						c.ok(rule, key, ms.In, "every matching presented cookie gets SetCookie(makeCookie(req, c.Name, \"\", negative))")
					} else {
						c.bad(rule, key, ms.In, "a presented cookie matches the pattern but no deletion under its presented name is set on this path", p, p.End())
					}
				}
			})
			if !swept {
				c.bad(rule, "sweep|"+fnKey(cclear), pattern, "no path of Clear deletes a matching presented cookie", nil, 0)
			}
			if queuedRule && !queuedSwept {
				c.bad(rule, "queued-sweep|"+fnKey(cclear), pattern, "Clear expires only the cookie names the request presented: session cookies set earlier on the same response under other names (a refresh performed by the request that signs out, when the refreshed session splits differently) are all that is left in the browser afterwards, and they load", nil, 0)
			}
		}
	}

	// ---- R4 ---------------------------------------------------------------------------------
	rule = r4
	mk := c.Fn(rule, "pkg/cookies.MakeCookieFromOptions")
	if mk != nil {
		// Every cookie family (ticket, CSRF, cookie store) is described by its receiver type. Within one family all
		// MakeCookieFromOptions call sites — setter and deleter, however they are split into helper methods — must use
		// the same options expression and the same name expression, both written relative to the receiver, so that
		// field renames and inlined/extracted helper methods do not matter.
		type site struct {
			name, opts string
			fn         *ssa.Function
			in         ssa.Instruction
		}
		var rel func(v ssa.Value, recv *ssa.Parameter, depth int) string
		rel = func(v ssa.Value, recv *ssa.Parameter, depth int) string {
			if depth > 6 {
				return "?deep"
			}
			v = unwrap0(v)
			switch x := v.(type) {
			case *ssa.Parameter:
				if x == recv {
					return "recv"
				}
				for i, q := range x.Parent().Params {
					if q == x {
						return sprintf("param#%d", i)
					}
				}
			case *ssa.UnOp:
				if fa, ok := x.X.(*ssa.FieldAddr); ok && x.Op == token.MUL {
					return rel(fa.X, recv, depth+1) + "." + walk.FieldOf(fa.X.Type(), fa.Field).Name()
				}
			case *ssa.Call:
				if sc := x.Call.StaticCallee(); sc != nil && len(x.Call.Args) > 0 {
					return "call:" + sc.Name() + "(" + rel(x.Call.Args[0], recv, depth+1) + ")"
				}
			case *ssa.Const:
				return "const"
			}
			return "?" + v.Name()
		}
		families := map[string][]site{}
		for _, cs := range c.callersOf(mk) {
			fn := cs.Parent()
			rt := ""
			var recv *ssa.Parameter
			if r := fn.Signature.Recv(); r != nil && len(fn.Params) > 0 {
				t := r.Type()
				if pt, ok := t.(*types.Pointer); ok {
					t = pt.Elem()
				}
				rt = types.TypeString(t, func(p *types.Package) string { return prog.Short(p.Path()) })
				recv = fn.Params[0]
			}
			a := cs.Common().Args
			families[rt] = append(families[rt], site{rel(a[1], recv, 0), rel(a[3], recv, 0), fn, cs})
		}
		want := map[string]string{
			"pkg/sessions/persistence.ticket":  "ticket",
			"pkg/cookies.csrf":                 "csrf",
			"pkg/sessions/cookie.SessionStore": "cookie-store",
		}
		// a family whose cookies are built outside methods of its type (rt == "") cannot be compared
		for _, st := range families[""] {
			c.R.Unknown(rule, "family|"+fnKey(st.fn), c.pos(st.in), "a cookie is built with MakeCookieFromOptions outside a method of a cookie-owning type: setter/deleter agreement is not decided for it")
		}
		for rt, fam := range want {
			sites := families[rt]
			key := "family|" + fam
			if len(sites) == 0 {
				c.R.Unknown(rule, key, "-", "no method of "+rt+" builds a cookie with MakeCookieFromOptions")
				continue
			}
			ref := sites[0]
			agree := true
			for _, st := range sites {
				if st.opts != ref.opts || strings.HasPrefix(st.opts, "?") {
					agree = false
				}
				if fam != "cookie-store" && (st.name != ref.name || strings.HasPrefix(st.name, "?")) {
					agree = false
				}
			}
			switch {
			case !agree:
				var d []string
				for _, st := range sites {
					d = append(d, fnKey(st.fn)+": name="+st.name+" opts="+st.opts)
				}
				sort.Strings(d)
				c.R.Bad(rule, key, c.pos(ref.in), "setters and deleters of this cookie family do not build their cookies from the same name and options expressions ("+strings.Join(d, "; ")+"): the browser keeps a cookie the deletion does not match", nil, nil)
			case fam == "ticket" && ref.name != ref.opts+".Name":
				c.R.Bad(rule, key, c.pos(ref.in), "the ticket cookie's name ("+ref.name+") is not the Name of the options it is built with ("+ref.opts+")", nil, nil)
			case fam == "cookie-store":
				// one options expression for all sites; names: the wrapper's parameter, the configured name, or a presented cookie's name
				okNames := true
				for _, st := range sites {
					if !(strings.HasPrefix(st.name, "param#") || st.name == ref.opts+".Name" || strings.HasSuffix(st.name, ".Name")) {
						okNames = false
					}
				}
				if okNames {
					c.ok(rule, key, ref.in, sprintf("%d site(s), all with opts=%s", len(sites), ref.opts))
				} else {
					c.R.Bad(rule, key, c.pos(ref.in), "the cookie store builds a cookie under a name that is neither the configured nor a presented cookie name", nil, nil)
				}
			default:
				c.ok(rule, key, ref.in, sprintf("%d site(s), all with name=%s opts=%s", len(sites), ref.name, ref.opts))
			}
		}
		// the session cookie is set under Cookie.Name, which the clearing pattern is built from
		if makeCookie != nil && nameOptF != nil {
			okName := false
			if wrapper != nil {
				for _, cs := range c.callersOf(wrapper) {
					if isFieldLoadOf(cs.Common().Args[2], nameOptF) {
						okName = true
					}
				}
			}
			for _, st := range families["pkg/sessions/cookie.SessionStore"] {
				if strings.HasSuffix(st.name, "."+nameOptF.Name()) && strings.HasPrefix(st.name, "recv.") {
					okName = true
				}
			}
			if okName {
				c.R.OK(rule, "cookie-store-set-name", "-", "session cookie is set under Cookie.Name, which the clearing pattern is built from")
			} else {
				c.R.Bad(rule, "cookie-store-set-name", c.P.Pos(mk.Pos()), "session cookie is not set under Cookie.Name", nil, nil)
			}
		}
	}
}

// elementOfCookies: dv is the Name of an element of (*http.Request).Cookies(); returns the element value.
func elementOfCookies(p *walk.Path, dv walk.DV, nameF interface{ Name() string }) ssa.Value {
	r := p.Resolve(dv)
	u, ok := r.V.(*ssa.UnOp)
	if !ok {
		return nil
	}
	fa, ok := u.X.(*ssa.FieldAddr)
	if !ok || walk.FieldOf(fa.X.Type(), fa.Field).Name() != nameF.Name() {
		return nil
	}
	el, ok := fa.X.(*ssa.UnOp)
	if !ok {
		return nil
	}
	ia, ok := el.X.(*ssa.IndexAddr)
	if !ok {
		return nil
	}
	call, ok := ia.X.(*ssa.Call)
	if !ok || call.Call.StaticCallee() == nil || call.Call.StaticCallee().Name() != "Cookies" {
		return nil
	}
	return el
}

// clearPatternOK checks the regex source: Sprintf(constant, QuoteMeta(Cookie.Name)) with a constant whose language,
// instantiated with a probe name, accepts exactly name and name_<digits>.
func clearPatternOK(v ssa.Value, nameF interface{ Name() string }) (bool, string) {
	call, ok := v.(*ssa.Call)
	if !ok || !isStd(&call.Call, "fmt", "Sprintf") {
		return false, "the pattern is not built with fmt.Sprintf from a constant template"
	}
	format, ok := ConstString(call.Call.Args[0])
	if !ok {
		return false, "the pattern template is not a constant"
	}
	arg := varargElem(call.Call.Args[1], 0)
	if arg == nil {
		return false, "cannot resolve the template argument"
	}
	q, ok := unwrap(arg).(*ssa.Call)
	if !ok || !isStd(&q.Call, "regexp", "QuoteMeta") {
		return false, "the cookie name is inserted into the regular expression without regexp.QuoteMeta: names with metacharacters are never cleared or make MustCompile panic"
	}
	ld, ok := q.Call.Args[0].(*ssa.UnOp)
	if !ok {
		return false, "QuoteMeta is not applied to Cookie.Name"
	}
	if fa, ok := ld.X.(*ssa.FieldAddr); !ok || walk.FieldOf(fa.X.Type(), fa.Field).Name() != nameF.Name() {
		return false, "QuoteMeta is not applied to Cookie.Name"
	}
	if strings.Count(format, "%s") != 1 || strings.Count(format, "%") != 1 {
		return false, "unexpected template verbs"
	}
	re, err := regexp.Compile(strings.Replace(format, "%s", "NAME", 1))
	if err != nil {
		return false, "template does not compile: " + err.Error()
	}
	for _, s := range []string{"NAME", "NAME_0", "NAME_1", "NAME_12", "NAME_007"} {
		if !re.MatchString(s) {
			return false, "template rejects " + s + ", a cookie the store may have set"
		}
	}
	for _, s := range []string{"NAME_", "NAMEx", "xNAME", "NAME_1x", "NAME_csrf", "NAME-0", "aNAME_0", "NAME_0_csrf"} {
		if re.MatchString(s) {
			return false, "template accepts " + s + ", which is not a session cookie of this store"
		}
	}
	return true, ""
}

// runSignOutRule: SignOut answers success only after the clear succeeded (C11.R1, also C13).
func runSignOutRule(c *Ctx, rule string) {
	signOut := c.Fn(rule, "(*main.OAuthProxy).SignOut")
	clear := c.Fn(rule, "(*main.OAuthProxy).ClearSessionCookie")
	storeClear := c.Method(rule, "pkg/apis/sessions.SessionStore.Clear")
	redirect := c.StdFunc(rule, "net/http.Redirect")
	if signOut != nil && clear != nil && storeClear != nil && redirect != nil {
		n := 0
		c.Walk(rule, signOut, func(p *walk.Path) {
			for _, rd := range p.FindTop(walk.Static(redirect), p.End()) {
				n++
				key := "redirect|" + fnKey(signOut)
				if _, ok := Has(p, rd.Idx, Need{M: walk.Or(walk.Static(clear), walk.Invoke(c.P, storeClear)), Idx: -1, Out: ErrNil}); ok {
					c.ok(rule, key, rd.In, "ClearSessionCookie(rw, req)==nil")
				} else {
					c.bad(rule, key, rd.In, "sign-out answers with the success redirect on a path where clearing the session did not succeed", p, rd.Idx)
				}
			}
		})
		if n == 0 {
			c.R.Unknown(rule, "redirect|none", c.P.Pos(signOut.Pos()), "SignOut performs no redirect")
		}
		// ClearSessionCookie returns the store's error
		c.checkPropagation(rule, clear, walk.Invoke(c.P, storeClear), "sessionStore.Clear")
	}

}

// runManagerClearRule: Manager.Clear always expires the cookie and hands the store's delete error up unchanged (C11.R2, also C12).
func runManagerClearRule(c *Ctx, rule string) {
	mclear := c.Fn(rule, "(*pkg/sessions/persistence.Manager).Clear")
	dtfr := c.Fn(rule, "pkg/sessions/persistence.decodeTicketFromRequest")
	clearCookie := c.Fn(rule, "(*pkg/sessions/persistence.ticket).clearCookie")
	clearSession := c.Fn(rule, "(*pkg/sessions/persistence.ticket).clearSession")
	mclear1 := c.funcHandedTo(rule, mclear, clearSession) // the clearer handed to ticket.clearSession: closure or bound method
	pstoreClear := c.Method(rule, "pkg/sessions/persistence.Store.Clear")
	redisClear := c.Fn(rule, "(*pkg/sessions/redis.SessionStore).Clear")
	clientDel := c.Method(rule, "pkg/sessions/redis.Client.Del")
	idF := c.Field(rule, "pkg/sessions/persistence.ticket.id")
	if mclear != nil && dtfr != nil && clearCookie != nil && clearSession != nil && mclear1 != nil && pstoreClear != nil && redisClear != nil && clientDel != nil && idF != nil {
		c.Walk(rule, mclear, func(p *walk.Path) {
			if _, ok := p.Exit.(*ssa.Return); !ok {
				return
			}
			at := p.End()
			key := "always-clears-cookie|" + fnKey(mclear)
			if _, ok := Has(p, at, Need{M: walk.Static(clearCookie), Out: Called}); ok {
				c.ok(rule, key, p.Exit, "ticket.clearCookie is called on every path")
			} else {
				c.bad(rule, key, p.Exit, "Manager.Clear returns on a path that never emits the ticket-cookie deletion", p, at)
			}
			ret, _ := p.ReturnDV(0)
			dt, ok := Has(p, at, Need{M: walk.Static(dtfr), Out: Called})
			if !ok {
				c.bad(rule, "decodes|"+fnKey(mclear), p.Exit, "Manager.Clear no longer decodes the ticket from the request", p, at)
				return
			}
			isNil, known := p.ResultNil(dt.DV(), 1, at)
			if known && isNil {
				key := "store-delete-result|" + fnKey(mclear)
				cs, ok := extractOfCall(p, ret, 0)
				if ok && cs.C.StaticCallee() == clearSession && ResultIs(p, p.Arg(cs, 0), dt, 0) {
					c.ok(rule, key, p.Exit, "returns ticket.clearSession(...) for the decoded ticket")
				} else {
					c.bad(rule, key, p.Exit, "with a decodable ticket Manager.Clear does not return the result of deleting that ticket's stored session", p, at)
				}
				return
			}
			// decode failed: nil only for http.ErrNoCookie
			key = "undecodable|" + fnKey(mclear)
			if DefinitelyNil(p, ret, at) {
				okNoCookie := false
				for _, a := range p.Atoms(at) {
					if b, ok := a.DV.V.(*ssa.BinOp); ok && !a.IsNil && a.Val {
						for _, side := range []ssa.Value{b.X, b.Y} {
							if globalLoad(side) == "net/http.ErrNoCookie" {
								okNoCookie = true
							}
						}
					}
					if call, ok := a.DV.V.(*ssa.Call); ok && !a.IsNil && a.Val && isStd(&call.Call, "errors", "Is") && globalLoad(call.Call.Args[1]) == "net/http.ErrNoCookie" {
						okNoCookie = true
					}
				}
				if okNoCookie {
					c.ok(rule, key+"|no-cookie", p.Exit, "nil only because the request carried no session cookie")
				} else {
					c.bad(rule, key, p.Exit, "Manager.Clear reports success although the ticket could not be decoded for a reason other than a missing cookie (the stored session survives)", p, at)
				}
			} else if definitelyNonNil(p, ret, at) {
				c.ok(rule, key+"|error", p.Exit, "undecodable ticket is an error")
			} else {
				c.bad(rule, key, p.Exit, "undecodable ticket: result is neither nil-for-no-cookie nor a definite error", p, at)
			}
		})
		// the cookie clearCookie emits IS a deletion: empty value and a negative constant lifetime. A lifetime computed
		// from configuration (e.g. -Cookie.Expire) is zero for cookie-expire=0, which emits no Max-Age at all: the
		// browser keeps the cookie
		if httpSet, mkOpt := c.StdFunc(rule, "net/http.SetCookie"), c.Fn(rule, "pkg/cookies.MakeCookieFromOptions"); httpSet != nil && mkOpt != nil {
			key := "deletion-lifetime|" + fnKey(clearCookie)
			n, bad := 0, false
			c.Walk(rule, clearCookie, func(p *walk.Path) {
				for _, sc := range p.Find(walk.Static(httpSet), p.End()) {
					n++
					mc, ok := extractOfCall(p, p.Arg(sc, 1), 0)
					var val, exp walk.DV
					switch {
					case ok && mc.C.StaticCallee() == mkOpt:
						val, exp = p.Arg(mc, 2), p.Arg(mc, 4)
					case ok && mc.C.StaticCallee() != nil && mc.C.StaticCallee().Name() == "makeCookie" && len(mc.C.Args) >= 4:
						val, exp = p.Arg(mc, 2), p.Arg(mc, 3)
					default:
						bad = true
						c.bad(rule, key, sc.In, "the ticket-cookie deletion is not built by MakeCookieFromOptions", p, sc.Idx)
						continue
					}
					v, isConst := ConstString(p.Resolve(val).V)
					d, isDur := ConstInt(p.Resolve(exp).V)
					if !(isConst && v == "" && isDur && d < 0) {
						bad = true
						c.bad(rule, key, sc.In, "the ticket-cookie deletion does not carry an empty value and a negative constant lifetime: with a lifetime derived from configuration (cookie-expire=0 gives 0) no Max-Age is sent and the browser keeps the cookie", p, sc.Idx)
					}
				}
			})
			if n == 0 {
				c.R.Bad(rule, key, c.P.Pos(clearCookie.Pos()), "ticket.clearCookie sets no cookie", nil, nil)
			} else if !bad {
				c.R.OK(rule, key, c.P.Pos(clearCookie.Pos()), "SetCookie(MakeCookieFromOptions(req, name, \"\", opts, negative constant))")
			}
		}
		// clearSession returns clearer(t.id)
		c.Walk(rule, clearSession, func(p *walk.Path) {
			ret, ok := p.ReturnDV(0)
			if !ok {
				return
			}
			key := "returns-clearer|" + fnKey(clearSession)
			cl, ok := extractOfCall(p, ret, 0)
			if ok && p.Resolve(p.StepOp(cl.C.Value, cl.Step)).V == clearSession.Params[1] && fieldLoadOn(p, p.Arg(cl, 0), idF, walk.DV{V: clearSession.Params[0]}) {
				c.ok(rule, key, p.Exit, "returns clearer(t.id)")
			} else {
				c.bad(rule, key, p.Exit, "clearSession does not return clearer(t.id)", p, p.End())
			}
		})
		// closure: returns Store.Clear(ctx, key)
		c.Walk(rule, mclear1, func(p *walk.Path) {
			ret, ok := p.ReturnDV(0)
			if !ok {
				return
			}
			key := "closure-returns-store-clear|" + fnKey(mclear1)
			cl, ok := extractOfCall(p, ret, 0)
			if ok && walk.Invoke(c.P, pstoreClear)(p, cl) && len(mclear1.Params) > 0 && p.Resolve(p.Arg(cl, 1)).V == mclear1.Params[len(mclear1.Params)-1] {
				c.ok(rule, key, p.Exit, "returns m.Store.Clear(ctx, key)")
			} else {
				c.bad(rule, key, p.Exit, "the clear closure does not return Store.Clear(ctx, key)", p, p.End())
			}
		})
		// every persistence.Store.Clear implementation propagates its backend's delete error
		for _, impl := range c.P.Implementations(pstoreClear) {
			if !c.P.InModule(impl) {
				continue
			}
			if n := c.checkPropagation(rule, impl, walk.Invoke(c.P, clientDel), "Client.Del"); n == 0 {
				c.R.Unknown(rule, "propagates|"+fnKey(impl), c.P.Pos(impl.Pos()), "store Clear never calls Client.Del")
			}
		}
		// client wrappers return the command's error
		for _, impl := range c.P.Implementations(clientDel) {
			if !c.P.InModule(impl) {
				continue
			}
			impl := impl
			c.Walk(rule, impl, func(p *walk.Path) {
				ret, ok := p.ReturnDV(0)
				if !ok {
					return
				}
				key := "wrapper-returns-cmd-err|" + fnKey(impl)
				cl, ok := extractOfCall(p, ret, 0)
				okDel := false
				if ok && cl.C.StaticCallee() != nil && cl.C.StaticCallee().Name() == "Err" {
					recv := p.Resolve(p.Arg(cl, 0)).V
					for {
						if fa, ok := recv.(*ssa.FieldAddr); ok { // promoted method through the embedded baseCmd
							recv = fa.X
							continue
						}
						break
					}
					if del, ok := recv.(*ssa.Call); ok && del.Call.StaticCallee() != nil && del.Call.StaticCallee().Name() == "Del" {
						okDel = true
					}
				}
				if okDel {
					c.ok(rule, key, p.Exit, "returns Del(ctx, key).Err()")
				} else {
					c.bad(rule, key, p.Exit, "redis client wrapper does not return the DEL command's error", p, p.End())
				}
			})
		}
	}

}

// findPatternCall returns the regexp.MustCompile/Compile call that builds the name pattern used by fn: in fn itself or
// in a module helper it calls (the walker inlines such a helper, so the call value is the one MatchString resolves to).
func findPatternCall(c *Ctx, fn *ssa.Function, depth int) *ssa.Call {
	var found *ssa.Call
	for _, b := range fn.Blocks {
		for _, in := range b.Instrs {
			if call, ok := in.(*ssa.Call); ok && (isStd(&call.Call, "regexp", "MustCompile") || isStd(&call.Call, "regexp", "Compile")) {
				found = call
			}
		}
	}
	if found != nil || depth >= 2 {
		return found
	}
	for _, b := range fn.Blocks {
		for _, in := range b.Instrs {
			if call, ok := in.(*ssa.Call); ok {
				if sc := call.Call.StaticCallee(); sc != nil && c.P.InModule(sc) && len(sc.Blocks) > 0 && sc != fn {
					if f := findPatternCall(c, sc, depth+1); f != nil {
						return f
					}
				}
			}
		}
	}
	return nil
}

// cookiesCallOf: the Cookies() call an element value (as returned by elementOfCookies) was taken from.
func cookiesCallOf(el ssa.Value) *ssa.Call {
	u, ok := el.(*ssa.UnOp)
	if !ok {
		return nil
	}
	ia, ok := u.X.(*ssa.IndexAddr)
	if !ok {
		return nil
	}
	call, _ := ia.X.(*ssa.Call)
	return call
}

// responseOfWriter: v is &http.Response{Header: rw.Header()} for the given writer parameter.
func responseOfWriter(v ssa.Value, rw ssa.Value) bool {
	al, ok := unwrap0(v).(*ssa.Alloc)
	if !ok || al.Referrers() == nil {
		return false
	}
	for _, r := range *al.Referrers() {
		fa, ok := r.(*ssa.FieldAddr)
		if !ok || walk.FieldOf(fa.X.Type(), fa.Field).Name() != "Header" || fa.Referrers() == nil {
			continue
		}
		for _, r2 := range *fa.Referrers() {
			st, ok := r2.(*ssa.Store)
			if !ok || st.Addr != ssa.Value(fa) {
				continue
			}
			if call, ok := unwrap0(st.Val).(*ssa.Call); ok && call.Call.IsInvoke() && call.Call.Method.Name() == "Header" && call.Call.Value == rw {
				return true
			}
		}
	}
	return false
}
