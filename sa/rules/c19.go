package rules

import (
	"go/token"
	"go/types"
	"sort"
	"strings"

	"golang.org/x/tools/go/ssa"

	"oapsa/internal/prog"
	"oapsa/internal/walk"
)

func init() {
	register(&Prop{
		ID:          "C19",
		Explanation: "Enumerates every source of a run-time panic the analysis can name in code reachable from ServeHTTP (VTA call graph) and requires each to be discharged: explicit panic statements and single-value type assertions (reviewed table, one construct one reason), index/slice expressions whose bounds check the Go compiler's prove pass could not eliminate (compiler IR residue mapped to function+expression; discharged by a dominating length guard found on every path or by the reviewed table), Must* calls with dynamic arguments (discharged when the argument is a constant template over regexp.QuoteMeta), dereferences of the nullable SessionState timestamps (non-nil fact by nil test, setter or fresh address on every path, or at every call site; includes passing them to helpers that dereference unguarded), and pointers filled by JSON/claims decoders used without a nil test; plus scope presence (NewScope is the first pre-auth middleware, installed before any route) and agreement between the SameSite values validation accepts and ParseSameSite handles. Added during the build: P6 — in every module function, the pointer/interface result of a fallible call is dereferenced (directly, through one phi, or by a module callee that dereferences its parameter unguarded) only behind the err==nil edge of that call's error, a nil test of the error merged with it, or a non-nil test of the result; logger.Fatal*/os.Exit arms count as terminating. Round 3: integer divisions by non-constants and assignments into maps not made locally are scanned as P7/P8. Round 4: validateCookie judges cookie_samesite as configured — it does not rewrite the field of its own copy before comparing (under samesite-agreement). Round 5: a module function whose request-reachable caller dereferences the pointer result after checking only the error never returns (nil, nil) (P9). Round 6: every caller of getAuthenticatedSession dereferences the session only behind a non-nil test (P10); index loops over a decoded local are discharged automatically. Round 7: P11 — a nilable value (pointer, interface, map, func) read from a map with the single-value form and never compared with nil is a site (zero today).",
		NotDecided:  "panics inside third-party libraries on hostile bytes (msgpack, lz4, go-oidc, gorilla); nil-map writes, integer division, channel misuse and resource exhaustion; bounds checks inside inlined standard-library code are attributed to the trusted library.",
		Run:         runC19,
	})
}

// reviewedPanics: one construct, one reason. Keys: kind|function|expression.
var reviewedPanics = reviewed{
	"P2|pkg/apis/middleware.GetRequestScope|scope.(*RequestScope)":                                        "the value under the private key type scopeKey is only ever stored by AddRequestScope, as *RequestScope (checked: single WithValue site)",
	"P1|(*pkg/app/pagewriter.pageGetter).getPage|panic":                                                   "page names are the package's own constants, all registered by loadStaticPages at construction",
	"P1|pkg/cookies.ParseSameSite|panic":                                                                  "SameSite is restricted to '', lax, strict, none by validateCookie (agreement checked by samesite-agreement)",
	"P4|(*pkg/cookies.csrf).cookieName|encryption.HashNonce(c.OAuthState)[0:csrfStateLength - 1]":         "HashNonce of a non-nil nonce is 43 base64 characters; every CSRF this proxy signs carries 32 state bytes",
	"P4|pkg/encryption.cookieSignature|args[0]":                                                           "variadic always called with the seed first (SignedValue and Validate pass four strings)",
	"P1|(*pkg/ip.NetSet).getNetMaps|panic":                                                                "net.IP values reaching NetSet come from net.ParseIP/ParseCIDR (4 or 16 bytes); nil is rejected by isTrustedIP before Has",
	"P1|(pkg/ip.ipNetMap).has|panic":                                                                      "maps are selected per address family by getNetMaps, so mask and address lengths agree",
	"P4|(*pkg/encryption.cfbCipher).Encrypt|ciphertext[:aes.BlockSize]":                                   "ciphertext was made with length aes.BlockSize+len(value)",
	"P4|pkg/requests/util.GetRequestPath|uri[:idx]":                                                       "idx is strings.Index's result and != -1",
	"P4|pkg/sessions/cookie.splitCookie|valueBytes[:valueSize]":                                           "valueSize = 4000 - (name+attribute overhead); the validated name is < 256 bytes and attributes are short configuration strings",
	"P4|pkg/sessions/cookie.splitCookie|valueBytes[valueSize:]":                                           "same bound as valueBytes[:valueSize]",
	"P4|pkg/sessions/cookie.splitCookieName|name[:len(name) - overflow]":                                  "overflow = len(name_<count>) - 256 < len(name) because the suffix is a few digits",
	"P4|pkg/upstream.sortByPathLongest$1|in[i]":                                                           "sort.Slice passes indices within the slice",
	"P4|pkg/upstream.sortByPathLongest$1|in[j]":                                                           "sort.Slice passes indices within the slice",
	"P4|pkg/validation.validateCookie$1|o.Domains[i]":                                                     "sort.Slice passes indices within the slice (configuration time)",
	"P4|pkg/validation.validateCookie$1|o.Domains[j]":                                                     "sort.Slice passes indices within the slice (configuration time)",
	"P4|pkg/upstream.splitPathAndQuery|s[1]":                                                              "SplitN(raw, \"?\", 2) has 1 or 2 elements and the 1-element case returned above",
	"P4|pkg/util.SplitHostPort|host[colon:]":                                                              "colon is LastIndexByte's result and != -1 (copy of net/url's splitHostPort)",
	"P4|pkg/util.SplitHostPort|host[:colon]":                                                              "colon is LastIndexByte's result and != -1",
	"P4|pkg/util.SplitHostPort|host[colon + 1:]":                                                          "colon < len(host), so colon+1 <= len(host)",
	"P4|pkg/util.SplitHostPort|host[1:len(host) - 1]":                                                     "host starts with '[' and ends with ']': len(host) >= 2 unless host is a single bracket, which cannot satisfy both tests",
	"P4|pkg/util.isHostnameAllowed|allowedHost[1:]":                                                       "evaluated only after HasPrefix(allowedHost, \"*.\") (short-circuit &&)",
	"P4|main.isEmailValidWithDomains|atoms[len(atoms) - 1]":                                               "strings.Split never returns an empty slice",
	"P4|main.isEmailValidWithDomains|domain[1:]":                                                          "evaluated only after HasPrefix(domain, \"*.\") (short-circuit &&)",
	"P2|pkg/middleware.registerRequestsCounter|are.ExistingCollector.(*prometheus.CounterVec)":            "the collector already registered under this name was registered by this very function",
	"P1|pkg/middleware.registerRequestsCounter|panic":                                                     "Register fails only with AlreadyRegisteredError for a consistent collector",
	"P2|pkg/middleware.registerInflightRequestsGauge|are.ExistingCollector.(prometheus.Gauge)":            "the collector already registered under this name was registered by this very function",
	"P1|pkg/middleware.registerInflightRequestsGauge|panic":                                               "Register fails only with AlreadyRegisteredError for a consistent collector",
	"P2|pkg/middleware.registerRequestsLatencyHistogram|are.ExistingCollector.(*prometheus.HistogramVec)": "the collector already registered under this name was registered by this very function",
	"P1|pkg/middleware.registerRequestsLatencyHistogram|panic":                                            "Register fails only with AlreadyRegisteredError for a consistent collector",
	"P4|providers.(*BitbucketProvider).getRepositories|strings.Split(p.Repository, \"/\")[0]":             "strings.Split never returns an empty slice",
	"P4|(*providers.BitbucketProvider).GetEmailAddress|strings.Split(p.Repository, \"/\")[0]":             "strings.Split never returns an empty slice",
	"P4|(*providers.GitHubProvider).hasOrgAndTeam|ot[0]":                                                  "group contains the separator, so Split yields at least two elements",
	"P4|(*providers.GitHubProvider).hasOrgAndTeam|ot[1]":                                                  "group contains the separator, so Split yields at least two elements",
	"P2|providers.checkNonce|token.Claims.(*loginGovCustomClaims)":                                        "ParseWithClaims was given &loginGovCustomClaims{} and returns it as token.Claims",
	"P2|(*providers.MicrosoftEntraIDProvider).getTenantFromToken|value.(string)":                          "the session's ID token passed go-oidc's Verify, which unmarshals iss into a string field; a non-string iss fails verification before a session exists",
}

// loggerPanics: pkg/logger panics on template execution errors; templates are parsed and exercised at configuration time.
func loggerReason(s panicSite) (string, bool) {
	if s.Kind == "P1" && prog.Short(prog.FnPkg(s.Fn).Path()) == "pkg/logger" {
		return "reviewed: logger templates are parsed at configuration time and executed on fixed data structures into memory buffers", true
	}
	return "", false
}

func (c *Ctx) panicAuto(rule string) func(panicSite) (string, bool) {
	nameF := c.P.Field("pkg/apis/options.Cookie.Name")
	return func(s panicSite) (string, bool) {
		if how, ok := loggerReason(s); ok {
			return how, true
		}
		switch s.Kind {
		case "P5":
			if call, ok := s.In.(*ssa.Call); ok && nameF != nil {
				if ok, _ := clearPatternOK(call.Call.Args[0], nameF); ok {
					return "pattern is a constant template over regexp.QuoteMeta(Cookie.Name): always compiles", true
				}
			}
		case "P4":
			// slices of a value guarded by a length test for the same bound on every path
			if c.sliceGuardedEverywhere(s) {
				return "dominated on every path by a length test for the same bound", true
			}
			if c.indexResultGuardedEverywhere(s) {
				return "sliced at the result of strings.Index*(same string, ·) on paths where that result was found not to be -1", true
			}
			if c.indexPlusOneSuffix(s) {
				return "x[strings.Index*/LastIndex*(x, non-empty sep)+1:]: the low bound is between 0 (not found: -1+1) and len(x)", true
			}
			if c.lastElemGuardedEverywhere(s) {
				return "x[len(x)-1] reached only on paths where len(x) is known positive", true
			}
			if c.loopIndexGuardedEverywhere(s) {
				return "x[i] with a counter i >= 0 reached only on paths where i < len(x) was found true, x a local the function never stores to (the compiler gives up because its address was handed to a decoder)", true
			}
		}
		return "", false
	}
}

// indexResultGuardedEverywhere: every slice at the site is x[:i], x[i:] or x[i+k:] (small constant k) with
// i = strings.Index/IndexRune/IndexByte/LastIndex*(x, ·) of the same string, on paths that assumed i != -1 (or i >= 0).
func (c *Ctx) indexResultGuardedEverywhere(s panicSite) bool {
	var targets []*ssa.Slice
	for _, b := range s.Fn.Blocks {
		for _, in := range b.Instrs {
			if sl, ok := in.(*ssa.Slice); ok && c.P.Pos(sl.Pos()) == c.P.Pos(s.Pos) {
				targets = append(targets, sl)
			}
		}
	}
	if len(targets) == 0 {
		return false
	}
	all, seen := true, false
	w := walk.New(c.P, s.Fn)
	w.MaxPaths = 20000
	w.Run(func(p *walk.Path) {
		for i, st := range p.Steps {
			sl, ok := st.In.(*ssa.Slice)
			if !ok {
				continue
			}
			hit := false
			for _, t := range targets {
				if t == sl {
					hit = true
				}
			}
			if !hit {
				continue
			}
			seen = true
			base := p.Resolve(p.StepOp(sl.X, st))
			for _, bound := range []ssa.Value{sl.Low, sl.High} {
				if bound == nil {
					continue
				}
				bv := p.Resolve(p.StepOp(bound, st))
				if add, ok := bv.V.(*ssa.BinOp); ok && add.Op == token.ADD {
					if k, isK := ConstInt(add.Y); isK && k >= 0 && k <= 4 {
						bv = p.Resolve(p.Op(add.X, bv))
					}
				}
				call, ok := bv.V.(*ssa.Call)
				okIdx := ok && call.Call.StaticCallee() != nil && call.Call.StaticCallee().Pkg != nil && call.Call.StaticCallee().Pkg.Pkg.Path() == "strings" && strings.Contains(call.Call.StaticCallee().Name(), "Index")
				if okIdx && p.Key(p.Op(call.Call.Args[0], bv)) != p.Key(base) {
					okIdx = false
				}
				found := false
				if okIdx {
					for _, a := range p.Atoms(i) {
						b, ok := a.DV.V.(*ssa.BinOp)
						if !ok || a.IsNil {
							continue
						}
						x, y := p.Resolve(p.Op(b.X, a.DV)), p.Resolve(p.Op(b.Y, a.DV))
						isB := func(v walk.DV) bool { return p.Key(v) == p.Key(bv) }
						cy, yc := ConstInt(y.V)
						cx, xc := ConstInt(x.V)
						switch {
						case (b.Op == token.EQL || b.Op == token.NEQ) && !a.Val && ((isB(x) && yc && cy == -1) || (isB(y) && xc && cx == -1)):
							found = true
						case b.Op == token.GEQ && a.Val && isB(x) && yc && cy >= 0:
							found = true
						case b.Op == token.GTR && a.Val && isB(x) && yc && cy >= -1:
							found = true
						case b.Op == token.LSS && !a.Val && isB(x) && yc && cy <= 0:
							found = true
						}
					}
				}
				if !found {
					all = false
				}
			}
		}
	})
	return seen && all && !w.Overflow
}

// lastElemGuardedEverywhere: every index instruction at the site is x[len(x)-1] and every path to it
// assumed len(x) > 0 (or len(x) != 0, len(x) >= 1).
func (c *Ctx) lastElemGuardedEverywhere(s panicSite) bool {
	var targets []*ssa.IndexAddr
	for _, b := range s.Fn.Blocks {
		for _, in := range b.Instrs {
			if ia, ok := in.(*ssa.IndexAddr); ok && c.P.Pos(ia.Pos()) == c.P.Pos(s.Pos) {
				targets = append(targets, ia)
			}
		}
	}
	if len(targets) == 0 {
		return false
	}
	// re-loads of the indexed slot count as the same value only if the function itself never stores to a
	// slice-typed field or element
	for _, b := range s.Fn.Blocks {
		for _, in := range b.Instrs {
			if st, ok := in.(*ssa.Store); ok {
				if _, isSlice := st.Val.Type().Underlying().(*types.Slice); isSlice {
					if _, local := st.Addr.(*ssa.Alloc); !local {
						return false
					}
				}
			}
		}
	}
	all, seen := true, false
	w := walk.New(c.P, s.Fn)
	w.MaxPaths = 20000
	w.Run(func(p *walk.Path) {
		for i, st := range p.Steps {
			ia, ok := st.In.(*ssa.IndexAddr)
			if !ok {
				continue
			}
			hit := false
			for _, t := range targets {
				if t == ia {
					hit = true
				}
			}
			if !hit {
				continue
			}
			seen = true
			base := p.Resolve(p.StepOp(ia.X, st))
			sub, ok := p.Resolve(p.StepOp(ia.Index, st)).V.(*ssa.BinOp)
			if !ok || sub.Op != token.SUB {
				all = false
				continue
			}
			if n, ok := ConstInt(sub.Y); !ok || n != 1 {
				all = false
				continue
			}
			isLenOfBase := func(v walk.DV) bool {
				call, ok := p.Resolve(v).V.(*ssa.Call)
				if !ok {
					return false
				}
				bi, ok := call.Call.Value.(*ssa.Builtin)
				// same value, or a re-load of the same field/element slot (the function stores to no such slot: checked below)
				return ok && bi.Name() == "len" && sameValueOrSlot(p, p.Op(call.Call.Args[0], p.Resolve(v)), base)
			}
			if !isLenOfBase(p.StepOp(sub.X, st)) {
				all = false
				continue
			}
			guarded := false
			for _, a := range p.Atoms(i) {
				b, ok := a.DV.V.(*ssa.BinOp)
				if !ok || a.IsNil {
					continue
				}
				x, y := p.Op(b.X, a.DV), p.Op(b.Y, a.DV)
				cy, yConst := ConstInt(b.Y)
				cx, xConst := ConstInt(b.X)
				switch {
				case b.Op == token.GTR && a.Val && isLenOfBase(x) && yConst && cy >= 0: // len > 0
					guarded = true
				case b.Op == token.GEQ && a.Val && isLenOfBase(x) && yConst && cy >= 1: // len >= 1
					guarded = true
				case b.Op == token.LSS && a.Val && isLenOfBase(y) && xConst && cx >= 0: // 0 < len
					guarded = true
				case (b.Op == token.EQL || b.Op == token.NEQ) && !a.Val && isLenOfBase(x) && yConst && cy == 0: // !(len == 0)
					guarded = true
				case b.Op == token.LEQ && !a.Val && isLenOfBase(x) && yConst && cy >= 0: // !(len <= 0)
					guarded = true
				}
			}
			if !guarded {
				all = false
			}
		}
	})
	return seen && all && !w.Overflow
}

// loopIndexGuardedEverywhere: every index instruction at the site is x[i] where x is (a re-load of) a local variable the
// function never stores to — it is filled only through its address, by a decoder called before the loop — i is a
// counter that starts at a non-negative constant and only grows, and every path to the instruction assumed i < len(x).
// This is the index-loop spelling of `for _, e := range x`; the compiler cannot prove it once &x has escaped.
func (c *Ctx) loopIndexGuardedEverywhere(s panicSite) bool {
	var targets []*ssa.IndexAddr
	for _, b := range s.Fn.Blocks {
		for _, in := range b.Instrs {
			if ia, ok := in.(*ssa.IndexAddr); ok && c.P.Pos(ia.Pos()) == c.P.Pos(s.Pos) {
				targets = append(targets, ia)
			}
		}
	}
	if len(targets) == 0 {
		return false
	}
	for _, ia := range targets {
		ld, ok := ia.X.(*ssa.UnOp)
		if !ok || ld.Op != token.MUL {
			return false
		}
		al, ok := ld.X.(*ssa.Alloc)
		if !ok || len(storesTo(al)) > 0 {
			return false
		}
		// the decoder that fills it runs before the loop: every call receiving the address dominates the index
		for _, r := range *al.Referrers() {
			var blk *ssa.BasicBlock
			switch x := r.(type) {
			case *ssa.UnOp, *ssa.DebugRef:
				continue
			case *ssa.MakeInterface:
				blk = x.Block()
			case ssa.CallInstruction:
				blk = x.Block()
			default:
				return false
			}
			if blk == ia.Block() || !blk.Dominates(ia.Block()) {
				return false
			}
		}
		phi, ok := ia.Index.(*ssa.Phi)
		if !ok {
			return false
		}
		for _, e := range phi.Edges {
			if k, isC := ConstInt(e); isC && k >= 0 {
				continue
			}
			if add, isAdd := e.(*ssa.BinOp); isAdd && add.Op == token.ADD && add.X == ssa.Value(phi) {
				if k, isC := ConstInt(add.Y); isC && k > 0 {
					continue
				}
			}
			return false
		}
	}
	all, seen := true, false
	w := walk.New(c.P, s.Fn)
	w.MaxPaths = 20000
	w.Run(func(p *walk.Path) {
		for i, st := range p.Steps {
			ia, ok := st.In.(*ssa.IndexAddr)
			if !ok {
				continue
			}
			hit := false
			for _, t := range targets {
				if t == ia {
					hit = true
				}
			}
			if !hit {
				continue
			}
			seen = true
			base := p.Resolve(p.StepOp(ia.X, st))
			idx := p.StepOp(ia.Index, st)
			guarded := false
			for _, a := range p.Atoms(i) {
				b, ok := a.DV.V.(*ssa.BinOp)
				if !ok || a.IsNil {
					continue
				}
				isLenOfBase := func(v walk.DV) bool {
					call, ok := p.Resolve(v).V.(*ssa.Call)
					if !ok {
						return false
					}
					bi, ok := call.Call.Value.(*ssa.Builtin)
					if !ok || bi.Name() != "len" {
						return false
					}
					arg := p.Resolve(p.Op(call.Call.Args[0], p.Resolve(v)))
					if p.Same(arg, base) {
						return true
					}
					// a re-load of the same local (never stored to: checked above)
					la, ok1 := arg.V.(*ssa.UnOp)
					lb, ok2 := base.V.(*ssa.UnOp)
					return ok1 && ok2 && la.Op == token.MUL && lb.Op == token.MUL && la.X == lb.X
				}
				x, y := p.Op(b.X, a.DV), p.Op(b.Y, a.DV)
				switch {
				case b.Op == token.LSS && a.Val && p.Same(x, idx) && isLenOfBase(y): // i < len(x)
					guarded = true
				case b.Op == token.GTR && a.Val && p.Same(y, idx) && isLenOfBase(x): // len(x) > i
					guarded = true
				case b.Op == token.GEQ && !a.Val && p.Same(x, idx) && isLenOfBase(y): // !(i >= len(x))
					guarded = true
				}
			}
			if !guarded {
				all = false
			}
		}
	})
	return seen && all && !w.Overflow
}

// sliceGuardedEverywhere: all SSA slice instructions at the site's position are length-guarded on every path.
func (c *Ctx) sliceGuardedEverywhere(s panicSite) bool {
	var targets []*ssa.Slice
	for _, b := range s.Fn.Blocks {
		for _, in := range b.Instrs {
			if sl, ok := in.(*ssa.Slice); ok && c.P.Pos(sl.Pos()) == c.P.Pos(s.Pos) {
				targets = append(targets, sl)
			}
		}
	}
	if len(targets) == 0 {
		return false
	}
	all, seen := true, false
	w := walk.New(c.P, s.Fn)
	w.MaxPaths = 20000
	w.Run(func(p *walk.Path) {
		for i, st := range p.Steps {
			sl, ok := st.In.(*ssa.Slice)
			if !ok {
				continue
			}
			hit := false
			for _, t := range targets {
				if t == sl {
					hit = true
				}
			}
			if !hit {
				continue
			}
			seen = true
			base := p.Resolve(p.StepOp(sl.X, st)).V
			for _, bound := range []ssa.Value{sl.Low, sl.High} {
				if bound != nil && !lenGuard(p, i, base, p.StepOp(bound, st)) {
					all = false
				}
			}
		}
	})
	return seen && all && !w.Overflow
}

func runC19(c *Ctx) {
	r := c.R
	r.Rule("P-sites", "every explicit panic, unchecked assertion, unproven bounds check and dynamic Must* call in request-reachable code is guarded or reviewed", 43)
	r.Rule("P3-nullable", "nullable session timestamps and decoder-filled pointers are never dereferenced without a non-nil fact", 11)
	r.Rule("P6-result-before-errcheck", "a pointer/interface result of a fallible call is dereferenced only behind the err==nil edge of that call's error (or a non-nil test of the result)", 57)
	r.Rule("scope-presence", "GetRequestScope's result is non-nil for every routed request: NewScope is the first pre-auth middleware", 2)
	r.Rule("P9-value-or-error", "the callee side of P6: a module function whose request-reachable caller dereferences the pointer result after checking only the error never returns (nil, nil)", 10)
	r.Rule("P10-session-may-be-absent", "getAuthenticatedSession answers (nil, nil) for a bypassed request without credentials: every caller dereferences the session only behind a non-nil test of it", 3)
	r.Rule("samesite-agreement", "every SameSite value validation accepts is handled by ParseSameSite without panicking; validation judges the value as configured", 2)

	rule := "P-sites"
	R := c.requestReachable(rule)
	if R == nil {
		return
	}
	if len(R) < 250 {
		c.R.Unknown(rule, "reach", "-", sprintf("only %d request-reachable module functions (expected about 440): the call graph root has moved", len(R)))
	}
	sites := c.ssaPanicSites(R)
	bce, total := c.bceResidue(rule)
	inR := 0
	for _, s := range bce {
		if R[s.Fn] {
			sites = append(sites, s)
			inR++
		}
	}
	c.R.Notes = append(c.R.Notes, sprintf("request-reachable module functions (VTA from ServeHTTP): %d; compiler BCE residue: %d lines, %d index/slice sites in module code, %d of them request-reachable", len(R), total, len(bce), inR))
	c.dischargeSites(rule, sites, reviewedPanics, c.panicAuto(rule))

	// ---- P3 -------------------------------------------------------------------------------------
	rule = "P3-nullable"
	var fns []*ssa.Function
	for fn := range R {
		fns = append(fns, fn)
	}
	// the session type's own methods are reachable through interface dispatch and reflection-free calls; include all of them
	for _, fn := range c.P.ModFns {
		if !R[fn] && prog.Short(prog.FnPkg(fn).Path()) == "pkg/apis/sessions" {
			fns = append(fns, fn)
		}
	}
	sort.Slice(fns, func(i, j int) bool { return fns[i].String() < fns[j].String() })
	if n := c.newNullable(rule); n != nil {
		n.checkTimestamps(rule, fns)
	}
	c.checkDecodedPointers(rule, fns)

	// ---- P6 -------------------------------------------------------------------------------------
	c.checkErrResults("P6-result-before-errcheck", c.P.ModFns)
	{
		var reach []*ssa.Function
		if R := c.requestReachable("P9-value-or-error"); R != nil {
			for _, fn := range c.P.ModFns {
				if R[fn] {
					reach = append(reach, fn)
				}
			}
		}
		c.checkNilNilPairs("P9-value-or-error", reach)
	}
	runC19P10(c, "P10-session-may-be-absent")

	// ---- scope presence -----------------------------------------------------------------------
	rule = "scope-presence"
	bpc := c.Fn(rule, "main.buildPreAuthChain")
	newScope := c.Fn(rule, "pkg/middleware.NewScope")
	addScope := c.Fn(rule, "pkg/apis/middleware.AddRequestScope")
	if bpc != nil && newScope != nil && addScope != nil {
		first := false
		for _, b := range bpc.Blocks {
			for _, in := range b.Instrs {
				call, ok := in.(*ssa.Call)
				if !ok || call.Call.StaticCallee() == nil || call.Call.StaticCallee().Name() != "New" || call.Call.StaticCallee().Pkg == nil || call.Call.StaticCallee().Pkg.Pkg.Path() != "github.com/justinas/alice" {
					continue
				}
				if el := varargElem(call.Call.Args[0], 0); el != nil {
					if c2, ok := unwrap0(el).(*ssa.Call); ok && c2.Call.StaticCallee() == newScope {
						first = true
					}
				}
			}
		}
		if first {
			c.ok(rule, "first-middleware|"+fnKey(bpc), bpc.Blocks[0].Instrs[0], "alice.New(middleware.NewScope(...), ...) — installation on the root router is C01.R8")
		} else {
			c.bad(rule, "first-middleware|"+fnKey(bpc), bpc.Blocks[0].Instrs[0], "NewScope is not the first constructor of the pre-auth chain: handlers dereference a nil request scope", nil, 0)
		}
		// NewScope's handler adds the scope before calling next
		h := c.P.Func("pkg/middleware.NewScope$1$1")
		if h == nil {
			c.R.Unknown(rule, "adds-scope", "-", "NewScope handler closure not found")
		} else {
			okAdd := false
			c.Walk(rule, h, func(p *walk.Path) {
				for _, cl := range p.Calls() {
					if cl.C.IsInvoke() && cl.C.Method.Name() == "ServeHTTP" {
						as, ok := extractOfCall(p, p.Arg(cl, 1), 0)
						if ok && as.C.StaticCallee() == addScope {
							okAdd = true
						} else {
							okAdd = false
							c.bad(rule, "adds-scope|"+fnKey(h), cl.In, "the next handler is not given the request returned by AddRequestScope", p, cl.Idx)
						}
					}
				}
			})
			if okAdd {
				c.ok(rule, "adds-scope|"+fnKey(h), h.Blocks[0].Instrs[0], "next.ServeHTTP(rw, AddRequestScope(req, scope))")
			}
		}
		// the context key is written only by AddRequestScope
		n := 0
		for _, fn := range c.P.ModFns {
			for _, b := range fn.Blocks {
				for _, in := range b.Instrs {
					if call, ok := in.(*ssa.Call); ok && isStd(&call.Call, "context", "WithValue") {
						if k, ok := unwrap(call.Call.Args[1]).(*ssa.Const); ok && strings.Contains(k.Type().String(), "scopeKey") {
							n++
							if fn != addScope {
								c.bad(rule, "key-writer|"+fnKey(fn), in, "the request-scope context key is written outside AddRequestScope", nil, 0)
							}
						}
					}
				}
			}
		}
		if n == 0 {
			c.R.Unknown(rule, "key-writer", "-", "no context.WithValue with the scope key found")
		}
	}

	// ---- SameSite agreement -------------------------------------------------------------------
	rule = "samesite-agreement"
	parse := c.Fn(rule, "pkg/cookies.ParseSameSite")
	validate := c.Fn(rule, "pkg/validation.validateCookie")
	sameSiteF := c.Field(rule, "pkg/apis/options.Cookie.SameSite")
	if parse != nil && validate != nil && sameSiteF != nil {
		handled := map[string]bool{}
		for _, b := range parse.Blocks {
			for _, in := range b.Instrs {
				if bo, ok := in.(*ssa.BinOp); ok {
					for _, pair := range [][2]ssa.Value{{bo.X, bo.Y}, {bo.Y, bo.X}} {
						if s, ok := ConstString(pair[1]); ok && pair[0] == parse.Params[0] {
							handled[s] = true
						}
					}
				}
			}
		}
		accepted := map[string]bool{}
		for _, b := range validate.Blocks {
			for _, in := range b.Instrs {
				if bo, ok := in.(*ssa.BinOp); ok {
					for _, pair := range [][2]ssa.Value{{bo.X, bo.Y}, {bo.Y, bo.X}} {
						if s, ok := ConstString(pair[1]); ok && isFieldLoadOf(pair[0], sameSiteF) {
							accepted[s] = true
						}
					}
				}
			}
		}
		missing := ""
		for s := range accepted {
			if !handled[s] {
				missing += " " + strconvQuote(s)
			}
		}
		// the value judged is the configured one: validation does not rewrite the field (of its own copy) before comparing
		rewritten := false
		for _, ref := range c.fieldRefs(sameSiteF) {
			if ref.Store != nil && ref.Fn == validate {
				rewritten = true
				c.bad(rule, "judges-configured-value", ref.In, "validateCookie rewrites cookie_samesite (in its own copy of the options) before judging it: the set it accepts is then wider than the literals it compares with, while MakeCookieFromOptions hands the configured spelling to ParseSameSite, which panics on anything outside its own list", nil, 0)
			}
		}
		if !rewritten {
			c.R.OK(rule, "judges-configured-value", c.P.Pos(validate.Pos()), "validateCookie compares the field as configured")
		}
		switch {
		case len(accepted) == 0:
			c.R.Unknown(rule, "literals", c.P.Pos(validate.Pos()), "validateCookie no longer restricts SameSite by literal comparison")
		case missing != "":
			c.bad(rule, "literals", parse.Blocks[0].Instrs[0], "validation accepts SameSite values that ParseSameSite answers with a panic:"+missing, nil, 0)
		default:
			c.ok(rule, "literals", parse.Blocks[0].Instrs[0], sprintf("all %d accepted values are handled", len(accepted)))
		}
	}
}

func strconvQuote(s string) string { return "\"" + s + "\"" }

// runC19P10: P9 sees a (nil, nil) pair only when the callee returns literal nils. getAuthenticatedSession returns the
// request scope's session — nil when a skip-auth route, a trusted address or a preflight lets a request without
// credentials through — together with a nil error. That "no error does not mean a session" is a reviewed fact about
// this one function; the rule holds every caller to it: each dereference of the session result (a field access, or
// handing it to a module function that dereferences its parameter unguarded) is dominated by a non-nil test of it.
func runC19P10(c *Ctx, rule string) {
	gas := c.Fn(rule, "(*main.OAuthProxy).getAuthenticatedSession")
	if gas == nil {
		return
	}
	n := 0
	for _, cs := range c.callersOf(gas) {
		call, ok := cs.(*ssa.Call)
		if !ok || call.Referrers() == nil {
			continue
		}
		for _, r := range *call.Referrers() {
			ex, ok := r.(*ssa.Extract)
			if !ok || ex.Index != 0 || ex.Referrers() == nil {
				continue
			}
			n++
			key := "session-nil-tested|" + fnKey(call.Parent())
			_, nonNil := nilTestEdges(ex)
			bad := false
			for _, u := range *ex.Referrers() {
				if derefUse(c, u, ex) && !dominatedByAny(u.Block(), nonNil) {
					bad = true
					c.bad(rule, key, u, "the session returned by getAuthenticatedSession is dereferenced without a non-nil test: a request let through without credentials (skip-auth route, trusted address, preflight) has no session and panics here", nil, 0)
				}
			}
			if !bad {
				c.ok(rule, key, call, "every dereference of the session is behind a non-nil test (or there is none)")
			}
		}
	}
	if n == 0 {
		c.R.Unknown(rule, "session-nil-tested|none", "-", "no caller of getAuthenticatedSession uses its session result")
	}
}

// indexPlusOneSuffix: every slice at the site is x[i+1:] with i = strings.Index/LastIndex(x, <non-empty constant>) or
// IndexByte/LastIndexByte/IndexRune(x, ·) of the SAME string: i ranges over -1 … len(x)-1, so the bound is always valid
// (neutral batch 9: strings.Split(email, "@") last element rewritten as email[strings.LastIndex(email, "@")+1:]).
func (c *Ctx) indexPlusOneSuffix(s panicSite) bool {
	n := 0
	for _, b := range s.Fn.Blocks {
		for _, in := range b.Instrs {
			sl, ok := in.(*ssa.Slice)
			if !ok || c.P.Pos(sl.Pos()) != c.P.Pos(s.Pos) {
				continue
			}
			n++
			if sl.High != nil || sl.Max != nil || sl.Low == nil {
				return false
			}
			bo, ok := unwrap0(sl.Low).(*ssa.BinOp)
			if !ok || bo.Op != token.ADD {
				return false
			}
			k, ok := ConstInt(bo.Y)
			if !ok || k != 1 {
				return false
			}
			call, ok := unwrap0(bo.X).(*ssa.Call)
			if !ok || len(call.Call.Args) < 2 || unwrap0(call.Call.Args[0]) != unwrap0(sl.X) {
				return false
			}
			switch {
			case isStd(&call.Call, "strings", "Index"), isStd(&call.Call, "strings", "LastIndex"):
				if sep, ok := ConstString(call.Call.Args[1]); !ok || sep == "" {
					return false
				}
			case isStd(&call.Call, "strings", "IndexByte"), isStd(&call.Call, "strings", "LastIndexByte"), isStd(&call.Call, "strings", "IndexRune"):
			default:
				return false
			}
		}
	}
	return n > 0
}
