package rules

import (
	"go/token"
	"go/types"
	"strings"

	"golang.org/x/tools/go/ssa"

	"oapsa/internal/prog"
	"oapsa/internal/walk"
)

func init() {
	register(&Prop{
		ID:          "C15",
		Explanation: "Decides which request data can reach the bypass decisions: the string given to every skip-auth route regex is, on every path, query- and fragment-free — the Path of url.Parse(u), u cut at the first '?', or u itself under the fact that it contains no '?', where u is the guarded request-URI accessor's result (taint rule, unknown origin = violation); isAllowedMethod is true only for an empty rule method or equality with req.Method, isAllowedRoute only when both predicates hold for the same route element, isAllowedPath returns the negated match exactly under route.negate, and the rule builder upper-cases the method and sets negate from '!='; preflight needs the flag and OPTIONS (C01.R4); isTrustedIP is true only as trustedIPs.Has(ip) for the non-nil, error-free result of GetClientIP(p.realClientIPParser, req); NetSet.Has is true only on a hit of ipNetMap.has for the same address, which is a lookup of Mask(ip, m.mask).String(); AddIPNet inserts IP.String() only into a per-mask map whose mask size was compared equal to the network's (or recurses after creating one with the network's mask), and both sides select the family through getNetMaps; ParseIPNet rejects CIDRs with host bits set. Added during the build: the address used for the trusted-IP decision is parsed from the first comma-separated element of the configured header (R6). Round 3: the host-bit test compares ipNet.IP with the address exactly as parsed (under R5); the header parser exists only under reverse-proxy mode (R7); remote-address rule (R8). Round 4: the operand of the rule match is the decoded path (url.URL.Path), never the percent-encoded spelling (under R1); the operator's skip-auth routes, skip-auth regexes and trusted-IP entries are never rewritten between option loading and the code that compiles them (R9). Round 6: no module code writes Request.RemoteAddr (under R8); the option loader's viper switches are a reviewed closed list (under R9). Round 7: request handling keeps no state of its own between requests — no store, map update, in-place builtin, atomic/sync.Map write or pointer-receiver library call (singleflight, caches) reached from ServeHTTP targets a package-level variable, an object built at start-up, or a constructor variable captured by the handler it returned, declared in the packages implementing this property (RS; a class-wide who-may-write rule with zero instances today: a correct memoisation would be reported until reviewed). Nothing stored into a compiled skip-auth rule is carried over from the previous configured entry (loop-carried value; under R2). Round 8: the per-request ReverseProxy flag that lets X-Forwarded-Uri replace the matched path is the operator's option and nothing else (R10, shared with C16.R3). Round 8 (class-wide, P12): in the packages implementing this property every named error result that is used at all is examined — compared with nil, returned, stored or handed to a non-formatting function — unless the code validates the value result instead (RE; zero instances today).",
		NotDecided:  "the regular-expression engine, CIDR mask arithmetic over all addresses, IPv4-mapped IPv6 normalisation inside net.IP (values).",
		Run:         runC15,
	})
}

func runC15(c *Ctx) {
	c.R.Rule("RE-errors-examined", "in the packages implementing this property every named error result that is used at all is examined, or the value is validated instead (P12, class-wide, round 8)", 1)
	runErrorsExamined(c, "RE-errors-examined", "pkg/ip")
	c.R.Rule("RS-no-request-time-state", "request handling writes no state that outlives the request (package-level variables, objects built at start-up, constructor variables captured by handlers) declared in the packages implementing this property", 1)
	runStateless(c, "RS-no-request-time-state", "main.OAuthProxy", "main.allowedRoute", "pkg/ip")
	r := c.R
	r.Rule("R1-query-free-match", "the operand of every skip-auth regex match is query- and fragment-free on every path", 1)
	r.Rule("R2-route-predicates", "method equality, both predicates on the same route, negate handling, rule construction", 4)
	r.Rule("R3-preflight", "preflight bypass needs the flag and OPTIONS (C01.R4)", 4)
	r.Rule("R4-trusted-ip", "isTrustedIP true only as trustedIPs.Has(GetClientIP result), error-free and non-nil", 3)
	r.Rule("R5-netset-agreement", "NetSet add/has key agreement, same-mask insertion, family selection, host-bit rejection", 7)

	r.Rule("R6-client-first-element", "the real client address is the first comma-separated element of the configured header", 1)
	runC15R6(c, "R6-client-first-element")
	r.Rule("R7-header-parser-only-in-reverse-proxy", "the real-client-IP header parser is installed only under reverse-proxy mode (shared with C16.R4)", 1)
	runParserUnderFlag(c, "R7-header-parser-only-in-reverse-proxy")
	r.Rule("R9-rules-reach-matcher-verbatim", "the operator's skip-auth routes, skip-auth regexes and trusted-IP entries are never rewritten between option loading and the code that compiles them (no element store, reordering or reassignment outside pkg/apis/options); the loader installs no decode hook of its own and uses only its reviewed switches", 5)
	r.Rule("R10-reverse-proxy-flag-is-the-option", "the per-request ReverseProxy flag that lets X-Forwarded-Uri replace the path the rules are matched against is the operator's option and nothing else (shared with C16.R3, round 8)", 3)
	c.R.WithAlias(map[string]string{"R3-flag-integrity": "R10-reverse-proxy-flag-is-the-option"}, func() { runC16Body(c) })
	r.Rule("R8-remote-address", "without a header parser the client address is the host part of RemoteAddr that net.ParseIP accepted; nothing overwrites RemoteAddr", 3)
	runRemoteIPRule(c, "R8-remote-address")

	checkBypassOperand(c, "R1-query-free-match")
	runC15R9(c, "R9-rules-reach-matcher-verbatim")
	pathRegexF := c.Field("R2-route-predicates", "main.allowedRoute.pathRegex")

	// ---- R2 ---------------------------------------------------------------------------------
	rule := "R2-route-predicates"
	// the two small predicates are analysed on their own when they exist as functions (today); when a refactoring has
	// inlined them into isAllowedRoute, the combined rule below decides the same conditions on isAllowedRoute's paths
	isAllowedMethod := c.P.Func("main.isAllowedMethod")
	isAllowedPath := c.P.Func("main.isAllowedPath")
	isAllowedRoute := c.Fn(rule, "(*main.OAuthProxy).isAllowedRoute")
	if isAllowedMethod != nil && isAllowedPath != nil {
		c.Fn(rule, "main.isAllowedMethod") // register as anchors: analysed separately, never inlined
		c.Fn(rule, "main.isAllowedPath")
	}
	methodF := c.Field(rule, "main.allowedRoute.method")
	negateF := c.Field(rule, "main.allowedRoute.negate")
	routesF := c.Field(rule, "main.OAuthProxy.allowedRoutes")
	reqMethodF := c.P.Field("net/http.Request.Method")
	build := c.Fn(rule, "main.buildRoutesAllowlist")
	if (isAllowedMethod == nil || isAllowedPath == nil) && isAllowedRoute != nil && methodF != nil && negateF != nil && pathRegexF != nil && reqMethodF != nil {
		runC15R2Combined(c, rule, isAllowedRoute, methodF, negateF, pathRegexF, reqMethodF)
	}
	if isAllowedMethod != nil && isAllowedRoute != nil && isAllowedPath != nil && methodF != nil && negateF != nil && routesF != nil && reqMethodF != nil && build != nil {
		c.Walk(rule, isAllowedMethod, func(p *walk.Path) {
			rv, ok := p.ReturnDV(0)
			if !ok {
				return
			}
			if b, k := p.Truth(rv, p.End()); k && !b {
				return
			}
			key := "method-true|" + fnKey(isAllowedMethod)
			isRouteMethod := func(x walk.DV) bool { return isFieldLoadOrValue(p.Resolve(x).V, methodF) }
			if eqConstAtom(p, p.End(), true, "", isRouteMethod) {
				c.ok(rule, key+"|any-method", p.Exit, "rule names no method")
				return
			}
			// returned value is (req.Method == route.method) or that atom is assumed true
			isEq := func(v ssa.Value) bool {
				b, ok := v.(*ssa.BinOp)
				if !ok || b.Op != token.EQL {
					return false
				}
				return (walk.IsFieldLoad(b.X, reqMethodF) && isFieldLoadOrValue(b.Y, methodF)) || (walk.IsFieldLoad(b.Y, reqMethodF) && isFieldLoadOrValue(b.X, methodF))
			}
			if isEq(p.Resolve(rv).V) {
				c.ok(rule, key+"|equal", p.Exit, "req.Method == route.method")
				return
			}
			if eqAtom(p, p.End(), true, func(x walk.DV) bool { return walk.IsFieldLoad(p.Resolve(x).V, reqMethodF) }, isRouteMethod) {
				c.ok(rule, key+"|equal", p.Exit, "req.Method == route.method")
				return
			}
			c.bad(rule, key, p.Exit, "isAllowedMethod can return true without an empty rule method or equality with the request method", p, p.End())
		})
		c.Walk(rule, isAllowedRoute, func(p *walk.Path) {
			rv, ok := p.ReturnDV(0)
			if !ok {
				return
			}
			if b, k := p.Truth(rv, p.End()); k && !b {
				return
			}
			key := "route-true|" + fnKey(isAllowedRoute)
			pa, ok2 := Has(p, p.End(), Need{M: walk.Static(isAllowedPath), Idx: -1, Out: IsTrue})
			m, ok1 := Has(p, p.End(), Need{M: walk.Static(isAllowedMethod), Idx: -1, Out: IsTrue, Where: func(p *walk.Path, k walk.Call) bool {
				return !ok2 || sameValueOrSlot(p, p.Arg(k, 1), p.Arg(pa, 1))
			}})
			if !ok1 || !ok2 {
				c.bad(rule, key, p.Exit, sprintf("isAllowedRoute returns true without both predicates (method:%v path:%v)", ok1, ok2), p, p.End())
				return
			}
			reqP := isAllowedRoute.Params[1]
			sameRoute := sameValueOrSlot(p, p.Arg(m, 1), p.Arg(pa, 1)) && p.Resolve(p.Arg(m, 0)).V == reqP && p.Resolve(p.Arg(pa, 0)).V == reqP
			// the route is an element of p.allowedRoutes
			elem := false
			if u, ok := p.Resolve(p.Arg(m, 1)).V.(*ssa.UnOp); ok {
				if ia, ok := u.X.(*ssa.IndexAddr); ok && walk.IsFieldLoad(ia.X, routesF) {
					elem = true
				}
			}
			if sameRoute && elem {
				c.ok(rule, key, p.Exit, "isAllowedMethod(req, route) && isAllowedPath(req, route) for the same element of allowedRoutes")
			} else {
				c.bad(rule, key, p.Exit, "the two predicates are not evaluated on the same configured route and this request", p, p.End())
			}
		})
		c.Walk(rule, isAllowedPath, func(p *walk.Path) {
			rv, ok := p.ReturnDV(0)
			if !ok {
				return
			}
			key := "negate|" + fnKey(isAllowedPath)
			var match *walk.Call
			for _, cl := range p.Calls() {
				cl := cl
				if sc := cl.C.StaticCallee(); sc != nil && sc.Name() == "MatchString" {
					match = &cl
				}
			}
			if match == nil {
				c.bad(rule, key, p.Exit, "isAllowedPath decides without matching the rule's regex", p, p.End())
				return
			}
			neg, known := false, false
			for _, a := range p.Atoms(p.End()) {
				if !a.IsNil && isFieldLoadOrValue(a.DV.V, negateF) {
					neg, known = a.Val, true
				}
			}
			rr := p.Resolve(rv)
			isMatch := p.Same(rr, match.DV())
			isNot := false
			if u, ok := rr.V.(*ssa.UnOp); ok && u.Op == token.NOT && p.Same(p.Op(u.X, rr), match.DV()) {
				isNot = true
			}
			switch {
			case known && neg && isNot:
				c.ok(rule, key+"|negated", p.Exit, "route.negate: returns !matches")
			case known && !neg && isMatch:
				c.ok(rule, key+"|plain", p.Exit, "returns matches")
			default:
				c.bad(rule, key, p.Exit, "isAllowedPath does not return the regex verdict negated exactly when route.negate is set", p, p.End())
			}
		})
	}
	if methodF != nil && negateF != nil && build != nil {
		// builder: method upper-cased; negate from "!="
		up, neg := false, false
		for _, b := range build.Blocks {
			for _, in := range b.Instrs {
				st, ok := in.(*ssa.Store)
				if !ok {
					continue
				}
				fa, ok := st.Addr.(*ssa.FieldAddr)
				if !ok {
					continue
				}
				if fld := walk.FieldOf(fa.X.Type(), fa.Field); fld == methodF || fld == negateF {
					// each rule is built from its own entry: nothing stored into a route is carried over from the
					// previous loop iteration (a variable hoisted out of the loop and assigned in one branch only; round 7)
					if ph := loopCarriedPhi(st.Val); ph != nil {
						c.bad(rule, "builder-per-entry|"+fnKey(build), in, "the "+fld.Name()+" stored into a skip-auth rule can be the value left over from the previous configured entry (a variable assigned on only some paths of the loop body): a plain path rule listed after a negated one becomes negated, so the decision depends on the order of the entries", nil, 0)
					}
				}
				switch walk.FieldOf(fa.X.Type(), fa.Field) {
				case methodF:
					okM := true
					for _, o := range c.originsThroughHelpers(st.Val, 0) {
						if k, isK := o.(*ssa.Const); isK {
							if s, _ := ConstString(k); s != "" {
								okM = false
							}
							continue
						}
						call, isCall := o.(*ssa.Call)
						if !isCall || !isStd(&call.Call, "strings", "ToUpper") {
							okM = false
						}
					}
					if okM {
						up = true
					} else {
						c.bad(rule, "builder-method|"+fnKey(build), in, "a rule's method is stored without strings.ToUpper: lower-case configuration never matches req.Method", nil, 0)
					}
				case negateF:
					for _, o := range c.originsThroughHelpers(st.Val, 0) {
						if call, ok := o.(*ssa.Call); ok && isStd(&call.Call, "strings", "Contains") {
							if s, _ := ConstString(call.Call.Args[1]); s == "!=" {
								neg = true
							}
						}
					}
				}
			}
		}
		if up {
			c.ok(rule, "builder-method|"+fnKey(build), build.Blocks[0].Instrs[0], "method = strings.ToUpper(...) or empty")
		}
		if neg {
			c.ok(rule, "builder-negate|"+fnKey(build), build.Blocks[0].Instrs[0], "negate = strings.Contains(rule, \"!=\")")
		} else {
			c.bad(rule, "builder-negate|"+fnKey(build), build.Blocks[0].Instrs[0], "negate is not derived from the '!=' operator of the configured rule", nil, 0)
		}
	}

	// ---- R3 ---------------------------------------------------------------------------------
	{
		isAllowed := c.bypassEntry("R3-preflight")
		gas := c.Fn("R3-preflight", "(*main.OAuthProxy).getAuthenticatedSession")
		if gas != nil {
			runC01R4Rule(c, "R3-preflight", isAllowed, gas)
			if isAllowed == nil {
				// decided in place: walk getAuthenticatedSession's session-less successes
				c.Walk("R3-preflight", gas, func(p *walk.Path) {
					ev, ok := p.ReturnDV(1)
					sv, ok2 := p.ReturnDV(0)
					if !ok || !ok2 || !DefinitelyNil(p, ev, p.End()) {
						return
					}
					if n, k := p.Nil(sv, p.End()); k && !n {
						return // authenticated return
					}
					if how, ok := c.bypassFact("R3-preflight", p, p.End()); ok {
						c.ok("R3-preflight", "true-via|in-place", p.Exit, how)
					}
				})
			}
		}
	}

	// ---- R4 ---------------------------------------------------------------------------------
	rule = "R4-trusted-ip"
	trusted := c.Fn(rule, "(*main.OAuthProxy).isTrustedIP")
	getClientIP := c.Fn(rule, "pkg/ip.GetClientIP")
	has := c.Fn(rule, "(*pkg/ip.NetSet).Has")
	parserF := c.Field(rule, "main.OAuthProxy.realClientIPParser")
	trustedF := c.Field(rule, "main.OAuthProxy.trustedIPs")
	if trusted != nil && getClientIP != nil && has != nil && parserF != nil && trustedF != nil {
		c.Walk(rule, trusted, func(p *walk.Path) {
			rv, ok := p.ReturnDV(0)
			if !ok {
				return
			}
			if b, k := p.Truth(rv, p.End()); k && !b {
				return
			}
			key := "true-return|" + fnKey(trusted)
			hc, ok := extractOfCall(p, rv, 0)
			if !ok || hc.C.StaticCallee() != has || !walk.IsFieldLoad(p.Resolve(p.Arg(hc, 0)).V, trustedF) {
				c.bad(rule, key, p.Exit, "isTrustedIP can return true other than as p.trustedIPs.Has(...)", p, p.End())
				return
			}
			gc, ok := extractOfCall(p, p.Arg(hc, 1), 0)
			if !ok || gc.C.StaticCallee() != getClientIP || !walk.IsFieldLoad(p.Resolve(p.Arg(gc, 0)).V, parserF) || p.Resolve(p.Arg(gc, 1)).V != trusted.Params[1] {
				c.bad(rule, key, p.Exit, "the address tested is not ip.GetClientIP(p.realClientIPParser, req)", p, p.End())
				return
			}
			e, ek := p.ResultNil(gc.DV(), 1, p.End())
			v, vk := p.ResultNil(gc.DV(), 0, p.End())
			if !(ek && e) || !(vk && !v) {
				c.bad(rule, key, p.Exit, "the client address is used although GetClientIP's error is not known nil or the address not known non-nil", p, p.End())
				return
			}
			c.ok(rule, key, p.Exit, "trustedIPs.Has(GetClientIP(parser, req)) with err==nil and ip!=nil")
		})
		// GetClientIP: parser result if parser != nil else getRemoteIP
		getRemote := c.Fn(rule, "pkg/ip.getRemoteIP")
		if getRemote != nil {
			c.Walk(rule, getClientIP, func(p *walk.Path) {
				rv, ok := p.ReturnDV(0)
				if !ok {
					return
				}
				key := "source|" + fnKey(getClientIP)
				cl, ok := extractOfCall(p, rv, 0)
				switch {
				case ok && cl.C.IsInvoke() && cl.C.Method.Name() == "GetRealClientIP":
					if n, k := p.Nil(walk.DV{V: getClientIP.Params[0]}, p.End()); k && !n {
						c.ok(rule, key+"|parser", p.Exit, "configured parser (non-nil) decides")
					} else {
						c.bad(rule, key, p.Exit, "the header parser is consulted although it may be nil", p, p.End())
					}
				case ok && cl.C.StaticCallee() == getRemote:
					c.ok(rule, key+"|remote", p.Exit, "no parser: RemoteAddr")
				default:
					c.bad(rule, key, p.Exit, "GetClientIP returns an address from an unexpected source", p, p.End())
				}
			})
		}
	}

	runC15R5(c)
}

// isFieldLoadOrValue: load of field f or value projection of f (struct passed by value).
func isFieldLoadOrValue(v ssa.Value, f interface{ Name() string }) bool {
	v = unwrap0(v)
	switch x := v.(type) {
	case *ssa.UnOp:
		if fa, ok := x.X.(*ssa.FieldAddr); ok && x.Op == token.MUL {
			fv := walk.FieldOf(fa.X.Type(), fa.Field)
			return fv != nil && interface{}(fv) == f
		}
	case *ssa.Field:
		fv := walk.FieldOf(x.X.Type(), x.Field)
		return fv != nil && interface{}(fv) == f
	}
	return false
}

// queryFree classifies a string value (A5 taint): returns ok only if every way it can be computed is query- and fragment-free.
func (c *Ctx) queryFree(rule string, v ssa.Value, getURI *ssa.Function, depth int) (bool, string) {
	v = unwrap0(v)
	if depth > 3 {
		return false, "derivation too deep to decide"
	}
	switch x := v.(type) {
	case *ssa.Phi:
		for _, e := range x.Edges {
			if ok, why := c.queryFree(rule, e, getURI, depth); !ok {
				return false, why
			}
		}
		return true, "all alternatives"
	case *ssa.UnOp:
		// load of .Path / .RawPath of a URL
		if fa, ok := x.X.(*ssa.FieldAddr); ok && x.Op == token.MUL {
			f := walk.FieldOf(fa.X.Type(), fa.Field)
			if f != nil && f.Name() == "Path" && strings.HasSuffix(fa.X.Type().String(), "net/url.URL") {
				return c.urlIsSplit(fa.X, depth)
			}
			if f != nil && f.Name() == "RawPath" && strings.HasSuffix(fa.X.Type().String(), "net/url.URL") {
				return false, encodedSpelling
			}
			return false, "field " + f.Name()
		}
	case *ssa.Call:
		sc := x.Call.StaticCallee()
		if sc == nil {
			return false, "dynamic call result"
		}
		if (sc.Name() == "EscapedPath" || sc.Name() == "RequestURI") && sc.Pkg != nil && sc.Pkg.Pkg.Path() == "net/url" {
			return false, encodedSpelling
		}
		if c.P.InModule(sc) {
			// every return of the callee, path-sensitively
			all, why := true, "every return of "+sc.Name()
			c.Walk(rule, sc, func(p *walk.Path) {
				rv, ok := p.ReturnDV(0)
				if !ok || !all {
					return
				}
				if ok2, w := c.queryFreeOnPath(rule, p, rv, getURI, depth+1); !ok2 {
					all, why = false, sc.Name()+" can return "+w
				}
			})
			return all, why
		}
		return false, "result of " + sc.String()
	}
	return false, "unrecognised derivation " + v.String()
}

// encodedSpelling: the rules are matched against the decoded path — the one the upstream router serves. Matching the
// percent-encoded spelling makes the decision depend on how the client spelt the path (a negated rule is bypassed
// by /%61dmin, a positive one no longer matches an escaped space).
const encodedSpelling = "the percent-encoded spelling of the path (EscapedPath/RawPath): the decision then depends on how the client spelt the path, not on the path the upstream serves"

// urlIsSplit: the URL value comes from url.Parse (which separates query and fragment) with a nil error, or is req.URL.
func (c *Ctx) urlIsSplit(u ssa.Value, depth int) (bool, string) {
	u = unwrap0(u)
	if ex, ok := u.(*ssa.Extract); ok && ex.Index == 0 {
		if call, ok := ex.Tuple.(*ssa.Call); ok {
			if isStd(&call.Call, "net/url", "Parse") {
				return true, "Path of url.Parse(...)"
			}
			if isStd(&call.Call, "net/url", "ParseRequestURI") {
				return false, "Path of url.ParseRequestURI(...), which keeps a '#fragment' inside the path"
			}
		}
	}
	if ld, ok := u.(*ssa.UnOp); ok {
		if fa, ok := ld.X.(*ssa.FieldAddr); ok {
			if f := walk.FieldOf(fa.X.Type(), fa.Field); f != nil && f.Name() == "URL" && strings.HasSuffix(fa.X.Type().String(), "net/http.Request") {
				return true, "req.URL path"
			}
		}
	}
	return false, "URL of unknown origin"
}

// queryFreeOnPath: path-sensitive classification of a returned value inside the request-path accessor.
func (c *Ctx) queryFreeOnPath(rule string, p *walk.Path, dv walk.DV, getURI *ssa.Function, depth int) (bool, string) {
	r := p.Resolve(dv)
	isURI := func(v walk.DV) bool {
		cl, ok := extractOfCall(p, v, 0)
		return ok && cl.C.StaticCallee() == getURI
	}
	indexOfQ := func(v walk.DV) (walk.DV, bool) {
		call, ok := p.Resolve(v).V.(*ssa.Call)
		if !ok || !(isStd(&call.Call, "strings", "Index") || isStd(&call.Call, "strings", "IndexByte") || isStd(&call.Call, "strings", "IndexRune")) {
			return walk.DV{}, false
		}
		if s, ok := ConstString(call.Call.Args[1]); ok && s == "?" {
			return p.Op(call.Call.Args[0], p.Resolve(v)), true
		}
		if n, ok := ConstInt(call.Call.Args[1]); ok && n == '?' {
			return p.Op(call.Call.Args[0], p.Resolve(v)), true
		}
		return walk.DV{}, false
	}
	switch x := r.V.(type) {
	case *ssa.Extract:
		// before, _, _ := strings.Cut(uri, "?"): everything in front of the first '?' (the whole string when there is none)
		if x.Index == 0 {
			if call, ok := x.Tuple.(*ssa.Call); ok && isStd(&call.Call, "strings", "Cut") {
				if s, ok := ConstString(call.Call.Args[1]); ok && s == "?" && isURI(p.Op(call.Call.Args[0], p.Op(x.Tuple, r))) {
					return true, "cut at the first '?' (strings.Cut)"
				}
			}
		}
		return false, "unrecognised derivation " + r.V.String()
	case *ssa.Slice:
		if x.Low == nil && x.High != nil {
			if s, ok := indexOfQ(p.Op(x.High, r)); ok && p.Same(s, p.Op(x.X, r)) && isURI(s) {
				return true, "cut at the first '?'"
			}
		}
		return false, "a substring not cut at '?'"
	case *ssa.UnOp:
		if fa, ok := x.X.(*ssa.FieldAddr); ok && x.Op == token.MUL {
			f := walk.FieldOf(fa.X.Type(), fa.Field)
			if f != nil && f.Name() == "RawPath" {
				return false, encodedSpelling
			}
			if f != nil && f.Name() == "Path" {
				if ok, why := c.urlIsSplit(fa.X, depth); ok {
					// the parse must have succeeded on this path when it comes from url.Parse
					if pc, ok := extractOfCall(p, p.Op(fa.X, p.Op(fa, r)), 0); ok && isStd(pc.C, "net/url", "Parse") {
						if n, k := p.ResultNil(pc.DV(), 1, p.End()); !(k && n) {
							return false, "Path of a URL whose parse error is not known nil"
						}
						if !isURI(p.Arg(pc, 0)) {
							return false, "Path of a parsed string that is not the guarded request-URI accessor's result"
						}
					}
					return true, why
				} else {
					return false, why
				}
			}
		}
	case *ssa.Call:
		if isURI(r) {
			// the whole URI: only if it is known to contain no '?'
			for _, a := range p.Atoms(p.End()) {
				b, ok := a.DV.V.(*ssa.BinOp)
				if !ok || a.IsNil {
					continue
				}
				for _, pair := range [][2]ssa.Value{{b.X, b.Y}, {b.Y, b.X}} {
					if n, ok := ConstInt(pair[1]); ok && n == -1 {
						if s, ok := indexOfQ(p.Op(pair[0], a.DV)); ok && p.Same(s, r) {
							// (Index == -1) true, stored in == form
							if a.Val {
								return true, "whole URI, known to contain no '?'"
							}
						}
					}
				}
			}
			return false, "the request URI including its query"
		}
	}
	ok, why := c.queryFree(rule, r.V, getURI, depth)
	return ok, why
}

// runC01R4Rule re-runs the bypass-entry rule of C01 under another rule name.
func runC01R4Rule(c *Ctx, rule string, isAllowed, gas *ssa.Function) {
	runC01R4(c, rule, isAllowed, gas)
}

func runC15R5(c *Ctx) { runNetSetRule(c, "R5-netset-agreement") }

// runNetSetRule: NetSet add/has agreement (C15.R5, also C01).
func runNetSetRule(c *Ctx, rule string) {
	add := c.Fn(rule, "(*pkg/ip.NetSet).AddIPNet")
	has := c.Fn(rule, "(*pkg/ip.NetSet).Has")
	mapHas := c.Fn(rule, "(pkg/ip.ipNetMap).has")
	getMaps := c.Fn(rule, "(*pkg/ip.NetSet).getNetMaps")
	parse := c.Fn(rule, "pkg/ip.ParseIPNet")
	maskF := c.Field(rule, "pkg/ip.ipNetMap.mask")
	ipsF := c.Field(rule, "pkg/ip.ipNetMap.ips")
	if add == nil || has == nil || mapHas == nil || getMaps == nil || parse == nil || maskF == nil || ipsF == nil {
		return
	}
	isSizeOfMaskAt := func(p *walk.Path, v walk.DV) (idxKey string, ok bool) {
		// x0(Size(*(&elem.mask))) where elem = &(*maps)[idx]
		r := p.Resolve(v)
		ex, ok := r.V.(*ssa.Extract)
		if !ok || ex.Index != 0 {
			return "", false
		}
		call, ok := ex.Tuple.(*ssa.Call)
		if !ok || call.Call.StaticCallee() == nil || call.Call.StaticCallee().Name() != "Size" {
			return "", false
		}
		ld, ok := call.Call.Args[0].(*ssa.UnOp)
		if !ok {
			return "", false
		}
		fa, ok := ld.X.(*ssa.FieldAddr)
		if !ok || walk.FieldOf(fa.X.Type(), fa.Field) != maskF {
			return "", false
		}
		ia, ok := fa.X.(*ssa.IndexAddr)
		if !ok {
			return "", false
		}
		cd := p.Op(call, r)
		return p.Key(p.Op(ia.Index, p.Op(ia, p.Op(fa, p.Op(ld, cd))))), true
	}
	isSizeOfNetMask := func(p *walk.Path, v walk.DV) bool {
		r := p.Resolve(v)
		ex, ok := r.V.(*ssa.Extract)
		if !ok || ex.Index != 0 {
			return false
		}
		call, ok := ex.Tuple.(*ssa.Call)
		if !ok || call.Call.StaticCallee() == nil || call.Call.StaticCallee().Name() != "Size" {
			return false
		}
		ld, ok := call.Call.Args[0].(*ssa.UnOp)
		if !ok {
			return false
		}
		fa, ok := ld.X.(*ssa.FieldAddr)
		return ok && walk.FieldOf(fa.X.Type(), fa.Field).Name() == "Mask"
	}
	updates := 0
	c.Walk(rule, add, func(p *walk.Path) {
		for i, s := range p.Steps {
			mu, ok := s.In.(*ssa.MapUpdate)
			if !ok {
				continue
			}
			updates++
			key := "insert-into-same-mask|" + fnKey(add)
			// key: String() of the network's IP
			kc, ok := p.Resolve(p.StepOp(mu.Key, s)).V.(*ssa.Call)
			okKey := ok && kc.Call.StaticCallee() != nil && kc.Call.StaticCallee().Name() == "String"
			if okKey {
				if ld, ok := kc.Call.Args[0].(*ssa.UnOp); ok {
					fa, ok := ld.X.(*ssa.FieldAddr)
					okKey = ok && walk.FieldOf(fa.X.Type(), fa.Field).Name() == "IP"
				} else {
					okKey = false
				}
			}
			if !okKey {
				c.bad(rule, key, s.In, "the network is not stored under ipNet.IP.String()", p, i)
				continue
			}
			// the map: *(&netMap.ips) where netMap = &(*maps)[idx] whose mask size was compared equal
			ml, ok := p.Resolve(p.StepOp(mu.Map, s)).V.(*ssa.UnOp)
			var netMap walk.DV
			okMap := false
			if ok {
				if fa, ok := ml.X.(*ssa.FieldAddr); ok && walk.FieldOf(fa.X.Type(), fa.Field) == ipsF {
					netMap = p.Resolve(p.Op(fa.X, p.Op(fa, walk.DV{V: ml, I: s.I})))
					okMap = true
				}
			}
			if !okMap {
				c.bad(rule, key, s.In, "the insertion does not target an ipNetMap's ips map", p, i)
				continue
			}
			ia, ok := netMap.V.(*ssa.IndexAddr)
			if !ok {
				c.bad(rule, key, s.In, "the per-mask map inserted into is not an element of the family's map list", p, i)
				continue
			}
			idxKey := p.Key(p.Op(ia.Index, netMap))
			matched := false
			for _, a := range p.Atoms(i) {
				b, ok := a.DV.V.(*ssa.BinOp)
				if !ok || a.IsNil || !a.Val || (b.Op != token.EQL && b.Op != token.NEQ) {
					continue
				}
				for _, pair := range [][2]ssa.Value{{b.X, b.Y}, {b.Y, b.X}} {
					if k, ok := isSizeOfMaskAt(p, p.Op(pair[0], a.DV)); ok && k == idxKey && isSizeOfNetMask(p, p.Op(pair[1], a.DV)) {
						matched = true
					}
				}
			}
			if matched {
				c.ok(rule, key, s.In, "inserted into the element whose mask size was compared equal to the network's")
			} else {
				c.bad(rule, key, s.In, "a network can be inserted into a per-mask map whose mask size was not compared equal to the network's prefix length: lookups mask with the wrong length", p, i)
			}
		}
	})
	if updates == 0 {
		c.R.Unknown(rule, "insert-into-same-mask|none", c.P.Pos(add.Pos()), "AddIPNet performs no map insertion")
	}
	// new per-mask map: mask = ipNet.Mask, appended, then recursion
	okNew := false
	for _, b := range add.Blocks {
		for _, in := range b.Instrs {
			if st, ok := in.(*ssa.Store); ok {
				if fa, ok := st.Addr.(*ssa.FieldAddr); ok && walk.FieldOf(fa.X.Type(), fa.Field) == maskF {
					if ld, ok := st.Val.(*ssa.UnOp); ok {
						if fa2, ok := ld.X.(*ssa.FieldAddr); ok && walk.FieldOf(fa2.X.Type(), fa2.Field).Name() == "Mask" {
							okNew = true
						}
					}
				}
			}
		}
	}
	if okNew {
		c.ok(rule, "new-map-mask|"+fnKey(add), add.Blocks[0].Instrs[0], "a new per-mask map takes the network's own mask")
	} else {
		c.bad(rule, "new-map-mask|"+fnKey(add), add.Blocks[0].Instrs[0], "a new per-mask map is not created with the network's mask", nil, 0)
	}
	// family selection on both sides
	for _, fn := range []*ssa.Function{add, has} {
		n := 0
		for _, cs := range c.callersOf(getMaps) {
			if cs.Parent() == fn {
				n++
			}
		}
		if n == 1 {
			c.ok(rule, "family|"+fnKey(fn), fn.Blocks[0].Instrs[0], "selects the address family through getNetMaps")
		} else {
			c.bad(rule, "family|"+fnKey(fn), fn.Blocks[0].Instrs[0], "does not select the address family through getNetMaps", nil, 0)
		}
	}
	// Has: true only on has(ip) hit for the same ip
	c.Walk(rule, has, func(p *walk.Path) {
		rv, ok := p.ReturnDV(0)
		if !ok {
			return
		}
		if b, k := p.Truth(rv, p.End()); k && !b {
			return
		}
		key := "has-true|" + fnKey(has)
		if _, ok := Has(p, p.End(), Need{M: walk.Static(mapHas), Idx: -1, Out: IsTrue, Where: func(p *walk.Path, k walk.Call) bool {
			return p.Resolve(p.Arg(k, 1)).V == has.Params[1]
		}}); ok {
			c.ok(rule, key, p.Exit, "some per-mask map has(ip)")
		} else {
			c.bad(rule, key, p.Exit, "NetSet.Has can return true without a per-mask hit for this address", p, p.End())
		}
	})
	c.Walk(rule, mapHas, func(p *walk.Path) {
		rv, ok := p.ReturnDV(0)
		if !ok {
			return
		}
		if b, k := p.Truth(rv, p.End()); k && !b {
			return
		}
		key := "lookup|" + fnKey(mapHas)
		okHit := lookupHit(p, p.End(), func(m walk.DV) bool { return isFieldLoadOrValue(p.Resolve(m).V, ipsF) }, func(k walk.DV) bool {
			sc, ok := p.Resolve(k).V.(*ssa.Call)
			if !ok || sc.Call.StaticCallee() == nil || sc.Call.StaticCallee().Name() != "String" {
				return false
			}
			mk, ok := sc.Call.Args[0].(*ssa.Call)
			if !ok || mk.Call.StaticCallee() == nil || mk.Call.StaticCallee().Name() != "Mask" {
				return false
			}
			return mk.Call.Args[0] == mapHas.Params[1] && isFieldLoadOrValue(mk.Call.Args[1], maskF)
		})
		if okHit {
			c.ok(rule, key, p.Exit, "hit of ip.Mask(m.mask).String() in m.ips")
		} else {
			c.bad(rule, key, p.Exit, "ipNetMap.has can return true without a lookup hit of the masked address", p, p.End())
		}
	})
	// ParseIPNet: CIDR accepted only if ipNet.IP.Equal(ip)
	c.Walk(rule, parse, func(p *walk.Path) {
		rv, ok := p.ReturnDV(0)
		if !ok || DefinitelyNil(p, rv, p.End()) {
			return
		}
		pc, ok := extractOfCall(p, rv, 1)
		if !ok || !isStd(pc.C, "net", "ParseCIDR") {
			return // single-address form: fresh IPNet with a full mask
		}
		key := "host-bits|" + fnKey(parse)
		eq := false
		for _, cl := range p.Calls() {
			if sc := cl.C.StaticCallee(); sc != nil && sc.Name() == "Equal" && len(cl.C.Args) == 2 {
				if b, k := p.ResultTruth(cl.DV(), -1, p.End()); k && b {
					// the operands: the network's (masked) IP and the address exactly as parsed, in either order
					ipF := c.P.Field("net.IPNet.IP")
					isParsed := func(x walk.DV) bool { return ResultIs(p, x, pc, 0) }
					isNetIP := func(x walk.DV) bool {
						base, ok := walk.FieldLoadBase(p.Resolve(x).V, ipF)
						return ok && ipF != nil && ResultIs(p, p.Op(base, p.Resolve(x)), pc, 1)
					}
					a0, a1 := p.Arg(cl, 0), p.Arg(cl, 1)
					if (isParsed(a0) && isNetIP(a1)) || (isParsed(a1) && isNetIP(a0)) {
						eq = true
					}
				}
			}
		}
		if n, k := p.ResultNil(pc.DV(), 2, p.End()); !(k && n) {
			eq = false
		}
		if eq {
			c.ok(rule, key, p.Exit, "ParseCIDR ok and ipNet.IP.Equal(ip)")
		} else {
			c.bad(rule, key, p.Exit, "a CIDR is accepted without ipNet.IP having been compared equal to the address exactly as parsed (a masked copy always compares equal): entries with host bits set, or that failed to parse, become trusted networks", p, p.End())
		}
	})
}

// checkBypassOperand (C15.R1, also C01): the string matched by skip-auth rules is the guarded, query-free request path.
func checkBypassOperand(c *Ctx, rule string) {
	pathRegexF := c.Field(rule, "main.allowedRoute.pathRegex")
	getURI := c.Fn(rule, "pkg/requests/util.GetRequestURI")
	if pathRegexF != nil && getURI != nil { // the match sites are found by the field they match on, wherever they live
		// every MatchString on an allowedRoute.pathRegex in the program
		n := 0
		for _, fn := range c.P.ModFns {
			for _, b := range fn.Blocks {
				for _, in := range b.Instrs {
					call, ok := in.(*ssa.Call)
					if !ok || call.Call.StaticCallee() == nil || call.Call.StaticCallee().Pkg == nil || call.Call.StaticCallee().Pkg.Pkg.Path() != "regexp" {
						continue
					}
					if len(call.Call.Args) < 2 || !isFieldLoadOrValue(call.Call.Args[0], pathRegexF) {
						continue
					}
					n++
					c.R.CallSites++
					key := "match-operand|" + fnKey(fn)
					ok2, why := c.queryFree(rule, call.Call.Args[1], getURI, 0)
					if ok2 {
						c.ok(rule, key, in, "operand is query- and fragment-free: "+why)
					} else {
						c.bad(rule, key, in, "a skip-auth rule is matched against something other than the decoded, query- and fragment-free request path: "+why, nil, 0)
					}
				}
			}
		}
		if n == 0 {
			c.R.Unknown(rule, "match-operand|none", "-", "no regex match on allowedRoute.pathRegex found")
		}
	}

}

// runC15R6: the address the trusted-IP decision is made on is the FIRST element of the configured
// client-IP header (the client as recorded by the first proxy), never a later hop.
func runC15R6(c *Ctx, rule string) {
	fn := c.Fn(rule, "(pkg/ip.xForwardedForClientIPParser).GetRealClientIP")
	parseIP := c.StdFunc(rule, "net.ParseIP")
	if fn == nil || parseIP == nil {
		return
	}
	isCommaSearch := func(p *walk.Path, dv walk.DV, of walk.DV) bool {
		call, ok := p.Resolve(dv).V.(*ssa.Call)
		if !ok {
			return false
		}
		r := p.Resolve(dv)
		if !(isStd(&call.Call, "strings", "IndexRune") || isStd(&call.Call, "strings", "IndexByte") || isStd(&call.Call, "strings", "Index")) {
			return false
		}
		if p.Key(p.Op(call.Call.Args[0], r)) != p.Key(of) {
			return false
		}
		if n, ok := ConstInt(call.Call.Args[1]); ok && n == ',' {
			return true
		}
		s, ok := ConstString(call.Call.Args[1])
		return ok && s == ","
	}
	isCommaSep := func(v ssa.Value) bool {
		s, ok := ConstString(v)
		return ok && s == ","
	}
	// derive walks the operand back to the header read. Sub-slices (trimming brackets, ports) are fine
	// once the value is known to be the first element: after a first-comma cut, or with no comma at all.
	var derive func(p *walk.Path, dv walk.DV, depth int, st *firstElemState) string
	derive = func(p *walk.Path, dv walk.DV, depth int, st *firstElemState) string {
		if depth > 12 {
			return "derivation too deep"
		}
		r := p.Resolve(dv)
		switch v := r.V.(type) {
		case *ssa.Call:
			cc := &v.Call
			switch {
			case isStd(cc, "strings", "TrimSpace"), isStd(cc, "strings", "Trim"), isStd(cc, "strings", "TrimPrefix"), isStd(cc, "strings", "TrimSuffix"):
				return derive(p, p.Op(cc.Args[0], r), depth+1, st)
			case cc.StaticCallee() != nil && cc.StaticCallee().String() == "(net/http.Header).Get":
				st.origin = r
				return ""
			}
			return "call " + walk.CalleeName(cc)
		case *ssa.Extract:
			call, ok := v.Tuple.(*ssa.Call)
			if !ok {
				return "extract of non-call"
			}
			t := p.Op(v.Tuple, r)
			switch {
			case isStd(&call.Call, "net", "SplitHostPort") && v.Index == 0:
				return derive(p, p.Op(call.Call.Args[0], t), depth+1, st)
			case isStd(&call.Call, "strings", "Cut") && v.Index == 0 && isCommaSep(call.Call.Args[1]):
				st.cut = true
				return derive(p, p.Op(call.Call.Args[0], t), depth+1, st)
			}
			return "result of " + walk.CalleeName(&call.Call)
		case *ssa.Slice:
			x := p.Op(v.X, r)
			lowZero := v.Low == nil
			if n, ok := ConstInt(v.Low); v.Low != nil && ok && n == 0 {
				lowZero = true
			}
			if lowZero && v.High != nil && isCommaSearch(p, p.Op(v.High, r), x) {
				st.cut = true
				return derive(p, x, depth+1, st)
			}
			if st.cut {
				return "a sub-slice taken before the first-comma cut"
			}
			st.subslice = true
			return derive(p, x, depth+1, st)
		case *ssa.UnOp:
			if ia, ok := v.X.(*ssa.IndexAddr); ok && v.Op == token.MUL {
				if n, ok := ConstInt(ia.Index); !ok || n != 0 {
					return "an element other than element 0 of the split header value"
				}
				if call, ok := p.Resolve(p.Op(ia.X, r)).V.(*ssa.Call); ok && (isStd(&call.Call, "strings", "Split") || isStd(&call.Call, "strings", "SplitN")) && isCommaSep(call.Call.Args[1]) {
					st.cut = true
					return derive(p, p.Op(call.Call.Args[0], p.Resolve(p.Op(ia.X, r))), depth+1, st)
				}
				return "an indexed value that is not strings.Split(header, \",\")"
			}
		}
		return sprintf("%T", r.V)
	}
	noComma := func(p *walk.Path, at int, st *firstElemState) bool {
		for _, a := range p.Atoms(at) {
			b, ok := a.DV.V.(*ssa.BinOp)
			if !ok || a.IsNil || !a.Val || (b.Op != token.EQL && b.Op != token.NEQ) {
				continue
			}
			for _, pair := range [][2]ssa.Value{{b.X, b.Y}, {b.Y, b.X}} {
				if n, ok := ConstInt(pair[1]); ok && n == -1 && isCommaSearch(p, p.Op(pair[0], a.DV), st.origin) {
					return true
				}
			}
		}
		return false
	}
	c.Walk(rule, fn, func(p *walk.Path) {
		ret, ok := p.ReturnDV(0)
		if !ok || DefinitelyNil(p, ret, p.End()) {
			return
		}
		at := p.End()
		key := "first-element|" + fnKey(fn)
		calls := p.Find(walk.Static(parseIP), at)
		if len(calls) == 0 {
			c.bad(rule, key, p.Exit, "an address is returned that does not come from net.ParseIP", p, at)
			return
		}
		pc := calls[len(calls)-1]
		st := &firstElemState{}
		why := derive(p, p.Arg(pc, 0), 0, st)
		if why == "" && st.subslice && !st.cut && !noComma(p, pc.Idx, st) {
			why = "a sub-slice of a header value that may still hold several comma-separated elements"
		}
		if why == "" {
			c.ok(rule, key, pc.In, "ParseIP operand = TrimSpace/SplitHostPort of the header value up to its first comma")
		} else {
			c.bad(rule, key, pc.In, "the client address is parsed from "+why+": not the first element of the client-IP header, so the trusted-IP decision can be made on a later hop's address", p, pc.Idx)
		}
	})
}

type firstElemState struct {
	cut      bool // a first-comma cut was met (deeper in the derivation = earlier in execution)
	subslice bool // some other sub-slice was applied after it
	origin   walk.DV
}

// runParserUnderFlag: a real-client-IP parser — which is what lets a request header decide the trusted-IP
// exemption — is installed only on paths where reverse-proxy mode is known to be on (C16.R4, also C15).
func runParserUnderFlag(c *Ctx, rule string) {
	setParser := c.Fn(rule, "(*pkg/apis/options.Options).SetRealClientIPParser")
	optRP := c.Field(rule, "pkg/apis/options.Options.ReverseProxy")
	if setParser == nil || optRP == nil {
		return
	}
	n := 0
	for _, cs := range c.callersOf(setParser) {
		cs := cs
		fn := cs.Parent()
		key := "install-under-flag|" + fnKey(fn)
		found := false
		c.WalkShallow(rule, fn, func(p *walk.Path) {
			for i, s := range p.Steps {
				if s.In != cs.(ssa.Instruction) {
					continue
				}
				found = true
				n++
				if fieldBoolAtom(p, i, optRP, true) {
					c.ok(rule, key, s.In, "SetRealClientIPParser only under o.ReverseProxy==true")
				} else {
					c.bad(rule, key, s.In, "a real-client-IP parser is installed on a path where reverse-proxy mode is not known to be on: a client-sent header then decides the trusted-IP exemption", p, i)
				}
			}
		})
		if !found {
			c.R.Unknown(rule, key, c.pos(cs), "call site not reached by the walker")
		}
	}
	if n == 0 {
		c.R.Unknown(rule, "install-under-flag|none", "-", "no SetRealClientIPParser call site")
	}
}

// runRemoteIPRule: without a header parser the client address is exactly the host part of the
// connection's RemoteAddr: getRemoteIP returns an address only as net.ParseIP(SplitHostPort(req.RemoteAddr)#0)
// (non-nil, split error-free) and GetClientIP hands that through when no parser is configured.
func runRemoteIPRule(c *Ctx, rule string) {
	// the peer address is what the server recorded: no module code writes Request.RemoteAddr (a logging or listener
	// helper that "normalises" it — a unix-socket peer "@" shown as 127.0.0.1 — changes the address the trusted-IP
	// decision is made on for every later handler of the same request)
	if raF := c.P.Field("net/http.Request.RemoteAddr"); raF != nil {
		writes := 0
		for _, ref := range c.fieldRefs(raF) {
			if ref.Store != nil {
				writes++
				c.bad(rule, "remote-addr-written|"+fnKey(ref.Fn), ref.In, "Request.RemoteAddr is overwritten: the address the trusted-IP exemption is decided on is no longer the peer the server recorded (a unix-socket peer has no IP address and must never match a trusted network)", nil, 0)
			}
		}
		if writes == 0 {
			c.R.OK(rule, "remote-addr-written|none", "-", "no module code writes Request.RemoteAddr")
		}
	} else {
		c.R.Unknown(rule, "anchor:Request.RemoteAddr", "-", "net/http.Request.RemoteAddr not found")
	}
	getRemote := c.Fn(rule, "pkg/ip.getRemoteIP")
	getClient := c.Fn(rule, "pkg/ip.GetClientIP")
	parseIP := c.StdFunc(rule, "net.ParseIP")
	splitHP := c.StdFunc(rule, "net.SplitHostPort")
	remoteF := c.P.Field("net/http.Request.RemoteAddr")
	if getRemote == nil || getClient == nil || parseIP == nil || splitHP == nil || remoteF == nil {
		return
	}
	c.Walk(rule, getRemote, func(p *walk.Path) {
		rv, ok := p.ReturnDV(0)
		if !ok || DefinitelyNil(p, rv, p.End()) {
			return
		}
		at := p.End()
		key := "address-origin|" + fnKey(getRemote)
		pc, ok := extractOfCall(p, rv, 0)
		if !ok || pc.C.StaticCallee() != parseIP {
			c.bad(rule, key, p.Exit, "getRemoteIP returns an address that is not net.ParseIP's result: a substitute address (for example loopback for a unix-socket peer) can fall inside a trusted network", p, at)
			return
		}
		sp, ok := extractOfCall(p, p.Arg(pc, 0), 0)
		okSplit := ok && sp.C.StaticCallee() == splitHP
		if okSplit {
			base, isRemote := walk.FieldLoadBase(p.Resolve(p.Arg(sp, 0)).V, remoteF)
			okSplit = isRemote && base == ssa.Value(getRemote.Params[0])
			if nn, k := p.ResultNil(sp.DV(), 2, at); !(k && nn) {
				okSplit = false
			}
		}
		if okSplit {
			c.ok(rule, key, p.Exit, "net.ParseIP(SplitHostPort(req.RemoteAddr)#0), split error-free")
		} else {
			c.bad(rule, key, p.Exit, "the parsed string is not the host part of req.RemoteAddr from an error-free SplitHostPort", p, at)
		}
	})
	c.Walk(rule, getClient, func(p *walk.Path) {
		rv, ok := p.ReturnDV(0)
		if !ok {
			return
		}
		at := p.End()
		if isNil, k := p.Nil(walk.DV{V: getClient.Params[0]}, at); !(k && isNil) {
			return // parser configured: C15.R6 / C16
		}
		key := "no-parser|" + fnKey(getClient)
		if rc, ok := extractOfCall(p, rv, 0); ok && rc.C.StaticCallee() == getRemote && p.Resolve(p.Arg(rc, 0)).V == ssa.Value(getClient.Params[1]) {
			c.ok(rule, key, p.Exit, "returns getRemoteIP(req)")
		} else {
			c.bad(rule, key, p.Exit, "without a parser GetClientIP does not return getRemoteIP(req)", p, at)
		}
	})
}

// runC15R2Combined decides C15.R2 on isAllowedRoute alone, for a tree in which isAllowedMethod/isAllowedPath no
// longer exist as functions: every true return has (route.method == "" or req.Method == route.method) and a
// MatchString verdict on route.pathRegex that differs from route.negate.
func runC15R2Combined(c *Ctx, rule string, isAllowedRoute *ssa.Function, methodF, negateF, pathRegexF, reqMethodF *types.Var) {
	c.Walk(rule, isAllowedRoute, func(p *walk.Path) {
		rv, ok := p.ReturnDV(0)
		if !ok {
			return
		}
		if b, k := p.Truth(rv, p.End()); k && !b {
			return
		}
		at := p.End()
		key := "route-true|" + fnKey(isAllowedRoute)
		isRouteMethod := func(x walk.DV) bool { return isFieldLoadOrValue(p.Resolve(x).V, methodF) }
		methodOK := eqConstAtom(p, at, true, "", isRouteMethod) ||
			eqAtom(p, at, true, func(x walk.DV) bool { return walk.IsFieldLoad(p.Resolve(x).V, reqMethodF) }, isRouteMethod)
		// last regex verdict on the path and the negate flag assumed with it
		var match *walk.Call
		for _, cl := range p.Calls() {
			cl := cl
			if sc := cl.C.StaticCallee(); sc != nil && sc.Name() == "MatchString" && isFieldLoadOrValue(p.Resolve(p.Arg(cl, 0)).V, pathRegexF) {
				match = &cl
			}
		}
		if match == nil {
			c.bad(rule, key, p.Exit, "isAllowedRoute returns true without matching a rule's regex", p, at)
			return
		}
		verdict, vKnown := p.ResultTruth(match.DV(), -1, at)
		neg, nKnown := false, false
		for _, a := range p.Atoms(at) {
			if !a.IsNil && a.Step >= 0 && isFieldLoadOrValue(p.Resolve(a.DV).V, negateF) {
				neg, nKnown = a.Val, true
			}
		}
		pathOK := vKnown && nKnown && verdict != neg
		if !pathOK {
			// the verdict may be the returned expression itself: return matches / return !matches
			rr := p.Resolve(rv)
			if nKnown && !neg && p.Same(rr, match.DV()) {
				pathOK = true
			}
			if u, ok := rr.V.(*ssa.UnOp); ok && nKnown && neg && u.Op == token.NOT && p.Same(p.Op(u.X, rr), match.DV()) {
				pathOK = true
			}
		}
		switch {
		case methodOK && pathOK:
			c.ok(rule, key, p.Exit, "method empty or equal to req.Method; regex verdict negated exactly when route.negate")
		case !methodOK:
			c.bad(rule, key, p.Exit, "isAllowedRoute can return true without an empty rule method or equality with the request method", p, at)
		default:
			c.bad(rule, key, p.Exit, "isAllowedRoute can return true without the rule's regex verdict, negated exactly when route.negate is set", p, at)
		}
	})
}

// runC15R9: buildRoutesAllowlist compiles each rule from the option strings at start-up, and the trusted-IP set is
// parsed from Options.TrustedIPs. Validation runs in between and looks at the same slices. A "normalising" write-back
// there (or anywhere else) changes the rule the operator configured before it is compiled — e.g. a route split at
// every '=' truncates a regular expression that contains one. The rule enumerates every load of the three option
// fields outside pkg/apis/options and requires each use to be read-only (no element store, no sort/copy into it, no
// append whose result is stored back), and every store to the fields to be inside pkg/apis/options.
func runC15R9(c *Ctx, rule string) {
	runLoaderSwitchesRule(c, rule)
	// the loader hands the operator's strings to the options struct as the configuration library decodes them: its one
	// decoder option selects the tag name and nothing else (no decode hook of the project's own that splits, trims or
	// drops entries — a comma inside a regular expression must survive)
	if load, tagOpt := c.Fn(rule, "pkg/apis/options.Load"), c.Fn(rule, "pkg/apis/options.decodeFromCfgTag"); load != nil && tagOpt != nil {
		key := "loader-decodes-verbatim|" + fnKey(load)
		n, bad := 0, false
		for _, b := range load.Blocks {
			for _, in := range b.Instrs {
				call, ok := in.(*ssa.Call)
				if !ok || call.Call.StaticCallee() == nil || !strings.HasPrefix(call.Call.StaticCallee().Name(), "Unmarshal") || call.Call.StaticCallee().Pkg == nil || call.Call.StaticCallee().Pkg.Pkg.Path() != "github.com/spf13/viper" {
					continue
				}
				n++
				args := call.Call.Args
				opts := args[len(args)-1]
				for i := int64(0); ; i++ {
					e := varargElem(opts, i)
					if e == nil {
						break
					}
					e = unwrap0(e)
					if mi, ok := e.(*ssa.MakeInterface); ok {
						e = unwrap0(mi.X)
					}
					if fn, ok := e.(*ssa.Function); !ok || fn != tagOpt {
						bad = true
						c.bad(rule, key, in, "the option loader gives the configuration decoder an option other than the tag-name selector (a decode hook of its own): list entries can be split, trimmed or dropped between the operator's file and the rules compiled from them", nil, 0)
					}
				}
			}
		}
		for _, b := range tagOpt.Blocks {
			for _, in := range b.Instrs {
				if st, ok := in.(*ssa.Store); ok {
					if fa, ok := st.Addr.(*ssa.FieldAddr); ok {
						if f := walk.FieldOf(fa.X.Type(), fa.Field); f != nil && f.Name() != "TagName" {
							bad = true
							c.bad(rule, key, in, "the decoder option sets "+f.Name()+" besides the tag name: decoding of the operator's values is altered", nil, 0)
						}
					}
				}
			}
		}
		switch {
		case n == 0:
			c.R.Unknown(rule, key, c.P.Pos(load.Pos()), "no viper Unmarshal call found in the option loader")
		case !bad:
			c.R.OK(rule, key, c.P.Pos(load.Pos()), "UnmarshalExact(into, decodeFromCfgTag): tag name only")
		}
	}
	runOptionListsVerbatim(c, rule, "SkipAuthRoutes", "SkipAuthRegex", "TrustedIPs")
}

// runOptionListsVerbatim: the named list fields of options.Options are read-only outside option loading (no element
// store, no sort/copy into them, no append stored back, no reassignment): validation looks at the operator's entries,
// it does not rewrite them before the consumer is built from them.
func runOptionListsVerbatim(c *Ctx, rule string, names ...string) {
	for _, name := range names {
		f := c.Field(rule, "pkg/apis/options.Options."+name)
		if f == nil {
			continue
		}
		n, bad := 0, false
		for _, fn := range c.P.ModFns {
			if strings.HasPrefix(prog.Short(prog.FnPkg(fn).Path()), "pkg/apis/options") {
				continue
			}
			for _, b := range fn.Blocks {
				for _, in := range b.Instrs {
					ld, ok := in.(*ssa.UnOp)
					if !ok || !walk.IsFieldLoad(ld, f) {
						continue
					}
					n++
					if why := mutatesSlice(c, ld, 0); why != "" {
						bad = true
						c.bad(rule, "mutated|"+name+"|"+fnKey(fn), in, "the operator's "+name+" list is "+why+" before the matcher is built from it: the rule that is enforced is no longer the rule that was configured", nil, 0)
					}
				}
			}
		}
		for _, ref := range c.fieldRefs(f) {
			if ref.Kind == "store" && !strings.HasPrefix(prog.Short(prog.FnPkg(ref.Fn).Path()), "pkg/apis/options") {
				bad = true
				c.bad(rule, "field-store|"+name+"|"+fnKey(ref.Fn), ref.In, "Options."+name+" is reassigned outside option loading", nil, 0)
			}
		}
		switch {
		case n == 0:
			c.R.Unknown(rule, "readers|"+name, "-", "no reader of Options."+name+" found")
		case !bad:
			c.R.OK(rule, "read-only|"+name, "-", sprintf("%d load(s) of Options.%s outside option loading, all read-only", n, name))
		}
	}
}

// runLoaderSwitchesRule (C07.R11, also under C15.R9): how flags, environment and config file are merged into the options
// is decided by a handful of switches on the viper instance in pkg/apis/options. They are a reviewed, closed list with
// their constant arguments; any other viper call there (AllowEmptyEnv, SetEnvKeyReplacer, SetDefault, Set, a decode
// hook) changes which value an option ends up with — an exported-but-empty OAUTH2_PROXY_SKIP_AUTH_STRIP_HEADERS
// becoming "false", for one — without any option-handling code changing.
func runLoaderSwitchesRule(c *Ctx, rule string) {
	reviewed := map[string]string{ // viper method -> required constant first argument ("" = any)
		"New":                   "",
		"SetConfigFile":         "",
		"SetConfigType":         "toml",
		"SetEnvPrefix":          "OAUTH2_PROXY",
		"AutomaticEnv":          "",
		"SetTypeByDefaultValue": "true",
		"ReadInConfig":          "",
		"UnmarshalExact":        "",
		"BindPFlag":             "",
	}
	n, bad := 0, false
	for _, fn := range c.P.ModFns {
		if prog.Short(prog.FnPkg(fn).Path()) != "pkg/apis/options" {
			continue
		}
		for _, b := range fn.Blocks {
			for _, in := range b.Instrs {
				ci, ok := in.(ssa.CallInstruction)
				if !ok {
					continue
				}
				sc := ci.Common().StaticCallee()
				if sc == nil || sc.Pkg == nil || sc.Pkg.Pkg.Path() != "github.com/spf13/viper" {
					continue
				}
				n++
				want, known := reviewed[sc.Name()]
				key := "loader-switch|" + sc.Name() + "|" + fnKey(fn)
				if !known {
					bad = true
					c.bad(rule, key, in, "the option loader calls viper."+sc.Name()+", which is not one of its reviewed switches: how flags, environment and config file combine into an option value changes for every option at once (an exported-but-empty environment variable overriding a default, a key being remapped, ...)", nil, 0)
					continue
				}
				if want != "" {
					args := ci.Common().Args
					got := ""
					if len(args) > 1 {
						if k, isC := unwrap0(args[1]).(*ssa.Const); isC && k.Value != nil {
							got = strings.Trim(k.Value.ExactString(), "\"")
						}
					}
					if got != want {
						bad = true
						c.bad(rule, key, in, "the option loader's switch viper."+sc.Name()+" is no longer given "+want, nil, 0)
					}
				}
			}
		}
	}
	// the structured (YAML) configuration goes through environment substitution exactly once: "$$" is the documented
	// escape for a literal dollar (rewriteTarget: /v1/$$1), and a second pass would consume what the first one produced
	subst := 0
	for _, fn := range c.P.ModFns {
		if prog.Short(prog.FnPkg(fn).Path()) != "pkg/apis/options" {
			continue
		}
		for _, b := range fn.Blocks {
			for _, in := range b.Instrs {
				ci, ok := in.(ssa.CallInstruction)
				if !ok {
					continue
				}
				sc := ci.Common().StaticCallee()
				if sc == nil || sc.Pkg == nil || !strings.HasSuffix(sc.Pkg.Pkg.Path(), "/envsubst") {
					continue
				}
				subst++
				n++
				key := "loader-envsubst|" + fnKey(fn)
				if inLoopWithout(b, fn.Blocks[0]) || subst > 1 {
					bad = true
					c.bad(rule, key, in, "environment substitution is applied to the configuration more than once (in a loop, or at a second site): the documented escape $$ for a literal dollar survives one pass only, so capture-group references in rewrite targets ($$1) and regular expressions are blanked", nil, 0)
				}
			}
		}
	}
	switch {
	case n == 0:
		c.R.Unknown(rule, "loader-switch|none", "-", "no viper call found in pkg/apis/options")
	case !bad:
		c.R.OK(rule, "loader-switch|all", "-", sprintf("%d viper call(s) in the option loader, all reviewed switches with their constant arguments", n))
	}
}

// loopCarriedPhi: following v through phis (and value-preserving wrappers), a phi in a loop header whose back-edge
// operand is not a constant: the value of the previous iteration can flow into this one.
func loopCarriedPhi(v ssa.Value) *ssa.Phi {
	seen := map[ssa.Value]bool{}
	var rec func(v ssa.Value) *ssa.Phi
	rec = func(v ssa.Value) *ssa.Phi {
		v = unwrap0(v)
		if seen[v] {
			return nil
		}
		seen[v] = true
		ph, ok := v.(*ssa.Phi)
		if !ok {
			return nil
		}
		b := ph.Block()
		for i, e := range ph.Edges {
			if i < len(b.Preds) && b.Dominates(b.Preds[i]) {
				if _, isConst := e.(*ssa.Const); !isConst {
					return ph
				}
			}
		}
		for _, e := range ph.Edges {
			if r := rec(e); r != nil {
				return r
			}
		}
		return nil
	}
	return rec(v)
}
