package rules

import (
	"go/types"
	"strings"

	"golang.org/x/tools/go/ssa"

	"oapsa/internal/prog"
	"oapsa/internal/walk"
)

var errorType = types.Universe.Lookup("error").Type()

// errResultIndex returns the index of the last result of type error of a signature, or -1.
func errResultIndex(sig *types.Signature) int {
	res := sig.Results()
	for i := res.Len() - 1; i >= 0; i-- {
		if types.Identical(res.At(i).Type(), errorType) {
			return i
		}
	}
	return -1
}

// neverNilErrorCall: calls that always return a non-nil error.
func neverNilErrorCall(v ssa.Value) bool {
	call, ok := v.(*ssa.Call)
	if !ok {
		return false
	}
	sc := call.Call.StaticCallee()
	if sc == nil || sc.Pkg == nil {
		return false
	}
	switch sc.Pkg.Pkg.Path() + "." + sc.Name() {
	case "fmt.Errorf", "errors.New":
		return true
	}
	return false
}

// definitelyNonNil: the value cannot be nil on this path.
func definitelyNonNil(p *walk.Path, dv walk.DV, at int) bool {
	r := p.Resolve(dv)
	if neverNilErrorCall(r.V) {
		return true
	}
	if n, k := p.Nil(r, at); k && !n {
		return true
	}
	// a load of a package-level sentinel error (ErrNeedsLogin, sessions.ErrLockNotObtained, ...)
	if g := globalLoad(r.V); g != "" {
		return true
	}
	return false
}

// callErrKey returns the dynamic value key of the error result of a call.
func callErrDV(p *walk.Path, cl walk.Call) (key string, single bool, idx int) {
	sig := cl.C.Signature()
	idx = errResultIndex(sig)
	if idx < 0 {
		return "", false, -1
	}
	if sig.Results().Len() == 1 {
		return p.ResultKey(cl.DV(), -1), true, idx
	}
	return p.ResultKey(cl.DV(), idx), false, idx
}

// checkPropagation: in fn, for every executed call matching m whose error result is not known to be
// nil at the exit, the function's own error result must be that error or definitely non-nil.
// A call in a loop iteration that is retried (lock loops) is judged by the path's final state.
func (c *Ctx) checkPropagation(rule string, fn *ssa.Function, m walk.Matcher, what string) int {
	retIdx := errResultIndex(fn.Signature)
	if retIdx < 0 {
		c.R.Unknown(rule, "propagates|"+fnKey(fn), c.P.Pos(fn.Pos()), "function has no error result to propagate "+what+" into")
		return 0
	}
	n := 0
	seen := map[ssa.Instruction]bool{}
	c.WalkShallow(rule, fn, func(p *walk.Path) {
		if _, ok := p.Exit.(*ssa.Return); !ok {
			return
		}
		ret, _ := p.ReturnDV(retIdx)
		for _, cl := range p.Find(m, p.End()) {
			if _, isCall := cl.In.(*ssa.Call); !isCall {
				continue // deferred/go calls are judged separately
			}
			if !seen[cl.In] {
				seen[cl.In] = true
				n++
			}
			key := "propagates|" + fnKey(fn) + "|" + what
			ek, single, idx := callErrDV(p, cl)
			if idx < 0 {
				continue
			}
			if p.Key(ret) == ek {
				c.ok(rule, key, cl.In, "the error of "+what+" is returned as is")
				continue
			}
			ri := idx
			if single {
				ri = -1
			}
			if isNil, known := p.ResultNil(cl.DV(), ri, p.End()); known && isNil {
				c.ok(rule, key, cl.In, "error nil on this path")
				continue
			}
			if definitelyNonNil(p, ret, p.End()) {
				c.ok(rule, key, cl.In, "a failure of "+what+" makes "+fn.Name()+" return a non-nil error")
				continue
			}
			c.bad(rule, key, cl.In, "a failure of "+what+" can be swallowed: "+prog.Name(fn)+" may return a nil error although that call's error is not known to be nil", p, p.End())
		}
	})
	return n
}

// checkModuleErrorDiscipline: in every fns member that returns an error, a module callee's error that a
// branch found non-nil must not end in a nil error result ("tested, then dropped"), unless the site is
// in the reviewed table (callee|function -> reason). Returns the number of call sites judged.
func (c *Ctx) checkModuleErrorDiscipline(rule string, fns []*ssa.Function, reviewedSites map[string]string) int {
	n := 0
	for _, fn := range fns {
		retIdx := errResultIndex(fn.Signature)
		if retIdx < 0 || len(fn.Blocks) == 0 {
			continue
		}
		has := false
		for _, b := range fn.Blocks {
			for _, in := range b.Instrs {
				if call, ok := in.(*ssa.Call); ok && c.moduleFallible(&call.Call) != "" {
					has = true
				}
			}
		}
		if !has {
			continue
		}
		fn := fn
		seen := map[ssa.Instruction]bool{}
		c.WalkShallow(rule, fn, func(p *walk.Path) {
			if _, ok := p.Exit.(*ssa.Return); !ok {
				return
			}
			at := p.End()
			ret, _ := p.ReturnDV(retIdx)
			for _, cl := range p.Calls() {
				name := c.moduleFallible(cl.C)
				if name == "" {
					continue
				}
				if _, ok := cl.In.(*ssa.Call); !ok {
					continue
				}
				if !seen[cl.In] {
					seen[cl.In] = true
					n++
					c.R.CallSites++
				}
				_, single, idx := callErrDV(p, cl)
				ri := idx
				if single {
					ri = -1
				}
				isNil, known := p.ResultNil(cl.DV(), ri, at)
				key := "site|" + fnKey(fn) + "|" + name
				if !known || isNil || !DefinitelyNil(p, ret, at) {
					c.ok(rule, key, cl.In, "no path on which this call's error is found non-nil ends in a nil error result")
					continue
				}
				if why, ok := reviewedSites[name+"|"+fnKey(fn)]; ok {
					c.ok(rule, key+"|reviewed", cl.In, "reviewed: "+why)
					continue
				}
				c.bad(rule, key, cl.In, "the error of "+name+" is found non-nil and then dropped: "+prog.Name(fn)+" reports success on that path", p, at)
			}
		})
	}
	return n
}

// moduleFallible names a call whose callee is a module function or module interface method with an error result.
func (c *Ctx) moduleFallible(cc *ssa.CallCommon) string {
	if errResultIndex(cc.Signature()) < 0 {
		return ""
	}
	if cc.IsInvoke() {
		if pk := cc.Method.Pkg(); pk != nil && strings.HasPrefix(pk.Path(), prog.ModPath) {
			return prog.Short(pk.Path()) + "." + recvName(cc.Method) + "." + cc.Method.Name()
		}
		return ""
	}
	if sc := cc.StaticCallee(); sc != nil && c.P.InModule(sc) {
		return prog.Name(sc)
	}
	return ""
}

func recvName(m *types.Func) string {
	if r := m.Type().(*types.Signature).Recv(); r != nil {
		if n, ok := r.Type().(*types.Named); ok {
			return n.Obj().Name()
		}
	}
	return "?"
}
