package rules

import (
	"go/token"
	"net/http"
	"strings"

	"golang.org/x/tools/go/ssa"

	"oapsa/internal/prog"
	"oapsa/internal/walk"
)

func init() {
	register(&Prop{
		ID:          "C16",
		Explanation: "Decides non-interference by guard dominance and closed reader sets: every read of a request header in production code is enumerated; a constant key naming a forwarding header (X-Forwarded-Host/Proto/Uri/For, X-Real-IP, X-ProxyUser-IP, X-Envoy-External-Address, CF-Connecting-IP, Forwarded) occurs only in GetRequestProto/GetRequestHost/GetRequestURI, and non-constant keys only at the two reviewed sites (the configured real-client-IP parser, the request-id header); wholesale iterations over a header map stay within the reviewed list; in the three accessors the header's value is returned only on paths where IsProxied(req) was true and is otherwise used only in the emptiness test behind that guard; IsProxied returns RequestScope.ReverseProxy or false; that field is written once, from NewScope's parameter, whose only call passes opts.ReverseProxy; the real-client-IP parser is installed only under o.ReverseProxy==true, stored in the proxy only by the constructor from the options, consulted only through ip.GetClientIP / GetClientString, and reads only its one configured header. Round 7: request handling keeps no state of its own between requests — no store, map update, in-place builtin, atomic/sync.Map write or pointer-receiver library call (singleflight, caches) reached from ServeHTTP targets a package-level variable, an object built at start-up, or a constructor variable captured by the handler it returned, declared in the packages implementing this property (RS; a class-wide who-may-write rule with zero instances today: a correct memoisation would be reported until reviewed). With no header parser the client address is the peer address the server recorded and no module code writes Request.RemoteAddr (R6, shared with C15.R8). Round 8 (class-wide, P12): in the packages implementing this property every named error result that is used at all is examined — compared with nil, returned, stored or handed to a non-formatting function — unless the code validates the value result instead (RE; zero instances today).",
		NotDecided:  "pairwise equality of whole responses (relational over values): the rule proves the absence of a dependence path, which is the necessary condition.",
		Run:         runC16,
	})
}

var forwardingHeaders = map[string]bool{}

func init() {
	for _, h := range []string{"X-Forwarded-Host", "X-Forwarded-Proto", "X-Forwarded-Uri", "X-Forwarded-For", "X-Forwarded-Port", "X-Forwarded-Prefix", "X-Real-IP", "X-ProxyUser-IP", "X-Envoy-External-Address", "CF-Connecting-IP", "Forwarded", "X-Original-Uri", "X-Original-Url", "X-Rewrite-Url"} {
		forwardingHeaders[http.CanonicalHeaderKey(h)] = true
	}
}

// headerRead is one read access to an http.Header value.
type headerRead struct {
	Fn      *ssa.Function
	In      ssa.Instruction
	Key     ssa.Value // nil for wholesale iteration
	Kind    string    // Get, Values, index, range
	Request bool      // header map derives from a request (vs ResponseWriter / fresh)
}

func isHTTPHeader(t interface{ String() string }) bool {
	return strings.HasSuffix(t.String(), "net/http.Header")
}

func (c *Ctx) headerReads() []headerRead {
	var out []headerRead
	for _, fn := range c.P.ModFns {
		for _, b := range fn.Blocks {
			for _, in := range b.Instrs {
				switch x := in.(type) {
				case *ssa.Call:
					sc := x.Call.StaticCallee()
					if sc != nil && sc.Signature.Recv() != nil && isHTTPHeader(sc.Signature.Recv().Type()) && (sc.Name() == "Get" || sc.Name() == "Values") {
						out = append(out, headerRead{fn, in, x.Call.Args[1], sc.Name(), fromRequest(x.Call.Args[0])})
					}
				case *ssa.Lookup:
					if isHTTPHeader(x.X.Type()) {
						out = append(out, headerRead{fn, in, x.Index, "index", fromRequest(x.X)})
					}
				case *ssa.Range:
					if isHTTPHeader(x.X.Type()) {
						out = append(out, headerRead{fn, in, nil, "range", fromRequest(x.X)})
					}
				}
			}
		}
	}
	return out
}

// fromRequest: the header map is (derived from) some *http.Request's Header field or a parameter.
func fromRequest(v ssa.Value) bool {
	v = unwrap0(v)
	switch x := v.(type) {
	case *ssa.UnOp:
		if fa, ok := x.X.(*ssa.FieldAddr); ok {
			return strings.HasSuffix(fa.X.Type().String(), "net/http.Request")
		}
	case *ssa.Parameter:
		return true // callers may pass a request's header
	case *ssa.Call:
		if x.Call.IsInvoke() && x.Call.Method.Name() == "Header" {
			return false // ResponseWriter.Header()
		}
		if sc := x.Call.StaticCallee(); sc != nil && (sc.Name() == "Header" || sc.Name() == "Clone") {
			return false
		}
	case *ssa.MakeMap:
		return false
	}
	return true
}

func runC16(c *Ctx) {
	c.R.Rule("RE-errors-examined", "in the packages implementing this property every named error result that is used at all is examined, or the value is validated instead (P12, class-wide, round 8)", 1)
	runErrorsExamined(c, "RE-errors-examined", "pkg/requests/util")
	c.R.Rule("RS-no-request-time-state", "request handling writes no state that outlives the request (package-level variables, objects built at start-up, constructor variables captured by handlers) declared in the packages implementing this property", 1)
	runStateless(c, "RS-no-request-time-state", "pkg/requests/util", "pkg/ip", "pkg/apis/middleware")
	runC16Body(c)
}

// runC16Body holds C16's own rules; other properties share single rules of it through Report.WithAlias.
func runC16Body(c *Ctx) {
	r := c.R
	r.Rule("R1-header-readers", "closed-world enumeration of request-header reads: forwarding names only in the three accessors; dynamic keys only at reviewed sites", 14)
	r.Rule("R2-guard-dominance", "header value returned only under IsProxied(req)==true; other uses only behind the guard", 6)
	r.Rule("R3-flag-integrity", "RequestScope.ReverseProxy written once from NewScope's parameter fed by opts.ReverseProxy; IsProxied returns it or false", 4)
	r.Rule("R6-peer-address-untouched", "with no header parser the client address is the peer address the server recorded: getRemoteIP parses RemoteAddr only, and no module code (a listener wrapper, a logging helper) writes Request.RemoteAddr from a header (shared with C15.R8, round 7)", 2)
	runRemoteIPRule(c, "R6-peer-address-untouched")
	r.Rule("R4-parser-construction", "real-client-IP parser installed only under ReverseProxy; stored/consulted through a closed set", 6)

	// ---- R1 ---------------------------------------------------------------------------------
	rule := "R1-header-readers"
	accessors := map[string]string{
		"pkg/requests/util.GetRequestProto": "X-Forwarded-Proto",
		"pkg/requests/util.GetRequestHost":  "X-Forwarded-Host",
		"pkg/requests/util.GetRequestURI":   "X-Forwarded-Uri",
	}
	dynamicOK := map[string]string{
		"(pkg/ip.xForwardedForClientIPParser).GetRealClientIP": "reads only its one configured header p.header (R4: parser exists only in reverse-proxy mode)",
		"pkg/middleware.genRequestID":                          "request-id header chosen by configuration; feeds only logging and error pages",
	}
	rangeOK := map[string]string{
		"pkg/middleware.flattenHeaders":  "joins multi-valued headers after strip+inject; feeds no decision",
		"pkg/upstream.(*multiTransport)": "n/a",
	}
	for _, hr := range c.headerReads() {
		if !hr.Request {
			continue
		}
		c.R.CallSites++
		name := fnKey(hr.Fn)
		if hr.Kind == "range" {
			key := "range|" + name
			if why, ok := rangeOK[name]; ok {
				c.ok(rule, key, hr.In, "reviewed: "+why)
			} else if prog.Short(prog.FnPkg(hr.Fn).Path()) == "pkg/upstream" || prog.Short(prog.FnPkg(hr.Fn).Path()) == "pkg/requests" {
				c.ok(rule, key, hr.In, "outbound request construction (upstream / IdP client), after the decisions")
			} else {
				c.bad(rule, key, hr.In, "a new wholesale iteration over request headers: forwarding headers can reach it unguarded", nil, 0)
			}
			continue
		}
		if k, ok := ConstString(hr.Key); ok {
			ck := http.CanonicalHeaderKey(k)
			key := hr.Kind + "|" + name + "|" + ck
			if !forwardingHeaders[ck] {
				c.ok(rule, key, hr.In, "not a forwarding header")
				continue
			}
			if want, ok := accessors[name]; ok && http.CanonicalHeaderKey(want) == ck {
				c.ok(rule, key, hr.In, "guarded accessor (R2)")
			} else {
				c.bad(rule, key, hr.In, "forwarding header "+ck+" is read outside its IsProxied-guarded accessor: it can influence the proxy with reverse-proxy mode off (or bypass the single configured client-IP header)", nil, 0)
			}
			continue
		}
		key := hr.Kind + "|" + name + "|dynamic"
		if why, ok := dynamicOK[name]; ok {
			c.ok(rule, key, hr.In, "reviewed: "+why)
		} else if prog.Short(prog.FnPkg(hr.Fn).Path()) == "pkg/upstream" {
			c.ok(rule, key, hr.In, "upstream request signing (after the decisions)")
		} else {
			c.bad(rule, key, hr.In, "a request header is read under a non-constant name at an unreviewed site: it may name a forwarding header", nil, 0)
		}
	}

	// ---- R2 ---------------------------------------------------------------------------------
	rule = "R2-guard-dominance"
	isProxied := c.Fn(rule, "pkg/requests/util.IsProxied")
	if isProxied != nil {
		for name := range accessors {
			fn := c.Fn(rule, name)
			if fn == nil {
				continue
			}
			c.Walk(rule, fn, func(p *walk.Path) {
				rv, ok := p.ReturnDV(0)
				if !ok {
					return
				}
				at := p.End()
				key := "returns-header|" + fnKey(fn)
				hc, ok := extractOfCall(p, rv, 0)
				isHeader := ok && hc.C.StaticCallee() != nil && hc.C.StaticCallee().Name() == "Get" && hc.C.StaticCallee().Signature.Recv() != nil && isHTTPHeader(hc.C.StaticCallee().Signature.Recv().Type())
				if !isHeader {
					c.ok(rule, key+"|plain", p.Exit, "returns the request's own value")
					return
				}
				if _, ok := Has(p, at, Need{M: walk.Static(isProxied), Idx: -1, Out: IsTrue, Where: func(p *walk.Path, k walk.Call) bool {
					return p.Resolve(p.Arg(k, 0)).V == fn.Params[0]
				}}); ok {
					c.ok(rule, key+"|proxied", p.Exit, "header value returned only with IsProxied(req)==true")
				} else {
					c.bad(rule, key, p.Exit, "the forwarding header's value is returned on a path where IsProxied(req) was not true", p, at)
				}
			})
			// other uses of the header value: only the emptiness comparison and the returned phi
			for _, b := range fn.Blocks {
				for _, in := range b.Instrs {
					call, ok := in.(*ssa.Call)
					if !ok || call.Call.StaticCallee() == nil || call.Call.StaticCallee().Name() != "Get" {
						continue
					}
					for _, ref := range *call.Referrers() {
						key := "header-use|" + fnKey(fn)
						switch x := ref.(type) {
						case *ssa.Phi, *ssa.Return, *ssa.DebugRef:
						case *ssa.BinOp:
							s, isConst := ConstString(x.Y)
							if !(isConst && s == "") {
								c.bad(rule, key, ref, "the forwarding header's value takes part in a comparison other than the emptiness test", nil, 0)
							}
						default:
							c.bad(rule, key, ref, "the forwarding header's value flows somewhere other than the guarded return: "+ref.String(), nil, 0)
						}
					}
				}
			}
		}
	}

	// ---- R3 ---------------------------------------------------------------------------------
	rule = "R3-flag-integrity"
	rpF := c.Field(rule, "pkg/apis/middleware.RequestScope.ReverseProxy")
	newScope := c.Fn(rule, "pkg/middleware.NewScope")
	optRP := c.Field(rule, "pkg/apis/options.Options.ReverseProxy")
	getScope := c.Fn(rule, "pkg/apis/middleware.GetRequestScope")
	if rpF != nil && newScope != nil && optRP != nil && isProxied != nil && getScope != nil {
		for _, ref := range c.fieldRefs(rpF) {
			key := ref.Kind + "|" + fnKey(ref.Fn)
			switch ref.Kind {
			case "store":
				okSrc := false
				if ref.Fn.Parent() != nil && ref.Fn.Parent().Parent() == newScope {
					for _, o := range c.origins(ref.Store.Val, 2) {
						if o == ssa.Value(newScope.Params[0]) {
							okSrc = true
						}
					}
					// origins() follows the parameter to its only call site: opts.ReverseProxy
					for _, o := range c.origins(ref.Store.Val, 3) {
						if isFieldLoadOf(o, optRP) {
							okSrc = true
						}
					}
				}
				if okSrc {
					c.ok(rule, key, ref.In, "written from NewScope's reverseProxy parameter")
				} else {
					c.bad(rule, key, ref.In, "RequestScope.ReverseProxy is written from something other than NewScope's configuration parameter", nil, 0)
				}
			case "load":
				if ref.Fn == isProxied {
					c.ok(rule, key, ref.In, "IsProxied reads the flag")
				} else {
					c.ok(rule, key, ref.In, "reader")
				}
			default:
				c.bad(rule, key, ref.In, "the address of RequestScope.ReverseProxy escapes", nil, 0)
			}
		}
		for _, cs := range c.callersOf(newScope) {
			key := "newscope-arg|" + fnKey(cs.Parent())
			if isFieldLoadOf(cs.Common().Args[0], optRP) {
				c.ok(rule, key, cs, "NewScope(opts.ReverseProxy, ...)")
			} else {
				c.bad(rule, key, cs, "NewScope's reverse-proxy flag does not come from opts.ReverseProxy", nil, 0)
			}
		}
		c.Walk(rule, isProxied, func(p *walk.Path) {
			rv, ok := p.ReturnDV(0)
			if !ok {
				return
			}
			if b, k := p.Truth(rv, p.End()); k && !b {
				return
			}
			key := "isproxied-true|" + fnKey(isProxied)
			r := p.Resolve(rv)
			if b, ok := walk.FieldLoadBase(r.V, rpF); ok {
				if gs, ok := extractOfCall(p, p.Op(b, p.Op(r.V.(*ssa.UnOp).X, r)), 0); ok && gs.C.StaticCallee() == getScope && p.Resolve(p.Arg(gs, 0)).V == isProxied.Params[0] {
					c.ok(rule, key, p.Exit, "returns GetRequestScope(req).ReverseProxy")
					return
				}
			}
			c.bad(rule, key, p.Exit, "IsProxied can return true other than as the request scope's ReverseProxy flag", p, p.End())
		})
	}

	// ---- R4 ---------------------------------------------------------------------------------
	rule = "R4-parser-construction"
	setParser := c.Fn(rule, "(*pkg/apis/options.Options).SetRealClientIPParser")
	getParser := c.Fn(rule, "(*pkg/apis/options.Options).GetRealClientIPParser")
	optParserF := c.Field(rule, "pkg/apis/options.Options.realClientIPParser")
	proxyParserF := c.Field(rule, "main.OAuthProxy.realClientIPParser")
	ctor := c.Fn(rule, "main.NewOAuthProxy")
	if setParser != nil && getParser != nil && optParserF != nil && proxyParserF != nil && ctor != nil && optRP != nil {
		for _, cs := range c.callersOf(setParser) {
			cs := cs
			fn := cs.Parent()
			key := "install-under-flag|" + fnKey(fn)
			found := false
			c.WalkShallow(rule, fn, func(p *walk.Path) {
				for i, s := range p.Steps {
					if s.In != cs.(ssa.Instruction) {
						continue
					}
					found = true
					if fieldBoolAtom(p, i, optRP, true) {
						c.ok(rule, key, s.In, "SetRealClientIPParser only under o.ReverseProxy==true")
					} else {
						c.bad(rule, key, s.In, "a real-client-IP parser is installed on a path where reverse-proxy mode is not known to be on: client-IP headers are honoured without it", p, i)
					}
				}
			})
			if !found {
				c.R.Unknown(rule, key, c.pos(cs), "call site not reached by the walker")
			}
		}
		for _, ref := range c.fieldRefs(optParserF) {
			key := "options-field|" + ref.Kind + "|" + fnKey(ref.Fn)
			switch {
			case ref.Kind == "store" && ref.Fn == setParser, ref.Kind == "load" && ref.Fn == getParser:
				c.ok(rule, key, ref.In, "accessor")
			default:
				c.bad(rule, key, ref.In, "Options.realClientIPParser is accessed outside its two accessors", nil, 0)
			}
		}
		for _, ref := range c.fieldRefs(proxyParserF) {
			key := "proxy-field|" + ref.Kind + "|" + fnKey(ref.Fn)
			switch ref.Kind {
			case "store":
				okSrc := ref.Fn == ctor
				if call, ok := ref.Store.Val.(*ssa.Call); !ok || call.Call.StaticCallee() != getParser {
					okSrc = false
				}
				if okSrc {
					c.ok(rule, key, ref.In, "constructor stores opts.GetRealClientIPParser()")
				} else {
					c.bad(rule, key, ref.In, "OAuthProxy.realClientIPParser is written from something other than the validated options", nil, 0)
				}
			case "load":
				// the loaded parser must flow only into ip.GetClientIP / ip.GetClientString
				ld := ref.In.(*ssa.UnOp)
				okUse := true
				for _, u := range *ld.Referrers() {
					if call, ok := u.(ssa.CallInstruction); ok {
						sc := call.Common().StaticCallee()
						if sc != nil && prog.Short(prog.FnPkg(sc).Path()) == "pkg/ip" && (sc.Name() == "GetClientIP" || sc.Name() == "GetClientString") {
							continue
						}
					}
					if _, ok := u.(*ssa.DebugRef); ok {
						continue
					}
					okUse = false
				}
				if okUse {
					c.ok(rule, key, ref.In, "consulted only through ip.GetClientIP / ip.GetClientString")
				} else {
					c.bad(rule, key, ref.In, "the real-client-IP parser is used other than through ip.GetClientIP / GetClientString", nil, 0)
				}
			default:
				c.bad(rule, key, ref.In, "the address of OAuthProxy.realClientIPParser escapes", nil, 0)
			}
		}
	}
	_ = token.ADD
}
