package rules

import (
	"go/token"
	"go/types"
	"strings"

	"golang.org/x/tools/go/ssa"

	"oapsa/internal/prog"
	"oapsa/internal/walk"
)

func init() {
	register(&Prop{
		ID:          "C05",
		Explanation: "Decides the wiring that binds token response to authorization request. Nonce: on every saving path of the callback csrf.SetSessionNonce(session) on the loaded CSRF cookie precedes provider.ValidateSession(session)==true; OIDCProvider.ValidateSession returns true only with Verifier.Verify(s.IDToken) ok and (SkipNonce or checkNonce(s)==nil); checkNonce returns nil only after s.CheckNonce(value extracted from the \"nonce\" claim of s.IDToken)==true; SessionState.CheckNonce and encryption.CheckNonce compare the hash of the session nonce with hmac.Equal; every ValidateSession override of an OIDC-embedding provider delegates to it. PKCE: with a challenge method configured the verifier given to NewCSRF is the fresh result of GenerateCodeVerifierString(n), 32<=n<=96, unpadded URL-safe base64 of n crypto/rand bytes; its only other use is GenerateCodeChallenge(method, verifier) whose result is the code_challenge parameter; the verifier redeemed is GetCodeVerifier() of the loaded CSRF cookie, handed unchanged to provider.Redeem, and every Redeem implementation sends it as code_verifier or delegates; the login URL receives only HashOAuthState()/HashOIDCNonce(); the raw nonce/verifier fields have a closed reader set; the PKCE method in force (ProviderData.CodeChallengeMethod) is written only from the operator's option. Added during the build: the challenge method sent and the one used to derive the challenge come from the same configuration value (R7). Round 3: the legacy conversion lets force-code-challenge-method alone select the method (R8); a Redeem implementation's verifier flows only into the code_verifier parameter and the parameter set carrying it is used only through url.Values methods (R9). Round 4: the structured configuration's providers reach Options.Providers as written and the legacy skip-nonce flag maps to the skip-nonce option (R10). Round 5: in every function that adds code_verifier to the token request, each error-free return on which the verifier is not known to be empty has passed the add (under R9; shared with C03.R8). Round 6: the Set-Cookie lines queued on a response, the CSRF cookie's expiry among them, are never deleted or reassigned by hand (R11, shared with C18.R1). Round 7: request handling keeps no state of its own between requests — no store, map update, in-place builtin, atomic/sync.Map write or pointer-receiver library call (singleflight, caches) reached from ServeHTTP targets a package-level variable, an object built at start-up, or a constructor variable captured by the handler it returned, declared in the packages implementing this property (RS; a class-wide who-may-write rule with zero instances today: a correct memoisation would be reported until reviewed). Round 8: NewCSRF hands out a CSRF object only where every encryption.Nonce call of the path had its own error tested nil (R12). Round 8 (class-wide, P12): in the packages implementing this property every named error result that is used at all is examined — compared with nil, returned, stored or handed to a non-formatting function — unless the code validates the value result instead (RE; zero instances today).",
		NotDecided:  "identity-provider behaviour; 'never repeated' beyond fresh-per-call crypto/rand (entropy trusted); msgpack reflection reads of the csrf fields (serialisation into the encrypted cookie) are not modelled as reads.",
		Run:         runC05,
	})
}

func runC05(c *Ctx) {
	c.R.Rule("RE-errors-examined", "in the packages implementing this property every named error result that is used at all is examined, or the value is validated instead (P12, class-wide, round 8)", 1)
	runErrorsExamined(c, "RE-errors-examined", "pkg/cookies", "pkg/encryption")
	c.R.Rule("RS-no-request-time-state", "request handling writes no state that outlives the request (package-level variables, objects built at start-up, constructor variables captured by handlers) declared in the packages implementing this property", 1)
	runStateless(c, "RS-no-request-time-state", "pkg/cookies", "providers", "pkg/providers")
	r := c.R
	r.Rule("R1-nonce-before-validate", "callback: SetSessionNonce(session) precedes ValidateSession(session)==true on every saving path", 1)
	r.Rule("R2-validate-checks-nonce", "OIDC ValidateSession true => Verify ok && (SkipNonce || checkNonce nil); checkNonce nil => CheckNonce(nonce claim) true; constant-time hash compare; overrides delegate", 6)
	r.Rule("R3-pkce-provenance", "verifier is fresh GenerateCodeVerifierString result, used only for the challenge and the CSRF cookie; challenge parameter is GenerateCodeChallenge(method, verifier)", 3)
	r.Rule("R4-verifier-shape", "verifier length constant in RFC 7636 range, unpadded URL-safe base64 of crypto/rand bytes", 4)
	r.Rule("R5-redemption", "redeemed verifier is GetCodeVerifier() of the loaded CSRF cookie and reaches the token request as code_verifier in every Redeem implementation", 8)
	r.Rule("R7-method-from-config", "ProviderData.CodeChallengeMethod is written only from the operator's option", 2)
	r.Rule("R12-each-random-draw-tested", "NewCSRF hands out a CSRF object only where every encryption.Nonce call of the path had its own error tested nil (an empty OIDC nonce matches a token without nonce claim; round 8)", 1)
	runNonceErrorsTested(c, "R12-each-random-draw-tested")
	r.Rule("R10-alpha-providers-verbatim", "the structured configuration's providers reach Options.Providers as written; the legacy skip-nonce flag maps to the skip-nonce option", 2)
	r.Rule("R11-queued-cookie-expiry-kept", "the Set-Cookie lines queued on a response (the expiry of the finished login's CSRF cookie among them) are never deleted or reassigned by hand (shared with C18.R1)", 1)
	runQueuedCookiesUntouched(c, "R11-queued-cookie-expiry-kept")
	r.Rule("R8-legacy-force-method", "the legacy conversion lets force-code-challenge-method alone select the PKCE method", 2)
	r.Rule("R9-verifier-only-to-token-request", "every Redeem implementation sends its verifier only as code_verifier of the token request; the parameter set carrying it is used only through url.Values methods", 4)
	r.Rule("R6-hashed-on-wire", "login URL gets only hashed state/nonce; raw csrf fields have a closed reader set", 10)

	a := c.cbAnchors("R1-nonce-before-validate")
	if a == nil {
		return
	}
	c.checkCallbackSave("R1-nonce-before-validate", a, FacetNonce, "save-needs-nonce-validation")

	runC05R2(c, a)
	runC05R3R4(c, a)
	runC05R5(c, a)
	runC05R6(c, a)
	runC05R7(c)
	runC05R8(c, "R8-legacy-force-method")
	runC05R9(c, "R9-verifier-only-to-token-request")
	runC05R10(c, "R10-alpha-providers-verbatim")
	runLegacyToggleTable(c, "R10-alpha-providers-verbatim", "InsecureSkipNonce")
}

func runC05R2(c *Ctx, a *cbAnchors) {
	rule := "R2-validate-checks-nonce"
	vs := c.Fn(rule, "(*providers.OIDCProvider).ValidateSession")
	verifyM := c.Method(rule, "pkg/providers/oidc.IDTokenVerifier.Verify")
	skipF := c.Field(rule, "providers.OIDCProvider.SkipNonce")
	idTokenF := c.Field(rule, "pkg/apis/sessions.SessionState.IDToken")
	nonceF := c.Field(rule, "pkg/apis/sessions.SessionState.Nonce")
	checkNonce := c.Fn(rule, "(*providers.ProviderData).checkNonce")
	ssCheckNonce := c.Fn(rule, "(*pkg/apis/sessions.SessionState).CheckNonce")
	encCheckNonce := c.Fn(rule, "pkg/encryption.CheckNonce")
	hashNonce := c.Fn(rule, "pkg/encryption.HashNonce")
	getExtractor := c.Fn(rule, "(*providers.ProviderData).getClaimExtractor")
	getClaimInto := c.Method(rule, "pkg/providers/util.ClaimExtractor.GetClaimInto")
	hmacEqual := c.StdFunc(rule, "crypto/hmac.Equal")
	if vs == nil || verifyM == nil || skipF == nil || idTokenF == nil || nonceF == nil || checkNonce == nil || ssCheckNonce == nil || encCheckNonce == nil || hashNonce == nil || getExtractor == nil || getClaimInto == nil || hmacEqual == nil {
		return
	}
	sParam := vs.Params[2]
	c.Walk(rule, vs, func(p *walk.Path) {
		rv, ok := p.ReturnDV(0)
		if !ok {
			return
		}
		if b, k := p.Truth(rv, p.End()); k && !b {
			return
		}
		key := "true-return|" + fnKey(vs)
		if _, ok := Has(p, p.End(), Need{M: walk.Invoke(c.P, verifyM), Idx: 1, Out: ErrNil, Where: func(p *walk.Path, k walk.Call) bool {
			return fieldLoadOn(p, p.Arg(k, 1), idTokenF, walk.DV{V: sParam})
		}}); !ok {
			c.bad(rule, key, p.Exit, "ValidateSession returns true on a path where Verifier.Verify(s.IDToken) did not succeed", p, p.End())
			return
		}
		if fieldBoolAtom(p, p.End(), skipF, true) {
			c.ok(rule, key+"|skip-nonce", p.Exit, "Verify ok and nonce checking explicitly disabled (SkipNonce)")
			return
		}
		if _, ok := Has(p, p.End(), Need{M: walk.Static(checkNonce), Idx: -1, Out: ErrNil, Where: func(p *walk.Path, k walk.Call) bool {
			return p.Resolve(p.Arg(k, 1)).V == sParam
		}}); !ok {
			c.bad(rule, key, p.Exit, "ValidateSession returns true without SkipNonce and without checkNonce(s)==nil", p, p.End())
			return
		}
		c.ok(rule, key+"|nonce-checked", p.Exit, "Verify ok and checkNonce(s)==nil")
	})
	// checkNonce
	cs := checkNonce.Params[1]
	c.Walk(rule, checkNonce, func(p *walk.Path) {
		rv, ok := p.ReturnDV(0)
		if !ok || !DefinitelyNil(p, rv, p.End()) {
			return
		}
		key := "nil-return|" + fnKey(checkNonce)
		ex, ok := Has(p, p.End(), Need{M: walk.Static(getExtractor), Idx: 1, Out: ErrNil, Where: func(p *walk.Path, k walk.Call) bool {
			return fieldLoadOn(p, p.Arg(k, 1), idTokenF, walk.DV{V: cs})
		}})
		if !ok {
			c.bad(rule, key, p.Exit, "checkNonce succeeds without a claim extractor built from s.IDToken", p, p.End())
			return
		}
		var cell ssa.Value
		if _, ok := Has(p, p.End(), Need{M: walk.Invoke(c.P, getClaimInto), Idx: 1, Out: ErrNil, Where: func(p *walk.Path, k walk.Call) bool {
			if !ResultIs(p, p.Recv(k), ex, 0) {
				return false
			}
			if s, ok := ConstString(k.C.Args[0]); !ok || s != "nonce" {
				return false
			}
			cell = unwrap(k.C.Args[1])
			return true
		}}); !ok {
			c.bad(rule, key, p.Exit, "checkNonce succeeds without extracting the \"nonce\" claim of that token", p, p.End())
			return
		}
		if _, ok := Has(p, p.End(), Need{M: walk.Static(ssCheckNonce), Idx: -1, Out: IsTrue, Where: func(p *walk.Path, k walk.Call) bool {
			if p.Resolve(p.Arg(k, 0)).V != cs {
				return false
			}
			ld, ok := p.Resolve(p.Arg(k, 1)).V.(*ssa.UnOp)
			return ok && ld.Op == token.MUL && ld.X == cell
		}}); !ok {
			c.bad(rule, key, p.Exit, "checkNonce returns nil on a path where s.CheckNonce(extracted nonce claim) was not true", p, p.End())
			return
		}
		c.ok(rule, key, p.Exit, "extractor(s.IDToken) ok, GetClaimInto(\"nonce\") ok, s.CheckNonce(claim)==true")
	})
	// SessionState.CheckNonce = encryption.CheckNonce(s.Nonce, hashed)
	c.Walk(rule, ssCheckNonce, func(p *walk.Path) {
		rv, ok := p.ReturnDV(0)
		if !ok {
			return
		}
		key := "delegates|" + fnKey(ssCheckNonce)
		cl, ok := extractOfCall(p, rv, 0)
		if ok && cl.C.StaticCallee() == encCheckNonce && fieldLoadOn(p, p.Arg(cl, 0), nonceF, walk.DV{V: ssCheckNonce.Params[0]}) && p.Resolve(p.Arg(cl, 1)).V == ssCheckNonce.Params[1] {
			c.ok(rule, key, p.Exit, "encryption.CheckNonce(s.Nonce, hashed)")
		} else {
			c.bad(rule, key, p.Exit, "SessionState.CheckNonce does not return encryption.CheckNonce(s.Nonce, hashed)", p, p.End())
		}
	})
	// encryption.CheckNonce = hmac.Equal([]byte(HashNonce(nonce)), []byte(hashed))
	c.Walk(rule, encCheckNonce, func(p *walk.Path) {
		rv, ok := p.ReturnDV(0)
		if !ok {
			return
		}
		if b, k := p.Truth(rv, p.End()); k && !b {
			return
		}
		key := "compare|" + fnKey(encCheckNonce)
		cl, ok := extractOfCall(p, rv, 0)
		if !ok || cl.C.StaticCallee() != hmacEqual {
			c.bad(rule, key, p.Exit, "CheckNonce's result is not hmac.Equal's", p, p.End())
			return
		}
		sides := [2]bool{}
		for i := 0; i < 2; i++ {
			v := p.Resolve(p.Arg(cl, i))
			if cv, ok := v.V.(*ssa.Convert); ok {
				inner := p.Resolve(p.Op(cv.X, v))
				if hc, ok := inner.V.(*ssa.Call); ok && hc.Call.StaticCallee() == hashNonce && hc.Call.Args[0] == encCheckNonce.Params[0] {
					sides[0] = true
				}
				if inner.V == encCheckNonce.Params[1] {
					sides[1] = true
				}
			}
		}
		if sides[0] && sides[1] {
			c.ok(rule, key, p.Exit, "hmac.Equal(HashNonce(nonce), hashed)")
		} else {
			c.bad(rule, key, p.Exit, "CheckNonce does not compare HashNonce(nonce) with the presented hash", p, p.End())
		}
	})
	// overrides of ValidateSession on OIDC-embedding providers delegate to OIDCProvider.ValidateSession
	oidcT := c.P.Named("providers.OIDCProvider")
	for _, impl := range c.P.Implementations(a.validateSession) {
		if impl == vs || !c.P.InModule(impl) || oidcT == nil {
			continue
		}
		recv := impl.Signature.Recv()
		if recv == nil || !embeds(recv.Type(), oidcT) {
			continue
		}
		impl := impl
		c.Walk(rule, impl, func(p *walk.Path) {
			rv, ok := p.ReturnDV(0)
			if !ok {
				return
			}
			if b, k := p.Truth(rv, p.End()); k && !b {
				return
			}
			key := "override-delegates|" + fnKey(impl)
			if cl, ok := extractOfCall(p, rv, 0); ok && cl.C.StaticCallee() == vs {
				c.ok(rule, key, p.Exit, "returns OIDCProvider.ValidateSession's result")
				return
			}
			if _, ok := Has(p, p.End(), Need{M: walk.Static(vs), Idx: -1, Out: IsTrue}); ok {
				c.ok(rule, key, p.Exit, "true only after OIDCProvider.ValidateSession==true")
				return
			}
			c.bad(rule, key, p.Exit, prog.Name(impl)+" overrides ValidateSession of an OIDC provider and can return true without the embedded OIDC validation (nonce check lost)", p, p.End())
		})
	}
}

// embeds reports whether (pointer to) struct type t embeds *target or target, transitively.
func embeds(t types.Type, target *types.Named) bool {
	if pt, ok := t.Underlying().(*types.Pointer); ok {
		t = pt.Elem()
	}
	st, ok := t.Underlying().(*types.Struct)
	if !ok {
		return false
	}
	for i := 0; i < st.NumFields(); i++ {
		f := st.Field(i)
		if !f.Embedded() {
			continue
		}
		ft := f.Type()
		if pt, ok := ft.(*types.Pointer); ok {
			ft = pt.Elem()
		}
		if types.Identical(ft, target) || embeds(ft, target) {
			return true
		}
	}
	return false
}

func runC05R3R4(c *Ctx, a *cbAnchors) {
	rule := "R3-pkce-provenance"
	start := c.Fn(rule, "(*main.OAuthProxy).doOAuthStart")
	genVerifier := c.Fn(rule, "pkg/encryption.GenerateCodeVerifierString")
	genChallenge := c.Fn(rule, "pkg/encryption.GenerateCodeChallenge")
	newCSRF := c.Fn(rule, "pkg/cookies.NewCSRF")
	methodF := c.Field(rule, "providers.ProviderData.CodeChallengeMethod")
	valuesAdd := c.StdFunc(rule, "net/url.Values.Add")
	if start == nil || genVerifier == nil || genChallenge == nil || newCSRF == nil || methodF == nil || valuesAdd == nil {
		return
	}
	seen := 0
	c.Walk(rule, start, func(p *walk.Path) {
		for _, nc := range p.Find(walk.Static(newCSRF), p.End()) {
			seen++
			at := nc.Idx
			key := "verifier-into-csrf|" + fnKey(start)
			ver := p.Resolve(p.Arg(nc, 1))
			methodSet := false
			for _, at0 := range p.Atoms(at) {
				// CodeChallengeMethod != "" assumed (== "" false)
				if b, ok := at0.DV.V.(*ssa.BinOp); ok && !at0.IsNil && !at0.Val {
					for _, side := range []ssa.Value{b.X, b.Y} {
						if walk.IsFieldLoad(side, methodF) {
							methodSet = true
						}
					}
				}
			}
			if !methodSet {
				if s, ok := ConstString(ver.V); ok && s == "" {
					c.ok(rule, key+"|no-pkce", nc.In, "no challenge method configured: empty verifier")
				} else {
					c.bad(rule, key, nc.In, "a non-empty code verifier is stored although no challenge method is configured (or the method test is missing)", p, at)
				}
				continue
			}
			gv, ok := extractOfCall(p, ver, 0)
			if !ok || gv.C.StaticCallee() != genVerifier {
				c.bad(rule, key, nc.In, "with a challenge method configured the verifier stored in the CSRF cookie is not the result of GenerateCodeVerifierString", p, at)
				continue
			}
			if n, k := p.ResultNil(gv.DV(), 1, at); !(k && n) {
				c.bad(rule, key, nc.In, "GenerateCodeVerifierString's error is not known to be nil", p, at)
				continue
			}
			// challenge parameter
			okChallenge, okMethod := false, false
			for _, ad := range p.Find(walk.Static(valuesAdd), at) {
				k, _ := ConstString(ad.C.Args[1])
				switch k {
				case "code_challenge":
					gc, ok := extractOfCall(p, p.Arg(ad, 2), 0)
					if ok && gc.C.StaticCallee() == genChallenge && p.Same(p.Arg(gc, 1), ver) && walk.IsFieldLoad(p.Resolve(p.Arg(gc, 0)).V, methodF) {
						if n, k := p.ResultNil(gc.DV(), 1, at); k && n {
							okChallenge = true
						}
					}
				case "code_challenge_method":
					if walk.IsFieldLoad(p.Resolve(p.Arg(ad, 2)).V, methodF) {
						okMethod = true
					}
				}
			}
			if !okChallenge || !okMethod {
				c.bad(rule, key, nc.In, sprintf("PKCE parameters of the authorization request are not derived from this login's verifier (code_challenge ok:%v, code_challenge_method ok:%v)", okChallenge, okMethod), p, at)
				continue
			}
			c.ok(rule, key+"|pkce", nc.In, "verifier = fresh GenerateCodeVerifierString(); code_challenge = GenerateCodeChallenge(method, verifier); stored via NewCSRF")
		}
	})
	if seen == 0 {
		c.R.Unknown(rule, "verifier-into-csrf|none", c.P.Pos(start.Pos()), "doOAuthStart never calls NewCSRF")
	}
	// uses of the verifier value: only GenerateCodeChallenge arg 1, NewCSRF arg 1 (through phis)
	for _, b := range start.Blocks {
		for _, in := range b.Instrs {
			call, ok := in.(*ssa.Call)
			if !ok || call.Call.StaticCallee() != genVerifier {
				continue
			}
			key := "verifier-uses|" + fnKey(start)
			bad := ""
			seenV := map[ssa.Value]bool{}
			var follow func(v ssa.Value)
			follow = func(v ssa.Value) {
				if seenV[v] {
					return
				}
				seenV[v] = true
				for _, ref := range *v.Referrers() {
					switch x := ref.(type) {
					case *ssa.Extract:
						if x.Index == 0 {
							follow(x)
						}
					case *ssa.Phi:
						follow(x)
					case *ssa.DebugRef:
					case *ssa.Call:
						sc := x.Call.StaticCallee()
						if (sc == genChallenge || sc == newCSRF) && len(x.Call.Args) > 1 && x.Call.Args[1] == v {
							continue
						}
						bad = "passed to " + walk.CalleeName(&x.Call)
					default:
						if _, isTuple := v.(*ssa.Call); isTuple {
							continue
						}
						bad = "used by " + ref.String()
					}
				}
			}
			follow(call)
			if bad == "" {
				c.ok(rule, key, in, "verifier flows only into GenerateCodeChallenge and NewCSRF")
			} else {
				c.bad(rule, key, in, "the raw code verifier escapes: "+bad, nil, 0)
			}
		}
	}

	// ---- R4 ---------------------------------------------------------------------------------
	rule = "R4-verifier-shape"
	for _, cs := range c.callersOf(genVerifier) {
		n, ok := ConstInt(cs.Common().Args[0])
		key := "length|" + fnKey(cs.Parent())
		if ok && n >= 32 && n <= 96 {
			c.ok(rule, key, cs, sprintf("GenerateCodeVerifierString(%d): %d characters, within RFC 7636's 43..128", n, (n*8+5)/6))
		} else {
			c.bad(rule, key, cs, sprintf("code verifier length argument %d (const=%v) is outside 32..96 bytes, i.e. outside RFC 7636's 43..128 characters", n, ok), nil, 0)
		}
	}
	readFull := c.StdFunc(rule, "io.ReadFull")
	encodeToString := c.StdFunc(rule, "encoding/base64.Encoding.EncodeToString")
	withPadding := c.StdFunc(rule, "encoding/base64.Encoding.WithPadding")
	if readFull == nil || encodeToString == nil || withPadding == nil {
		return
	}
	c.Walk(rule, genVerifier, func(p *walk.Path) {
		ev, _ := p.ReturnDV(1)
		if !DefinitelyNil(p, ev, p.End()) {
			return
		}
		rv, _ := p.ReturnDV(0)
		key := "encoding|" + fnKey(genVerifier)
		enc, ok := extractOfCall(p, rv, 0)
		if !ok || enc.C.StaticCallee() != encodeToString {
			c.bad(rule, key, p.Exit, "the verifier is not a base64 encoding", p, p.End())
			return
		}
		data := p.Arg(enc, 1)
		// encoder: URLEncoding.WithPadding(NoPadding) or RawURLEncoding
		encoder := p.Resolve(p.Arg(enc, 0))
		okEnc := false
		if wp, ok := encoder.V.(*ssa.Call); ok && wp.Call.StaticCallee() == withPadding {
			if pad, ok := ConstInt(wp.Call.Args[1]); ok && pad == -1 {
				if g := globalLoad(wp.Call.Args[0]); g == "encoding/base64.URLEncoding" || g == "encoding/base64.RawURLEncoding" {
					okEnc = true
				}
			}
		} else if g := globalLoad(encoder.V); g == "encoding/base64.RawURLEncoding" {
			okEnc = true
		}
		if !okEnc {
			c.bad(rule, key, p.Exit, "the verifier is not encoded with the unpadded URL-safe alphabet (RFC 7636 unreserved characters)", p, p.End())
			return
		}
		if _, ok := Has(p, p.End(), Need{M: walk.Static(readFull), Idx: 1, Out: ErrNil, Where: func(p *walk.Path, k walk.Call) bool {
			return globalLoad(unwrap(k.C.Args[0])) == "crypto/rand.Reader" && p.Same(p.Arg(k, 1), data)
		}}); !ok {
			c.bad(rule, key, p.Exit, "the encoded bytes were not filled by a successful io.ReadFull(crypto/rand.Reader, ·)", p, p.End())
			return
		}
		ms, ok := p.Resolve(data).V.(*ssa.MakeSlice)
		if !ok || ms.Len != genVerifier.Params[0] {
			c.bad(rule, key, p.Exit, "the random buffer's length is not the requested length", p, p.End())
			return
		}
		c.ok(rule, key, p.Exit, "unpadded URL-safe base64 of n bytes read from crypto/rand")
	})
	// GenerateCodeChallenge: S256 = RawURL base64 of sha256(verifier); plain = verifier
	sum256 := c.StdFunc(rule, "crypto/sha256.Sum256")
	if sum256 != nil {
		c.Walk(rule, genChallenge, func(p *walk.Path) {
			ev, _ := p.ReturnDV(1)
			if !DefinitelyNil(p, ev, p.End()) {
				return
			}
			rv, _ := p.ReturnDV(0)
			key := "challenge|" + fnKey(genChallenge)
			method := genChallenge.Params[0]
			isMethod := func(x walk.DV) bool { return x.V == method }
			switch {
			case eqConstAtom(p, p.End(), true, "plain", isMethod):
				if p.Resolve(rv).V == genChallenge.Params[1] {
					c.ok(rule, key+"|plain", p.Exit, "plain: challenge == verifier")
				} else {
					c.bad(rule, key+"|plain", p.Exit, "plain challenge is not the verifier", p, p.End())
				}
			case eqConstAtom(p, p.End(), true, "S256", isMethod):
				enc, ok := extractOfCall(p, rv, 0)
				okS := false
				if ok && enc.C.StaticCallee() == encodeToString && globalLoad(p.Resolve(p.Arg(enc, 0)).V) == "encoding/base64.RawURLEncoding" {
					if _, ok := Has(p, p.End(), Need{M: walk.Static(sum256), Out: Called, Where: func(p *walk.Path, k walk.Call) bool {
						cv, ok := p.Resolve(p.Arg(k, 0)).V.(*ssa.Convert)
						return ok && cv.X == genChallenge.Params[1]
					}}); ok {
						okS = true
					}
				}
				if okS {
					c.ok(rule, key+"|S256", p.Exit, "S256: RawURL base64 of sha256(verifier)")
				} else {
					c.bad(rule, key+"|S256", p.Exit, "S256 challenge is not BASE64URL(SHA256(verifier))", p, p.End())
				}
			default:
				c.bad(rule, key+"|other", p.Exit, "GenerateCodeChallenge succeeds for a method that is neither plain nor S256", p, p.End())
			}
		})
	}
}

// globalLoad: v is a load of a package-level variable (or the variable's address): returns its qualified name.
func globalLoad(v ssa.Value) string {
	v = unwrap(v)
	for i := 0; i < 2; i++ {
		if u, ok := v.(*ssa.UnOp); ok && u.Op == token.MUL {
			v = u.X
		}
	}
	if g, ok := v.(*ssa.Global); ok {
		return g.Pkg.Pkg.Path() + "." + g.Name()
	}
	return ""
}

func runC05R5(c *Ctx, a *cbAnchors) {
	rule := "R5-redemption"
	c.checkCallbackSave(rule, a, FacetPKCE, "redeem-with-cookie-verifier")
	redeemM := c.Method(rule, "providers.Provider.Redeem")
	if redeemM == nil {
		return
	}
	// redeemCode passes its verifier parameter unchanged to provider.Redeem
	c.Walk(rule, a.redeemCode, func(p *walk.Path) {
		for _, rc := range p.Find(walk.Invoke(c.P, redeemM), p.End()) {
			key := "passes-verifier|" + fnKey(a.redeemCode)
			if p.Resolve(p.Arg(rc, 3)).V == a.redeemCode.Params[2] {
				c.ok(rule, key, rc.In, "provider.Redeem(ctx, redirectURI, code, codeVerifier)")
			} else {
				c.bad(rule, key, rc.In, "redeemCode does not hand its codeVerifier argument to provider.Redeem", p, rc.Idx)
			}
		}
	})
	// every Redeem implementation uses the verifier: sends it as code_verifier or delegates
	impls := c.P.Implementations(redeemM)
	implSet := map[*ssa.Function]bool{}
	for _, f := range impls {
		implSet[f] = true
	}
	for _, impl := range impls {
		if !c.P.InModule(impl) || len(impl.Params) < 5 {
			continue
		}
		key := "impl-sends-verifier|" + fnKey(impl)
		how := ""
		var use func(ver ssa.Value, depth int)
		use = func(ver ssa.Value, depth int) {
			for _, ref := range *ver.Referrers() {
				call, ok := ref.(ssa.CallInstruction)
				if !ok {
					continue
				}
				cc := call.Common()
				sc := cc.StaticCallee()
				if sc == nil {
					continue
				}
				if implSet[sc] && cc.Args[len(cc.Args)-1] == ver {
					how = "delegates to " + prog.Name(sc)
					continue
				}
				if (sc.Name() == "SetAuthURLParam" || sc.Name() == "Add" || sc.Name() == "Set") && len(cc.Args) >= 2 {
					for i, arg := range cc.Args {
						if s, ok := ConstString(arg); ok && s == "code_verifier" && i+1 < len(cc.Args) && cc.Args[i+1] == ver {
							how = "sends it as code_verifier (" + sc.Name() + " in " + prog.Name(call.Parent()) + ")"
						}
					}
					continue
				}
				// helper in the module: follow the parameter
				if depth < 2 && c.P.InModule(sc) {
					for i, arg := range cc.Args {
						if arg == ver && i < len(sc.Params) {
							use(sc.Params[i], depth+1)
						}
					}
				}
			}
		}
		use(impl.Params[4], 0)
		if how != "" {
			c.ok(rule, key, impl.Blocks[0].Instrs[0], how)
		} else {
			c.bad(rule, key, impl.Blocks[0].Instrs[0], prog.Name(impl)+" ignores the PKCE code verifier: it neither sends it as code_verifier nor delegates to another Redeem with it", nil, 0)
		}
	}
}

func runC05R6(c *Ctx, a *cbAnchors) {
	rule := "R6-hashed-on-wire"
	// closed reader set of the raw fields
	allowed := map[string]map[string]bool{
		"OAuthState":   {"(*pkg/cookies.csrf).HashOAuthState": true, "(*pkg/cookies.csrf).CheckOAuthState": true, "(*pkg/cookies.csrf).cookieName": true},
		"OIDCNonce":    {"(*pkg/cookies.csrf).HashOIDCNonce": true, "(*pkg/cookies.csrf).CheckOIDCNonce": true, "(*pkg/cookies.csrf).SetSessionNonce": true},
		"CodeVerifier": {"(*pkg/cookies.csrf).GetCodeVerifier": true},
	}
	for name, fns := range allowed {
		f := c.Field(rule, "pkg/cookies.csrf."+name)
		if f == nil {
			continue
		}
		for _, ref := range c.fieldRefs(f) {
			if ref.Kind == "store" {
				continue
			}
			key := "reader|" + name + "|" + fnKey(ref.Fn)
			if ref.Kind == "load" && fns[fnKey(ref.Fn)] {
				c.ok(rule, key, ref.In, "reviewed reader")
			} else {
				c.bad(rule, key, ref.In, "raw csrf."+name+" is read ("+ref.Kind+") outside its reviewed accessor set: a new way for the secret to leave the cookie", nil, 0)
			}
		}
	}
	// HashOAuthState/HashOIDCNonce return HashNonce(field); HashNonce = base64(sha256(nonce))
	hashNonce := c.Fn(rule, "pkg/encryption.HashNonce")
	for _, pair := range [][2]string{{"HashOAuthState", "OAuthState"}, {"HashOIDCNonce", "OIDCNonce"}} {
		fn := c.Fn(rule, "(*pkg/cookies.csrf)."+pair[0])
		f := c.P.Field("pkg/cookies.csrf." + pair[1])
		if fn == nil || f == nil || hashNonce == nil {
			continue
		}
		c.Walk(rule, fn, func(p *walk.Path) {
			rv, ok := p.ReturnDV(0)
			if !ok {
				return
			}
			key := "returns-hash|" + fnKey(fn)
			cl, ok := extractOfCall(p, rv, 0)
			if ok && cl.C.StaticCallee() == hashNonce && walk.IsFieldLoad(p.Resolve(p.Arg(cl, 0)).V, f) {
				c.ok(rule, key, p.Exit, "encryption.HashNonce(c."+pair[1]+")")
			} else {
				c.bad(rule, key, p.Exit, pair[0]+" does not return the hash of c."+pair[1], p, p.End())
			}
		})
	}
	// the session nonce set by SetSessionNonce is the raw one (needed for CheckNonce); the session's Nonce field readers are closed too
	sessNonceF := c.Field(rule, "pkg/apis/sessions.SessionState.Nonce")
	if sessNonceF != nil {
		for _, ref := range c.fieldRefs(sessNonceF) {
			if ref.Kind == "store" {
				continue
			}
			key := "reader|SessionState.Nonce|" + fnKey(ref.Fn)
			if ref.Kind == "load" && fnKey(ref.Fn) == "(*pkg/apis/sessions.SessionState).CheckNonce" {
				c.ok(rule, key, ref.In, "reviewed reader")
			} else {
				c.bad(rule, key, ref.In, "raw SessionState.Nonce is read outside CheckNonce", nil, 0)
			}
		}
	}
}

// runC05R7: the PKCE method in force is exactly the operator's option.
func runC05R7(c *Ctx) {
	rule := "R7-method-from-config"
	methodF := c.Field(rule, "providers.ProviderData.CodeChallengeMethod")
	optF := c.Field(rule, "pkg/apis/options.Provider.CodeChallengeMethod")
	parse := c.Fn(rule, "providers.parseCodeChallengeMethod")
	if methodF == nil || optF == nil || parse == nil {
		return
	}
	for _, ref := range c.fieldRefs(methodF) {
		if ref.Kind != "store" {
			if ref.Kind == "addr" {
				c.bad(rule, "addr|"+fnKey(ref.Fn), ref.In, "the address of ProviderData.CodeChallengeMethod escapes", nil, 0)
			}
			continue
		}
		key := "store|" + fnKey(ref.Fn)
		okSrc := true
		for _, o := range c.origins(ref.Store.Val, 0) {
			if call, ok := o.(*ssa.Call); ok && call.Call.StaticCallee() == parse {
				continue
			}
			if isFieldLoadOf(o, optF) || isFieldValueOf(o, optF) {
				continue
			}
			okSrc = false
		}
		if okSrc {
			c.ok(rule, key, ref.In, "CodeChallengeMethod = parseCodeChallengeMethod(providerConfig)")
		} else {
			c.bad(rule, key, ref.In, "the PKCE method in force is overwritten by something other than the operator's --code-challenge-method (e.g. cleared from discovery data): authorization requests silently lose their challenge", nil, 0)
		}
	}
	// parseCodeChallengeMethod returns the option or ""
	okParse := returnsOnly(parse, 0, func(v ssa.Value) bool {
		if s, ok := ConstString(v); ok && s == "" {
			return true
		}
		return isFieldLoadOf(v, optF) || isFieldValueOf(v, optF)
	})
	if okParse {
		c.ok(rule, "parse|"+fnKey(parse), parse.Blocks[0].Instrs[0], "returns the configured method or \"\"")
	} else {
		c.bad(rule, "parse|"+fnKey(parse), parse.Blocks[0].Instrs[0], "parseCodeChallengeMethod returns something other than the configured method", nil, 0)
	}
}

// runC05R8: the deprecated force-code-challenge-method option still switches PKCE on. In the legacy
// conversion, on every path where ForceCodeChallengeMethod is non-empty and CodeChallengeMethod is
// empty, the provider's CodeChallengeMethod ends up as ForceCodeChallengeMethod; otherwise it is
// CodeChallengeMethod.
func runC05R8(c *Ctx, rule string) {
	conv := c.Fn(rule, "(*pkg/apis/options.LegacyProvider).convert")
	forceF := c.Field(rule, "pkg/apis/options.LegacyProvider.ForceCodeChallengeMethod")
	ccmF := c.Field(rule, "pkg/apis/options.LegacyProvider.CodeChallengeMethod")
	provF := c.Field(rule, "pkg/apis/options.Provider.CodeChallengeMethod")
	if conv == nil || forceF == nil || ccmF == nil || provF == nil {
		return
	}
	recv := conv.Params[0]
	isLoadOf := func(p *walk.Path, dv walk.DV, f *types.Var) bool {
		base, ok := walk.FieldLoadBase(p.Resolve(dv).V, f)
		return ok && p.Resolve(p.Op(base, p.Resolve(dv))).V == ssa.Value(recv)
	}
	n := 0
	c.WalkShallow(rule, conv, func(p *walk.Path) {
		rv, ok := p.ReturnDV(1)
		if !ok || !DefinitelyNil(p, rv, p.End()) {
			return
		}
		at := p.End()
		// final value stored into provider.CodeChallengeMethod on this path
		var last walk.DV
		found := false
		for _, s := range p.Steps {
			st, ok := s.In.(*ssa.Store)
			if !ok {
				continue
			}
			if fa, ok := st.Addr.(*ssa.FieldAddr); ok && walk.FieldOf(fa.X.Type(), fa.Field) == provF {
				last, found = p.StepOp(st.Val, s), true
			}
		}
		if !found {
			return
		}
		forceSet := eqConstAtom(p, at, false, "", func(x walk.DV) bool { return isLoadOf(p, x, forceF) })
		ccmEmpty := eqConstAtom(p, at, true, "", func(x walk.DV) bool { return isLoadOf(p, x, ccmF) })
		n++
		key := "legacy-force-method|" + fnKey(conv)
		switch {
		case forceSet && ccmEmpty:
			if isLoadOf(p, last, forceF) {
				c.ok(rule, key+"|force-only", p.Exit, "force-code-challenge-method alone selects the method")
			} else {
				c.bad(rule, key, p.Exit, "with only the deprecated force-code-challenge-method option set, the converted provider has no code-challenge method: PKCE is silently off", p, at)
			}
		default:
			if isLoadOf(p, last, ccmF) {
				c.ok(rule, key+"|configured", p.Exit, "code-challenge-method is passed through")
			} else if isLoadOf(p, last, forceF) {
				c.bad(rule, key, p.Exit, "force-code-challenge-method overrides on a path where it is not known to be the only option set", p, at)
			} else {
				c.bad(rule, key, p.Exit, "the converted provider's code-challenge method is neither of the two configured options", p, at)
			}
		}
	})
	if n == 0 {
		c.R.Unknown(rule, "legacy-force-method|none", c.P.Pos(conv.Pos()), "the legacy conversion never sets Provider.CodeChallengeMethod")
	}
}

// runC05R9: the verifier a Redeem implementation receives goes to the token request and nowhere else.
// Uses of the codeVerifier parameter: a comparison, url.Values.Add/Set under the key "code_verifier",
// oauth2.SetAuthURLParam("code_verifier", ·), or a module helper's parameter (followed). The url.Values
// that received it is used only through url.Values methods (Encode for the body); handing it to
// anything else (a formatter, a logger, a describing helper) can surface the verifier in an error
// page or log.
func runC05R9(c *Ctx, rule string) {
	redeemM := c.Method(rule, "providers.Provider.Redeem")
	if redeemM == nil {
		return
	}
	isValuesMethod := func(cc *ssa.CallCommon) bool {
		sc := cc.StaticCallee()
		if sc == nil || sc.Signature.Recv() == nil {
			return false
		}
		return strings.HasSuffix(sc.Signature.Recv().Type().String(), "net/url.Values")
	}
	n := 0
	type sinkSite struct {
		fn *ssa.Function
		pa *ssa.Parameter
	}
	var sinks []sinkSite
	addSink := func(fn *ssa.Function, pa *ssa.Parameter) {
		for _, s := range sinks {
			if s.fn == fn && s.pa == pa {
				return
			}
		}
		sinks = append(sinks, sinkSite{fn, pa})
	}
	var checkParam func(fn *ssa.Function, pa *ssa.Parameter, depth int)
	seen := map[*ssa.Parameter]bool{}
	checkParam = func(fn *ssa.Function, pa *ssa.Parameter, depth int) {
		if seen[pa] || depth > 3 {
			return
		}
		seen[pa] = true
		key := "verifier-use|" + fnKey(fn)
		// the parameter may be spilled to a cell when a closure captures it
		var values []ssa.Value
		values = append(values, pa)
		for _, ref := range *pa.Referrers() {
			if st, ok := ref.(*ssa.Store); ok && st.Val == ssa.Value(pa) {
				if al, ok := st.Addr.(*ssa.Alloc); ok {
					for _, r2 := range *al.Referrers() {
						if ld, ok := r2.(*ssa.UnOp); ok && ld.Op == token.MUL {
							values = append(values, ld)
						}
					}
				}
			}
		}
		for _, v := range values {
			for _, ref := range *v.Referrers() {
				switch x := ref.(type) {
				case *ssa.BinOp, *ssa.DebugRef:
				case *ssa.Store:
					if _, ok := x.Addr.(*ssa.Alloc); ok && x.Val == v {
						continue // the spill itself
					}
					// element of a []string literal handed to url.Values{"code_verifier": {v}} etc.: not used today
					c.R.Bad(rule, key, c.pos(x), "the PKCE verifier is stored somewhere other than the token request parameters", nil, nil)
				case *ssa.MakeClosure:
				case ssa.CallInstruction:
					cc := x.Common()
					n++
					switch {
					case isValuesMethod(cc) && (cc.StaticCallee().Name() == "Add" || cc.StaticCallee().Name() == "Set"):
						if k, ok := ConstString(cc.Args[1]); ok && k == "code_verifier" {
							c.ok(rule, key, x, "params."+cc.StaticCallee().Name()+"(\"code_verifier\", verifier)")
							addSink(fn, pa)
							// the Values object: only url.Values methods may touch it
							vals := cc.Args[0]
							for _, r2 := range *vals.Referrers() {
								ci, ok := r2.(ssa.CallInstruction)
								if !ok {
									continue
								}
								if isValuesMethod(ci.Common()) {
									continue
								}
								c.R.Bad(rule, "params-use|"+fnKey(fn), c.pos(ci), "the token-request parameters, which carry the PKCE verifier, are handed to "+walk.CalleeName(ci.Common())+": the verifier can surface in an error message, page or log", nil, nil)
							}
						} else {
							c.R.Bad(rule, key, c.pos(x), "the PKCE verifier is added to the request under a key other than code_verifier", nil, nil)
						}
					case cc.StaticCallee() != nil && cc.StaticCallee().String() == "golang.org/x/oauth2.SetAuthURLParam":
						if k, ok := ConstString(cc.Args[0]); ok && k == "code_verifier" {
							c.ok(rule, key, x, "oauth2.SetAuthURLParam(\"code_verifier\", verifier)")
							addSink(fn, pa)
						} else {
							c.R.Bad(rule, key, c.pos(x), "the PKCE verifier is sent under a key other than code_verifier", nil, nil)
						}
					case cc.StaticCallee() != nil && c.P.InModule(cc.StaticCallee()) && len(cc.StaticCallee().Blocks) > 0:
						callee := cc.StaticCallee()
						for i, a := range cc.Args {
							if a == v && i < len(callee.Params) {
								c.ok(rule, key+"|to|"+fnKey(callee), x, "passed on to a module helper (followed)")
								checkParam(callee, callee.Params[i], depth+1)
							}
						}
					default:
						c.R.Bad(rule, key, c.pos(x), "the PKCE verifier is handed to "+walk.CalleeName(cc)+", which is not the token request", nil, nil)
					}
				default:
					c.R.Bad(rule, key, c.pos(ref), "the PKCE verifier flows into "+ref.String(), nil, nil)
				}
			}
		}
	}
	for _, impl := range c.P.Implementations(redeemM) {
		if !c.P.InModule(impl) || len(impl.Blocks) == 0 || impl.Synthetic != "" || len(impl.Params) < 5 {
			continue
		}
		checkParam(impl, impl.Params[4], 0)
	}
	if n == 0 {
		c.R.Unknown(rule, "verifier-use|none", "-", "no Redeem implementation uses its verifier")
	}
	// the only reason not to send the verifier is that there is none: in each function that adds it to the token request,
	// every error-free return on which the verifier is not known to be empty has passed the add
	isSinkCall := func(cc *ssa.CallCommon) bool {
		sc := cc.StaticCallee()
		if sc == nil {
			return false
		}
		if isValuesMethod(cc) && (sc.Name() == "Add" || sc.Name() == "Set") {
			k, ok := ConstString(cc.Args[1])
			return ok && k == "code_verifier"
		}
		if sc.String() == "golang.org/x/oauth2.SetAuthURLParam" {
			k, ok := ConstString(cc.Args[0])
			return ok && k == "code_verifier"
		}
		return false
	}
	for _, sk := range sinks {
		sk := sk
		key := "verifier-always-sent|" + fnKey(sk.fn)
		bad, paths := false, 0
		c.WalkShallow(rule, sk.fn, func(p *walk.Path) {
			if _, ok := p.Exit.(*ssa.Return); !ok || bad {
				return
			}
			if ei := errResultIndex(sk.fn.Signature); ei >= 0 {
				if ev, ok := p.ReturnDV(ei); ok && !DefinitelyNil(p, ev, p.End()) {
					return
				}
			}
			// verifier known empty on this path?
			for _, a := range p.Atoms(p.End()) {
				b, ok := a.DV.V.(*ssa.BinOp)
				if !ok || a.IsNil || (b.Op != token.EQL && b.Op != token.NEQ) {
					continue
				}
				x, y := p.Resolve(p.Op(b.X, a.DV)), p.Resolve(p.Op(b.Y, a.DV))
				if s, isC := ConstString(x.V); isC && s == "" {
					x, y = y, x
				} else if s, isC := ConstString(y.V); !isC || s != "" {
					continue
				}
				_ = y
				if x.V == ssa.Value(sk.pa) && a.Val { // equality atoms are kept in == form whatever the operator
					return // no verifier in this login: nothing to send
				}
			}
			paths++
			for _, cl := range p.Calls() {
				if isSinkCall(cl.C) {
					return
				}
			}
			bad = true
			c.bad(rule, key, p.Exit, "the token request is prepared without code_verifier on a path where this login has a verifier (the condition is something other than the verifier being empty): the challenge sent at the start is never answered with its verifier", p, p.End())
		})
		if !bad {
			c.R.OK(rule, key, c.P.Pos(sk.fn.Pos()), sprintf("%d error-free path(s) with a verifier, all add it to the token request", paths))
		}
	}
}

// runC05R10: what the operator wrote in the structured (alpha) configuration reaches the proxy untouched:
// AlphaOptions.MergeInto stores its Providers into Options.Providers as they are. Any re-encoding or
// defaulting pass in between can lose an explicit false — the zero value — such as insecureSkipNonce: false,
// which is how nonce checking gets switched off without the operator asking for it.
func runC05R10(c *Ctx, rule string) {
	runAlphaMergeVerbatim(c, rule, "Providers", "Providers", "providers-verbatim", "the providers of the structured configuration are rebuilt on their way into the options instead of being taken as written: a pass that re-encodes or defaults them can drop explicit zero values (insecureSkipNonce: false, a disabled code-challenge method)")
}

// runAlphaMergeVerbatim: MergeInto assigns the structured configuration's field `from` to Options.`to` as a whole
// (one store of the loaded value), so no member of it is dropped or defaulted on the way.
func runAlphaMergeVerbatim(c *Ctx, rule, to, from, keyName, badMsg string) {
	merge := c.Fn(rule, "(*pkg/apis/options.AlphaOptions).MergeInto")
	toF := c.Field(rule, "pkg/apis/options.Options."+to)
	fromF := c.Field(rule, "pkg/apis/options.AlphaOptions."+from)
	if merge == nil || toF == nil || fromF == nil {
		return
	}
	n := 0
	key := keyName + "|" + fnKey(merge)
	for _, ref := range c.fieldRefs(toF) {
		if ref.Store == nil || ref.Fn != merge {
			continue
		}
		n++
		if base, ok := walk.FieldLoadBase(unwrap0(ref.Store.Val), fromF); ok && base == ssa.Value(merge.Params[0]) {
			c.ok(rule, key, ref.In, "opts."+to+" = a."+from)
		} else {
			c.R.Bad(rule, key, c.pos(ref.In), badMsg, nil, nil)
		}
	}
	if n == 0 {
		c.R.Bad(rule, key, c.P.Pos(merge.Pos()), "MergeInto does not assign Options."+to+" as a whole: "+badMsg, nil, nil)
	}
}
