package rules

import (
	"go/token"
	"go/types"
	"strings"

	"golang.org/x/tools/go/ssa"

	"oapsa/internal/prog"
	"oapsa/internal/walk"
)

func init() {
	register(&Prop{
		ID:          "C02",
		Explanation: "Decides the wiring of tamper-evidence and opacity: the signer feeds the MAC (seed as key; cookie name, base64 value, decimal timestamp in that order) and emits value|timestamp|signature built from those same three strings, while the verifier checks part 2 as the signature over (seed, cookie.Name, part 0, part 1) — same roles, same order, all of name, value and timestamp covered on both sides; cookieSignature keys hmac.New with its first argument, writes every further argument and returns the base64 of Sum; checkHmac compares with hmac.Equal the complete base64-decoded presented and expected signatures (no slicing, trimming or prefix compare) after both decode without error; every non-empty value given to MakeCookieFromOptions derives from SignedValue; session, ticket and CSRF payloads are decoded only from the value Validate returned for that cookie (C01.R7, C03.R2); the split-cookie loader hands the joined cookie itself to Validate; msgpack output of a session or CSRF flows only into Cipher.Encrypt (optionally through lz4Compress) and EncodeSessionState returns only Encrypt's result; what is stored server-side and what is signed into cookies derives from those ciphertexts or from the encoded ticket; every Cipher implementation in use wraps AES (cipher constructors enumerated); decodeTicket, DecodeSessionState and the CSRF decrypt are called only from their reviewed, validate-first callers and tickets are constructed only by newTicket/decodeTicket; a new ticket's id and per-ticket AES key are buffers filled by error-free crypto/rand reads. Added during the build: the payload decoders and ticket literals have closed, reviewed caller sets (R7); a new ticket's id and AES key come from successful crypto/rand reads (R8); every encrypting Cipher uses as nonce/IV the very slice an error-free crypto/rand read filled (R9). Round 7: request handling keeps no state of its own between requests — no store, map update, in-place builtin, atomic/sync.Map write or pointer-receiver library call (singleflight, caches) reached from ServeHTTP targets a package-level variable, an object built at start-up, or a constructor variable captured by the handler it returned, declared in the packages implementing this property (RS; a class-wide who-may-write rule with zero instances today: a correct memoisation would be reported until reviewed). Round 8 (class-wide, P12): in the packages implementing this property every named error result that is used at all is examined — compared with nil, returned, stored or handed to a non-formatting function — unless the code validates the value result instead (RE; zero instances today).",
		NotDecided:  "the cryptography itself; that unkeyed concatenation of name, value and timestamp is unambiguous; base64 laxness; 'decodes to exactly the session' (value semantics over all edits).",
		Run:         runC02,
	})
}

func runC02(c *Ctx) {
	c.R.Rule("RE-errors-examined", "in the packages implementing this property every named error result that is used at all is examined, or the value is validated instead (P12, class-wide, round 8)", 1)
	runErrorsExamined(c, "RE-errors-examined", "pkg/encryption", "pkg/sessions/persistence", "pkg/sessions/cookie")
	c.R.Rule("RS-no-request-time-state", "request handling writes no state that outlives the request (package-level variables, objects built at start-up, constructor variables captured by handlers) declared in the packages implementing this property", 1)
	runStateless(c, "RS-no-request-time-state", "pkg/encryption", "pkg/cookies", "pkg/sessions")
	r := c.R
	r.Rule("R1-mac-coverage", "signer and verifier agree on (seed; name, value, timestamp) and their order; cookieSignature/hmac structure", 7)
	r.Rule("R2-emitted-signed", "every non-empty cookie value derives from SignedValue", 7)
	r.Rule("R3-validate-before-decode", "payloads are decoded only from Validate's value for that cookie", 7)
	r.Rule("R4-encrypt-before-emit", "msgpack output flows only into Encrypt; stored/signed bytes derive from ciphertext", 9)
	r.Rule("R5-constant-time-full-compare", "checkSignature: hmac.Equal on the complete, error-free decodings of the presented and the expected signature", 1)
	r.Rule("R7-decoder-callers", "payload decoders and ticket literals have closed, reviewed caller sets", 6)
	r.Rule("R9-fresh-nonce", "every encrypting Cipher hands its AEAD/stream the very slice an error-free crypto/rand read filled as nonce/IV", 2)
	r.Rule("R8-fresh-ticket", "a new ticket's id and AES key come from successful crypto/rand reads", 1)
	r.Rule("R6-joined-cookie-validated", "the re-assembled split cookie is the one validated", 3)

	signed := c.Fn("R1-mac-coverage", "pkg/encryption.SignedValue")
	validate := c.Fn("R1-mac-coverage", "pkg/encryption.Validate")
	cookieSig := c.Fn("R1-mac-coverage", "pkg/encryption.cookieSignature")
	checkSig := c.Fn("R1-mac-coverage", "pkg/encryption.checkSignature")
	if signed == nil || validate == nil || cookieSig == nil || checkSig == nil {
		return
	}

	// ---- R1 ---------------------------------------------------------------------------------
	rule := "R1-mac-coverage"
	{
		// signer
		var sigCall, out *ssa.Call
		for _, b := range signed.Blocks {
			for _, in := range b.Instrs {
				if call, ok := in.(*ssa.Call); ok {
					if call.Call.StaticCallee() == cookieSig {
						sigCall = call
					}
					if isStd(&call.Call, "fmt", "Sprintf") {
						if f, _ := ConstString(call.Call.Args[0]); strings.Count(f, "|") == 2 {
							out = call
						}
					}
				}
			}
		}
		key := "signer|" + fnKey(signed)
		var joined []ssa.Value
		if out == nil {
			for _, b := range signed.Blocks {
				if ret, ok := b.Instrs[len(b.Instrs)-1].(*ssa.Return); ok && len(ret.Results) > 0 {
					if ops, ok := barJoin(ret.Results[0]); ok {
						joined = ops
					}
				}
			}
		}
		if sigCall == nil || (out == nil && joined == nil) {
			c.bad(rule, key, signed.Blocks[0].Instrs[0], "SignedValue no longer signs with cookieSignature or no longer emits value|timestamp|signature", nil, 0)
		} else {
			a := func(i int64) ssa.Value { return unwrap(varargElem(sigCall.Call.Args[1], i)) }
			o := func(i int64) ssa.Value {
				if joined != nil {
					return joined[i]
				}
				return unwrap(varargElem(out.Call.Args[1], i))
			}
			isEnc := func(v ssa.Value) bool {
				call, ok := v.(*ssa.Call)
				return ok && call.Call.StaticCallee() != nil && call.Call.StaticCallee().Name() == "EncodeToString" && call.Call.Args[1] == signed.Params[2]
			}
			isTime := func(v ssa.Value) bool {
				call, ok := v.(*ssa.Call)
				if !ok || !isStd(&call.Call, "fmt", "Sprintf") {
					if ok && (isStd(&call.Call, "strconv", "FormatInt") || isStd(&call.Call, "strconv", "Itoa")) {
						// strconv.FormatInt(now.Unix(), 10) / Itoa(int(now.Unix())): the decimal Unix time of the `now` parameter
						x := unwrap0(call.Call.Args[0])
						if cv, isCv := x.(*ssa.Convert); isCv {
							x = unwrap0(cv.X)
						}
						u, isCall := x.(*ssa.Call)
						if !isCall || !isTimeMethod(&u.Call, "Unix") || u.Call.Args[0] != signed.Params[3] {
							return false
						}
						if isStd(&call.Call, "strconv", "FormatInt") {
							base, _ := ConstInt(call.Call.Args[1])
							return base == 10
						}
						return true
					}
					return false
				}
				el := unwrap(varargElem(call.Call.Args[1], 0))
				u, ok := el.(*ssa.Call)
				return ok && isTimeMethod(&u.Call, "Unix") && u.Call.Args[0] == signed.Params[3]
			}
			f := "%s|%s|%s"
			if joined == nil {
				f, _ = ConstString(out.Call.Args[0])
			}
			okSigner := a(0) == signed.Params[0] && a(1) == signed.Params[1] && isEnc(a(2)) && isTime(a(3)) && varargElem(sigCall.Call.Args[1], 4) == nil &&
				o(0) == a(2) && o(1) == a(3) && f == "%s|%s|%s"
			sigOut := false
			if ex, ok := o(2).(*ssa.Extract); ok && ex.Index == 0 && ex.Tuple == sigCall {
				sigOut = true
			}
			if okSigner && sigOut {
				c.ok(rule, key, sigCall, "MAC(seed; name, base64(value), unix(now)) and emits base64(value)|unix(now)|MAC — the same strings")
			} else {
				c.bad(rule, key, sigCall, "the signer's MAC input or emitted format no longer covers exactly (name, value, timestamp) in that order with the seed as key", nil, 0)
			}
		}
		// verifier
		for _, cs := range c.callersOf(checkSig) {
			if cs.Parent() != validate {
				c.bad(rule, "verifier-site|"+fnKey(cs.Parent()), cs, "checkSignature is called outside Validate", nil, 0)
				continue
			}
			key := "verifier|" + fnKey(validate)
			args := cs.Common().Args
			part := func(v ssa.Value) int64 {
				n, ok := barPart(v)
				if !ok {
					return -1
				}
				return n
			}
			e := func(i int64) ssa.Value { return varargElem(args[1], i) }
			nameOK := false
			if ld, ok := unwrap(e(1)).(*ssa.UnOp); ok {
				if fa, ok := ld.X.(*ssa.FieldAddr); ok && fa.X == validate.Params[0] && walk.FieldOf(fa.X.Type(), fa.Field).Name() == "Name" {
					nameOK = true
				}
			}
			if part(args[0]) == 2 && unwrap(e(0)) == validate.Params[1] && nameOK && part(e(2)) == 0 && part(e(3)) == 1 && e(4) == nil {
				c.ok(rule, key, cs, "checkSignature(parts[2]; seed, cookie.Name, parts[0], parts[1])")
			} else {
				c.bad(rule, key, cs, "the verifier does not check part 2 as the MAC over (seed; cookie.Name, part 0, part 1): a value, timestamp or name edit is no longer detected", nil, 0)
			}
			// exactly three parts required
			three := false
			for _, b := range validate.Blocks {
				for _, in := range b.Instrs {
					if bo, ok := in.(*ssa.BinOp); ok && (bo.Op == token.NEQ || bo.Op == token.EQL) {
						if n, ok := ConstInt(bo.Y); ok && n == 3 {
							three = true
						}
						// strings.Count(value, "|") != 2: exactly two separators = exactly three parts
						if n, ok := ConstInt(bo.Y); ok && n == 2 {
							if call, ok := unwrap0(bo.X).(*ssa.Call); ok && isStd(&call.Call, "strings", "Count") {
								if s, _ := ConstString(call.Call.Args[1]); s == "|" {
									three = true
								}
							}
						}
					}
				}
			}
			if three {
				c.ok(rule, "three-parts|"+fnKey(validate), cs, "len(parts) must be 3")
			} else {
				c.bad(rule, "three-parts|"+fnKey(validate), cs, "Validate no longer requires exactly three parts", nil, 0)
			}
		}
		// the decoded value is base64 of part 0
		c.Walk(rule, validate, func(p *walk.Path) {
			ok2, _ := p.ReturnDV(2)
			if b, k := p.Truth(ok2, p.End()); !(k && b) {
				return
			}
			v0, _ := p.ReturnDV(0)
			key := "value-is-part0|" + fnKey(validate)
			dc, ok := extractOfCall(p, v0, 0)
			okDec := ok && dc.C.StaticCallee() != nil && dc.C.StaticCallee().Name() == "DecodeString"
			if okDec {
				n, ok := barPart(p.Resolve(p.Arg(dc, 1)).V)
				okDec = ok && n == 0
				if nn, k := p.ResultNil(dc.DV(), 1, p.End()); !(k && nn) {
					okDec = false
				}
			}
			if okDec {
				c.ok(rule, key, p.Exit, "returned value = base64-decoding of the MAC-covered part 0")
			} else {
				c.bad(rule, key, p.Exit, "Validate returns bytes that are not the decoding of the MAC-covered value part", p, p.End())
			}
		})
		// cookieSignature structure
		hmacNew := c.StdFunc(rule, "crypto/hmac.New")
		if hmacNew != nil {
			c.Walk(rule, cookieSig, func(p *walk.Path) {
				ev, _ := p.ReturnDV(1)
				if !DefinitelyNil(p, ev, p.End()) {
					return
				}
				key := "hmac-structure|" + fnKey(cookieSig)
				rv, _ := p.ReturnDV(0)
				enc, ok := extractOfCall(p, rv, 0)
				okS := ok && enc.C.StaticCallee() != nil && enc.C.StaticCallee().Name() == "EncodeToString"
				var sum, nw walk.Call
				if okS {
					sum, okS = extractOfCall(p, p.Arg(enc, 1), 0)
					okS = okS && sum.C.IsInvoke() && sum.C.Method.Name() == "Sum"
				}
				if okS {
					nw, okS = extractOfCall(p, p.Recv(sum), 0)
					okS = okS && nw.C.StaticCallee() == hmacNew
				}
				if okS {
					// key = []byte(args[0]); the loop ranges over args[1:]
					cv, ok := p.Resolve(p.Arg(nw, 1)).V.(*ssa.Convert)
					if ok {
						n, ok2 := indexLoad(cv.X)
						okS = ok2 && n == 0
					} else {
						okS = false
					}
				}
				rest := false
				for _, b := range cookieSig.Blocks {
					for _, in := range b.Instrs {
						if sl, ok := in.(*ssa.Slice); ok && sl.X == cookieSig.Params[1] && sl.High == nil {
							if n, ok := ConstInt(sl.Low); ok && n == 1 {
								rest = true
							}
						}
					}
				}
				if okS && rest {
					c.ok(rule, key, p.Exit, "hmac.New(signer, args[0]); Write(each of args[1:]); base64(Sum)")
				} else {
					c.bad(rule, key, p.Exit, "cookieSignature is not HMAC keyed by its first argument over all remaining arguments", p, p.End())
				}
			})
			// the writes: every element of args[1:] unconditionally (loop body has a Write on the element)
			wrote := false
			for _, b := range cookieSig.Blocks {
				for _, in := range b.Instrs {
					if ci, ok := in.(ssa.CallInstruction); ok && ci.Common().IsInvoke() && ci.Common().Method.Name() == "Write" {
						if cv, ok := ci.Common().Args[0].(*ssa.Convert); ok {
							if ld, ok := cv.X.(*ssa.UnOp); ok {
								if _, ok := ld.X.(*ssa.IndexAddr); ok {
									wrote = true
								}
							}
						}
					}
				}
			}
			if !wrote {
				c.bad(rule, "hmac-writes|"+fnKey(cookieSig), cookieSig.Blocks[0].Instrs[0], "cookieSignature does not write each argument into the MAC", nil, 0)
			}
		}
		// SHA-256 on both sides
		for _, cs := range c.callersOf(cookieSig) {
			fn, ok := cs.Common().Args[0].(*ssa.Function)
			key := "hash|" + fnKey(cs.Parent())
			if ok && fn.String() == "crypto/sha256.New" {
				c.ok(rule, key, cs, "HMAC-SHA256")
			} else {
				c.bad(rule, key, cs, "the cookie MAC is not HMAC-SHA256 on this side", nil, 0)
			}
		}
	}

	// ---- R5 ---------------------------------------------------------------------------------
	rule = "R5-constant-time-full-compare"
	checkSigCompare(c, rule)

	// ---- R2 ---------------------------------------------------------------------------------
	rule = "R2-emitted-signed"
	mk := c.Fn(rule, "pkg/cookies.MakeCookieFromOptions")
	if mk != nil {
		var visit func(fn *ssa.Function, valIdx int, depth int)
		seen := map[*ssa.Function]bool{}
		visit = func(fn *ssa.Function, valIdx int, depth int) {
			if seen[fn] || depth > 3 {
				return
			}
			seen[fn] = true
			for _, cs := range c.callersOf(fn) {
				caller := cs.Parent()
				arg := cs.Common().Args[valIdx]
				key := "cookie-value|" + fnKey(caller)
				if s, ok := ConstString(arg); ok && s == "" {
					c.ok(rule, key+"|clearing", cs, "deletion cookie: empty value")
					continue
				}
				if pa, ok := arg.(*ssa.Parameter); ok {
					pi := -1
					for i, q := range caller.Params {
						if q == pa {
							pi = i
						}
					}
					if pi >= 0 {
						c.ok(rule, key+"|wrapper", cs, "wrapper passes its value parameter through")
						visit(caller, pi, depth+1)
						continue
					}
				}
				// On every path the value is SignedValue's result (directly or through a helper that returns only that),
				// the constant "", or a value the path has found equal to "" (the `if value != ""` idiom of the
				// setters, wherever the unsigned value comes from: a parameter, an encoder call, a local).
				isSignedResult := func(v ssa.Value) bool {
					ex, ok := v.(*ssa.Extract)
					if !ok || ex.Index != 0 {
						return false
					}
					call, ok := ex.Tuple.(*ssa.Call)
					if !ok {
						return false
					}
					sc := call.Call.StaticCallee()
					if sc == signed {
						return true
					}
					return sc != nil && c.P.InModule(sc) && returnsOnly(sc, 0, func(v ssa.Value) bool {
						ex, ok := v.(*ssa.Extract)
						if !ok {
							k, isK := v.(*ssa.Const)
							return isK && k.Value != nil && k.Value.ExactString() == `""`
						}
						c2, ok := ex.Tuple.(*ssa.Call)
						return ok && c2.Call.StaticCallee() == signed
					})
				}
				okAll := true
				reached := false
				{
					cs := cs
					c.Walk(rule, caller, func(p *walk.Path) {
						for i, s := range p.Steps {
							if s.In != cs.(ssa.Instruction) || s.F != 0 {
								continue
							}
							reached = true
							v := p.Resolve(p.StepOp(arg, s))
							if isSignedResult(v.V) {
								continue
							}
							if k, ok := ConstString(v.V); ok && k == "" {
								continue
							}
							if !eqConstAtom(p, i, true, "", func(x walk.DV) bool { return p.Same(x, v) }) {
								if okAll {
									c.bad(rule, key, s.In, "an unsigned value can reach the cookie on a path where it is not known to be empty", p, i)
								}
								okAll = false
							}
						}
					})
				}
				if !reached {
					okAll = false
				}
				if okAll {
					c.ok(rule, key, cs, "value is SignedValue's result (or empty for deletion)")
				} else {
					c.bad(rule, key, cs, "a cookie value is emitted that does not derive from SignedValue: it is neither tamper-evident nor opaque", nil, 0)
				}
			}
		}
		visit(mk, 2, 0)
	}

	// ---- R3 ---------------------------------------------------------------------------------
	// shared rules, reported under this property's rule name
	runC01R7Rule(c, "R3-validate-before-decode")
	runC03R2Rule(c, "R3-validate-before-decode")

	// ---- R6 ---------------------------------------------------------------------------------
	rule = "R6-joined-cookie-validated"
	load := c.Fn(rule, "(*pkg/sessions/cookie.SessionStore).Load")
	loadCookie := c.Fn(rule, "pkg/sessions/cookie.loadCookie")
	joinCookies := c.Fn(rule, "pkg/sessions/cookie.joinCookies")
	if load != nil && loadCookie != nil && joinCookies != nil {
		for _, cs := range c.callersOf(validate) {
			if cs.Parent() != load {
				continue
			}
			key := "validated-cookie|" + fnKey(load)
			ex, ok := cs.Common().Args[0].(*ssa.Extract)
			okL := false
			if ok && ex.Index == 0 {
				if call, ok := ex.Tuple.(*ssa.Call); ok && call.Call.StaticCallee() == loadCookie {
					okL = true
				}
			}
			if okL {
				c.ok(rule, key, cs, "Validate(loadCookie(req, name)#0, ...)")
			} else {
				c.bad(rule, key, cs, "the cookie validated is not the one loadCookie re-assembled", nil, 0)
			}
		}
		// loadCookie returns the request's own cookie or joinCookies' result; joinCookies renames the joined cookie to the base name
		c.Walk(rule, loadCookie, func(p *walk.Path) {
			rv, ok := p.ReturnDV(0)
			if !ok || DefinitelyNil(p, rv, p.End()) {
				return
			}
			key := "source|" + fnKey(loadCookie)
			cl, ok := extractOfCall(p, rv, 0)
			switch {
			case ok && cl.C.StaticCallee() == joinCookies:
				c.ok(rule, key+"|joined", p.Exit, "joinCookies(parts, cookieName)")
			case ok && cl.C.StaticCallee() != nil && cl.C.StaticCallee().Name() == "Cookie":
				c.ok(rule, key+"|single", p.Exit, "the request's unsplit cookie")
			default:
				c.bad(rule, key, p.Exit, "loadCookie returns a cookie from an unexpected source", p, p.End())
			}
		})
	}

	runC02R4(c)
	runC02R7R8(c)
	runC02R9(c, "R9-fresh-nonce")
}

// returnsOnly: every return of fn has result idx satisfying pred.
func returnsOnly(fn *ssa.Function, idx int, pred func(ssa.Value) bool) bool {
	for _, b := range fn.Blocks {
		if ret, ok := b.Instrs[len(b.Instrs)-1].(*ssa.Return); ok {
			if idx >= len(ret.Results) || !pred(unwrap0(ret.Results[idx])) {
				return false
			}
		}
	}
	return true
}

func runC01R7Rule(c *Ctx, rule string) { runC01R7Named(c, rule) }

func runC02R4(c *Ctx) {
	rule := "R4-encrypt-before-emit"
	marshal := c.StdFunc(rule, "github.com/vmihailenco/msgpack/v5.Marshal")
	encryptM := c.Method(rule, "pkg/encryption.Cipher.Encrypt")
	lz4 := c.Fn(rule, "pkg/apis/sessions.lz4Compress")
	ess := c.Fn(rule, "(*pkg/apis/sessions.SessionState).EncodeSessionState")
	if marshal == nil || encryptM == nil || lz4 == nil || ess == nil {
		return
	}
	// module helpers the serialised bytes are handed to (today: pkg/cookies.encrypt): their parameter is followed too
	wrappers := map[*ssa.Function]int{}
	// every msgpack.Marshal call: the bytes flow only into Encrypt / lz4Compress / csrf encrypt
	for _, cs := range c.callersOf(marshal) {
		fn := cs.Parent()
		key := "marshal-flows|" + fnKey(fn)
		call, ok := cs.(*ssa.Call)
		if !ok {
			continue
		}
		bad := ""
		var follow func(v ssa.Value, depth int)
		follow = func(v ssa.Value, depth int) {
			if depth > 5 {
				return
			}
			for _, ref := range *v.Referrers() {
				switch x := ref.(type) {
				case *ssa.Extract:
					if x.Index == 0 {
						follow(x, depth+1)
					}
				case *ssa.Phi:
					follow(x, depth+1)
				case *ssa.DebugRef:
				case ssa.CallInstruction:
					cc := x.Common()
					sc := cc.StaticCallee()
					switch {
					case cc.IsInvoke() && walk.SameMethod(cc.Method, encryptM):
					case sc == lz4:
						follow(x.(ssa.Value), depth+1)
					case sc != nil && c.P.InModule(sc) && len(sc.Blocks) > 0 && argIndex(cc, v) >= 0 && argIndex(cc, v) < len(sc.Params):
						i := argIndex(cc, v)
						wrappers[sc] = i
						follow(sc.Params[i], depth+1)
					default:
						bad = "passed to " + walk.CalleeName(cc)
					}
				case *ssa.Return:
					bad = "returned unencrypted"
				case *ssa.BinOp, *ssa.If:
				default:
					if _, isTuple := v.(*ssa.Call); isTuple {
						continue
					}
					bad = "used by " + ref.String()
				}
			}
		}
		follow(call, 0)
		if bad == "" {
			c.ok(rule, key, cs, "serialised bytes flow only into Cipher.Encrypt (optionally through lz4Compress)")
		} else {
			c.bad(rule, key, cs, "serialised session/CSRF bytes leave without encryption: "+bad, nil, 0)
		}
	}
	// EncodeSessionState: success returns are Encrypt's result tuple
	c.Walk(rule, ess, func(p *walk.Path) {
		rv, ok := p.ReturnDV(0)
		if !ok || DefinitelyNil(p, rv, p.End()) {
			return
		}
		key := "returns-ciphertext|" + fnKey(ess)
		cl, ok := extractOfCall(p, rv, 0)
		if ok && cl.C.IsInvoke() && walk.SameMethod(cl.C.Method, encryptM) && p.Resolve(p.Recv(cl)).V == ess.Params[1] {
			c.ok(rule, key, p.Exit, "returns c.Encrypt(...)")
		} else {
			c.bad(rule, key, p.Exit, "EncodeSessionState can return bytes that are not the cipher's output", p, p.End())
		}
	})
	// encrypting helpers: return cipher.Encrypt(their data parameter)
	for w, i := range wrappers {
		w, i := w, i
		c.Walk(rule, w, func(p *walk.Path) {
			rv, ok := p.ReturnDV(0)
			if !ok || DefinitelyNil(p, rv, p.End()) {
				return
			}
			key := "returns-ciphertext|" + fnKey(w)
			cl, ok := extractOfCall(p, rv, 0)
			if ok && cl.C.IsInvoke() && walk.SameMethod(cl.C.Method, encryptM) && p.Resolve(p.Arg(cl, 0)).V == w.Params[i] {
				c.ok(rule, key, p.Exit, "returns cipher.Encrypt(data)")
			} else {
				c.bad(rule, key, p.Exit, "the serialised payload is not returned encrypted", p, p.End())
			}
		})
	}
	// what is saved server-side: saver(t.id, ciphertext, ...) with ciphertext = EncodeSessionState#0
	saveSession := c.Fn(rule, "(*pkg/sessions/persistence.ticket).saveSession")
	if saveSession != nil {
		c.Walk(rule, saveSession, func(p *walk.Path) {
			for _, cl := range p.Calls() {
				if cl.C.IsInvoke() || cl.C.StaticCallee() != nil {
					continue
				}
				if pa, ok := cl.C.Value.(*ssa.Parameter); !ok || pa != saveSession.Params[2] {
					continue
				}
				key := "stored-is-ciphertext|" + fnKey(saveSession)
				ec, ok := extractOfCall(p, p.Arg(cl, 1), 0)
				if ok && ec.C.StaticCallee() == ess {
					if n, k := p.ResultNil(ec.DV(), 1, cl.Idx); k && n {
						c.ok(rule, key, cl.In, "store value = EncodeSessionState(cipher, false)#0")
						continue
					}
				}
				c.bad(rule, key, cl.In, "what is written to the session store is not EncodeSessionState's ciphertext", p, cl.Idx)
			}
		})
	}
	// what the cookie store signs: SignedValue(secret, name, value, ...) with value = cookieForSession = EncodeSessionState
	cfs := c.Fn(rule, "(*pkg/sessions/cookie.SessionStore).cookieForSession")
	if cfs != nil {
		okAll := returnsOnly(cfs, 0, func(v ssa.Value) bool {
			ex, ok := v.(*ssa.Extract)
			if !ok {
				return false
			}
			call, ok := ex.Tuple.(*ssa.Call)
			return ok && call.Call.StaticCallee() == ess
		})
		if okAll {
			c.ok(rule, "cookie-payload|"+fnKey(cfs), cfs.Blocks[0].Instrs[0], "cookie payload = EncodeSessionState(cipher, true)")
		} else {
			c.bad(rule, "cookie-payload|"+fnKey(cfs), cfs.Blocks[0].Instrs[0], "the cookie store's payload is not EncodeSessionState's ciphertext on every path", nil, 0)
		}
	}
	// cipher constructors: every Cipher implementation wraps an AES block (or another Cipher)
	decryptM := c.P.Method("pkg/encryption.Cipher.Decrypt")
	if decryptM != nil {
		for _, impl := range c.P.Implementations(encryptM) {
			if !c.P.InModule(impl) {
				continue
			}
			key := "cipher-impl|" + fnKey(impl)
			uses := ""
			for _, b := range impl.Blocks {
				for _, in := range b.Instrs {
					if call, ok := in.(*ssa.Call); ok && call.Call.StaticCallee() != nil && call.Call.StaticCallee().Pkg != nil {
						pth := call.Call.StaticCallee().Pkg.Pkg.Path()
						if pth == "crypto/cipher" {
							uses = call.Call.StaticCallee().Name()
						}
					}
					if ci, ok := in.(ssa.CallInstruction); ok && ci.Common().IsInvoke() && walk.SameMethod(ci.Common().Method, encryptM) && uses == "" {
						uses = "wrapped Cipher.Encrypt"
					}
				}
			}
			if uses != "" {
				c.ok(rule, key, impl.Blocks[0].Instrs[0], "encrypts through "+uses)
			} else {
				c.bad(rule, key, impl.Blocks[0].Instrs[0], prog.Name(impl)+" is a Cipher that does not encrypt through crypto/cipher or a wrapped Cipher", nil, 0)
			}
		}
	}
}

// runC02R7R8: closed caller sets of the payload decoders; fresh per-ticket secrets.
func runC02R7R8(c *Ctx) {
	rule := "R7-decoder-callers"
	allowed := map[string]map[string]string{
		"pkg/sessions/persistence.decodeTicket": {
			"pkg/sessions/persistence.decodeTicketFromRequest": "after encryption.Validate ok (R3)",
		},
		"pkg/apis/sessions.DecodeSessionState": {
			"(*pkg/sessions/cookie.SessionStore).Load":       "after encryption.Validate ok (R3)",
			"(*pkg/sessions/persistence.ticket).loadSession": "store value authenticated by the ticket's AES-GCM key",
		},
		"pkg/cookies.decrypt": {
			"pkg/cookies.decodeCSRFCookie": "after encryption.Validate ok (R3)",
		},
	}
	for name, callers := range allowed {
		fn := c.P.Func(name)
		if fn == nil {
			if name != "pkg/cookies.decrypt" { // the CSRF helper is optional: inlined, its Decrypt call is judged by R3
				c.Fn(rule, name)
			}
			continue
		}
		for _, cs := range c.callersOf(fn) {
			key := "caller|" + name + "|" + fnKey(cs.Parent())
			if why, ok := callers[fnKey(cs.Parent())]; ok {
				c.ok(rule, key, cs, why)
			} else {
				c.bad(rule, key, cs, name+" is called from "+fnKey(cs.Parent())+", outside the reviewed callers that validate the cookie first: client-supplied bytes are decoded as a credential without the signature check", nil, 0)
			}
		}
		for _, u := range c.funcValueUses(fn) {
			c.bad(rule, "value-use|"+name+"|"+fnKey(u.Parent()), u, name+" escapes as a function value", nil, 0)
		}
	}
	// ticket literals
	ticketT := c.P.Named("pkg/sessions/persistence.ticket")
	if ticketT != nil {
		okAlloc := map[string]bool{"pkg/sessions/persistence.newTicket": true, "pkg/sessions/persistence.decodeTicket": true, "(*pkg/sessions/persistence.Manager).Clear": true}
		for _, fn := range c.P.ModFns {
			for _, b := range fn.Blocks {
				for _, in := range b.Instrs {
					al, ok := in.(*ssa.Alloc)
					if !ok {
						continue
					}
					if pt, ok := al.Type().Underlying().(*types.Pointer); !ok || !types.Identical(pt.Elem(), ticketT) {
						continue
					}
					key := "ticket-literal|" + fnKey(fn)
					if okAlloc[fnKey(fn)] {
						c.ok(rule, key, in, "reviewed ticket constructor")
					} else {
						c.bad(rule, key, in, "a ticket is constructed outside newTicket/decodeTicket: its id/secret do not come from fresh entropy or a validated cookie", nil, 0)
					}
				}
			}
		}
	}

	rule = "R8-fresh-ticket"
	newTicket := c.Fn(rule, "pkg/sessions/persistence.newTicket")
	secretF := c.Field(rule, "pkg/sessions/persistence.ticket.secret")
	readFull := c.StdFunc(rule, "io.ReadFull")
	if newTicket == nil || secretF == nil || readFull == nil {
		return
	}
	c.Walk(rule, newTicket, func(p *walk.Path) {
		rv, ok := p.ReturnDV(0)
		if !ok || DefinitelyNil(p, rv, p.End()) {
			return
		}
		at := p.End()
		key := "entropy|" + fnKey(newTicket)
		reads := p.Find(walk.Static(readFull), at)
		okAll := len(reads) >= 2
		var bufs []walk.DV
		for _, rc := range reads {
			if globalLoad(unwrap(rc.C.Args[0])) != "crypto/rand.Reader" {
				okAll = false
			}
			if n, k := p.ResultNil(rc.DV(), 1, at); !(k && n) {
				okAll = false
			}
			bufs = append(bufs, p.Arg(rc, 1))
		}
		// the secret stored in the ticket is one of the filled buffers; the id encodes another
		secretOK, idOK := false, false
		for _, s := range p.Steps {
			switch x := s.In.(type) {
			case *ssa.Store:
				if fa, ok := x.Addr.(*ssa.FieldAddr); ok && walk.FieldOf(fa.X.Type(), fa.Field) == secretF {
					for _, b := range bufs {
						if p.Same(p.StepOp(x.Val, s), b) {
							secretOK = true
						}
					}
				}
			case *ssa.Call:
				if sc := x.Call.StaticCallee(); sc != nil && sc.Name() == "EncodeToString" && sc.Pkg != nil && sc.Pkg.Pkg.Path() == "encoding/hex" {
					for _, b := range bufs {
						if p.Same(p.StepOp(x.Call.Args[0], s), b) {
							idOK = true
						}
					}
				}
			}
		}
		if okAll && secretOK && idOK {
			c.ok(rule, key, p.Exit, "ticket id and AES key are buffers filled by successful io.ReadFull(crypto/rand.Reader, ·) calls")
		} else {
			c.bad(rule, key, p.Exit, sprintf("a ticket is minted on a path where its id/secret are not known to be filled from crypto/rand without error (reads ok:%v secret:%v id:%v): an all-zero key makes the store entry readable and shared", okAll, secretOK, idOK), p, at)
		}
	})
}

func argIndex(cc *ssa.CallCommon, v ssa.Value) int {
	for i, a := range cc.Args {
		if a == v {
			return i
		}
	}
	return -1
}

// runC02R9: every encrypting Cipher draws a fresh nonce/IV: the slice handed to the AEAD's Seal or to
// the stream constructor as nonce/IV is the very slice an error-free io.ReadFull(crypto/rand.Reader, ·)
// filled on that path (a zero or repeated nonce under one key makes ciphertexts of successive saves
// XOR to the XOR of their plaintexts).
func runC02R9(c *Ctx, rule string) {
	encM := c.Method(rule, "pkg/encryption.Cipher.Encrypt")
	readFull := c.StdFunc(rule, "io.ReadFull")
	if encM == nil || readFull == nil {
		return
	}
	n := 0
	for _, impl := range c.P.Implementations(encM) {
		if !c.P.InModule(impl) || len(impl.Blocks) == 0 {
			continue
		}
		impl := impl
		c.Walk(rule, impl, func(p *walk.Path) {
			for _, cl := range p.Calls() {
				var nonce walk.DV
				what := ""
				switch {
				case cl.C.IsInvoke() && cl.C.Method.Name() == "Seal" && len(cl.C.Args) == 4:
					nonce, what = p.Arg(cl, 1), "AEAD.Seal nonce"
				case isStd(cl.C, "crypto/cipher", "NewCFBEncrypter"), isStd(cl.C, "crypto/cipher", "NewCTR"), isStd(cl.C, "crypto/cipher", "NewCBCEncrypter"), isStd(cl.C, "crypto/cipher", "NewOFB"):
					nonce, what = p.Arg(cl, 1), walk.CalleeName(cl.C)+" IV"
				default:
					continue
				}
				n++
				key := "fresh-nonce|" + fnKey(impl)
				filled := false
				for _, rc := range p.Find(walk.Static(readFull), cl.Idx) {
					if globalLoad(unwrap(rc.C.Args[0])) != "crypto/rand.Reader" {
						continue
					}
					if nn, k := p.ResultNil(rc.DV(), 1, cl.Idx); !(k && nn) {
						continue
					}
					if p.Same(p.Arg(rc, 1), nonce) {
						filled = true
					}
				}
				if filled {
					c.ok(rule, key, cl.In, what+" is the slice io.ReadFull(rand.Reader, ·) filled without error")
				} else {
					c.bad(rule, key, cl.In, "the "+what+" is not the slice that an error-free io.ReadFull(crypto/rand.Reader, ·) filled on this path: the nonce may be all zero or repeat under the same key", p, cl.Idx)
				}
			}
		})
	}
	if n == 0 {
		c.R.Unknown(rule, "fresh-nonce|none", "-", "no Cipher.Encrypt implementation uses a nonce/IV consumer the rule knows")
	}
}

// barPart: v is part k (0, 1 or 2) of a "value|timestamp|signature" string, in any of the idioms met so far (the second
// and third were added for neutral batch 8, a behaviour-preserving rewrite):
//
//	strings.Split(x, "|")[k] / strings.SplitN(x, "|", 3)[k];
//	a, rest, _ := strings.Cut(x, "|"); b, c, _ := strings.Cut(rest, "|")   — a = part 0, b = part 1, c = part 2
//
// (for exactly three parts; the three-part requirement is a separate obligation).
func barPart(v ssa.Value) (int64, bool) {
	v = unwrap(v)
	if n, ok := indexLoad(v); ok {
		ia := v.(*ssa.UnOp).X.(*ssa.IndexAddr)
		call, ok := ia.X.(*ssa.Call)
		if !ok || !(isStd(&call.Call, "strings", "Split") || isStd(&call.Call, "strings", "SplitN")) {
			return -1, false
		}
		if s, _ := ConstString(call.Call.Args[1]); s != "|" {
			return -1, false
		}
		return n, true
	}
	ex, ok := v.(*ssa.Extract)
	if !ok {
		return -1, false
	}
	isCutBar := func(t ssa.Value) (*ssa.Call, bool) {
		call, ok := t.(*ssa.Call)
		if !ok || !isStd(&call.Call, "strings", "Cut") {
			return nil, false
		}
		s, _ := ConstString(call.Call.Args[1])
		return call, s == "|"
	}
	cut, ok := isCutBar(ex.Tuple)
	if !ok || ex.Index > 1 {
		return -1, false
	}
	// is the cut string itself the remainder of an earlier cut?
	if in, ok := unwrap(cut.Call.Args[0]).(*ssa.Extract); ok && in.Index == 1 {
		if _, ok := isCutBar(in.Tuple); ok {
			return int64(ex.Index) + 1, true
		}
	}
	if ex.Index == 0 {
		return 0, true
	}
	return -1, false
}

// barJoin: v is a + "|" + b + "|" + c (string concatenation) — returns the three operands.
func barJoin(v ssa.Value) ([]ssa.Value, bool) {
	var flat []ssa.Value
	var rec func(v ssa.Value)
	rec = func(v ssa.Value) {
		if b, ok := v.(*ssa.BinOp); ok && b.Op == token.ADD {
			rec(b.X)
			rec(b.Y)
			return
		}
		flat = append(flat, v)
	}
	rec(v)
	if len(flat) != 5 {
		return nil, false
	}
	for _, i := range []int{1, 3} {
		if s, ok := ConstString(flat[i]); !ok || s != "|" {
			return nil, false
		}
	}
	return []ssa.Value{unwrap(flat[0]), unwrap(flat[2]), unwrap(flat[4])}, true
}
