package rules

import (
	"fmt"
	"go/types"
	"sort"

	"golang.org/x/tools/go/ssa"

	"oapsa/internal/oblig"
	"oapsa/internal/prog"
)

// ExploreShared is a maintenance aid: lists request-reachable stores whose target is not a local allocation.
func ExploreShared(p *prog.Program) {
	c := &Ctx{P: p, R: oblig.New("X", "quick", 0)}
	R := c.requestReachable("x")
	// struct types allocated in R
	perReq := map[string]bool{}
	for fn := range R {
		for _, b := range fn.Blocks {
			for _, in := range b.Instrs {
				if al, ok := in.(*ssa.Alloc); ok {
					if pt, ok := al.Type().Underlying().(*types.Pointer); ok {
						perReq[types.TypeString(pt.Elem(), nil)] = true
					}
				}
			}
		}
	}
	var out []string
	var root func(v ssa.Value, d int) string
	root = func(v ssa.Value, d int) string {
		if d > 8 {
			return "deep"
		}
		switch x := v.(type) {
		case *ssa.Alloc:
			return "alloc"
		case *ssa.FieldAddr:
			t := x.X.Type().Underlying().(*types.Pointer).Elem()
			f := t.Underlying().(*types.Struct).Field(x.Field)
			r := root(x.X, d+1)
			if r == "alloc" {
				return r
			}
			return r + " ." + types.TypeString(t, nil) + "." + f.Name()
		case *ssa.IndexAddr:
			return root(x.X, d+1) + "[]"
		case *ssa.UnOp:
			return "*(" + root(x.X, d+1) + ")"
		case *ssa.Global:
			return "global:" + x.String()
		case *ssa.Parameter:
			return "param:" + types.TypeString(x.Type(), nil)
		case *ssa.FreeVar:
			return "freevar:" + x.Name()
		case *ssa.Call:
			return "call"
		case *ssa.Phi:
			return "phi"
		case *ssa.MakeMap, *ssa.MakeSlice:
			return "alloc"
		case *ssa.Extract, *ssa.Slice, *ssa.ChangeType, *ssa.MakeInterface, *ssa.TypeAssert, *ssa.Lookup, *ssa.Field:
			return fmt.Sprintf("%T", x)
		}
		return fmt.Sprintf("%T", v)
	}
	for fn := range R {
		if !p.InModule(fn) {
			continue
		}
		for _, b := range fn.Blocks {
			for _, in := range b.Instrs {
				switch x := in.(type) {
				case *ssa.Store:
					r := root(x.Addr, 0)
					if r != "alloc" {
						out = append(out, fmt.Sprintf("store %-60s in %s  %s", r, prog.Name(fn), p.InstrPos(in)))
					}
				case *ssa.MapUpdate:
					r := root(x.Map, 0)
					if r != "alloc" {
						out = append(out, fmt.Sprintf("mapupd %-60s in %s  %s", r, prog.Name(fn), p.InstrPos(in)))
					}
				}
			}
		}
	}
	for fn := range R {
		if !p.InModule(fn) {
			continue
		}
		for _, b := range fn.Blocks {
			for _, in := range b.Instrs {
				if lk, ok := in.(*ssa.Lookup); ok && !lk.CommaOk {
					if _, isMap := lk.X.Type().Underlying().(*types.Map); isMap {
						switch lk.Type().Underlying().(type) {
						case *types.Pointer, *types.Interface, *types.Map, *types.Signature:
							fmt.Printf("LOOKUP %s in %s %s\n", lk.Type(), prog.Name(fn), p.InstrPos(in))
						}
					}
				}
			}
		}
	}
	sort.Strings(out)
	for _, l := range out {
		fmt.Println(l)
	}
	fmt.Println(len(out), "non-local writes in", len(R), "request-reachable functions")
	var ll, pr []string
	for _, pk := range p.Mod {
		sc := pk.Types.Scope()
		for _, n := range sc.Names() {
			tn, ok := sc.Lookup(n).(*types.TypeName)
			if !ok {
				continue
			}
			if _, ok := tn.Type().Underlying().(*types.Struct); !ok {
				continue
			}
			if perReq[types.TypeString(tn.Type(), nil)] {
				pr = append(pr, prog.Short(types.TypeString(tn.Type(), nil)))
			} else {
				ll = append(ll, prog.Short(types.TypeString(tn.Type(), nil)))
			}
		}
	}
	fmt.Println("LONG-LIVED:", ll)
	fmt.Println("PER-REQUEST:", pr)
}

// ExploreUnexaminedErrors lists calls whose error result is never compared with nil, returned, stored or handed to a
// non-formatting function, while another result of the call is used.
func ExploreUnexaminedErrors(p *prog.Program) {
	c := &Ctx{P: p, R: oblig.New("X", "quick", 0)}
	for _, s := range c.unexaminedErrors(p.ModFns) {
		fmt.Printf("UNEXAMINED %s in %s  %s\n", calleeText(s.Call), prog.Name(s.Fn), p.InstrPos(s.Call))
	}
}
