package rules

import (
	"go/types"

	"golang.org/x/tools/go/ssa"

	"oapsa/internal/prog"
	"oapsa/internal/walk"
)

func init() {
	register(&Prop{
		ID:          "C01",
		Explanation: "Decides the control-flow skeleton of 'served only if credential or bypass': every protected sink (load of the upstream handler, the 202 writer of the auth-only endpoint, every success write of the user-info endpoint) is reached only on paths where getAuthenticatedSession returned a nil error; every nil-error return of getAuthenticatedSession has the bypass predicate true or (session non-nil, e-mail empty or validated, Authorize true); IsAllowedRequest is true only through preflight&&OPTIONS, isAllowedRoute or isTrustedIP and is called only from getAuthenticatedSession; RequestScope.Session is written only by the three session loaders and only with result #0 of their verified getter; each getter returns non-nil only after its verification call succeeded; cookie-store Load and ticket decoding succeed only behind encryption.Validate ok, which needs checkSignature true, which needs hmac.Equal; the route table wraps every session-consuming handler in sessionChain. Added during the build: the skip-auth decision consumes only the guarded, query-free request path (R9, shared with C15.R1); the trusted-IP set inserts into the same-mask map it looks up and the htpasswd validator answers true only by comparing against the entry it read (R10, shared with C15.R5 / C20.R2). Round 3: issuer verification of bearer-token verifiers is switched off only by the operator's option (R11); without a header parser the client address is net.ParseIP(SplitHostPort(req.RemoteAddr)#0) and nothing else (R12). Round 4: a bearer token verifies only with go-oidc's verdict and the audience membership check on the first configured audience claim present (R13, shared with C04.R1); a Basic credential is split at its first colon only (R14). Round 7: request handling keeps no state of its own between requests — no store, map update, in-place builtin, atomic/sync.Map write or pointer-receiver library call (singleflight, caches) reached from ServeHTTP targets a package-level variable, an object built at start-up, or a constructor variable captured by the handler it returned, declared in the packages implementing this property (RS; a class-wide who-may-write rule with zero instances today: a correct memoisation would be reported until reviewed). A refresh that adopts the new ID token adopts its e-mail, user, groups and preferred user name on the same path (R15, shared with C12.R9). Round 8 (class-wide, P12): in the packages implementing this property every named error result that is used at all is examined — compared with nil, returned, stored or handed to a non-formatting function — unless the code validates the value result instead (RE; zero instances today).",
		NotDecided:  "that a valid credential always verifies (values), correctness of HMAC/AES (trusted), string semantics of validators.",
		Run:         runC01,
	})
}

// authSessionFact is "getAuthenticatedSession(...) returned a nil error on this path".
func authSessionFact(c *Ctx, rule string) (Need, *ssa.Function) {
	gas := c.Fn(rule, "(*main.OAuthProxy).getAuthenticatedSession")
	return Need{Name: "getAuthenticatedSession err==nil", M: walk.Static(gas), Idx: 1, Out: ErrNil}, gas
}

// refersTo reports whether instruction in has target (or a closure over it) as an operand.
func refersTo(in ssa.Instruction, target *ssa.Function) bool {
	for _, op := range in.Operands(nil) {
		switch v := (*op).(type) {
		case *ssa.Function:
			if v == target {
				return true
			}
		case *ssa.MakeClosure:
			if v.Fn == target {
				return true
			}
		}
	}
	if mc, ok := in.(*ssa.MakeClosure); ok && mc.Fn == target {
		return true
	}
	return false
}

func isInvokeOf(c *ssa.CallCommon, ifaceQual, method string, pg *prog.Program) bool {
	if !c.IsInvoke() || c.Method.Name() != method {
		return false
	}
	n := pg.Named(ifaceQual)
	return n != nil && types.Identical(c.Value.Type(), n)
}

func runC01(c *Ctx) {
	c.R.Rule("RE-errors-examined", "in the packages implementing this property every named error result that is used at all is examined, or the value is validated instead (P12, class-wide, round 8)", 1)
	runErrorsExamined(c, "RE-errors-examined", "main", "pkg/middleware", "pkg/authentication")
	c.R.Rule("RS-no-request-time-state", "request handling writes no state that outlives the request (package-level variables, objects built at start-up, constructor variables captured by handlers) declared in the packages implementing this property", 1)
	runStateless(c, "RS-no-request-time-state", "main", "pkg/middleware", "pkg/authentication", "pkg/ip")
	r := c.R
	pg := c.P
	r.Rule("R1-sink-gating", "every protected sink (upstream handler load, 202 writer, user-info success writes) requires getAuthenticatedSession err==nil on the path", 5)
	r.Rule("R2-upstream-readers", "OAuthProxy.upstreamProxy is loaded only in Proxy and stored only by the constructor", 2)
	r.Rule("R3-authenticated-returns", "every nil-error return of getAuthenticatedSession: bypass true, or session!=nil && (Email==\"\" || Validator(Email)) && Authorize", 2)
	r.Rule("R4-bypass-entry", "IsAllowedRequest true only via preflight&&OPTIONS, isAllowedRoute, isTrustedIP; single caller", 4)
	r.Rule("R5-session-writers", "RequestScope.Session is stored only by the three loaders, with result #0 of a verified getter", 3)
	r.Rule("R6-getters-verified", "session getters return non-nil only after their verification succeeded", 4)
	r.Rule("R7-store-validation", "cookie Load / ticket decode succeed only with Validate ok; Validate ok needs checkSignature; checkSignature needs checkHmac; checkHmac needs hmac.Equal", 5)
	r.Rule("R10-trusted-ip-set", "the trusted-IP set inserts into the same-mask map it looks up (shared with C15.R5); the htpasswd validator answers true only by comparing against the entry it read (shared with C20.R2)", 8)
	r.Rule("R11-bearer-verifier-options", "issuer verification for bearer-token verifiers is switched off only by the operator's explicit option, in the options and in every oidc.Config built from them (shared with C04.R2)", 4)
	r.Rule("R12-remote-address", "without a header parser the client address is the host part of RemoteAddr that net.ParseIP accepted; anything else is an error, never a substitute address", 2)
	r.Rule("R13-bearer-verifier", "a bearer token verifies only with go-oidc ok and the audience membership check on the first configured audience claim present (shared with C04.R1)", 5)
	r.Rule("R15-refresh-adopts-identity", "a refresh that adopts the new ID token adopts its e-mail, user, groups and preferred user name with it, so authorisation is never decided on the previous token's groups (shared with C12.R9, round 7)", 3)
	runC12R9(c, "R15-refresh-adopts-identity")
	r.Rule("R14-basic-credential-split", "a Basic credential is split at the first colon only", 1)
	r.Rule("R9-bypass-input", "the skip-auth decision consumes only the guarded, query-free request path (shared with C15.R1)", 1)
	r.Rule("R8-route-table", "every route whose handler consumes the session is registered through sessionChain; preAuthChain is installed on the root router", 9)

	need, gas := authSessionFact(c, "R1-sink-gating")
	proxy := c.Fn("R1-sink-gating", "(*main.OAuthProxy).Proxy")
	authOnly := c.Fn("R1-sink-gating", "(*main.OAuthProxy).AuthOnly")
	userInfo := c.Fn("R1-sink-gating", "(*main.OAuthProxy).UserInfo")
	upstreamF := c.Field("R2-upstream-readers", "main.OAuthProxy.upstreamProxy")
	if gas == nil || proxy == nil || authOnly == nil || userInfo == nil || upstreamF == nil {
		return
	}

	// ---- R2 + R1(a): readers of upstreamProxy ------------------------------------------------
	ctor := c.Fn("R2-upstream-readers", "main.NewOAuthProxy")
	loadFns := map[*ssa.Function]bool{}
	for _, ref := range c.fieldRefs(upstreamF) {
		key := ref.Kind + "|" + fnKey(ref.Fn)
		switch {
		case ref.Kind == "store" && ref.Fn == ctor:
			c.ok("R2-upstream-readers", key, ref.In, "constructor stores the handler built by upstream.NewProxy")
		case ref.Kind == "load" && ref.Fn == proxy:
			c.ok("R2-upstream-readers", key, ref.In, "the one reader; gated by R1")
			loadFns[ref.Fn] = true
		default:
			c.bad("R2-upstream-readers", key, ref.In, "upstream handler field is "+ref.Kind+"-accessed outside the constructor and Proxy: a second way to reach the upstream", nil, 0)
			if ref.Kind == "load" {
				loadFns[ref.Fn] = true
			}
		}
	}
	r.CallSites += len(loadFns)
	for fn := range loadFns {
		c.Walk("R1-sink-gating", fn, func(p *walk.Path) {
			for i, s := range p.Steps {
				if !walk.IsFieldLoad(valueOf(s.In), upstreamF) {
					continue
				}
				key := "upstream-load|" + fnKey(fn)
				if _, ok := Has(p, i, need); ok {
					c.ok("R1-sink-gating", key, s.In, "dominated by getAuthenticatedSession err==nil")
				} else {
					c.bad("R1-sink-gating", key, s.In, "upstream handler reachable on a path where getAuthenticatedSession did not return a nil error", p, i)
				}
			}
		})
	}

	// ---- R1(b): 202 writers ------------------------------------------------------------------
	n202 := 0
	for _, fn := range pg.ModFns {
		for _, b := range fn.Blocks {
			for _, in := range b.Instrs {
				ci, ok := in.(ssa.CallInstruction)
				if !ok || !isInvokeOf(ci.Common(), "net/http.ResponseWriter", "WriteHeader", pg) {
					continue
				}
				if code, ok := ConstInt(ci.Common().Args[0]); !ok || code != 202 {
					continue
				}
				n202++
				outer, target := fn, (*ssa.Function)(nil)
				if fn.Parent() != nil {
					outer, target = fn.Parent(), fn
				}
				key := "write-202|" + fnKey(fn)
				if outer != authOnly {
					c.bad("R1-sink-gating", key, in, "202 Accepted is written outside the auth-only handler", nil, 0)
					continue
				}
				found := false
				c.Walk("R1-sink-gating", outer, func(p *walk.Path) {
					for i, s := range p.Steps {
						hit := (target == nil && s.In == in) || (target != nil && refersTo(s.In, target))
						if !hit {
							continue
						}
						found = true
						if _, ok := Has(p, i, need); ok {
							c.ok("R1-sink-gating", key, s.In, "202 writer is constructed only after getAuthenticatedSession err==nil")
						} else {
							c.bad("R1-sink-gating", key, s.In, "the 202 writer is reachable on a path where getAuthenticatedSession did not return a nil error", p, i)
						}
					}
				})
				if !found {
					c.R.Unknown("R1-sink-gating", key, c.pos(in), "202 writer is not referenced from its parent function on any path")
				}
			}
		}
	}
	if n202 == 0 {
		c.R.Unknown("R1-sink-gating", "write-202|none", "-", "no WriteHeader(202) found: the auth-only success sink has moved")
	}

	// ---- R1(c): user-info success writes -----------------------------------------------------
	encode := c.StdFunc("R1-sink-gating", "encoding/json.Encoder.Encode")
	c.Walk("R1-sink-gating", userInfo, func(p *walk.Path) {
		for i, s := range p.Steps {
			ci, ok := s.In.(ssa.CallInstruction)
			if !ok {
				continue
			}
			cc := ci.Common()
			kind := ""
			switch {
			case isInvokeOf(cc, "net/http.ResponseWriter", "WriteHeader", pg):
				if code, ok := ConstInt(cc.Args[0]); !ok || code < 300 {
					kind = "WriteHeader-success"
				}
			case isInvokeOf(cc, "net/http.ResponseWriter", "Write", pg):
				kind = "Write"
			case cc.StaticCallee() != nil && cc.StaticCallee() == encode:
				kind = "json-encode"
			}
			if kind == "" {
				continue
			}
			key := "userinfo-" + kind + "|" + fnKey(userInfo)
			if _, ok := Has(p, i, need); ok {
				c.ok("R1-sink-gating", key, s.In, "after getAuthenticatedSession err==nil")
			} else {
				c.bad("R1-sink-gating", key, s.In, "user-info success output on a path where getAuthenticatedSession did not return a nil error", p, i)
			}
		}
	})

	// ---- R3: nil-error returns of getAuthenticatedSession ---------------------------------------
	isAllowed := c.bypassEntry("R3-authenticated-returns")
	validatorF := c.Field("R3-authenticated-returns", "main.OAuthProxy.Validator")
	emailF := c.Field("R3-authenticated-returns", "pkg/apis/sessions.SessionState.Email")
	scopeSessF := c.Field("R3-authenticated-returns", "pkg/apis/middleware.RequestScope.Session")
	authorizeM := c.Method("R3-authenticated-returns", "providers.Provider.Authorize")
	getScope := c.Fn("R3-authenticated-returns", "pkg/apis/middleware.GetRequestScope")
	if validatorF != nil && emailF != nil && authorizeM != nil && scopeSessF != nil && getScope != nil {
		c.Walk("R3-authenticated-returns", gas, func(p *walk.Path) {
			checkAuthenticatedReturn(c, "R3-authenticated-returns", p, isAllowed, validatorF, emailF, scopeSessF, authorizeM, getScope)
		})
	}

	checkBypassOperand(c, "R9-bypass-input")
	runNetSetRule(c, "R10-trusted-ip-set")
	checkHtpasswdValidate(c, "R10-trusted-ip-set")
	runIssuerCheckOn(c, "R11-bearer-verifier-options")
	runOIDCConfigRule(c, "R11-bearer-verifier-options")
	runRemoteIPRule(c, "R12-remote-address")
	runVerifierRule(c, "R13-bearer-verifier")
	runBasicSplitRule(c, "R14-basic-credential-split")

	// ---- R4: IsAllowedRequest -----------------------------------------------------------------------
	runC01R4(c, "R4-bypass-entry", isAllowed, gas)

	// ---- R5/R6: writers of RequestScope.Session and their getters ------------------------------
	runC01R5R6(c, scopeSessF)

	// ---- R7 ------------------------------------------------------------------------------------------
	runC01R7(c)

	// ---- R8 ------------------------------------------------------------------------------------------
	runC01R8(c, map[*ssa.Function]bool{proxy: true, authOnly: true, userInfo: true}, gas)
}

func valueOf(in ssa.Instruction) ssa.Value {
	v, _ := in.(ssa.Value)
	return v
}

// checkAuthenticatedReturn implements C01.R3 (also used by C08.R1).
func checkAuthenticatedReturn(c *Ctx, rule string, p *walk.Path, isAllowed *ssa.Function, validatorF, emailF, scopeSessF *types.Var, authorizeM *types.Func, getScope *ssa.Function) {
	ret, ok := p.Exit.(*ssa.Return)
	if !ok {
		return
	}
	errDV, _ := p.ReturnDV(1)
	if !DefinitelyNil(p, errDV, p.End()) {
		// error return: the session result must be nil
		s, _ := p.ReturnDV(0)
		key := "error-return-nil-session|" + fnKey(p.W.Fn)
		if DefinitelyNil(p, s, p.End()) {
			c.ok(rule, key, ret, "error returns carry a nil session")
		} else {
			c.bad(rule, key, ret, "a non-nil-error return carries a possibly non-nil session", p, p.End())
		}
		return
	}
	at := p.End()
	sess, _ := p.ReturnDV(0)
	// the returned session must be the scope session of this request
	fromScope := false
	{
		rs := p.Resolve(sess)
		if base, ok := walk.FieldLoadBase(rs.V, scopeSessF); ok {
			b := p.Resolve(p.Op(base, p.Op(rs.V.(*ssa.UnOp).X, rs)))
			if call, ok := b.V.(*ssa.Call); ok && call.Call.StaticCallee() == getScope {
				fromScope = true
			}
		}
	}
	key := "nil-error-return|" + fnKey(p.W.Fn)
	if !fromScope {
		c.bad(rule, key, ret, "the session returned with a nil error is not the request scope's session", p, at)
		return
	}
	// (A) bypass
	if isAllowed != nil {
		if _, ok := Has(p, at, Need{M: walk.Static(isAllowed), Idx: -1, Out: IsTrue}); ok {
			c.ok(rule, key+"|bypass", ret, "IsAllowedRequest(req)==true")
			return
		}
	} else if how, ok := c.bypassFact(rule, p, at); ok {
		// IsAllowedRequest does not exist as a function (inlined into its caller): the three configured bypasses are
		// recognised directly on this path
		c.ok(rule, key+"|bypass", ret, how)
		return
	}
	// (B) authenticated and authorised
	nonNil := false
	if n, k := p.Nil(sess, at); k && !n {
		nonNil = true
	}
	emailOK := eqConstAtom(p, at, true, "", func(x walk.DV) bool { return fieldLoadOn(p, x, emailF, sess) })
	if !emailOK {
		_, emailOK = Has(p, at, Need{M: walk.ThroughField(validatorF), Idx: -1, Out: IsTrue, Where: func(p *walk.Path, cl walk.Call) bool {
			return fieldLoadOn(p, p.Arg(cl, 0), emailF, sess)
		}})
	}
	_, authOK := Has(p, at, Need{M: walk.Invoke(c.P, authorizeM), Idx: 0, Out: IsTrue, Where: func(p *walk.Path, cl walk.Call) bool {
		return p.Same(p.Arg(cl, 1), sess)
	}})
	if nonNil && emailOK && authOK {
		c.ok(rule, key+"|authenticated", ret, "session!=nil && (Email==\"\" || Validator(Email)) && Authorize(session)#0")
		return
	}
	c.bad(rule, key, ret, sprintf("nil-error return without bypass and without the full authorisation conjunction (session!=nil:%v email-ok:%v authorize:%v)", nonNil, emailOK, authOK), p, at)
}

func runC01R4(c *Ctx, rule string, isAllowed, gas *ssa.Function) {
	if isAllowed == nil {
		// no separate bypass entry point: R3/(A) accepts a session-less nil-error return only with one of the three
		// configured bypass facts on the path, which is this rule's condition decided in place
		if c.P.Func("(*main.OAuthProxy).isAllowedRoute") != nil && c.P.Func("(*main.OAuthProxy).isTrustedIP") != nil {
			c.R.OK(rule, "true-via|inlined", c.P.Pos(gas.Pos()), "the bypass decision lives in getAuthenticatedSession; its accepting paths are judged by the authenticated-returns rule")
			c.R.OK(rule, "caller|"+fnKey(gas), c.P.Pos(gas.Pos()), "the one place")
			c.R.OK(rule, "returns|inlined", c.P.Pos(gas.Pos()), "see authenticated-returns")
		}
		return
	}
	route := c.Fn(rule, "(*main.OAuthProxy).isAllowedRoute")
	trusted := c.Fn(rule, "(*main.OAuthProxy).isTrustedIP")
	preflightF := c.Field(rule, "main.OAuthProxy.skipAuthPreflight")
	methodF := c.P.Field("net/http.Request.Method")
	if route == nil || trusted == nil || preflightF == nil || methodF == nil {
		return
	}
	c.Walk(rule, isAllowed, func(p *walk.Path) {
		ret, ok := p.Exit.(*ssa.Return)
		if !ok {
			return
		}
		at := p.End()
		rv, _ := p.ReturnDV(0)
		rr := p.Resolve(rv)
		if b, known := p.Truth(rr, at); known && !b {
			return // returns false
		}
		// returned value is itself a call: must be one of the two predicates
		if call, ok := rr.V.(*ssa.Call); ok {
			sc := call.Call.StaticCallee()
			if sc == trusted || sc == route {
				c.ok(rule, "returns|"+prog.Name(sc), ret, "result of "+prog.Name(sc))
				return
			}
		}
		if _, ok := Has(p, at, Need{M: walk.Static(route), Idx: -1, Out: IsTrue}); ok {
			c.ok(rule, "true-via|isAllowedRoute", ret, "isAllowedRoute(req)==true")
			return
		}
		if _, ok := Has(p, at, Need{M: walk.Static(trusted), Idx: -1, Out: IsTrue}); ok {
			c.ok(rule, "true-via|isTrustedIP", ret, "isTrustedIP(req)==true")
			return
		}
		pre := fieldBoolAtom(p, at, preflightF, true)
		opt := eqConstAtom(p, at, true, "OPTIONS", func(x walk.DV) bool { return walk.IsFieldLoad(p.Resolve(x).V, methodF) })
		if pre && opt {
			c.ok(rule, "true-via|preflight", ret, "skipAuthPreflight && req.Method==\"OPTIONS\"")
			return
		}
		c.bad(rule, "true-via|other", ret, sprintf("IsAllowedRequest can return true without a configured bypass (preflight flag:%v OPTIONS:%v)", pre, opt), p, at)
	})
	// single caller class
	for _, cs := range c.callersOf(isAllowed) {
		key := "caller|" + fnKey(cs.Parent())
		if cs.Parent() == gas {
			c.ok(rule, key, cs, "the one caller")
		} else {
			c.bad(rule, key, cs, "IsAllowedRequest is consulted outside getAuthenticatedSession: a second bypass entry point", nil, 0)
		}
	}
	for _, u := range c.funcValueUses(isAllowed) {
		c.bad(rule, "value-use|"+fnKey(u.Parent()), u, "IsAllowedRequest escapes as a function value", nil, 0)
	}
}

// bypassEntry resolves IsAllowedRequest when it exists as a function (then it is an anchor, analysed on its own by R4);
// nil when a refactoring has folded it into getAuthenticatedSession.
func (c *Ctx) bypassEntry(rule string) *ssa.Function {
	if c.P.Func("(*main.OAuthProxy).IsAllowedRequest") == nil {
		return nil
	}
	return c.Fn(rule, "(*main.OAuthProxy).IsAllowedRequest")
}

// bypassFact: one of the three configured bypasses holds on the path (preflight flag and OPTIONS, a matching
// skip-auth route, a trusted client address).
func (c *Ctx) bypassFact(rule string, p *walk.Path, at int) (string, bool) {
	route := c.Fn(rule, "(*main.OAuthProxy).isAllowedRoute")
	trusted := c.Fn(rule, "(*main.OAuthProxy).isTrustedIP")
	preflightF := c.Field(rule, "main.OAuthProxy.skipAuthPreflight")
	methodF := c.P.Field("net/http.Request.Method")
	if route == nil || trusted == nil || preflightF == nil || methodF == nil {
		return "", false
	}
	if _, ok := Has(p, at, Need{M: walk.Static(route), Idx: -1, Out: IsTrue}); ok {
		return "isAllowedRoute(req)==true", true
	}
	if _, ok := Has(p, at, Need{M: walk.Static(trusted), Idx: -1, Out: IsTrue}); ok {
		return "isTrustedIP(req)==true", true
	}
	if fieldBoolAtom(p, at, preflightF, true) && eqConstAtom(p, at, true, "OPTIONS", func(x walk.DV) bool { return walk.IsFieldLoad(p.Resolve(x).V, methodF) }) {
		return "skipAuthPreflight && req.Method==\"OPTIONS\"", true
	}
	return "", false
}
