package rules

import (
	"go/constant"
	"go/token"
	"go/types"
	"reflect"
	"sort"
	"strings"

	"golang.org/x/tools/go/ssa"

	"oapsa/internal/prog"
	"oapsa/internal/walk"
)

func init() {
	register(&Prop{
		ID:          "C10",
		Explanation: "PARTIAL claim — decides the structural agreements a save/load round trip needs, not the round trip as behaviour: (1) each store encodes and decodes with the same compression flag constant and the same cipher source, the persistence layer saves, loads and clears under the same ticket field, and EncodeSessionState/DecodeSessionState mirror each other (marshal -> [lz4 iff flag] -> Encrypt versus Decrypt -> [lz4 iff flag] -> Unmarshal into the returned object); (2) every field of SessionState other than the two reviewed runtime helpers is serialised under a unique msgpack key; (3) the splitter and the loader derive part names through the same function with consecutive indices from 0, the loader prefers the unsplit cookie and otherwise joins the parts in index order onto a copy of part 0 named like the whole, and the splitter's chunks are consecutive slices cut at one point; (4) because the loader consults names a save of another size does not overwrite, the cookie store's Save reads the presented cookie jar and expires every presented session cookie (quoted name, optional _N suffix) it did not just write; (5) the split threshold constant is at most 4096 and every emitted chunk, and the unsplit cookie, was measured against it with len(cookie.String()); (6) Clear sweeps every presented session cookie and the ticket store's Clear deletes the stored session (shared with C11.R2/R3); (7) the ticket's cookie encoding and its two decoders agree on version tag, part count, part order and base64 alphabet; (8) the codec's compression plumbing uses no length-limited reader or copy in either direction and hands out compressed bytes only after the writer closed without error; (9) no function on the cookie store's load path (including Validate and the ciphers) tests a length against an upper bound. Round 4: the stored entry's TTL is Cookie.Expire handed unchanged from ticket.saveSession to the redis SET, so the entry lives as long as the cookie naming it (R10, shared with C09.R5). Round 5: the configured cookie-domain list is never reordered or written after validation, so later saves and clears address the cookies earlier saves set (R11, shared with C18.R5). Round 7: request handling keeps no state of its own between requests — no store, map update, in-place builtin, atomic/sync.Map write or pointer-receiver library call (singleflight, caches) reached from ServeHTTP targets a package-level variable, an object built at start-up, or a constructor variable captured by the handler it returned, declared in the packages implementing this property (RS; a class-wide who-may-write rule with zero instances today: a correct memoisation would be reported until reviewed). Round 8 (class-wide, P12): in the packages implementing this property every named error result that is used at all is examined — compared with nil, returned, stored or handed to a non-formatting function — unless the code validates the value result instead (RE; zero instances today). Part names of a split session are always name_i, the form Clear and the stale-cookie sweep select by (R12: KNOWN FINDING on the unchanged tree, defect 18).",
		NotDecided:  "the round trip itself over all sizes and field contents (msgpack/lz4/AES value semantics), byte arithmetic at the split boundary, truncated part names for cookie names longer than 250 bytes, browser jar semantics (path/domain scoping, eviction), Redis behaviour.",
		Run:         runC10,
	})
}

func runC10(c *Ctx) {
	c.R.Rule("RE-errors-examined", "in the packages implementing this property every named error result that is used at all is examined, or the value is validated instead (P12, class-wide, round 8)", 1)
	runErrorsExamined(c, "RE-errors-examined", "pkg/sessions/cookie", "pkg/apis/sessions")
	c.R.Rule("RS-no-request-time-state", "request handling writes no state that outlives the request (package-level variables, objects built at start-up, constructor variables captured by handlers) declared in the packages implementing this property", 1)
	runStateless(c, "RS-no-request-time-state", "pkg/sessions", "pkg/cookies", "pkg/encryption")
	r := c.R
	r.Rule("R1-codec-agreement", "same compression flag and cipher source on the encode and decode side of each store; same ticket key for save/load/clear; Encode/Decode mirror each other", 11)
	r.Rule("R2-every-field-serialised", "every SessionState field except the reviewed runtime helpers has a unique msgpack key", 10)
	r.Rule("R3-split-join-agreement", "splitter and loader number parts through splitCookieName from 0 by 1; loader prefers the unsplit cookie, joins in index order; chunks are consecutive slices", 6)
	r.Rule("R4-stale-parts-expired", "the cookie store's Save reads the presented jar, unconditionally on every successful save, and expires every presented session cookie it did not write", 5)
	r.Rule("R12-part-names-match-the-sweep", "the part names the splitter and loader use are always name_i, the form Clear and the stale-cookie sweep select by (KNOWN FINDING on the unchanged tree: defect 18, shared with C11.R12)", 1)
	runPartNamesMatchTheSweep(c, "R12-part-names-match-the-sweep")
	r.Rule("R5-size-bound", "split threshold <= 4096; every emitted chunk and the unsplit cookie were measured against it", 3)
	r.Rule("R6-clear", "Clear sweeps all presented session cookies; Manager.Clear deletes the stored session (shared with C11.R2/R3)", 8)
	r.Rule("R10-store-ttl", "the stored entry's TTL is Cookie.Expire, handed unchanged from ticket.saveSession to the redis SET (shared with C09.R5): the entry lives as long as the cookie naming it", 5)
	r.Rule("R11-stable-cookie-scope", "a later save or clear addresses the cookies an earlier save set: the configured domain list, from which each cookie's Domain is chosen, is sorted once by validation and never reordered or written afterwards (shared with C18.R5)", 4)
	r.Rule("R9-no-size-cap-on-load", "no function between the cookie jar and the decoded session rejects by an upper length bound", 10)
	r.Rule("R8-codec-streams-unbounded", "the session codec's stream plumbing uses no length-limited reader/copy and returns compressed data only after a successful Close", 5)
	r.Rule("R7-ticket-encoding-agreement", "encodeTicket and decodeTicketID/decodeTicketSecret agree on tag, part count, order and alphabet", 3)

	runC10R1(c, "R1-codec-agreement")
	runC10R2(c, "R2-every-field-serialised")
	runC10R3(c, "R3-split-join-agreement")
	runC10R4(c, "R4-stale-parts-expired")
	runC10R5(c, "R5-size-bound")
	runC11R3R4(c, "R6-clear", "R6-clear", true)
	runManagerClearRule(c, "R6-clear")
	runC10R7(c, "R7-ticket-encoding-agreement")
	runC10R8(c, "R8-codec-streams-unbounded")
	runC10R9(c, "R9-no-size-cap-on-load")
	runStoreTTLChain(c, "R10-store-ttl")
	runDomainOrderRule(c, "R11-stable-cookie-scope")
}

// ---- R1 -------------------------------------------------------------------------------------------

func runC10R1(c *Ctx, rule string) {
	ess := c.Fn(rule, "(*pkg/apis/sessions.SessionState).EncodeSessionState")
	dss := c.Fn(rule, "pkg/apis/sessions.DecodeSessionState")
	if ess == nil || dss == nil {
		return
	}
	// (a) per store: flags and cipher sources agree
	type side struct {
		flag   string
		cipher string
		in     ssa.Instruction
		enc    bool
	}
	perPkg := map[string][]side{}
	cipherSource := func(v ssa.Value, fn *ssa.Function) string {
		v = unwrap0(v)
		if ex, ok := v.(*ssa.Extract); ok && ex.Index == 0 {
			if call, ok := ex.Tuple.(*ssa.Call); ok {
				if sc := call.Call.StaticCallee(); sc != nil && len(call.Call.Args) > 0 && len(fn.Params) > 0 && call.Call.Args[0] == ssa.Value(fn.Params[0]) {
					return "call:" + prog.Name(sc) + "(receiver)"
				}
			}
		}
		if u, ok := v.(*ssa.UnOp); ok && u.Op == token.MUL {
			if fa, ok := u.X.(*ssa.FieldAddr); ok && len(fn.Params) > 0 && fa.X == ssa.Value(fn.Params[0]) {
				return "field:" + walk.FieldOf(fa.X.Type(), fa.Field).Name() + " of the receiver"
			}
		}
		return "?" + v.String()
	}
	flagOf := func(v ssa.Value) string {
		if k, ok := v.(*ssa.Const); ok && k.Value != nil && k.Value.Kind() == constant.Bool {
			return k.Value.String()
		}
		return "?dynamic"
	}
	for _, cs := range c.callersOf(ess) {
		pk := prog.Short(prog.FnPkg(cs.Parent()).Path())
		a := cs.Common().Args
		perPkg[pk] = append(perPkg[pk], side{flagOf(a[2]), cipherSource(a[1], cs.Parent()), cs, true})
	}
	for _, cs := range c.callersOf(dss) {
		pk := prog.Short(prog.FnPkg(cs.Parent()).Path())
		a := cs.Common().Args
		perPkg[pk] = append(perPkg[pk], side{flagOf(a[2]), cipherSource(a[1], cs.Parent()), cs, false})
	}
	var pks []string
	for pk := range perPkg {
		pks = append(pks, pk)
	}
	sort.Strings(pks)
	for _, pk := range pks {
		sides := perPkg[pk]
		nEnc, nDec := 0, 0
		for _, s := range sides {
			if s.enc {
				nEnc++
			} else {
				nDec++
			}
		}
		key := "store-codec|" + pk
		if nEnc == 0 || nDec == 0 {
			// a package that only encodes or only decodes (none today) cannot be cross-checked
			c.R.Unknown(rule, key, c.pos(sides[0].in), "package encodes or decodes sessions but not both: no counterpart to compare with")
			continue
		}
		ref := sides[0]
		for _, s := range sides {
			k := key + "|" + fnKey(s.in.Parent())
			switch {
			case strings.HasPrefix(s.flag, "?") || strings.HasPrefix(s.cipher, "?"):
				c.R.Bad(rule, k, c.pos(s.in), "the compression flag or cipher of this encode/decode call cannot be identified as a constant / receiver field / receiver method result: agreement with the other side is not decided", nil, nil)
			case s.flag != ref.flag:
				c.R.Bad(rule, k, c.pos(s.in), "this store encodes and decodes sessions with different compression flags ("+s.flag+" vs "+ref.flag+"): what was saved cannot be loaded", nil, nil)
			case s.cipher != ref.cipher:
				c.R.Bad(rule, k, c.pos(s.in), "this store encodes and decodes sessions with ciphers from different sources ("+s.cipher+" vs "+ref.cipher+")", nil, nil)
			default:
				c.ok(rule, k, s.in, "compress="+s.flag+", cipher = "+s.cipher)
			}
		}
	}
	// (b) the persistence layer's key: saver/loader/clearer all receive t.id of the receiver
	idF := c.Field(rule, "pkg/sessions/persistence.ticket.id")
	for _, name := range []string{"saveSession", "loadSession", "clearSession"} {
		fn := c.Fn(rule, "(*pkg/sessions/persistence.ticket)."+name)
		if fn == nil || idF == nil {
			continue
		}
		found := false
		for _, b := range fn.Blocks {
			for _, in := range b.Instrs {
				call, ok := in.(*ssa.Call)
				if !ok || call.Call.IsInvoke() || call.Call.StaticCallee() != nil {
					continue
				}
				if pa, ok := call.Call.Value.(*ssa.Parameter); !ok || pa != fn.Params[len(fn.Params)-1] && pa != fn.Params[1] {
					continue
				}
				if _, isFn := call.Call.Value.Type().Underlying().(*types.Signature); !isFn {
					continue
				}
				if s, ok := call.Call.Value.Type().Underlying().(*types.Signature); ok && s.Params().Len() > 0 {
					if b, ok := s.Params().At(0).Type().Underlying().(*types.Basic); !ok || b.Kind() != types.String {
						continue
					}
				}
				found = true
				key := "store-key|" + fnKey(fn)
				if base, ok := walk.FieldLoadBase(unwrap0(call.Call.Args[0]), idF); ok && base == ssa.Value(fn.Params[0]) {
					c.ok(rule, key, in, "backend called with t.id")
				} else {
					c.R.Bad(rule, key, c.pos(in), name+" addresses the backend with something other than the ticket's id: save, load and clear no longer meet on one key", nil, nil)
				}
			}
		}
		if !found {
			c.R.Unknown(rule, "store-key|"+fnKey(fn), c.P.Pos(fn.Pos()), name+" does not call its backend function")
		}
	}
	// (c) the codec mirrors itself
	marshal := c.StdFunc(rule, "github.com/vmihailenco/msgpack/v5.Marshal")
	unmarshal := c.StdFunc(rule, "github.com/vmihailenco/msgpack/v5.Unmarshal")
	lz4c := c.Fn(rule, "pkg/apis/sessions.lz4Compress")
	lz4d := c.Fn(rule, "pkg/apis/sessions.lz4Decompress")
	encM := c.Method(rule, "pkg/encryption.Cipher.Encrypt")
	decM := c.Method(rule, "pkg/encryption.Cipher.Decrypt")
	if marshal == nil || unmarshal == nil || lz4c == nil || lz4d == nil || encM == nil || decM == nil {
		return
	}
	c.Walk(rule, ess, func(p *walk.Path) {
		rv, ok := p.ReturnDV(0)
		if !ok || DefinitelyNil(p, rv, p.End()) {
			return
		}
		at := p.End()
		key := "encode-shape|" + fnKey(ess)
		flag, known := p.Truth(walk.DV{V: ess.Params[2]}, at)
		if !known {
			c.bad(rule, key, p.Exit, "EncodeSessionState returns data on a path that never tested its compress flag", p, at)
			return
		}
		ec, ok := extractOfCall(p, rv, 0)
		if !ok || !ec.C.IsInvoke() || !walk.SameMethod(ec.C.Method, encM) || p.Resolve(p.Recv(ec)).V != ssa.Value(ess.Params[1]) {
			c.bad(rule, key, p.Exit, "EncodeSessionState does not return the given cipher's Encrypt result", p, at)
			return
		}
		src := p.Arg(ec, 0)
		if flag {
			lc, ok := extractOfCall(p, src, 0)
			if !ok || lc.C.StaticCallee() != lz4c {
				c.bad(rule, key, p.Exit, "with compress=true the encrypted bytes are not lz4Compress's output", p, at)
				return
			}
			src = p.Arg(lc, 0)
		}
		mc, ok := extractOfCall(p, src, 0)
		if !ok || mc.C.StaticCallee() != marshal || p.Resolve(p.Op(unwrap(p.Resolve(p.Arg(mc, 0)).V), p.Resolve(p.Arg(mc, 0)))).V != ssa.Value(ess.Params[0]) {
			c.bad(rule, key, p.Exit, sprintf("with compress=%v what is encrypted is not (the compression of) msgpack.Marshal(s)", flag), p, at)
			return
		}
		c.ok(rule, key+sprintf("|compress=%v", flag), p.Exit, "marshal -> [lz4 iff compress] -> Encrypt")
	})
	c.Walk(rule, dss, func(p *walk.Path) {
		rv, ok := p.ReturnDV(0)
		if !ok || DefinitelyNil(p, rv, p.End()) {
			return
		}
		at := p.End()
		key := "decode-shape|" + fnKey(dss)
		flag, known := p.Truth(walk.DV{V: dss.Params[2]}, at)
		if !known {
			c.bad(rule, key, p.Exit, "DecodeSessionState returns a session on a path that never tested its compressed flag", p, at)
			return
		}
		uc, ok := Has(p, at, Need{M: walk.Static(unmarshal), Idx: -1, Out: ErrNil, Where: func(p *walk.Path, k walk.Call) bool {
			return p.Same(p.Op(unwrap(p.Resolve(p.Arg(k, 1)).V), p.Resolve(p.Arg(k, 1))), rv)
		}})
		if !ok {
			c.bad(rule, key, p.Exit, "the returned session is not the object msgpack.Unmarshal succeeded on", p, at)
			return
		}
		src := p.Arg(uc, 0)
		if flag {
			lc, ok := extractOfCall(p, src, 0)
			if !ok || lc.C.StaticCallee() != lz4d {
				c.bad(rule, key, p.Exit, "with compressed=true the unmarshalled bytes are not lz4Decompress's output", p, at)
				return
			}
			if n, k := p.ResultNil(lc.DV(), 1, at); !(k && n) {
				c.bad(rule, key, p.Exit, "lz4Decompress's error is not known nil", p, at)
				return
			}
			src = p.Arg(lc, 0)
		}
		dc, ok := extractOfCall(p, src, 0)
		if !ok || !dc.C.IsInvoke() || !walk.SameMethod(dc.C.Method, decM) || p.Resolve(p.Recv(dc)).V != ssa.Value(dss.Params[1]) || p.Resolve(p.Arg(dc, 0)).V != ssa.Value(dss.Params[0]) {
			c.bad(rule, key, p.Exit, sprintf("with compressed=%v what is unmarshalled is not (the decompression of) c.Decrypt(data)", flag), p, at)
			return
		}
		if n, k := p.ResultNil(dc.DV(), 1, at); !(k && n) {
			c.bad(rule, key, p.Exit, "Decrypt's error is not known nil", p, at)
			return
		}
		c.ok(rule, key+sprintf("|compressed=%v", flag), p.Exit, "Decrypt -> [lz4 iff compressed] -> Unmarshal into the returned object")
	})
}

// ---- R2 -------------------------------------------------------------------------------------------

func runC10R2(c *Ctx, rule string) {
	sessT := c.P.Named("pkg/apis/sessions.SessionState")
	if sessT == nil {
		c.R.Unknown(rule, "anchor:SessionState", "-", "type not found")
		return
	}
	st := sessT.Underlying().(*types.Struct)
	reviewedSkip := map[string]string{
		"Clock": "test clock injected at run time, not session data",
		"Lock":  "store-specific lock handle, re-attached by the store on load",
	}
	seen := map[string]string{}
	for i := 0; i < st.NumFields(); i++ {
		f := st.Field(i)
		key := "field|" + f.Name()
		pos := c.P.Pos(f.Pos())
		tag, has := reflect.StructTag(st.Tag(i)).Lookup("msgpack")
		name := strings.Split(tag, ",")[0]
		switch {
		case !f.Exported():
			c.R.Bad(rule, key, pos, "SessionState field "+f.Name()+" is unexported: msgpack does not serialise it, a loaded session loses it", nil, nil)
		case name == "-":
			if why, ok := reviewedSkip[f.Name()]; ok {
				c.R.OK(rule, key, pos, "reviewed: "+why)
			} else {
				c.R.Bad(rule, key, pos, "SessionState field "+f.Name()+" is excluded from serialisation (msgpack:\"-\"): a loaded session loses it", nil, nil)
			}
		default:
			if !has || name == "" {
				name = f.Name()
			}
			if other, dup := seen[name]; dup {
				c.R.Bad(rule, key, pos, "SessionState fields "+other+" and "+f.Name()+" share the msgpack key "+name+": one overwrites the other on load", nil, nil)
			} else {
				seen[name] = f.Name()
				c.R.OK(rule, key, pos, "serialised under key "+name)
			}
		}
	}
}

// ---- R3 -------------------------------------------------------------------------------------------

// countsFromBy1: v is the loop counter phi(start, v+1) (possibly through the phi itself).
func countsFromBy1(v ssa.Value, start int64) bool {
	// range idiom of go/ssa: index = phi(start-1, index) + 1
	if add, ok := v.(*ssa.BinOp); ok && add.Op == token.ADD {
		if n, ok := ConstInt(add.Y); ok && n == 1 {
			if phi, ok := add.X.(*ssa.Phi); ok && len(phi.Edges) == 2 {
				for i, e := range phi.Edges {
					if k, ok := ConstInt(e); ok && k == start-1 && phi.Edges[1-i] == ssa.Value(add) {
						return true
					}
				}
			}
		}
		return false
	}
	phi, ok := v.(*ssa.Phi)
	if !ok {
		return false
	}
	seenStart, seenInc := false, false
	for _, e := range phi.Edges {
		if n, ok := ConstInt(e); ok && n == start {
			seenStart = true
			continue
		}
		if e == ssa.Value(phi) {
			continue // iteration that did not advance (loadCookie's failing lookup leaves the loop)
		}
		// v+1, possibly merged with v through another phi
		var isInc func(x ssa.Value, d int) bool
		isInc = func(x ssa.Value, d int) bool {
			if d > 3 {
				return false
			}
			if b, ok := x.(*ssa.BinOp); ok && b.Op == token.ADD {
				if n, ok := ConstInt(b.Y); ok && n == 1 && b.X == ssa.Value(phi) {
					return true
				}
			}
			if p2, ok := x.(*ssa.Phi); ok {
				all := true
				for _, e2 := range p2.Edges {
					if e2 != ssa.Value(phi) && !isInc(e2, d+1) {
						all = false
					}
				}
				return all
			}
			return false
		}
		if isInc(e, 0) {
			seenInc = true
			continue
		}
		return false
	}
	return seenStart && seenInc
}

func runC10R3(c *Ctx, rule string) {
	split := c.Fn(rule, "pkg/sessions/cookie.splitCookie")
	load := c.Fn(rule, "pkg/sessions/cookie.loadCookie")
	join := c.Fn(rule, "pkg/sessions/cookie.joinCookies")
	scn := c.Fn(rule, "pkg/sessions/cookie.splitCookieName")
	copyCookie := c.Fn(rule, "pkg/sessions/cookie.copyCookie")
	reqCookie := c.StdFunc(rule, "net/http.Request.Cookie")
	nameF := c.P.Field("net/http.Cookie.Name")
	valueF := c.P.Field("net/http.Cookie.Value")
	if split == nil || load == nil || join == nil || scn == nil || copyCookie == nil || reqCookie == nil || nameF == nil || valueF == nil {
		return
	}
	// splitter numbering
	n := 0
	for _, cs := range c.callersOf(scn) {
		fn := cs.Parent()
		if fn != split && fn != load {
			c.R.Bad(rule, "part-name-caller|"+fnKey(fn), c.pos(cs), "part names are derived in a third place: splitter and loader may disagree", nil, nil)
			continue
		}
		n++
		key := "part-numbering|" + fnKey(fn)
		a := cs.Common().Args
		var baseOK bool
		if fn == split {
			b, ok := walk.FieldLoadBase(unwrap0(a[0]), nameF)
			baseOK = ok && b == ssa.Value(split.Params[0])
		} else {
			baseOK = a[0] == ssa.Value(load.Params[1])
		}
		switch {
		case !baseOK:
			c.R.Bad(rule, key, c.pos(cs), "part names are not derived from the whole cookie's name", nil, nil)
		case !countsFromBy1(a[1], 0):
			c.R.Bad(rule, key, c.pos(cs), "part indices do not run 0, 1, 2, …: the other side looks for parts under different names", nil, nil)
		default:
			c.ok(rule, key, cs, "splitCookieName(name, i) with i = 0, 1, 2, …")
		}
	}
	if n < 2 {
		c.R.Unknown(rule, "part-numbering|count", "-", "splitter and loader do not both derive part names through splitCookieName")
	}
	// loader: unsplit first, otherwise joinCookies(parts, name)
	c.Walk(rule, load, func(p *walk.Path) {
		rv, ok := p.ReturnDV(0)
		if !ok || DefinitelyNil(p, rv, p.End()) {
			return
		}
		at := p.End()
		key := "loader-result|" + fnKey(load)
		if cl, ok := extractOfCall(p, rv, 0); ok {
			switch {
			case cl.C.StaticCallee() == reqCookie && p.Resolve(p.Arg(cl, 1)).V == ssa.Value(load.Params[1]):
				if nn, k := p.ResultNil(cl.DV(), 1, at); k && nn {
					c.ok(rule, key+"|unsplit", p.Exit, "returns the presented unsplit cookie")
					return
				}
			case cl.C.StaticCallee() == join && p.Resolve(p.Arg(cl, 1)).V == ssa.Value(load.Params[1]):
				c.ok(rule, key+"|joined", p.Exit, "returns joinCookies(parts, name)")
				return
			}
		}
		c.bad(rule, key, p.Exit, "loadCookie returns a cookie that is neither the presented unsplit cookie nor joinCookies(parts, name)", p, at)
	})
	// join: copy of part 0, values appended in index order from 1, named like the whole
	{
		key := "join-order|" + fnKey(join)
		okCopy, okAppend, okName := false, false, false
		for _, b := range join.Blocks {
			for _, in := range b.Instrs {
				switch v := in.(type) {
				case *ssa.Call:
					if v.Call.StaticCallee() == copyCookie {
						if idx, ok := indexLoad(unwrap0(v.Call.Args[0])); ok && idx == 0 {
							okCopy = true
						}
					}
				case *ssa.Store:
					fa, ok := v.Addr.(*ssa.FieldAddr)
					if !ok {
						continue
					}
					switch walk.FieldOf(fa.X.Type(), fa.Field) {
					case valueF:
						if add, ok := v.Val.(*ssa.BinOp); ok && add.Op == token.ADD {
							// c.Value + cookies[i].Value, i = 1, 2, …
							if base, ok := walk.FieldLoadBase(unwrap0(add.X), valueF); ok && base == fa.X {
								if ld, ok := unwrap0(add.Y).(*ssa.UnOp); ok {
									if fa2, ok := ld.X.(*ssa.FieldAddr); ok && walk.FieldOf(fa2.X.Type(), fa2.Field) == valueF {
										if el, ok := fa2.X.(*ssa.UnOp); ok {
											if ia, ok := el.X.(*ssa.IndexAddr); ok {
												switch x := ia.X.(type) {
												case *ssa.Parameter: // cookies[i], i = 1, 2, …
													okAppend = x == join.Params[0] && countsFromBy1(ia.Index, 1)
												case *ssa.Slice: // cookies[1:][j], j = 0, 1, …
													lo, isLo := ConstInt(x.Low)
													okAppend = x.X == ssa.Value(join.Params[0]) && x.Low != nil && isLo && lo == 1 && x.High == nil && countsFromBy1(ia.Index, 0)
												}
											}
										}
									}
								}
							}
						}
					case nameF:
						if v.Val == ssa.Value(join.Params[1]) {
							okName = true
						}
					}
				}
			}
		}
		if okCopy && okAppend && okName {
			c.ok(rule, key, join.Blocks[0].Instrs[0], "copy of part 0; value += parts[i].Value for i = 1, 2, …; named like the whole cookie")
		} else {
			c.R.Bad(rule, key, c.P.Pos(join.Pos()), sprintf("joinCookies no longer rebuilds the whole cookie as part0 ++ part1 ++ … under the whole cookie's name (copy of part 0: %v, in-order append from 1: %v, name restored: %v)", okCopy, okAppend, okName), nil, nil)
		}
	}
	// chunks are consecutive: value[:k] emitted, value[k:] carried on, same k, same value
	{
		key := "chunks-consecutive|" + fnKey(split)
		var heads, tails []*ssa.Slice
		for _, b := range split.Blocks {
			for _, in := range b.Instrs {
				if sl, ok := in.(*ssa.Slice); ok {
					if _, isBytes := sl.Type().Underlying().(*types.Slice); !isBytes {
						continue
					}
					switch {
					case sl.Low == nil && sl.High != nil:
						heads = append(heads, sl)
					case sl.Low != nil && sl.High == nil:
						tails = append(tails, sl)
					}
				}
			}
		}
		ok := len(heads) == 1 && len(tails) == 1 && heads[0].X == tails[0].X && heads[0].High == tails[0].Low
		if ok {
			c.ok(rule, key, heads[0], "emits value[:k] and continues with value[k:]")
		} else {
			c.R.Bad(rule, key, c.P.Pos(split.Pos()), "the splitter's chunks are not value[:k] followed by value[k:] of the same value at the same k: bytes are dropped or repeated between parts", nil, nil)
		}
	}
}

// ---- R4 -------------------------------------------------------------------------------------------

func runC10R4(c *Ctx, rule string) {
	save := c.Fn(rule, "(*pkg/sessions/cookie.SessionStore).Save")
	mkCookie := c.Fn(rule, "pkg/cookies.MakeCookieFromOptions") // the store's makeCookie wrapper, where it exists, is inlined
	setCookie := c.StdFunc(rule, "net/http.SetCookie")
	cookiesM := c.StdFunc(rule, "net/http.Request.Cookies")
	cnameF := c.Field(rule, "pkg/apis/options.Cookie.Name")
	nameF := c.P.Field("net/http.Cookie.Name")
	if save == nil || mkCookie == nil || setCookie == nil || cookiesM == nil || cnameF == nil || nameF == nil {
		return
	}
	// (i) necessary: some function statically reachable from Save reads the presented cookies
	reach := c.staticReach(save, 4)
	var readers []*ssa.Function
	for fn := range reach {
		for _, b := range fn.Blocks {
			for _, in := range b.Instrs {
				if call, ok := in.(*ssa.Call); ok && call.Call.StaticCallee() == cookiesM {
					readers = append(readers, fn)
				}
			}
		}
	}
	key := "save-reads-jar|" + fnKey(save)
	if len(readers) == 0 {
		c.R.Bad(rule, key, c.P.Pos(save.Pos()), "the loader consults cookie names (the unsplit name, every _N part) that a save of a different size does not overwrite, yet Save never looks at the cookies the browser presents: after [save small; save large] the old unsplit cookie is loaded instead of the new session, after [save huge; save large] surplus parts are joined onto the new value and nothing loads", nil, nil)
		return
	}
	c.R.OK(rule, key, c.P.Pos(save.Pos()), "Save reaches a reader of req.Cookies(): "+fnKey(readers[0]))
	// (i') the sweep is unconditional: every way out of the reader passed the jar read, and every successful
	// way out of each function between Save and the reader called the next one
	for _, fn := range readers {
		fn := fn
		c.Walk(rule, fn, func(p *walk.Path) {
			if _, ok := p.Exit.(*ssa.Return); !ok {
				return
			}
			key := "sweep-unconditional|" + fnKey(fn)
			if len(p.FindTop(walk.Static(cookiesM), p.End())) > 0 {
				c.ok(rule, key, p.Exit, "every return passed req.Cookies()")
			} else {
				c.bad(rule, key, p.Exit, "the stale-cookie sweep is skipped on this path (returns before looking at the presented cookies): leftovers of an earlier save survive exactly in the situations this path selects", p, p.End())
			}
		})
		for _, link := range callChain(c, save, fn, 4) {
			g, h := link[0], link[1]
			c.Walk(rule, g, func(p *walk.Path) {
				if _, ok := p.Exit.(*ssa.Return); !ok {
					return
				}
				if ri := errResultIndex(g.Signature); ri >= 0 {
					if rv, ok := p.ReturnDV(ri); ok && !DefinitelyNil(p, rv, p.End()) {
						return // failed save: nothing was written
					}
				}
				key := "sweep-reached|" + fnKey(g)
				if len(p.Find(walk.Static(h), p.End())) > 0 {
					c.ok(rule, key, p.Exit, "every successful return called "+fnKey(h))
				} else {
					c.bad(rule, key, p.Exit, fnKey(g)+" succeeds on a path that never reaches the stale-cookie sweep", p, p.End())
				}
			})
		}
	}
	// (ii) the reader expires every presented, matching, unwritten cookie
	for _, fn := range readers {
		fn := fn
		key := "expires-stale|" + fnKey(fn)
		var pattern ssa.Value
		if pc := findPatternCall(c, fn, 0); pc != nil {
			pattern = pc.Call.Args[0]
		}
		if pattern == nil {
			c.R.Bad(rule, key, c.P.Pos(fn.Pos()), "the stale-cookie sweep does not select cookies by the session-cookie name pattern", nil, nil)
			continue
		}
		if ok, why := clearPatternOK(pattern, cnameF); !ok {
			c.R.Bad(rule, key, c.P.Pos(fn.Pos()), "stale-cookie pattern: "+why, nil, nil)
			continue
		}
		n := 0
		bad := false
		c.Walk(rule, fn, func(p *walk.Path) {
			for _, sc := range p.Find(walk.Static(setCookie), p.End()) { // all frames: the expiry may sit in an extracted helper
				n++
				mc, ok := extractOfCall(p, p.Arg(sc, 1), 0)
				if !ok || mc.C.StaticCallee() != mkCookie {
					bad = true
					c.bad(rule, key, sc.In, "the sweep sends a cookie not built by MakeCookieFromOptions", p, sc.Idx)
					continue
				}
				v, isConst := ConstString(p.Resolve(p.Arg(mc, 2)).V)
				d, isDur := ConstInt(p.Resolve(p.Arg(mc, 4)).V)
				presented := elementOfCookies(p, p.Arg(mc, 1), nameF) != nil
				if !(isConst && v == "" && isDur && d < 0 && presented) {
					bad = true
					c.bad(rule, key, sc.In, "a stale cookie is not expired under its presented name with an empty value and a negative lifetime", p, sc.Idx)
				}
			}
		})
		if n == 0 {
			c.R.Bad(rule, key, c.P.Pos(fn.Pos()), "the function reads the presented cookies but never expires one", nil, nil)
		} else if !bad {
			c.R.OK(rule, key, c.P.Pos(fn.Pos()), "every presented cookie matching ^QuoteMeta(name)(_\\d+)?$ that was not just written is expired under its presented name")
		}
	}
}

// ---- R5 -------------------------------------------------------------------------------------------

func runC10R5(c *Ctx, rule string) {
	split := c.Fn(rule, "pkg/sessions/cookie.splitCookie")
	msc := c.Fn(rule, "(*pkg/sessions/cookie.SessionStore).makeSessionCookie")
	pk := c.P.Mod["pkg/sessions/cookie"]
	if split == nil || msc == nil || pk == nil {
		return
	}
	obj, _ := pk.Types.Scope().Lookup("maxCookieLength").(*types.Const)
	if obj == nil {
		c.R.Unknown(rule, "anchor:maxCookieLength", "-", "constant not found")
		return
	}
	max, _ := constant.Int64Val(obj.Val())
	if max > 0 && max <= 4096 {
		c.R.OK(rule, "threshold|maxCookieLength", c.P.Pos(obj.Pos()), sprintf("split threshold %d <= 4096", max))
	} else {
		c.R.Bad(rule, "threshold|maxCookieLength", c.P.Pos(obj.Pos()), sprintf("split threshold %d exceeds the 4096 bytes a browser accepts per cookie", max), nil, nil)
	}
	// measured(v, b): block b is dominated by an If comparing len(v.String()) with the threshold
	isMeasure := func(cond ssa.Value, cookie ssa.Value) bool {
		b, ok := cond.(*ssa.BinOp)
		if !ok {
			return false
		}
		for _, pair := range [][2]ssa.Value{{b.X, b.Y}, {b.Y, b.X}} {
			if n, ok := ConstInt(pair[1]); !ok || n != max {
				continue
			}
			if lc, ok := pair[0].(*ssa.Call); ok {
				if bi, ok := lc.Call.Value.(*ssa.Builtin); ok && bi.Name() == "len" {
					if sc, ok := lc.Call.Args[0].(*ssa.Call); ok && sc.Call.StaticCallee() != nil && sc.Call.StaticCallee().String() == "(*net/http.Cookie).String" && sc.Call.Args[0] == cookie {
						return true
					}
				}
			}
		}
		return false
	}
	measured := func(cookie ssa.Value, at *ssa.BasicBlock) bool {
		for _, b := range at.Parent().Blocks {
			if iff, ok := b.Instrs[len(b.Instrs)-1].(*ssa.If); ok && isMeasure(iff.Cond, cookie) && b.Dominates(at) {
				return true
			}
		}
		return false
	}
	// every chunk appended by the splitter was measured
	n := 0
	for _, b := range split.Blocks {
		for _, in := range b.Instrs {
			call, ok := in.(*ssa.Call)
			if !ok {
				continue
			}
			if bi, ok := call.Call.Value.(*ssa.Builtin); !ok || bi.Name() != "append" {
				continue
			}
			el := varargElem(call.Call.Args[1], 0)
			if el == nil || !isCookiePtr(el.Type()) {
				continue
			}
			n++
			key := "chunk-measured|" + fnKey(split)
			if measured(el, b) {
				c.ok(rule, key, in, "appended only after len(chunk.String()) was compared with the threshold")
			} else {
				c.R.Bad(rule, key, c.pos(in), "a chunk is emitted without having been measured against the split threshold", nil, nil)
			}
		}
	}
	if n == 0 {
		c.R.Unknown(rule, "chunk-measured|none", c.P.Pos(split.Pos()), "the splitter appends no chunk")
	}
	// the unsplit cookie is returned only when it did not exceed the threshold
	c.Walk(rule, msc, func(p *walk.Path) {
		rv, ok := p.ReturnDV(0)
		if !ok || DefinitelyNil(p, rv, p.End()) {
			return
		}
		key := "unsplit-measured|" + fnKey(msc)
		if cl, ok := extractOfCall(p, rv, 0); ok && cl.C.StaticCallee() == split {
			c.ok(rule, key+"|split", p.Exit, "returns splitCookie(c)")
			return
		}
		over := false
		known := false
		// the value measured must be len(<the returned cookie>.String())
		measuresReturned := func(a walk.Atom, x ssa.Value) bool {
			lc, ok := p.Resolve(p.Op(x, a.DV)).V.(*ssa.Call)
			if !ok {
				return false
			}
			if bi, ok := lc.Call.Value.(*ssa.Builtin); !ok || bi.Name() != "len" {
				return false
			}
			sc, ok := p.Resolve(p.Op(lc.Call.Args[0], p.Resolve(p.Op(x, a.DV)))).V.(*ssa.Call)
			if !ok || sc.Call.StaticCallee() == nil || sc.Call.StaticCallee().String() != "(*net/http.Cookie).String" {
				return false
			}
			el := varargElem(unwrap0(p.Resolve(rv).V), 0)
			return el != nil && sc.Call.Args[0] == el
		}
		for _, a := range p.Atoms(p.End()) {
			b, ok := a.DV.V.(*ssa.BinOp)
			if !ok || a.IsNil || !measuresReturned(a, b.X) {
				continue
			}
			if n, ok := ConstInt(b.Y); ok && n == max && (b.Op == token.GTR || b.Op == token.GEQ) {
				known, over = true, a.Val
			}
			if n, ok := ConstInt(b.Y); ok && n == max && (b.Op == token.LEQ || b.Op == token.LSS) {
				known, over = true, !a.Val
			}
		}
		if known && !over {
			c.ok(rule, key+"|single", p.Exit, "single cookie only when len(c.String()) did not exceed the threshold")
		} else {
			c.bad(rule, key, p.Exit, "an unsplit session cookie is emitted on a path where its length was not found within the threshold", p, p.End())
		}
	})
}

// ---- R7 -------------------------------------------------------------------------------------------

func runC10R7(c *Ctx, rule string) {
	enc := c.Fn(rule, "(*pkg/sessions/persistence.ticket).encodeTicket")
	decID := c.Fn(rule, "pkg/sessions/persistence.decodeTicketID")
	decSecret := c.Fn(rule, "pkg/sessions/persistence.decodeTicketSecret")
	idF := c.Field(rule, "pkg/sessions/persistence.ticket.id")
	secretF := c.Field(rule, "pkg/sessions/persistence.ticket.secret")
	if enc == nil || decID == nil || decSecret == nil || idF == nil || secretF == nil {
		return
	}
	// encoder: Sprintf("<tag>.%s.%s", enc(id), enc(secret))
	var format string
	var encAlphabet [2]string
	var fieldOrder [2]*types.Var
	okEnc := false
	// the two encoded operands and the format they are put into: Sprintf("<tag>.%s.%s", a, b) or "<tag>." + a + "." + b
	type encForm struct {
		format string
		elems  []ssa.Value
	}
	var forms []encForm
	for _, b := range enc.Blocks {
		for _, in := range b.Instrs {
			if call, ok := in.(*ssa.Call); ok && isStd(&call.Call, "fmt", "Sprintf") {
				if f, ok := ConstString(call.Call.Args[0]); ok {
					forms = append(forms, encForm{f, []ssa.Value{varargElem(call.Call.Args[1], 0), varargElem(call.Call.Args[1], 1)}})
				}
			}
			if ret, ok := in.(*ssa.Return); ok && len(ret.Results) > 0 {
				var flat []ssa.Value
				var rec func(v ssa.Value)
				rec = func(v ssa.Value) {
					if x, ok := v.(*ssa.BinOp); ok && x.Op == token.ADD {
						rec(x.X)
						rec(x.Y)
						return
					}
					flat = append(flat, v)
				}
				rec(ret.Results[0])
				if len(flat) == 4 {
					tag, ok1 := ConstString(flat[0])
					dot, ok2 := ConstString(flat[2])
					if ok1 && ok2 {
						forms = append(forms, encForm{tag + "%s" + dot + "%s", []ssa.Value{flat[1], flat[3]}})
					}
				}
			}
		}
	}
	for _, fm := range forms {
		{
			format = fm.format
			okEnc = true
			for i := int64(0); i < 2; i++ {
				el := fm.elems[i]
				if el == nil {
					okEnc = false
					continue
				}
				ec, ok := unwrap(el).(*ssa.Call)
				if !ok || ec.Call.StaticCallee() == nil || ec.Call.StaticCallee().Name() != "EncodeToString" {
					okEnc = false
					continue
				}
				encAlphabet[i] = globalLoad(ec.Call.Args[0])
				src := unwrap0(ec.Call.Args[1])
				if cv, ok := src.(*ssa.Convert); ok {
					src = unwrap0(cv.X)
				}
				for _, f := range []*types.Var{idF, secretF} {
					if base, ok := walk.FieldLoadBase(src, f); ok && base == ssa.Value(enc.Params[0]) {
						fieldOrder[i] = f
					}
				}
			}
		}
	}
	key := "encoder|" + fnKey(enc)
	parts := strings.Split(format, ".")
	if !okEnc || len(parts) != 3 || parts[1] != "%s" || parts[2] != "%s" || strings.Contains(parts[0], "%") || fieldOrder[0] != idF || fieldOrder[1] != secretF {
		c.R.Bad(rule, key, c.P.Pos(enc.Pos()), "encodeTicket is not \"<tag>.<base64 id>.<base64 secret>\" built from the ticket's own id and secret", nil, nil)
		return
	}
	c.ok(rule, key, enc.Blocks[0].Instrs[0], sprintf("%q with id, secret through %s", format, encAlphabet[0]))
	tag := parts[0]
	// decoders: on the 3-part branch with parts[0]==tag, decode parts[want] with the same alphabet
	check := func(fn *ssa.Function, want int64, alphabet string, what string) {
		key := "decoder|" + fnKey(fn)
		found := false
		good := false
		c.Walk(rule, fn, func(p *walk.Path) {
			rv, ok := p.ReturnDV(1)
			if !ok || !DefinitelyNil(p, rv, p.End()) {
				return
			}
			// which branch? the tag comparison is an atom of the path
			if !eqConstAtom(p, p.End(), true, tag, func(x walk.DV) bool {
				idx, ok := indexLoad(p.Resolve(x).V)
				return ok && idx == 0
			}) {
				return // legacy two-part format
			}
			found = true
			threeParts := false
			for _, a := range p.Atoms(p.End()) {
				if b, ok := a.DV.V.(*ssa.BinOp); ok && !a.IsNil && a.Val && (b.Op == token.EQL || b.Op == token.NEQ) {
					if n, ok := ConstInt(b.Y); ok && n == 3 {
						threeParts = true
					}
				}
			}
			for _, cl := range p.Calls() {
				sc := cl.C.StaticCallee()
				if sc == nil || sc.Name() != "DecodeString" {
					continue
				}
				idx, ok := indexLoad(p.Resolve(p.Arg(cl, 1)).V)
				if ok && idx == want && threeParts && globalLoad(cl.C.Args[0]) == alphabet {
					if n, k := p.ResultNil(cl.DV(), 1, p.End()); k && n {
						good = true
						return
					}
				}
			}
			good = false
			c.bad(rule, key, p.Exit, sprintf("for a %q ticket the %s is not decoded from part %d of 3 with the encoder's alphabet", tag, what, want), p, p.End())
		})
		switch {
		case !found:
			c.R.Bad(rule, key, c.P.Pos(fn.Pos()), sprintf("the decoder has no branch for the tag %q the encoder writes: a freshly saved ticket cannot be read back", tag), nil, nil)
		case good:
			c.R.OK(rule, key, c.P.Pos(fn.Pos()), sprintf("tag %q, 3 parts, %s = part %d, same alphabet", tag, what, want))
		}
	}
	check(decID, 1, encAlphabet[0], "id")
	check(decSecret, 2, encAlphabet[1], "secret")
}

// ---- R8 -------------------------------------------------------------------------------------------

// runC10R8: the session codec's stream plumbing is unbounded in both directions: whatever the
// compressor wrote the decompressor reads in full (no length-limited reader or copy), and the
// compressor's Close error is examined before its buffer is taken.
func runC10R8(c *Ctx, rule string) {
	roots := []*ssa.Function{
		c.Fn(rule, "pkg/apis/sessions.lz4Compress"),
		c.Fn(rule, "pkg/apis/sessions.lz4Decompress"),
		c.Fn(rule, "(*pkg/apis/sessions.SessionState).EncodeSessionState"),
		c.Fn(rule, "pkg/apis/sessions.DecodeSessionState"),
	}
	bounded := map[string]string{
		"io.LimitReader":           "reads at most n bytes and then reports a clean EOF",
		"io.CopyN":                 "copies at most n bytes",
		"io.ReadFull":              "fills a fixed-size buffer only",
		"io.ReadAtLeast":           "fills a fixed-size buffer only",
		"io.NewSectionReader":      "exposes a window of the data only",
		"(*bytes.Buffer).Truncate": "drops buffered data",
		"(*bytes.Buffer).Next":     "takes a bounded prefix",
		"(*bytes.Reader).Seek":     "skips data",
		"(*bytes.Buffer).Read":     "fills a fixed-size buffer only",
		"(*bytes.Reader).Read":     "fills a fixed-size buffer only",
	}
	seen := map[*ssa.Function]bool{}
	for _, root := range roots {
		if root == nil {
			continue
		}
		for fn := range c.staticReach(root, 3) {
			if seen[fn] || prog.Short(prog.FnPkg(fn).Path()) != "pkg/apis/sessions" {
				continue
			}
			seen[fn] = true
			for _, b := range fn.Blocks {
				for _, in := range b.Instrs {
					switch x := in.(type) {
					case ssa.CallInstruction:
						cc := x.Common()
						name := ""
						if sc := cc.StaticCallee(); sc != nil {
							name = sc.String()
						} else if cc.IsInvoke() {
							continue
						}
						if !strings.HasPrefix(name, "io.") && !strings.HasPrefix(name, "(*bytes.") && !strings.HasPrefix(name, "bytes.") {
							continue
						}
						key := "stream-call|" + fnKey(fn) + "|" + name
						if why, bad := bounded[name]; bad {
							c.R.Bad(rule, key, c.pos(in), "the session codec moves its data through "+name+", which "+why+": a session larger than the bound is silently truncated on one side and cannot be loaded", nil, nil)
						} else {
							c.ok(rule, key, in, "unbounded stream primitive")
						}
					case *ssa.Alloc:
						if pt, ok := x.Type().Underlying().(*types.Pointer); ok && strings.HasSuffix(pt.Elem().String(), "io.LimitedReader") {
							c.R.Bad(rule, "limited-reader|"+fnKey(fn), c.pos(in), "the session codec builds an io.LimitedReader: data beyond the limit is silently dropped", nil, nil)
						}
					}
				}
			}
		}
	}
	// the compressor's Close result is examined (a failed flush would leave a truncated stream)
	if comp := roots[0]; comp != nil {
		found := false
		c.Walk(rule, comp, func(p *walk.Path) {
			rv, ok := p.ReturnDV(0)
			if !ok || DefinitelyNil(p, rv, p.End()) {
				return
			}
			key := "close-checked|" + fnKey(comp)
			okClose := false
			for _, cl := range p.Calls() {
				if sc := cl.C.StaticCallee(); sc != nil && sc.Name() == "Close" {
					found = true
					if n, k := p.ResultNil(cl.DV(), -1, p.End()); k && n {
						okClose = true
					}
				}
			}
			if okClose {
				c.ok(rule, key, p.Exit, "compressed bytes are returned only after the writer's Close() returned nil")
			} else {
				c.bad(rule, key, p.Exit, "lz4Compress returns data on a path where the compressing writer was not closed successfully: the stream may lack its final block", p, p.End())
			}
		})
		if !found {
			c.R.Unknown(rule, "close-checked|none", c.P.Pos(comp.Pos()), "the compressor never closes its writer")
		}
	}
}

// callChain returns the (caller, callee) links of one shortest static call chain from src to dst.
func callChain(c *Ctx, src, dst *ssa.Function, depth int) [][2]*ssa.Function {
	type node struct {
		fn   *ssa.Function
		prev *node
	}
	seen := map[*ssa.Function]bool{src: true}
	queue := []*node{{src, nil}}
	for d := 0; d <= depth && len(queue) > 0; d++ {
		var next []*node
		for _, n := range queue {
			if n.fn == dst {
				var out [][2]*ssa.Function
				for m := n; m.prev != nil; m = m.prev {
					out = append([][2]*ssa.Function{{m.prev.fn, m.fn}}, out...)
				}
				return out
			}
			for _, b := range n.fn.Blocks {
				for _, in := range b.Instrs {
					if ci, ok := in.(ssa.CallInstruction); ok {
						if sc := ci.Common().StaticCallee(); sc != nil && c.P.InModule(sc) && !seen[sc] {
							seen[sc] = true
							next = append(next, &node{sc, n})
						}
					}
				}
			}
		}
		queue = next
	}
	return nil
}

// ---- R9 -------------------------------------------------------------------------------------------

// runC10R9: nothing on the load path caps the size of what is loaded. The loader hands Validate a
// synthetic cookie that is the concatenation of all parts, so any "larger than K" rejection between
// the jar and the decoded session turns every session beyond K into "nothing loads", while Save keeps
// emitting it. Upper-bound tests are recognised by shape: len(x) > K / len(x) >= K (or mirrored) with a
// constant K >= 256 in a function statically reachable from the cookie store's Load.
func runC10R9(c *Ctx, rule string) {
	load := c.Fn(rule, "(*pkg/sessions/cookie.SessionStore).Load")
	if load == nil {
		return
	}
	n := 0
	var fns []*ssa.Function
	for fn := range c.staticReach(load, 4) {
		fns = append(fns, fn)
	}
	// Cipher implementations are reached through an interface
	if decM := c.P.Method("pkg/encryption.Cipher.Decrypt"); decM != nil {
		for _, impl := range c.P.Implementations(decM) {
			if c.P.InModule(impl) {
				fns = append(fns, impl)
			}
		}
	}
	sort.Slice(fns, func(i, j int) bool { return fns[i].String() < fns[j].String() })
	seen := map[*ssa.Function]bool{}
	for _, fn := range fns {
		if seen[fn] || prog.Short(prog.FnPkg(fn).Path()) == "pkg/logger" {
			continue
		}
		seen[fn] = true
		n++
		capped := false
		for _, b := range fn.Blocks {
			for _, in := range b.Instrs {
				bo, ok := in.(*ssa.BinOp)
				if !ok {
					continue
				}
				var lenSide, constSide ssa.Value
				switch bo.Op {
				case token.GTR, token.GEQ:
					lenSide, constSide = bo.X, bo.Y
				case token.LSS, token.LEQ:
					lenSide, constSide = bo.Y, bo.X
				default:
					continue
				}
				k, isConst := ConstInt(constSide)
				lc, isCall := lenSide.(*ssa.Call)
				if !isConst || !isCall || k < 256 {
					continue
				}
				if bi, ok := lc.Call.Value.(*ssa.Builtin); !ok || bi.Name() != "len" {
					continue
				}
				capped = true
				c.R.Bad(rule, "size-cap|"+fnKey(fn), c.pos(in), sprintf("%s tests a length against the upper bound %d on the session load path: sessions beyond it are saved but can never be loaded", fnKey(fn), k), nil, nil)
			}
		}
		if !capped {
			c.R.OK(rule, "size-cap|"+fnKey(fn), c.P.Pos(fn.Pos()), "no upper-bound length test")
		}
	}
	if n == 0 {
		c.R.Unknown(rule, "size-cap|none", "-", "no function on the load path")
	}
}
