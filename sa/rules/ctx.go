// Package rules holds one file per property; each registers the structural rules that decide it.
package rules

import (
	"fmt"
	"go/constant"
	"go/token"
	"go/types"
	"sort"
	"strings"

	"golang.org/x/tools/go/ssa"

	"oapsa/internal/oblig"
	"oapsa/internal/prog"
	"oapsa/internal/walk"
)

// Ctx is what a property's rules see.
type Ctx struct {
	P    *prog.Program
	R    *oblig.Report
	Tier string

	anchors map[*ssa.Function]bool // functions the rules name: analysed modularly, never inlined
}

// Prop is a registered property.
type Prop struct {
	ID          string
	Explanation string // the structural condition decided
	NotDecided  string // behavioural clauses not decided
	Run         func(c *Ctx)
}

var Registry = map[string]*Prop{}

func register(p *Prop) { Registry[p.ID] = p }

// IDs returns the registered property ids, sorted.
func IDs() []string {
	var out []string
	for k := range Registry {
		out = append(out, k)
	}
	sort.Strings(out)
	return out
}

// ---- anchors: an unresolved anchor is an undecided obligation, never a silent pass ----------

func (c *Ctx) Fn(rule, name string) *ssa.Function {
	fn := c.P.Func(name)
	if fn == nil || len(fn.Blocks) == 0 {
		c.R.Unknown(rule, "anchor:"+name, "-", "anchor function "+name+" not found in the program")
		return nil
	}
	if c.anchors == nil {
		c.anchors = map[*ssa.Function]bool{}
	}
	c.anchors[fn] = true
	return fn
}

func (c *Ctx) Field(rule, qual string) *types.Var {
	f := c.P.Field(qual)
	if f == nil {
		c.R.Unknown(rule, "anchor:"+qual, "-", "anchor field "+qual+" not found")
	}
	return f
}

func (c *Ctx) Method(rule, qual string) *types.Func {
	m := c.P.Method(qual)
	if m == nil {
		c.R.Unknown(rule, "anchor:"+qual, "-", "anchor method "+qual+" not found")
	}
	return m
}

// StdFunc resolves a function or method of a non-module package, e.g. "net/http.Redirect",
// "net/http.Header.Del".
func (c *Ctx) StdFunc(rule, qual string) *ssa.Function {
	i := strings.LastIndex(qual, ".")
	pkgAndType := qual[:i]
	name := qual[i+1:]
	var fn *ssa.Function
	if pk := c.P.Pkg(pkgAndType); pk != nil {
		if o, ok := pk.Scope().Lookup(name).(*types.Func); ok {
			fn = c.P.SSA.FuncValue(o)
		}
	} else if m := c.P.Method(qual); m != nil {
		fn = c.P.SSA.FuncValue(m)
	}
	if fn == nil {
		c.R.Unknown(rule, "anchor:"+qual, "-", "anchor "+qual+" not found")
	}
	return fn
}

// Walk enumerates the paths of fn, accounting for them in the report. Overflow is undecided.
func (c *Ctx) Walk(rule string, fn *ssa.Function, visit func(p *walk.Path)) {
	c.walk(rule, fn, 2, visit)
}

// WalkShallow enumerates the paths of fn alone (no inlining): for enumeration-style rules that judge
// each function against its own results.
func (c *Ctx) WalkShallow(rule string, fn *ssa.Function, visit func(p *walk.Path)) {
	c.walk(rule, fn, 0, visit)
}

// noInlinePkgs: callees that never carry facts and only multiply paths.
var noInlinePkgs = map[string]bool{"pkg/logger": true, "pkg/app/pagewriter": true, "pkg/validation": true}

func (c *Ctx) walk(rule string, fn *ssa.Function, inline int, visit func(p *walk.Path)) {
	if fn == nil {
		return
	}
	w := walk.New(c.P, fn)
	if c.Tier == "thorough" {
		w.MaxVisit = 3 // two trips round every loop instead of one
	}
	w.InlineDepth = inline
	w.Inline = func(callee *ssa.Function) bool {
		// helpers are explored inline so that facts established inside them count; functions the rules
		// name (anchors) keep their own contract and are analysed modularly
		if c.anchors[callee] || noInlinePkgs[prog.Short(prog.FnPkg(callee).Path())] {
			return false
		}
		switch callee.Name() {
		case "ErrorPage", "SignInPage", "errorJSON", "String":
			return false
		}
		return true
	}
	w.MaxPaths = 60000
	w.Run(visit)
	if w.Overflow && inline > 0 {
		// too many interprocedural paths: fall back to the function alone
		c.R.Notes = append(c.R.Notes, "path cap reached with inlining in "+prog.Name(fn)+": re-analysed without inlining")
		w = walk.New(c.P, fn)
		if c.Tier == "thorough" {
			w.MaxVisit = 3
		}
		w.Run(visit)
	}
	c.R.Funcs[prog.Name(fn)] = true
	c.R.Paths += w.Paths
	c.R.Pruned += w.Pruned
	if w.Overflow {
		c.R.Unknown(rule, "path-cap:"+prog.Name(fn), c.P.Pos(fn.Pos()), "more than the path cap: undecided")
	}
}

func (c *Ctx) pos(in ssa.Instruction) string { return c.P.InstrPos(in) }

// bad records a violated obligation together with the offending path.
func (c *Ctx) bad(rule, key string, in ssa.Instruction, why string, p *walk.Path, at int) {
	var tr, as []string
	if p != nil {
		tr, as = p.BlockTrace(), p.Assumptions(at)
	}
	c.R.Bad(rule, key, c.pos(in), why, tr, as)
}

func (c *Ctx) ok(rule, key string, in ssa.Instruction, how string) {
	c.R.OK(rule, key, c.pos(in), how)
}

// ---- fact helpers ---------------------------------------------------------------------------

// Outcome of a call required by a rule.
type Outcome int

const (
	Called  Outcome = iota // merely executed
	ErrNil                 // result idx is nil
	NonNil                 // result idx is non-nil
	IsTrue                 // result idx is true
	IsFalse                // result idx is false
)

// Need is a fact: a call matching M, satisfying Where, executed before the sink with the outcome.
type Need struct {
	Name  string
	M     walk.Matcher
	Idx   int // result index (-1: single result)
	Out   Outcome
	Where func(p *walk.Path, c walk.Call) bool
}

// Has returns the first call before step at that establishes the fact.
func Has(p *walk.Path, at int, n Need) (walk.Call, bool) {
	for _, c := range p.Find(n.M, at) {
		if n.Where != nil && !n.Where(p, c) {
			continue
		}
		switch n.Out {
		case Called:
			return c, true
		case ErrNil:
			if v, k := p.ResultNil(c.DV(), n.Idx, at); k && v {
				return c, true
			}
		case NonNil:
			if v, k := p.ResultNil(c.DV(), n.Idx, at); k && !v {
				return c, true
			}
		case IsTrue:
			if v, k := p.ResultTruth(c.DV(), n.Idx, at); k && v {
				return c, true
			}
		case IsFalse:
			if v, k := p.ResultTruth(c.DV(), n.Idx, at); k && !v {
				return c, true
			}
		}
	}
	return walk.Call{}, false
}

// HasLast is Has, but returns the last call that establishes the fact (the one nearest to the sink).
func HasLast(p *walk.Path, at int, n Need) (walk.Call, bool) {
	var last walk.Call
	found := false
	calls := p.Find(n.M, at)
	for i := len(calls) - 1; i >= 0; i-- {
		c := calls[i]
		one := Need{M: func(_ *walk.Path, k walk.Call) bool { return k.Idx == c.Idx }, Idx: n.Idx, Out: n.Out, Where: n.Where}
		if got, ok := Has(p, at, one); ok {
			last, found = got, true
			break
		}
	}
	return last, found
}

// ResultIs reports whether dv is result idx of call c on this path.
func ResultIs(p *walk.Path, dv walk.DV, c walk.Call, idx int) bool {
	return p.Key(dv) == p.ResultKey(c.DV(), idx)
}

// sameValueOrSlot: the two values are the same value, or loads of the same memory slot (same address
// expression: same base value, same index/field) — e.g. routes[i] evaluated twice.
func sameValueOrSlot(p *walk.Path, a, b walk.DV) bool {
	if p.Same(a, b) {
		return true
	}
	ra, rb := p.Resolve(a), p.Resolve(b)
	ua, ok1 := ra.V.(*ssa.UnOp)
	ub, ok2 := rb.V.(*ssa.UnOp)
	if !ok1 || !ok2 || ua.Op != token.MUL || ub.Op != token.MUL {
		return false
	}
	switch ua.X.(type) {
	case *ssa.IndexAddr, *ssa.FieldAddr:
		return p.Key(p.Op(ua.X, ra)) == p.Key(p.Op(ub.X, rb))
	}
	return false
}

// DefinitelyNil: the value is the nil constant on this path (after phi/cell resolution) or assumed nil.
func DefinitelyNil(p *walk.Path, dv walk.DV, at int) bool {
	n, k := p.Nil(dv, at)
	return k && n
}

// ConstString returns the constant string value of v, if it is one.
func ConstString(v ssa.Value) (string, bool) {
	c, ok := v.(*ssa.Const)
	if !ok || c.Value == nil || c.Value.Kind() != constant.String {
		return "", false
	}
	return constant.StringVal(c.Value), true
}

// ConstInt returns the constant integer value of v, if it is one.
func ConstInt(v ssa.Value) (int64, bool) {
	c, ok := v.(*ssa.Const)
	if !ok || c.Value == nil || c.Value.Kind() != constant.Int {
		return 0, false
	}
	n, exact := constant.Int64Val(c.Value)
	return n, exact
}

// unwrap strips representation-preserving conversions.
func unwrap(v ssa.Value) ssa.Value {
	for {
		switch x := v.(type) {
		case *ssa.ChangeType:
			v = x.X
		case *ssa.ChangeInterface:
			v = x.X
		case *ssa.MakeInterface:
			v = x.X
		default:
			return v
		}
	}
}

// fieldLoadOn reports whether dv is a load of field f from base value `base` on this path.
func fieldLoadOn(p *walk.Path, dv walk.DV, f *types.Var, base walk.DV) bool {
	r := p.Resolve(dv)
	b, ok := walk.FieldLoadBase(r.V, f)
	if !ok {
		return false
	}
	// the FieldAddr is an operand of the load, the base an operand of the FieldAddr; both live in
	// blocks dominating the load, so Op gives the right instance
	var bdv walk.DV
	switch x := r.V.(type) {
	case *ssa.UnOp:
		fa := x.X.(*ssa.FieldAddr)
		bdv = p.Op(b, p.Op(fa, r))
	default:
		bdv = p.Op(b, r)
	}
	return p.Same(bdv, base)
}

// eqAtom looks for an assumed equality atom "X == const" (truth `want`) where X satisfies isX.
func eqConstAtom(p *walk.Path, at int, want bool, cst string, isX func(walk.DV) bool) bool {
	for _, a := range p.Atoms(at) {
		if a.IsNil || a.Val != want {
			continue
		}
		b, ok := a.DV.V.(*ssa.BinOp)
		if !ok || (b.Op != token.EQL && b.Op != token.NEQ) {
			continue
		}
		l, r := p.Resolve(p.Op(b.X, a.DV)), p.Resolve(p.Op(b.Y, a.DV))
		if s, ok := ConstString(r.V); ok && s == cst && isX(l) {
			return true
		}
		if s, ok := ConstString(l.V); ok && s == cst && isX(r) {
			return true
		}
	}
	return false
}

// loadAtom looks for an assumed boolean atom that is a load of field f (truth `want`).
func fieldBoolAtom(p *walk.Path, at int, f *types.Var, want bool) bool {
	for _, a := range p.Atoms(at) {
		if !a.IsNil && a.Val == want && walk.IsFieldLoad(a.DV.V, f) {
			return true
		}
	}
	return false
}

// callersOf lists the static call sites of fn in module functions.
func (c *Ctx) callersOf(fn *ssa.Function) []ssa.CallInstruction {
	var out []ssa.CallInstruction
	for _, f := range c.P.ModFns {
		for _, b := range f.Blocks {
			for _, in := range b.Instrs {
				if ci, ok := in.(ssa.CallInstruction); ok {
					if sc := ci.Common().StaticCallee(); sc != nil && sc == fn {
						out = append(out, ci)
					}
				}
			}
		}
	}
	return out
}

// funcValueUses lists non-call uses of fn as a value (method values, function values) in module functions.
func (c *Ctx) funcValueUses(fn *ssa.Function) []ssa.Instruction {
	var out []ssa.Instruction
	for _, f := range c.P.ModFns {
		for _, b := range f.Blocks {
			for _, in := range b.Instrs {
				for _, op := range in.Operands(nil) {
					if *op == nil {
						continue
					}
					v := *op
					if mc, ok := v.(*ssa.MakeClosure); ok {
						v = mc.Fn
					}
					g, ok := v.(*ssa.Function)
					if !ok {
						continue
					}
					if g == fn || (g.Synthetic != "" && strings.HasPrefix(g.Name(), fn.Name()+"$") && boundOf(g) == fn) {
						if ci, ok := in.(ssa.CallInstruction); ok && ci.Common().Value == *op {
							continue
						}
						out = append(out, in)
					}
				}
			}
		}
	}
	return out
}

// boundOf returns the method a $bound/$thunk wrapper forwards to.
func boundOf(w *ssa.Function) *ssa.Function {
	for _, b := range w.Blocks {
		for _, in := range b.Instrs {
			if ci, ok := in.(ssa.CallInstruction); ok {
				if sc := ci.Common().StaticCallee(); sc != nil {
					return sc
				}
			}
		}
	}
	return nil
}

// fieldRefs enumerates every FieldAddr/Field instruction on field f in module functions.
type fieldRef struct {
	Fn    *ssa.Function
	In    ssa.Instruction
	Kind  string // "store", "load", "addr" (address escapes), "lit" (composite literal init store)
	Store *ssa.Store
}

func (c *Ctx) fieldRefs(f *types.Var) []fieldRef {
	var out []fieldRef
	for _, fn := range c.P.ModFns {
		for _, b := range fn.Blocks {
			for _, in := range b.Instrs {
				switch x := in.(type) {
				case *ssa.FieldAddr:
					if walk.FieldOf(x.X.Type(), x.Field) != f {
						continue
					}
					for _, r := range *x.Referrers() {
						switch y := r.(type) {
						case *ssa.Store:
							if y.Addr == x {
								out = append(out, fieldRef{fn, y, "store", y})
							} else {
								out = append(out, fieldRef{fn, y, "addr", nil})
							}
						case *ssa.UnOp:
							if y.Op == token.MUL {
								out = append(out, fieldRef{fn, y, "load", nil})
							} else {
								out = append(out, fieldRef{fn, y, "addr", nil})
							}
						case *ssa.DebugRef:
						default:
							out = append(out, fieldRef{fn, r, "addr", nil})
						}
					}
				case *ssa.Field:
					if walk.FieldOf(x.X.Type(), x.Field) == f {
						out = append(out, fieldRef{fn, x, "load", nil})
					}
				}
			}
		}
	}
	return out
}

func fnKey(fn *ssa.Function) string { return prog.Name(fn) }

func sprintf(f string, a ...any) string { return fmt.Sprintf(f, a...) }

// funcHandedTo resolves the function value a caller hands to a callee as its LAST argument: a closure literal, a bound
// method value (s.method, through the $bound wrapper) or a plain function. Used instead of name anchors such as
// "(*Manager).Save$1", which disappear when a closure becomes a method value (neutral batch 8).
func (c *Ctx) funcHandedTo(rule string, caller, callee *ssa.Function) *ssa.Function {
	if caller == nil || callee == nil {
		return nil
	}
	for _, b := range caller.Blocks {
		for _, in := range b.Instrs {
			ci, ok := in.(ssa.CallInstruction)
			if !ok || ci.Common().StaticCallee() != callee || len(ci.Common().Args) == 0 {
				continue
			}
			v := unwrap0(ci.Common().Args[len(ci.Common().Args)-1])
			var fn *ssa.Function
			switch x := v.(type) {
			case *ssa.MakeClosure:
				fn, _ = x.Fn.(*ssa.Function)
			case *ssa.Function:
				fn = x
			}
			if fn != nil && fn.Synthetic != "" && len(fn.Blocks) > 0 { // $bound / $thunk wrapper
				if m := boundOf(fn); m != nil {
					fn = m
				}
			}
			if fn != nil && len(fn.Blocks) > 0 {
				if c.anchors == nil {
					c.anchors = map[*ssa.Function]bool{}
				}
				c.anchors[fn] = true
				return fn
			}
		}
	}
	c.R.Unknown(rule, "anchor:func-handed-to:"+prog.Name(callee), "-", "the function value "+prog.Name(caller)+" hands to "+prog.Name(callee)+" cannot be resolved")
	return nil
}
