package rules

import (
	"go/token"
	"go/types"
	"sort"
	"strings"

	"golang.org/x/tools/go/ssa"

	"oapsa/internal/prog"
	"oapsa/internal/walk"
)

func init() {
	register(&Prop{
		ID:          "C18",
		Explanation: "Decides where cookie attributes can come from: http.Cookie values are allocated only in MakeCookieFromOptions, copyCookie and the name validator; every argument of http.SetCookie derives from MakeCookieFromOptions (directly, through the makeCookie wrappers, splitCookie or copyCookie) and no Set-Cookie header is written by hand; in the constructor Path, HttpOnly, Secure, SameSite are wired from the same-named options (SameSite through ParseSameSite), Name and Value from the parameters, and Domain is GetCookieDomain(req, opts.Domains) or, only when that is empty and domains are configured, the last configured domain; GetCookieDomain returns an element of the list only under HasSuffix(request host, element), scanning in list order; fields of an existing cookie are stored only by the constructors, splitCookie (Name, Value) and joinCookies (Name, Value); copyCookie copies every attribute field of http.Cookie; deletions reuse the setter's name expression and options and the cookie store deletes each presented cookie under its presented name (shared with C11); validation sorts the configured domains longest-first and nothing reorders or writes that list afterwards. Added during the build: the request host is compared with cookie domains only after its port was removed, in the selector as in the warning helper (R6). Round 3: every WithContext/Clone of the inbound request keeps a context derived from its own Context() (R7). Round 4: request-reachable code never writes a field of the shared options.Cookie (R8, shared with C09.R9). Round 6: GetRequestHost returns the forwarded-host header value or req.Host itself, unmodified (R9); the Set-Cookie lines queued on a response are never deleted or reassigned by hand (under R1). Round 7: request handling keeps no state of its own between requests — no store, map update, in-place builtin, atomic/sync.Map write or pointer-receiver library call (singleflight, caches) reached from ServeHTTP targets a package-level variable, an object built at start-up, or a constructor variable captured by the handler it returned, declared in the packages implementing this property (RS; a class-wide who-may-write rule with zero instances today: a correct memoisation would be reported until reviewed). The session cookie is sent unsplit only where the length of its whole Set-Cookie line was found within the threshold (R10, shared with C10.R5). Round 8: X-Forwarded-Host is read only by the guarded accessor GetRequestHost — no middleware inspects, rewrites or drops it first (R11, shared with C16.R1).",
		NotDecided:  "the 4096-byte bound (arithmetic over sizes), suffix-match semantics of domain selection including host-with-port (values), what http.Cookie.String() emits.",
		Run:         runC18,
	})
}

func isCookiePtr(t types.Type) bool {
	pt, ok := t.Underlying().(*types.Pointer)
	return ok && pt.Elem().String() == "net/http.Cookie"
}

func runC18(c *Ctx) {
	c.R.Rule("RS-no-request-time-state", "request handling writes no state that outlives the request (package-level variables, objects built at start-up, constructor variables captured by handlers) declared in the packages implementing this property", 1)
	runStateless(c, "RS-no-request-time-state", "pkg/cookies", "pkg/sessions/cookie")
	r := c.R
	r.Rule("R1-single-constructor", "http.Cookie allocated only in the constructors; every SetCookie argument derives from MakeCookieFromOptions; no hand-written Set-Cookie", 9)
	r.Rule("R2-wiring", "constructor wires every attribute from its option; domain selection structure", 8)
	r.Rule("R3-no-later-rewrite", "cookie fields stored only by constructors, splitCookie/joinCookies (Name, Value); copyCookie copies all attributes", 27)
	r.Rule("R4-deletions", "deletions reuse name and options of the setters; cookie store deletes under the presented name", 8)
	r.Rule("R6-host-port-free", "the request host is compared with cookie domains only with its port removed (selector and warning helper agree)", 2)
	r.Rule("R7-request-context-kept", "every WithContext/Clone of the inbound request keeps a context derived from its own Context() (the request scope lives there)", 2)
	r.Rule("R8-cookie-options-frozen", "request-reachable code never writes a field of the shared options.Cookie, so the attributes every later cookie is built from stay the configured ones (shared with C09.R9)", 1)
	r.Rule("R9-request-host-verbatim", "the host the cookie domain is chosen for is the X-Forwarded-Host value or req.Host itself: GetRequestHost returns one of the two unmodified", 1)
	r.Rule("R10-size-bound", "the session cookie is sent unsplit only where the length of its whole Set-Cookie line was found within the threshold (<= 4096); every split part was measured the same way (shared with C10.R5, round 7)", 3)
	runC10R5(c, "R10-size-bound")
	r.Rule("R11-forwarded-host-only-through-accessor", "X-Forwarded-Host is read only by the guarded accessor GetRequestHost: no middleware inspects, rewrites or drops it before the cookie domain is chosen from it (shared with C16.R1, round 8)", 8)
	c.R.WithAlias(map[string]string{"R1-header-readers": "R11-forwarded-host-only-through-accessor"}, func() { runC16Body(c) })
	r.Rule("R5-domain-order", "validation sorts domains longest-first; the list is never reordered or written afterwards", 4)

	mk := c.Fn("R1-single-constructor", "pkg/cookies.MakeCookieFromOptions")
	copyCookie := c.Fn("R1-single-constructor", "pkg/sessions/cookie.copyCookie")
	splitCookie := c.Fn("R1-single-constructor", "pkg/sessions/cookie.splitCookie")
	joinCookies := c.Fn("R1-single-constructor", "pkg/sessions/cookie.joinCookies")
	setCookie := c.StdFunc("R1-single-constructor", "net/http.SetCookie")
	if mk == nil || copyCookie == nil || splitCookie == nil || joinCookies == nil || setCookie == nil {
		return
	}

	runCookieConstructorRule(c, "R1-single-constructor")
	rule := ""

	runC18R2(c, mk)
	runC18R6(c, "R6-host-port-free")
	runRequestContextKept(c, "R7-request-context-kept")
	runC09R9(c, "R8-cookie-options-frozen")
	runC18R9(c, "R9-request-host-verbatim")

	// ---- R3 ---------------------------------------------------------------------------------
	rule = "R3-no-later-rewrite"
	cookieT := c.P.Named("net/http.Cookie")
	if cookieT != nil {
		st := cookieT.Underlying().(*types.Struct)
		writers := map[string]map[string]bool{}
		for _, fn := range c.P.ModFns {
			for _, b := range fn.Blocks {
				for _, in := range b.Instrs {
					store, ok := in.(*ssa.Store)
					if !ok {
						continue
					}
					fa, ok := store.Addr.(*ssa.FieldAddr)
					if !ok || !isCookiePtr(fa.X.Type()) {
						continue
					}
					f := walk.FieldOf(fa.X.Type(), fa.Field).Name()
					if writers[fnKey(fn)] == nil {
						writers[fnKey(fn)] = map[string]bool{}
					}
					writers[fnKey(fn)][f] = true
					key := "field-store|" + fnKey(fn) + "|" + f
					switch {
					case fn == mk, fn == copyCookie, fnKey(fn) == "pkg/validation.validateCookieName":
						c.ok(rule, key, in, "constructor")
					case (fn == splitCookie || fn == joinCookies) && (f == "Name" || f == "Value"):
						c.ok(rule, key, in, "split/join rewrites only Name and Value of a copy")
					default:
						c.bad(rule, key, in, "cookie field "+f+" is rewritten after construction: the configured attribute no longer reaches the browser", nil, 0)
					}
				}
			}
		}
		// copyCookie completeness
		missing := ""
		for i := 0; i < st.NumFields(); i++ {
			f := st.Field(i)
			if !f.Exported() {
				continue
			}
			switch f.Name() {
			case "Name", "Value":
				continue
			}
			if !writers[fnKey(copyCookie)][f.Name()] {
				// fields added in newer Go versions that the constructor never sets are not attributes of ours
				if f.Name() == "Quoted" || f.Name() == "Partitioned" {
					continue
				}
				missing += " " + f.Name()
			}
		}
		if missing == "" {
			c.ok(rule, "copy-complete|"+fnKey(copyCookie), copyCookie.Blocks[0].Instrs[0], "copyCookie copies every attribute field (Path, Domain, Expires, MaxAge, Secure, HttpOnly, SameSite, ...)")
		} else {
			c.bad(rule, "copy-complete|"+fnKey(copyCookie), copyCookie.Blocks[0].Instrs[0], "copyCookie drops attribute(s):"+missing+" — split parts lose them", nil, 0)
		}
		// each copied field comes from the same field of the source
		okSame := true
		for _, b := range copyCookie.Blocks {
			for _, in := range b.Instrs {
				store, ok := in.(*ssa.Store)
				if !ok {
					continue
				}
				fa, ok := store.Addr.(*ssa.FieldAddr)
				if !ok || !isCookiePtr(fa.X.Type()) {
					continue
				}
				ld, ok := store.Val.(*ssa.UnOp)
				if !ok {
					okSame = false
					continue
				}
				fa2, ok := ld.X.(*ssa.FieldAddr)
				if !ok || fa2.Field != fa.Field || fa2.X != copyCookie.Params[0] {
					okSame = false
					c.bad(rule, "copy-same-field|"+fnKey(copyCookie), in, "copyCookie fills "+walk.FieldOf(fa.X.Type(), fa.Field).Name()+" from a different field or source", nil, 0)
				}
			}
		}
		if okSame {
			c.ok(rule, "copy-same-field|"+fnKey(copyCookie), copyCookie.Blocks[0].Instrs[0], "every field is copied from the same field of the source cookie")
		}
	}

	// ---- R4 ---------------------------------------------------------------------------------
	// shared with C11: run those rules under this property's rule name
	runC11R3R4(c, "R4-deletions", "R4-deletions")

	runDomainOrderRule(c, "R5-domain-order")
}

// derivesWithAppend handles the builtin append before the generic derivation.
func derivesWithAppend(v ssa.Value, derives func(ssa.Value, int) string) string {
	return derives(v, 0)
}

// comparatorLongestFirst: the less function returns len(x[i]) > len(x[j]).
func comparatorLongestFirst(fn *ssa.Function) bool {
	if len(fn.Blocks) == 0 || len(fn.Params) != 2 {
		return false
	}
	for _, b := range fn.Blocks {
		ret, ok := b.Instrs[len(b.Instrs)-1].(*ssa.Return)
		if !ok {
			continue
		}
		bo, ok := ret.Results[0].(*ssa.BinOp)
		if !ok {
			return false
		}
		idx := func(v ssa.Value) ssa.Value {
			call, ok := v.(*ssa.Call)
			if !ok {
				return nil
			}
			if bi, ok := call.Call.Value.(*ssa.Builtin); !ok || bi.Name() != "len" {
				return nil
			}
			ld, ok := call.Call.Args[0].(*ssa.UnOp)
			if !ok {
				return nil
			}
			ia, ok := ld.X.(*ssa.IndexAddr)
			if !ok {
				return nil
			}
			return ia.Index
		}
		l, r := idx(bo.X), idx(bo.Y)
		switch bo.Op {
		case token.GTR:
			return l == fn.Params[0] && r == fn.Params[1]
		case token.LSS:
			return l == fn.Params[1] && r == fn.Params[0]
		}
		return false
	}
	return false
}

// mutatesSlice: the slice value (or an alias passed to a helper) is sorted, written into or used as a copy destination.
func mutatesSlice(c *Ctx, v ssa.Value, depth int) string {
	if depth > 2 {
		return ""
	}
	for _, ref := range *v.Referrers() {
		switch x := ref.(type) {
		case *ssa.IndexAddr:
			for _, r2 := range *x.Referrers() {
				if st, ok := r2.(*ssa.Store); ok && st.Addr == x {
					return "written into"
				}
			}
		case *ssa.Phi, *ssa.ChangeType, *ssa.Slice:
			if sl, ok := x.(*ssa.Slice); ok && sl.High != nil && sl.Max == nil && appendsInto(sl, 0) {
				// s[:k] keeps the capacity of s: append then overwrites the elements of s behind k (the "filter in place" idiom)
				return "overwritten by append into a shortened alias of it"
			}
			if why := mutatesSlice(c, x.(ssa.Value), depth); why != "" {
				return why
			}
		case *ssa.Call:
			if sc := x.Call.StaticCallee(); sc != nil {
				if sc.Pkg != nil && (sc.Pkg.Pkg.Path() == "sort" || sc.Pkg.Pkg.Path() == "slices") {
					switch sc.Name() {
					case "Slice", "SliceStable", "Strings", "Sort", "Stable", "SortFunc", "SortStableFunc", "Reverse":
						return "reordered (" + sc.Pkg.Pkg.Path() + "." + sc.Name() + ")"
					}
				}
				if c.P.InModule(sc) {
					for i, a := range x.Call.Args {
						if a == v && i < len(sc.Params) {
							if why := mutatesSlice(c, sc.Params[i], depth+1); why != "" {
								return why + " in " + prog.Name(sc)
							}
						}
					}
				}
			}
			if bi, ok := x.Call.Value.(*ssa.Builtin); ok && bi.Name() == "copy" && x.Call.Args[0] == v {
				return "overwritten by copy"
			}
		case *ssa.MakeInterface:
			if why := mutatesSlice(c, x, depth); why != "" {
				return why
			}
		case *ssa.Store:
			// spilled to a local cell (a parameter captured by a closure): follow the cell's loads
			if al, ok := x.Addr.(*ssa.Alloc); ok && x.Val == v {
				for _, r2 := range *al.Referrers() {
					if ld, ok := r2.(*ssa.UnOp); ok && ld.Op == token.MUL {
						if why := mutatesSlice(c, ld, depth); why != "" {
							return why
						}
					}
				}
			}
		}
	}
	return ""
}

// appendsInto: v (or a phi merging it with append results) is the first argument of an append.
func appendsInto(v ssa.Value, depth int) bool {
	if depth > 2 || v.Referrers() == nil {
		return false
	}
	for _, ref := range *v.Referrers() {
		switch x := ref.(type) {
		case *ssa.Call:
			if bi, ok := x.Call.Value.(*ssa.Builtin); ok && bi.Name() == "append" && len(x.Call.Args) > 0 && x.Call.Args[0] == v {
				return true
			}
		case *ssa.Phi:
			if appendsInto(x, depth+1) {
				return true
			}
		}
	}
	return false
}

func runC18R2(c *Ctx, mk *ssa.Function) {
	rule := "R2-wiring"
	optT := map[string]string{"Path": "Path", "HttpOnly": "HTTPOnly", "Secure": "Secure"}
	parseSameSite := c.Fn(rule, "pkg/cookies.ParseSameSite")
	getDomain := c.Fn(rule, "pkg/cookies.GetCookieDomain")
	domainsF := c.Field(rule, "pkg/apis/options.Cookie.Domains")
	sameSiteF := c.Field(rule, "pkg/apis/options.Cookie.SameSite")
	getHost := c.Fn(rule, "pkg/requests/util.GetRequestHost")
	if parseSameSite == nil || getDomain == nil || domainsF == nil || sameSiteF == nil || getHost == nil {
		return
	}
	opts := mk.Params[3]
	c.Walk(rule, mk, func(p *walk.Path) {
		rv, ok := p.ReturnDV(0)
		if !ok {
			return
		}
		al, ok := p.Resolve(rv).V.(*ssa.Alloc)
		if !ok {
			c.bad(rule, "returns-literal|"+fnKey(mk), p.Exit, "the constructor does not return its own cookie literal", p, p.End())
			return
		}
		stored := map[string]walk.DV{}
		for _, s := range p.Steps {
			st, ok := s.In.(*ssa.Store)
			if !ok {
				continue
			}
			fa, ok := st.Addr.(*ssa.FieldAddr)
			if !ok || fa.X != al {
				continue
			}
			stored[walk.FieldOf(fa.X.Type(), fa.Field).Name()] = p.StepOp(st.Val, s)
		}
		check := func(field string, ok bool, how string) {
			key := "attr|" + field
			if ok {
				c.ok(rule, key, p.Exit, how)
			} else {
				c.bad(rule, key, p.Exit, "cookie attribute "+field+" is not wired from its configuration: "+how+" expected", p, p.End())
			}
		}
		for cf, of := range optT {
			v, has := stored[cf]
			f := c.P.Field("pkg/apis/options.Cookie." + of)
			check(cf, has && f != nil && fieldLoadOn(p, v, f, walk.DV{V: opts}), cf+" = opts."+of)
		}
		if v, has := stored["Name"]; true {
			check("Name", has && p.Resolve(v).V == mk.Params[1], "Name = name parameter")
		}
		if v, has := stored["Value"]; true {
			check("Value", has && p.Resolve(v).V == mk.Params[2], "Value = value parameter")
		}
		if v, has := stored["SameSite"]; true {
			okS := false
			if has {
				if cl, ok := extractOfCall(p, v, 0); ok && cl.C.StaticCallee() == parseSameSite && fieldLoadOn(p, p.Arg(cl, 0), sameSiteF, walk.DV{V: opts}) {
					okS = true
				}
			}
			check("SameSite", okS, "SameSite = ParseSameSite(opts.SameSite)")
		}
		// Domain
		if v, has := stored["Domain"]; true {
			okD, how := false, "Domain = GetCookieDomain(req, opts.Domains), or the last configured domain only when that is empty and domains exist"
			if has {
				rd := p.Resolve(v)
				if cl, ok := extractOfCall(p, rd, 0); ok && cl.C.StaticCallee() == getDomain && p.Resolve(p.Arg(cl, 0)).V == mk.Params[0] && fieldLoadOn(p, p.Arg(cl, 1), domainsF, walk.DV{V: opts}) {
					okD = true
				} else if u, ok := rd.V.(*ssa.UnOp); ok {
					// opts.Domains[len(opts.Domains)-1] under GetCookieDomain(...)=="" && len>0
					if ia, ok := u.X.(*ssa.IndexAddr); ok && walk.IsFieldLoad(ia.X, domainsF) {
						lastIdx := false
						if bo, ok := ia.Index.(*ssa.BinOp); ok && bo.Op == token.SUB {
							if n, ok := ConstInt(bo.Y); ok && n == 1 {
								if call, ok := bo.X.(*ssa.Call); ok {
									if bi, ok := call.Call.Value.(*ssa.Builtin); ok && bi.Name() == "len" && walk.IsFieldLoad(call.Call.Args[0], domainsF) {
										lastIdx = true
									}
								}
							}
						}
						emptyMatch := eqConstAtom(p, p.End(), true, "", func(x walk.DV) bool {
							cl, ok := extractOfCall(p, x, 0)
							return ok && cl.C.StaticCallee() == getDomain
						})
						if lastIdx && emptyMatch {
							okD = true
						}
					}
				}
			}
			check("Domain", okD, how)
		}
	})
	// GetCookieDomain: returns an element only under HasSuffix(GetRequestHost(req), element); first match in order
	c.Walk(rule, getDomain, func(p *walk.Path) {
		rv, ok := p.ReturnDV(0)
		if !ok {
			return
		}
		r := p.Resolve(rv)
		if s, ok := ConstString(r.V); ok && s == "" {
			return
		}
		key := "domain-choice|" + fnKey(getDomain)
		u, ok := r.V.(*ssa.UnOp)
		okElem := false
		if ok {
			if ia, ok := u.X.(*ssa.IndexAddr); ok && ia.X == getDomain.Params[1] {
				okElem = true
			}
		}
		if !okElem {
			c.bad(rule, key, p.Exit, "GetCookieDomain returns something other than an element of the configured list or \"\"", p, p.End())
			return
		}
		okSuffix := false
		for _, cl := range p.Calls() {
			if isStd(cl.C, "strings", "HasSuffix") && p.Same(p.Arg(cl, 1), r) {
				if b, k := p.ResultTruth(cl.DV(), -1, p.End()); k && b {
					hostArg := p.Arg(cl, 0)
					if sp, ok := extractOfCall(p, hostArg, 0); ok && isStd(sp.C, "net", "SplitHostPort") {
						hostArg = p.Arg(sp, 0) // the host part of GetRequestHost(req) (port removal is R6's concern)
					}
					if hc, ok := extractOfCall(p, hostArg, 0); ok && hc.C.StaticCallee() == getHost {
						okSuffix = true
					}
				}
			}
		}
		// no earlier element was skipped although it matched: every earlier HasSuffix on the path is false
		inOrder := true
		for _, cl := range p.Calls() {
			if isStd(cl.C, "strings", "HasSuffix") && !p.Same(p.Arg(cl, 1), r) {
				if b, k := p.ResultTruth(cl.DV(), -1, p.End()); !(k && !b) {
					inOrder = false
				}
			}
		}
		if okSuffix && inOrder {
			c.ok(rule, key, p.Exit, "first element (list order = longest first) with HasSuffix(GetRequestHost(req), element)")
		} else {
			c.bad(rule, key, p.Exit, "the cookie domain is chosen without the suffix test on the request host, or not as the first match in list order", p, p.End())
		}
	})
}

// runCookieConstructorRule: cookies are allocated only in the constructors and every SetCookie argument
// derives from them (C18.R1, also C09: the constructors are what carries Max-Age).
func runCookieConstructorRule(c *Ctx, rule string) {
	mk := c.Fn(rule, "pkg/cookies.MakeCookieFromOptions")
	copyCookie := c.Fn(rule, "pkg/sessions/cookie.copyCookie")
	setCookie := c.StdFunc(rule, "net/http.SetCookie")
	if mk == nil || copyCookie == nil || setCookie == nil {
		return
	}
	allowedAlloc := map[string]string{
		"pkg/cookies.MakeCookieFromOptions": "the constructor",
		"pkg/sessions/cookie.copyCookie":    "attribute-preserving copy",
		"pkg/validation.validateCookieName": "name validation only, never sent",
	}
	for _, fn := range c.P.ModFns {
		for _, b := range fn.Blocks {
			for _, in := range b.Instrs {
				al, ok := in.(*ssa.Alloc)
				if !ok || !isCookiePtr(al.Type()) {
					continue
				}
				key := "alloc|" + fnKey(fn)
				if why, ok := allowedAlloc[fnKey(fn)]; ok {
					c.ok(rule, key, in, why)
				} else {
					c.bad(rule, key, in, "an http.Cookie is constructed outside MakeCookieFromOptions/copyCookie: its attributes are not derived from the cookie options", nil, 0)
				}
			}
		}
	}
	// SetCookie arguments
	var derives func(v ssa.Value, depth int) string
	seenFn := map[*ssa.Function]bool{}
	seenV := map[ssa.Value]bool{}
	derives = func(v ssa.Value, depth int) string {
		if depth > 40 {
			return "a derivation too deep to decide"
		}
		v = unwrap0(v)
		if seenV[v] {
			return "" // already being examined on this derivation (loop-carried value)
		}
		seenV[v] = true
		defer delete(seenV, v)
		if call, ok := v.(*ssa.Call); ok {
			if bi, ok := call.Call.Value.(*ssa.Builtin); ok && bi.Name() == "append" {
				for _, a := range call.Call.Args {
					if why := derives(a, depth+1); why != "" {
						return why
					}
				}
				return ""
			}
		}
		switch x := v.(type) {
		case *ssa.Call:
			sc := x.Call.StaticCallee()
			if sc == mk || sc == copyCookie {
				return ""
			}
			if sc != nil && c.P.InModule(sc) {
				if seenFn[sc] {
					return ""
				}
				seenFn[sc] = true
				defer delete(seenFn, sc)
				for _, b := range sc.Blocks {
					if ret, ok := b.Instrs[len(b.Instrs)-1].(*ssa.Return); ok && len(ret.Results) > 0 {
						if why := derives(ret.Results[0], depth+1); why != "" {
							return why
						}
					}
				}
				return ""
			}
			return "the result of " + walk.CalleeName(&x.Call)
		case *ssa.Extract:
			return derives(x.Tuple, depth+1)
		case *ssa.Phi:
			for _, e := range x.Edges {
				if why := derives(e, depth+1); why != "" {
					return why
				}
			}
			return ""
		case *ssa.UnOp:
			// element of a []*http.Cookie
			if ia, ok := x.X.(*ssa.IndexAddr); ok {
				return derives(ia.X, depth+1)
			}
			if al, ok := x.X.(*ssa.Alloc); ok {
				for _, st := range storesTo(al) {
					if why := derives(st.Val, depth+1); why != "" {
						return why
					}
				}
				return ""
			}
		case *ssa.Slice:
			// slice literal backing array: every stored element
			if al, ok := x.X.(*ssa.Alloc); ok {
				for _, ref := range *al.Referrers() {
					if ia, ok := ref.(*ssa.IndexAddr); ok {
						for _, r2 := range *ia.Referrers() {
							if st, ok := r2.(*ssa.Store); ok && st.Addr == ia {
								if why := derives(st.Val, depth+1); why != "" {
									return why
								}
							}
						}
					}
				}
				return ""
			}
			return derives(x.X, depth+1)
		case *ssa.Parameter:
			// parameter of a helper: every call site
			fn := x.Parent()
			idx := -1
			for i, q := range fn.Params {
				if q == x {
					idx = i
				}
			}
			callers := c.callersOf(fn)
			if idx < 0 || len(callers) == 0 {
				return "a parameter of " + prog.Name(fn) + " whose callers cannot be enumerated"
			}
			for _, cs := range callers {
				if why := derives(cs.Common().Args[idx], depth+1); why != "" {
					return why
				}
			}
			return ""
		case *ssa.Alloc:
			if isCookiePtr(x.Type()) {
				if _, ok := allowedAlloc[fnKey(x.Parent())]; ok {
					return ""
				}
			}
		case *ssa.Const:
			return ""
		}
		// append(...) of cookie slices
		if call, ok := v.(*ssa.Call); ok {
			if bi, ok := call.Call.Value.(*ssa.Builtin); ok && bi.Name() == "append" {
				for _, a := range call.Call.Args {
					if why := derives(a, depth+1); why != "" {
						return why
					}
				}
				return ""
			}
		}
		return "an unrecognised origin (" + v.String() + ")"
	}
	for _, cs := range c.callersOf(setCookie) {
		c.R.CallSites++
		key := "setcookie|" + fnKey(cs.Parent())
		arg := cs.Common().Args[1]
		// builtin append shows up as Call with Builtin value: handle through derives
		if why := derivesWithAppend(arg, derives); why == "" {
			c.ok(rule, key, cs, "the cookie derives from MakeCookieFromOptions")
		} else {
			c.bad(rule, key, cs, "a cookie is sent that derives from "+why+": it does not carry the configured attributes", nil, 0)
		}
	}
	runQueuedCookiesUntouched(c, rule)

}

// runC18R6: the request host is compared with cookie domains only after its port was removed
// (sibling agreement: the warning helper strips the port, the selector must too — cookies have no port).
func runC18R6(c *Ctx, rule string) {
	getHost := c.Fn(rule, "pkg/requests/util.GetRequestHost")
	splitHP := c.StdFunc(rule, "net.SplitHostPort")
	if getHost == nil || splitHP == nil {
		return
	}
	n := 0
	for _, fn := range c.P.ModFns {
		if prog.Short(prog.FnPkg(fn).Path()) != "pkg/cookies" {
			continue
		}
		// functions that compare strings and can reach GetRequestHost (directly or through a helper)
		compares := false
		for _, b := range fn.Blocks {
			for _, in := range b.Instrs {
				if call, ok := in.(*ssa.Call); ok && (isStd(&call.Call, "strings", "HasSuffix") || isStd(&call.Call, "strings", "HasPrefix") || isStd(&call.Call, "strings", "EqualFold")) {
					compares = true
				}
			}
		}
		if !compares || !c.staticReach(fn, 2)[getHost] {
			continue
		}
		fn := fn
		c.Walk(rule, fn, func(p *walk.Path) {
			for _, cl := range p.Calls() {
				if !(isStd(cl.C, "strings", "HasSuffix") || isStd(cl.C, "strings", "HasPrefix") || isStd(cl.C, "strings", "EqualFold")) {
					continue
				}
				host := p.Resolve(p.Arg(cl, 0))
				key := "host-compare|" + fnKey(fn)
				// (a) host = SplitHostPort(GetRequestHost(req))#0 with err == nil
				if sp, ok := extractOfCall(p, host, 0); ok && sp.C.StaticCallee() == splitHP {
					if gh, ok := extractOfCall(p, p.Arg(sp, 0), 0); ok && gh.C.StaticCallee() == getHost {
						if nn, k := p.ResultNil(sp.DV(), 2, cl.Idx); k && nn {
							n++
							c.ok(rule, key, cl.In, "compares SplitHostPort(GetRequestHost(req)) host part")
							continue
						}
					}
				}
				// (b) host = GetRequestHost(req) on a path where SplitHostPort(host) failed: there is no port
				if gh, ok := extractOfCall(p, host, 0); ok && gh.C.StaticCallee() == getHost {
					stripped := false
					for _, sp := range p.Find(walk.Static(splitHP), cl.Idx) {
						if p.Same(p.Arg(sp, 0), host) {
							if nn, k := p.ResultNil(sp.DV(), 2, cl.Idx); k && !nn {
								stripped = true
							}
						}
					}
					n++
					if stripped {
						c.ok(rule, key+"|no-port", cl.In, "SplitHostPort found no port on this path")
					} else {
						c.bad(rule, key, cl.In, "the request host is compared with a cookie domain without removing its port: for \"app.example.com:4180\" no configured domain matches and the fallback (shortest) domain is used instead of the longest matching one", p, cl.Idx)
					}
					continue
				}
			}
		})
	}
	if n == 0 {
		c.R.Unknown(rule, "host-compare|none", "-", "no comparison of the request host with a cookie domain found in pkg/cookies")
	}
}

// runDomainOrderRule: validation sorts the cookie domains longest-first and nobody reorders or writes
// the shared list afterwards (C18.R5, also C11: setter and deleter pick the same domain only if the
// order they both rely on is stable).
func runDomainOrderRule(c *Ctx, rule string) {
	validate := c.Fn(rule, "pkg/validation.validateCookie")
	domainsF := c.Field(rule, "pkg/apis/options.Cookie.Domains")
	if validate != nil && domainsF != nil {
		sorted := false
		for _, b := range validate.Blocks {
			for _, in := range b.Instrs {
				call, ok := in.(*ssa.Call)
				if !ok || !isStd(&call.Call, "sort", "Slice") {
					continue
				}
				if !isFieldLoadOrValue(unwrap(call.Call.Args[0]), domainsF) {
					continue
				}
				// comparator: len(d[i]) > len(d[j])
				var cmp *ssa.Function
				switch x := unwrap0(call.Call.Args[1]).(type) {
				case *ssa.MakeClosure:
					cmp = x.Fn.(*ssa.Function)
				case *ssa.Function:
					cmp = x
				}
				if cmp != nil && comparatorLongestFirst(cmp) {
					sorted = true
					c.ok(rule, "sorted|"+fnKey(validate), in, "sort.Slice(o.Domains, len(d[i]) > len(d[j])): longest first")
				} else {
					c.bad(rule, "sorted|"+fnKey(validate), in, "cookie domains are not sorted longest-first: a shorter domain shadows a more specific one", nil, 0)
				}
			}
		}
		if !sorted {
			c.bad(rule, "sorted|"+fnKey(validate), validate.Blocks[0].Instrs[0], "validation no longer sorts the cookie domains longest-first", nil, 0)
		}
		// nobody else reorders or writes the list
		n := 0
		for _, fn := range c.P.ModFns {
			pk := prog.Short(prog.FnPkg(fn).Path())
			if fn == validate || strings.HasPrefix(pk, "pkg/apis/options") {
				continue
			}
			for _, b := range fn.Blocks {
				for _, in := range b.Instrs {
					ld, ok := in.(*ssa.UnOp)
					if !ok || !walk.IsFieldLoad(ld, domainsF) {
						continue
					}
					n++
					if why := mutatesSlice(c, ld, 0); why != "" {
						c.bad(rule, "mutated|"+fnKey(fn), in, "the configured cookie-domain list is "+why+" after validation: the longest-first order the domain choice relies on is lost for later requests", nil, 0)
					} else {
						c.ok(rule, "read-only|"+fnKey(fn), in, "read-only use of the domain list")
					}
				}
			}
		}
		for _, ref := range c.fieldRefs(domainsF) {
			if ref.Kind == "store" && !strings.HasPrefix(prog.Short(prog.FnPkg(ref.Fn).Path()), "pkg/apis/options") {
				c.bad(rule, "field-store|"+fnKey(ref.Fn), ref.In, "Cookie.Domains is reassigned outside option loading", nil, 0)
			}
		}
		if n == 0 {
			c.R.Unknown(rule, "readers", "-", "no reader of Cookie.Domains found")
		}
	}
}

// runRequestContextKept: the per-request scope (reverse-proxy flag, request id, session) lives in the
// request's context. Every (*http.Request).WithContext / Clone in request-handling module code is given
// a context derived from that same request's Context() — through context.With* wrappers — never one
// built from context.Background()/TODO(), which silently drops the scope: X-Forwarded-Host is then
// ignored when the cookie domain is chosen (C18), reverse-proxy decisions flip (C16).
func runRequestContextKept(c *Ctx, rule string) {
	R := c.requestReachable(rule)
	if R == nil {
		return
	}
	var derives func(v ssa.Value, depth int) string
	derives = func(v ssa.Value, depth int) string {
		if depth > 8 {
			return "a derivation too deep to decide"
		}
		v = unwrap0(v)
		switch x := v.(type) {
		case *ssa.Call:
			sc := x.Call.StaticCallee()
			if sc == nil {
				if x.Call.IsInvoke() {
					return "the result of " + x.Call.Method.Name()
				}
				return "the result of a dynamic call"
			}
			switch sc.String() {
			case "(*net/http.Request).Context":
				return ""
			case "context.Background", "context.TODO":
				return sc.String() + "()"
			case "context.WithValue", "context.WithCancel", "context.WithTimeout", "context.WithDeadline", "context.WithoutCancel", "context.WithCancelCause", "context.WithTimeoutCause", "context.WithDeadlineCause":
				return derives(x.Call.Args[0], depth+1)
			}
			if c.P.InModule(sc) && len(x.Call.Args) > 0 {
				// module helper taking a context or request first: follow its first context-typed argument
				for _, a := range x.Call.Args {
					if strings.HasSuffix(a.Type().String(), "context.Context") {
						return derives(a, depth+1)
					}
				}
			}
			return "the result of " + walk.CalleeName(&x.Call)
		case *ssa.Extract:
			return derives(x.Tuple, depth+1)
		case *ssa.Phi:
			for _, e := range x.Edges {
				if why := derives(e, depth+1); why != "" {
					return why
				}
			}
			return ""
		case *ssa.Parameter:
			return "" // a context handed in by the caller: judged at the caller
		case *ssa.UnOp:
			if al, ok := x.X.(*ssa.Alloc); ok {
				for _, st := range storesTo(al) {
					if why := derives(st.Val, depth+1); why != "" {
						return why
					}
				}
				return ""
			}
		case *ssa.MakeInterface:
			return derives(x.X, depth+1)
		}
		return "a value of unknown origin (" + v.Name() + ")"
	}
	n := 0
	var fns []*ssa.Function
	for fn := range R {
		fns = append(fns, fn)
	}
	sort.Slice(fns, func(i, j int) bool { return fns[i].String() < fns[j].String() })
	for _, fn := range fns {
		pk := prog.Short(prog.FnPkg(fn).Path())
		if pk == "pkg/requests" || pk == "providers" || strings.HasPrefix(pk, "pkg/providers") {
			continue // outgoing requests to the identity provider, not the inbound request
		}
		for _, b := range fn.Blocks {
			for _, in := range b.Instrs {
				call, ok := in.(*ssa.Call)
				if !ok || call.Call.StaticCallee() == nil {
					continue
				}
				name := call.Call.StaticCallee().String()
				if name != "(*net/http.Request).WithContext" && name != "(*net/http.Request).Clone" {
					continue
				}
				n++
				key := "request-context|" + fnKey(fn)
				if why := derives(call.Call.Args[1], 0); why == "" {
					c.ok(rule, key, in, "new context derives from the request's own Context()")
				} else if probeOnly(call) {
					c.ok(rule, key+"|probe", in, "reviewed: a throw-away clone used only as the argument of mux.Router.Match (route probing), never served")
				} else {
					c.R.Bad(rule, key, c.pos(in), "the inbound request is given a context derived from "+why+" instead of its own Context(): the request scope stored there (reverse-proxy flag, request id) is lost for everything downstream", nil, nil)
				}
			}
		}
	}
	if n == 0 {
		c.R.Unknown(rule, "request-context|none", "-", "no WithContext/Clone of an inbound request found (the scope middleware must have one)")
	}
}

// probeOnly: the cloned request is only mutated locally and handed to (*mux.Router).Match.
func probeOnly(clone *ssa.Call) bool {
	for _, ref := range *clone.Referrers() {
		switch x := ref.(type) {
		case *ssa.FieldAddr, *ssa.DebugRef:
		case *ssa.Call:
			sc := x.Call.StaticCallee()
			if sc == nil || sc.Name() != "Match" || sc.Pkg == nil || sc.Pkg.Pkg.Path() != "github.com/gorilla/mux" {
				return false
			}
		default:
			return false
		}
	}
	return true
}

// runQueuedCookiesUntouched (C18.R1, also C05.R11): the Set-Cookie lines of a response are written by http.SetCookie only
// and, once queued, stay queued. No module code adds or sets a "Set-Cookie" header by hand (the cookie would not
// carry the configured attributes), and none deletes or reassigns the header's value list (Header.Del, a map
// assignment or delete on an http.Header under that key): the lines queued earlier on the response include the
// expiry of the finished login's CSRF cookie, whose removal leaves nonce and PKCE verifier replayable in the browser.
func runQueuedCookiesUntouched(c *Ctx, rule string) {
	isSetCookieKey := func(v ssa.Value) bool {
		k, ok := ConstString(unwrap0(v))
		return ok && strings.EqualFold(k, "Set-Cookie")
	}
	n := 0
	for _, fn := range c.P.ModFns {
		for _, b := range fn.Blocks {
			for _, in := range b.Instrs {
				switch x := in.(type) {
				case *ssa.Call:
					if sc := x.Call.StaticCallee(); sc != nil && sc.Signature.Recv() != nil && isHTTPHeader(sc.Signature.Recv().Type()) {
						n++
						switch sc.Name() {
						case "Add", "Set":
							if len(x.Call.Args) > 1 && isSetCookieKey(x.Call.Args[1]) {
								c.bad(rule, "manual-set-cookie|"+fnKey(fn), in, "a Set-Cookie header is written by hand", nil, 0)
							}
						case "Del":
							if len(x.Call.Args) > 1 && isSetCookieKey(x.Call.Args[1]) {
								c.bad(rule, "queued-cookies-dropped|"+fnKey(fn), in, "the Set-Cookie lines already queued on a response are deleted: cookie expiries queued earlier (the finished login's CSRF cookie) never reach the browser", nil, 0)
							}
						}
					}
					if bi, ok := x.Call.Value.(*ssa.Builtin); ok && bi.Name() == "delete" && len(x.Call.Args) == 2 && isHTTPHeader(x.Call.Args[0].Type()) && isSetCookieKey(x.Call.Args[1]) {
						c.bad(rule, "queued-cookies-dropped|"+fnKey(fn), in, "the Set-Cookie lines already queued on a response are deleted: cookie expiries queued earlier (the finished login's CSRF cookie) never reach the browser", nil, 0)
					}
				case *ssa.MapUpdate:
					if isHTTPHeader(x.Map.Type()) && isSetCookieKey(x.Key) {
						c.bad(rule, "queued-cookies-dropped|"+fnKey(fn), in, "the Set-Cookie lines of a response are reassigned by hand: whatever the new list leaves out — the expiry of the finished login's CSRF cookie, queued by the callback before the session is saved — never reaches the browser, and nonce and PKCE verifier stay replayable there", nil, 0)
					}
				}
			}
		}
	}
	c.R.OK(rule, "set-cookie-lines|all", "-", sprintf("%d http.Header method call(s) in the module: no hand-written, deleted or reassigned Set-Cookie", n))
}

// runC18R9: GetCookieDomain strips the port and suffix-matches what GetRequestHost returns. Every return of
// GetRequestHost (helpers inlined) is the very result of http.Header.Get(...) or the request's Host field; a string
// built from them (a port appended from another header, a normalised form) can be something no configured domain
// matches — "[host:8443]:8443" — and the cookie silently falls back to the shortest domain.
func runC18R9(c *Ctx, rule string) {
	getHost := c.Fn(rule, "pkg/requests/util.GetRequestHost")
	if getHost == nil {
		return
	}
	key := "verbatim|" + fnKey(getHost)
	n, bad := 0, false
	c.Walk(rule, getHost, func(p *walk.Path) {
		rv, ok := p.ReturnDV(0)
		if !ok || bad {
			return
		}
		n++
		r := p.Resolve(rv)
		if cl, ok := extractOfCall(p, rv, 0); ok {
			if sc := cl.C.StaticCallee(); sc != nil && sc.String() == "(net/http.Header).Get" {
				return
			}
		}
		if u, ok := r.V.(*ssa.UnOp); ok && u.Op == token.MUL {
			if fa, ok := u.X.(*ssa.FieldAddr); ok {
				if f := walk.FieldOf(fa.X.Type(), fa.Field); f != nil && f.Name() == "Host" && strings.HasSuffix(fa.X.Type().String(), "net/http.Request") {
					return
				}
			}
		}
		bad = true
		c.bad(rule, key, p.Exit, "GetRequestHost returns a string built from the request instead of the forwarded-host header value or req.Host itself: the cookie domain is then chosen for a host the client never named", p, p.End())
	})
	if !bad && n > 0 {
		c.R.OK(rule, key, c.P.Pos(getHost.Pos()), sprintf("%d return path(s): Header.Get(...) or req.Host, unmodified", n))
	} else if !bad {
		c.R.Unknown(rule, key, c.P.Pos(getHost.Pos()), "no return path found")
	}
}
