package rules

import (
	"go/token"

	"golang.org/x/tools/go/ssa"

	"oapsa/internal/prog"
	"oapsa/internal/walk"
)

func init() {
	register(&Prop{
		ID:          "C08",
		Explanation: "Decides that the authorisation predicates guard every serving path: every nil-error return of getAuthenticatedSession that is not a configured bypass re-ran Validator(session.Email) (skipped only for an empty e-mail) and provider.Authorize(session) with outcome true, and every ErrAccessDenied return first calls ClearSessionCookie; the login callback saves a session only after Validator(session.Email) && Authorize(session); the auth-only 202 writer is reached only after authOnlyAuthorize(req, session)==true for the session getAuthenticatedSession returned; authOnlyAuthorize returns true only for a nil session or after every element of a constraint list containing the three query constraints returned true; each query constraint returns true only when its parameter is absent or a membership test on the session's own field succeeded; the only Provider.Authorize implementation returns true only for an empty allowed-groups map or a membership hit of a session group; isEmailValidWithDomains accepts only through suffix tests applied to an end-anchored part of the address (the address or its last '@'-separated element) against an operand that starts at '@' or at a '.' label boundary, and the validator closure answers true only by that rule, the authenticated-emails file or the '*' rule and never for an empty address; the allow-list/htpasswd file watcher runs its reload action on every path that selected a remove/create/write event and WaitForReplacement returns only after the watch was re-added. Added during the build: accepting paths of the e-mail validator (R5); allow-list reload on every selected file event with re-armed watch (R6); IsEndpointAllowed/isHostnameAllowed accepting paths used by the allowed-email-domains constraint (R7, shared with C06.R4). Round 3: the operator's allowed_groups reach ProviderData.AllowedGroups and are replaced afterwards only by a list known to be non-empty (R8); clearing a refused session expires the ticket cookie on every path (R9). Round 4: setAllowedGroups stores every configured entry as a key, unchanged, so a configured list never yields the empty map Authorize reads as 'no restriction' (under R8); the two builders of bearer-token sessions never return a session whose e-mail was found empty without filling it, because an empty e-mail is the htpasswd exemption from the e-mail rules (R10). Round 7: request handling keeps no state of its own between requests — no store, map update, in-place builtin, atomic/sync.Map write or pointer-receiver library call (singleflight, caches) reached from ServeHTTP targets a package-level variable, an object built at start-up, or a constructor variable captured by the handler it returned, declared in the packages implementing this property (RS; a class-wide who-may-write rule with zero instances today: a correct memoisation would be reported until reviewed). A request that waited for the refresh lock is authorised on the session reloaded from the store, overwritten as a whole (R11, shared with C12.R2); WaitForReplacement re-arms on the file's existence alone (under R6). Round 8: the Google group validator replaces the session's groups on every path by the memberships it just found, also when it finds none (R12). Round 9: the operator's email_domains are rewritten by nobody between option loading and the validator (R13).",
		NotDecided:  "value semantics of the string predicates beyond their accepting-path structure (case folding, unusual local parts), IsEndpointAllowed for auth-only domain constraints (see C06.R4), UserMap contents.",
		Run:         runC08,
	})
}

func runC08(c *Ctx) {
	c.R.Rule("R13-email-domains-verbatim", "the operator's email_domains are rewritten by nobody between option loading and the validator built from them (the validator's own constructor lower-cases its copy; round 9)", 1)
	runEmailDomainsVerbatim(c, "R13-email-domains-verbatim")
	c.R.Rule("R12-google-validator-rederives-groups", "the Google group validator replaces the session's groups by the memberships it just found on every path, also when it finds none (round 8)", 1)
	runGoogleValidatorRederivesGroups(c, "R12-google-validator-rederives-groups")
	c.R.Rule("R11-authorised-on-the-reloaded-session", "a request that waited for the refresh lock continues — and is authorised — with the session reloaded from the store, overwritten as a whole (shared with C12.R2, round 7)", 1)
	if a := c.c12Anchors("R11-authorised-on-the-reloaded-session"); a != nil {
		c.checkRefreshProtocol("R11-authorised-on-the-reloaded-session", a)
	}
	c.R.Rule("RS-no-request-time-state", "request handling writes no state that outlives the request (package-level variables, objects built at start-up, constructor variables captured by handlers) declared in the packages implementing this property", 1)
	runStateless(c, "RS-no-request-time-state", "main", "providers", "pkg/authentication")
	r := c.R
	r.Rule("R1-every-request", "authenticated returns of getAuthenticatedSession re-run Validator and Authorize; denied returns clear the cookie first", 4)
	r.Rule("R2-callback", "callback saves only after Validator(session.Email) && Authorize(session)", 1)
	r.Rule("R3-auth-only", "202 only after authOnlyAuthorize(req, session)==true; authOnlyAuthorize / checkAllowed* structure", 10)
	r.Rule("R7-domain-constraint-helper", "IsEndpointAllowed / isHostnameAllowed accepting paths used by the auth-only allowed_email_domains constraint (shared with C06.R4)", 3)
	r.Rule("R8-allowed-groups-preserved", "the operator's allowed_groups reach ProviderData.AllowedGroups and are replaced afterwards only by a list known to be non-empty; no other overwrite of the map", 4)
	r.Rule("R10-bearer-email-fallback", "bearer-token session builders never hand back a session whose e-mail was found empty without filling it (an empty e-mail is the htpasswd exemption from the e-mail rules)", 2)
	r.Rule("R9-clear-expires-cookie", "clearing a refused session expires the ticket cookie on every path, also when the store delete fails (shared with C11.R2)", 9)
	r.Rule("R6-rules-reload", "the rule-file watcher runs the reload action for every selected event and returns from waiting only after re-arming the watch", 2)
	r.Rule("R5-email-validator", "accepting paths of the e-mail validator: end-anchored suffix tests at '@' or '.' boundaries; validator true only by domain rule, file or '*'", 2)
	r.Rule("R4-authorize", "Provider.Authorize has one implementation, true only on empty AllowedGroups or membership", 2)

	// ---- R1 ---------------------------------------------------------------------------------
	rule := "R1-every-request"
	gas := c.Fn(rule, "(*main.OAuthProxy).getAuthenticatedSession")
	isAllowed := c.bypassEntry(rule)
	validatorF := c.Field(rule, "main.OAuthProxy.Validator")
	emailF := c.Field(rule, "pkg/apis/sessions.SessionState.Email")
	scopeSessF := c.Field(rule, "pkg/apis/middleware.RequestScope.Session")
	authorizeM := c.Method(rule, "providers.Provider.Authorize")
	getScope := c.Fn(rule, "pkg/apis/middleware.GetRequestScope")
	clear := c.Fn(rule, "(*main.OAuthProxy).ClearSessionCookie")
	storeClear := c.Method(rule, "pkg/apis/sessions.SessionStore.Clear")
	denied := c.P.Global("main.ErrAccessDenied")
	if gas != nil && validatorF != nil && emailF != nil && scopeSessF != nil && authorizeM != nil && getScope != nil && clear != nil && storeClear != nil && denied != nil {
		c.Walk(rule, gas, func(p *walk.Path) {
			checkAuthenticatedReturn(c, rule, p, isAllowed, validatorF, emailF, scopeSessF, authorizeM, getScope)
			// ErrAccessDenied returns clear the cookie
			ev, ok := p.ReturnDV(1)
			if !ok {
				return
			}
			rv := p.Resolve(ev).V
			if ld, ok := rv.(*ssa.UnOp); ok && ld.Op == token.MUL {
				if g, ok := ld.X.(*ssa.Global); ok && g.Object() == denied {
					key := "denied-clears-cookie|" + fnKey(gas)
					if _, ok := Has(p, p.End(), Need{M: walk.Or(walk.Static(clear), walk.Invoke(c.P, storeClear)), Out: Called}); ok {
						c.ok(rule, key, p.Exit, "ClearSessionCookie is called before returning ErrAccessDenied")
					} else {
						c.bad(rule, key, p.Exit, "ErrAccessDenied is returned on a path that does not clear the session cookie", p, p.End())
					}
				}
			}
		})
	}

	// ---- R2 ---------------------------------------------------------------------------------
	if a := c.cbAnchors("R2-callback"); a != nil {
		c.checkCallbackSave("R2-callback", a, FacetAuthz, "save-needs-authorisation")
	}

	// ---- R3 ---------------------------------------------------------------------------------
	rule = "R3-auth-only"
	authOnly := c.Fn(rule, "(*main.OAuthProxy).AuthOnly")
	aoa := c.Fn(rule, "main.authOnlyAuthorize")
	if authOnly != nil && aoa != nil && gas != nil {
		// sink: the 202 writer (closure) reference, or a direct WriteHeader(202)
		c.Walk(rule, authOnly, func(p *walk.Path) {
			for i, s := range p.Steps {
				if !is202Sink(c, s.In, authOnly) {
					continue
				}
				key := "202-needs-authOnlyAuthorize|" + fnKey(authOnly)
				if _, ok := Has(p, i, Need{M: walk.Static(aoa), Idx: -1, Out: IsTrue, Where: func(p *walk.Path, k walk.Call) bool {
					g, ok := extractOfCall(p, p.Arg(k, 1), 0)
					return ok && g.C.StaticCallee() == gas
				}}); ok {
					c.ok(rule, key, s.In, "authOnlyAuthorize(req, getAuthenticatedSession's session)==true")
				} else {
					c.bad(rule, key, s.In, "202 is reachable on a path where authOnlyAuthorize(req, session) was not true for the authenticated session", p, i)
				}
			}
		})
		runC08AuthOnlyAuthorize(c, rule, aoa)
	}

	runC08R5(c)
	runC08R6(c)
	runRedirectValidators(c, "R7-domain-constraint-helper", false)
	runC08R8(c, "R8-allowed-groups-preserved")
	runC08R10(c, "R10-bearer-email-fallback")
	runManagerClearRule(c, "R9-clear-expires-cookie")

	// ---- R4 ---------------------------------------------------------------------------------
	rule = "R4-authorize"
	if authorizeM != nil {
		impls := c.P.Implementations(authorizeM)
		groupsF := c.Field(rule, "pkg/apis/sessions.SessionState.Groups")
		allowedF := c.Field(rule, "providers.ProviderData.AllowedGroups")
		for _, impl := range impls {
			if !c.P.InModule(impl) || groupsF == nil || allowedF == nil {
				continue
			}
			impl := impl
			key := "true-return|" + fnKey(impl)
			n := 0
			c.Walk(rule, impl, func(p *walk.Path) {
				rv, ok := p.ReturnDV(0)
				if !ok {
					return
				}
				if b, k := p.Truth(rv, p.End()); k && !b {
					return
				}
				n++
				if lenZeroAtom(p, p.End(), func(x walk.DV) bool { return walk.IsFieldLoad(p.Resolve(x).V, allowedF) }) {
					c.ok(rule, key+"|no-groups-configured", p.Exit, "len(AllowedGroups)==0")
					return
				}
				if lookupHit(p, p.End(), func(m walk.DV) bool { return walk.IsFieldLoad(p.Resolve(m).V, allowedF) }, func(k walk.DV) bool {
					return elemOfFieldLoad(p, k, groupsF, impl.Params[2])
				}) {
					c.ok(rule, key+"|membership", p.Exit, "some session group is a key of AllowedGroups")
					return
				}
				c.bad(rule, key, p.Exit, prog.Name(impl)+" can return true without an empty AllowedGroups map or a membership hit of one of the session's groups", p, p.End())
			})
		}
		if len(impls) == 0 {
			c.R.Unknown(rule, "impls", "-", "no implementation of Provider.Authorize found")
		}
	}
}

// is202Sink: instruction references a closure that writes 202, or writes 202 itself.
func is202Sink(c *Ctx, in ssa.Instruction, outer *ssa.Function) bool {
	writes202 := func(fn *ssa.Function) bool {
		for _, b := range fn.Blocks {
			for _, i2 := range b.Instrs {
				if ci, ok := i2.(ssa.CallInstruction); ok && isInvokeOf(ci.Common(), "net/http.ResponseWriter", "WriteHeader", c.P) {
					if code, ok := ConstInt(ci.Common().Args[0]); ok && code == 202 {
						return true
					}
				}
			}
		}
		return false
	}
	if ci, ok := in.(ssa.CallInstruction); ok && isInvokeOf(ci.Common(), "net/http.ResponseWriter", "WriteHeader", c.P) {
		if code, ok := ConstInt(ci.Common().Args[0]); ok && code == 202 {
			return true
		}
	}
	for _, an := range outer.AnonFuncs {
		if writes202(an) && refersTo(in, an) {
			return true
		}
	}
	return false
}

// lenZeroAtom: an assumed atom len(X)==0 (true) with X satisfying isX.
func lenZeroAtom(p *walk.Path, at int, isX func(walk.DV) bool) bool {
	for _, a := range p.Atoms(at) {
		if a.IsNil || !a.Val {
			continue
		}
		b, ok := a.DV.V.(*ssa.BinOp)
		if !ok || b.Op != token.EQL && b.Op != token.NEQ {
			continue
		}
		for _, pair := range [][2]ssa.Value{{b.X, b.Y}, {b.Y, b.X}} {
			if n, ok := ConstInt(pair[1]); !ok || n != 0 {
				continue
			}
			l := p.Resolve(p.Op(pair[0], a.DV))
			if call, ok := l.V.(*ssa.Call); ok {
				if bi, ok := call.Call.Value.(*ssa.Builtin); ok && bi.Name() == "len" && isX(p.Op(call.Call.Args[0], l)) {
					return true
				}
			}
		}
	}
	return false
}

// lookupHit: an assumed-true comma-ok map lookup m[k] with m, k satisfying the predicates.
func lookupHit(p *walk.Path, at int, isMap, isKey func(walk.DV) bool) bool {
	for _, a := range p.Atoms(at) {
		if a.IsNil || !a.Val {
			continue
		}
		ex, ok := a.DV.V.(*ssa.Extract)
		if !ok || ex.Index != 1 {
			continue
		}
		t := p.Resolve(p.Op(ex.Tuple, a.DV))
		lk, ok := t.V.(*ssa.Lookup)
		if !ok || !lk.CommaOk {
			continue
		}
		if isMap(p.Op(lk.X, t)) && isKey(p.Op(lk.Index, t)) {
			return true
		}
	}
	return false
}

// elemOfFieldLoad: dv is *(&(base.field)[i]) — an element of slice field f of base.
func elemOfFieldLoad(p *walk.Path, dv walk.DV, f interface{ Name() string }, base ssa.Value) bool {
	// every operand is resolved through inlined frames: the element may be ranged over inside a helper that was handed
	// the field's value (allowedGroupsOf(s.Groups)), round 7
	r := p.Resolve(dv)
	u, ok := r.V.(*ssa.UnOp)
	if !ok || u.Op != token.MUL {
		return false
	}
	iaDV := p.Resolve(p.Op(u.X, r))
	ia, ok := iaDV.V.(*ssa.IndexAddr)
	if !ok {
		return false
	}
	ldDV := p.Resolve(p.Op(ia.X, iaDV))
	ld, ok := ldDV.V.(*ssa.UnOp)
	if !ok || ld.Op != token.MUL {
		return false
	}
	faDV := p.Resolve(p.Op(ld.X, ldDV))
	fa, ok := faDV.V.(*ssa.FieldAddr)
	if !ok {
		return false
	}
	fv := walk.FieldOf(fa.X.Type(), fa.Field)
	return fv != nil && fv.Name() == f.Name() && p.Resolve(p.Op(fa.X, faDV)).V == base
}

func runC08AuthOnlyAuthorize(c *Ctx, rule string, aoa *ssa.Function) {
	want := []*ssa.Function{
		c.Fn(rule, "main.checkAllowedGroups"),
		c.Fn(rule, "main.checkAllowedEmailDomains"),
		c.Fn(rule, "main.checkAllowedEmails"),
	}
	extract := c.Fn(rule, "main.extractAllowedEntities")
	for _, w := range want {
		if w == nil {
			return
		}
	}
	if extract == nil {
		return
	}
	// the constraint list: an array literal whose elements include the three functions
	var arr *ssa.Alloc
	stored := map[*ssa.Function]bool{}
	for _, b := range aoa.Blocks {
		for _, in := range b.Instrs {
			st, ok := in.(*ssa.Store)
			if !ok {
				continue
			}
			ia, ok := st.Addr.(*ssa.IndexAddr)
			if !ok {
				continue
			}
			if fn, ok := st.Val.(*ssa.Function); ok {
				if al, ok := ia.X.(*ssa.Alloc); ok {
					arr = al
					stored[fn] = true
				}
			}
		}
	}
	key := "constraint-list|" + fnKey(aoa)
	missing := ""
	for _, w := range want {
		if !stored[w] {
			missing += " " + w.Name()
		}
	}
	if arr == nil || missing != "" {
		c.bad(rule, key, aoa.Blocks[0].Instrs[0], "the auth-only constraint list does not contain:"+missing, nil, 0)
	} else {
		c.ok(rule, key, arr, "list literal holds checkAllowedGroups, checkAllowedEmailDomains, checkAllowedEmails")
	}
	sParam := aoa.Params[1]
	c.Walk(rule, aoa, func(p *walk.Path) {
		rv, ok := p.ReturnDV(0)
		if !ok {
			return
		}
		if b, k := p.Truth(rv, p.End()); k && !b {
			return
		}
		key := "true-return|" + fnKey(aoa)
		if n, k := p.Nil(walk.DV{V: sParam}, p.End()); k && n {
			c.ok(rule, key+"|nil-session", p.Exit, "s==nil: request was admitted by a bypass rule")
			return
		}
		// every constraint call on the path returned true, callee is an element of the list, called with (req, s)
		calls := 0
		for _, cl := range p.Calls() {
			if cl.C.IsInvoke() || cl.C.StaticCallee() != nil {
				continue
			}
			if _, isBuiltin := cl.C.Value.(*ssa.Builtin); isBuiltin {
				continue
			}
			calls++
			cv := p.Resolve(p.StepOp(cl.C.Value, cl.Step))
			fromList := false
			if ld, ok := cv.V.(*ssa.UnOp); ok && ld.Op == token.MUL {
				if ia, ok := ld.X.(*ssa.IndexAddr); ok {
					if sl, ok := ia.X.(*ssa.Slice); ok && sl.X == arr && sl.Low == nil && sl.High == nil {
						fromList = true
					}
				}
			}
			if !fromList {
				c.bad(rule, key, p.Exit, "a constraint call does not come from the full constraint list", p, p.End())
				return
			}
			if len(cl.C.Args) != 2 || p.Resolve(p.Arg(cl, 0)).V != aoa.Params[0] || p.Resolve(p.Arg(cl, 1)).V != sParam {
				c.bad(rule, key, p.Exit, "a constraint is not evaluated on (req, s)", p, p.End())
				return
			}
			if b, k := p.ResultTruth(cl.DV(), -1, p.End()); !(k && b) {
				c.bad(rule, key, p.Exit, "authOnlyAuthorize returns true on a path where a constraint returned false or was ignored", p, p.End())
				return
			}
		}
		// the loop must have terminated by exhausting the list: the last loop test index<len(list) is false
		exhausted := false
		for _, a := range p.Atoms(p.End()) {
			if b, ok := a.DV.V.(*ssa.BinOp); ok && b.Op == token.LSS && !a.Val {
				if call, ok := b.Y.(*ssa.Call); ok {
					if bi, ok := call.Call.Value.(*ssa.Builtin); ok && bi.Name() == "len" {
						if sl, ok := call.Call.Args[0].(*ssa.Slice); ok && sl.X == arr {
							exhausted = true
						}
					}
				}
			}
		}
		if !exhausted {
			c.bad(rule, key, p.Exit, "authOnlyAuthorize returns true without having run through the whole constraint list", p, p.End())
			return
		}
		c.ok(rule, key+"|all-constraints", p.Exit, sprintf("list exhausted, every evaluated constraint true (%d on this unrolling)", calls))
	})

	// the three constraints
	groupsF := c.Field(rule, "pkg/apis/sessions.SessionState.Groups")
	emailF := c.Field(rule, "pkg/apis/sessions.SessionState.Email")
	isEndpointAllowed := c.Fn(rule, "pkg/util.IsEndpointAllowed")
	if groupsF == nil || emailF == nil || isEndpointAllowed == nil {
		return
	}
	fromExtract := func(p *walk.Path, param string) func(walk.DV) bool {
		return func(m walk.DV) bool {
			cl, ok := extractOfCall(p, m, 0)
			if !ok || cl.C.StaticCallee() != extract {
				return false
			}
			s, _ := ConstString(cl.C.Args[1])
			return s == param
		}
	}
	for i, spec := range []struct {
		fn    *ssa.Function
		param string
	}{{want[0], "allowed_groups"}, {want[1], "allowed_email_domains"}, {want[2], "allowed_emails"}} {
		fn, param, idx := spec.fn, spec.param, i
		c.Walk(rule, fn, func(p *walk.Path) {
			rv, ok := p.ReturnDV(0)
			if !ok {
				return
			}
			if b, k := p.Truth(rv, p.End()); k && !b {
				return
			}
			key := "true-return|" + fnKey(fn)
			if lenZeroAtom(p, p.End(), fromExtract(p, param)) {
				c.ok(rule, key+"|absent", p.Exit, "query parameter "+param+" absent/empty")
				return
			}
			sess := fn.Params[1]
			switch idx {
			case 0:
				if lookupHit(p, p.End(), fromExtract(p, param), func(k walk.DV) bool { return elemOfFieldLoad(p, k, groupsF, sess) }) {
					c.ok(rule, key+"|membership", p.Exit, "a session group is in the allowed_groups set")
					return
				}
			case 2:
				// equality of a key of the allowed set with s.Email
				if eqAtom(p, p.End(), true,
					func(x walk.DV) bool { return fieldLoadOn(p, x, emailF, walk.DV{V: sess}) },
					func(x walk.DV) bool {
						ex, ok := x.V.(*ssa.Extract)
						if !ok || ex.Index != 1 {
							return false
						}
						nx, ok := ex.Tuple.(*ssa.Next)
						if !ok {
							return false
						}
						rg, ok := nx.Iter.(*ssa.Range)
						return ok && fromExtract(p, param)(p.Op(rg.X, x))
					}) {
					c.ok(rule, key+"|membership", p.Exit, "s.Email equals an element of the allowed_emails set")
					return
				}
				// ... or a direct lookup of s.Email in the set that hit: _, ok := allowedEmails[s.Email] (neutral batch 8)
				if lookupHit(p, p.End(), fromExtract(p, param), func(k walk.DV) bool { return fieldLoadOn(p, k, emailF, walk.DV{V: sess}) }) {
					c.ok(rule, key+"|membership", p.Exit, "s.Email is a key of the allowed_emails set")
					return
				}
				// ... or the verdict IS that lookup's ok: `_, allowed := allowedEmails[s.Email]; return allowed`
				if ex, ok := p.Resolve(rv).V.(*ssa.Extract); ok && ex.Index == 1 {
					if lk, ok := ex.Tuple.(*ssa.Lookup); ok && lk.CommaOk {
						lkDV := p.Op(ex.Tuple, p.Resolve(rv))
						if fromExtract(p, param)(p.Op(lk.X, lkDV)) && fieldLoadOn(p, p.Op(lk.Index, lkDV), emailF, walk.DV{V: sess}) {
							c.ok(rule, key+"|membership", p.Exit, "returns the ok of allowed_emails[s.Email]")
							return
						}
					}
				}
			case 1:
				// result of IsEndpointAllowed(endpoint with Host = domain part of s.Email, list built from the set)
				if cl, ok := extractOfCall(p, rv, 0); ok && cl.C.StaticCallee() == isEndpointAllowed {
					c.ok(rule, key+"|domain-match", p.Exit, "result of util.IsEndpointAllowed(host of s.Email, allowed_email_domains)")
					return
				}
			}
			c.bad(rule, key, p.Exit, fn.Name()+" can return true although "+param+" is present and no membership test on the session succeeded", p, p.End())
		})
	}
}

// runC08R5: accepting paths of the e-mail validator (structure of the suffix tests, not their values).
func runC08R5(c *Ctx) {
	rule := "R5-email-validator"
	ievd := c.Fn(rule, "main.isEmailValidWithDomains")
	vfn := c.Fn(rule, "main.newValidatorImpl$1")
	isValid := c.Fn(rule, "(*main.UserMap).IsValid")
	if ievd == nil || vfn == nil || isValid == nil {
		return
	}
	email, domains := ievd.Params[0], ievd.Params[1]
	c.Walk(rule, ievd, func(p *walk.Path) {
		rv, ok := p.ReturnDV(0)
		if !ok {
			return
		}
		if b, k := p.Truth(rv, p.End()); k && !b {
			return
		}
		at := p.End()
		key := "true-return|" + fnKey(ievd)
		// collect the accepting suffix tests
		okAll, any := true, false
		why := ""
		for _, a := range p.Atoms(at) {
			call, ok := a.DV.V.(*ssa.Call)
			if !ok || a.IsNil || !a.Val || !isStd(&call.Call, "strings", "HasSuffix") {
				continue
			}
			any = true
			// every sub-operand is resolved through inlined helper frames (the per-domain test may live in a helper
			// that takes the address and one domain as parameters)
			res := func(v ssa.Value, ctx walk.DV) walk.DV { return p.Resolve(p.Op(v, ctx)) }
			subj := res(call.Call.Args[0], a.DV)
			op := res(call.Call.Args[1], a.DV)
			isEmail := func(x walk.DV) bool { return x.V == ssa.Value(email) }
			isDomainDV := func(x walk.DV) bool {
				u, ok := x.V.(*ssa.UnOp)
				if !ok {
					return false
				}
				ia, ok := u.X.(*ssa.IndexAddr)
				return ok && res(ia.X, x).V == ssa.Value(domains)
			}
			// subject: the address itself or the last '@'-separated element
			endAnchored := isEmail(subj)
			// ... or any suffix of the address, email[k:] — whatever k is, the test is anchored at the END of the address
			// (email[strings.LastIndex(email, "@")+1:], neutral batch 9); the boundary obligation is separate
			if sl, ok := subj.V.(*ssa.Slice); ok && sl.High == nil && isEmail(res(sl.X, subj)) {
				endAnchored = true
			}
			if u, ok := subj.V.(*ssa.UnOp); ok {
				if ia, ok := u.X.(*ssa.IndexAddr); ok {
					spd := res(ia.X, subj)
					if sp, ok := spd.V.(*ssa.Call); ok && isStd(&sp.Call, "strings", "Split") && isEmail(res(sp.Call.Args[0], spd)) {
						if sep, _ := ConstString(sp.Call.Args[1]); sep == "@" {
							idx := res(ia.Index, subj)
							if bo, ok := idx.V.(*ssa.BinOp); ok && bo.Op == token.SUB {
								if n, ok := ConstInt(bo.Y); ok && n == 1 {
									lnd := res(bo.X, idx)
									if ln, ok := lnd.V.(*ssa.Call); ok {
										if bi, ok := ln.Call.Value.(*ssa.Builtin); ok && bi.Name() == "len" && p.Same(p.Op(ln.Call.Args[0], lnd), spd) {
											endAnchored = true
										}
									}
								}
							}
						}
					}
				}
			}
			// operand: "@"+domain, or domain known to start with ".", or domain[1:] with domain known to start with "*."
			boundary := false
			if bo, ok := op.V.(*ssa.BinOp); ok && bo.Op == token.ADD {
				if s, _ := ConstString(bo.X); s == "@" && isDomainDV(res(bo.Y, op)) && isEmail(subj) {
					boundary = true
				}
			}
			base := op
			if sl, ok := op.V.(*ssa.Slice); ok {
				base = res(sl.X, op)
			}
			dom := func(x walk.DV) bool { return isDomainDV(p.Resolve(x)) && p.Same(x, base) }
			if isDomainDV(op) && strCallAtom(p, at, "HasPrefix", true, dom, isConstStr(p, ".")) {
				boundary = true
			}
			if sl, ok := op.V.(*ssa.Slice); ok && isDomainDV(base) && sl.High == nil {
				if n, ok := ConstInt(sl.Low); ok && n == 1 && strCallAtom(p, at, "HasPrefix", true, dom, isConstStr(p, "*.")) {
					boundary = true
				}
			}
			if !endAnchored || !boundary {
				okAll = false
				why += sprintf(" [HasSuffix(%s, %s): end-anchored=%v boundary=%v]", subj.V.Name(), op.V.Name(), endAnchored, boundary)
			}
		}
		if any && okAll {
			c.ok(rule, key, p.Exit, "accepted by a suffix test on an end-anchored part of the address against an operand that starts at '@' or at a '.' label boundary")
		} else {
			c.bad(rule, key, p.Exit, "an address is accepted by a test that is not end-anchored in the address (the last '@'-separated element) or whose operand does not start at '@' / a '.' boundary: a@allowed.example@evil.org or x@evilexample.com passes"+why, p, at)
		}
	})
	// the validator closure
	c.Walk(rule, vfn, func(p *walk.Path) {
		rv, ok := p.ReturnDV(0)
		if !ok {
			return
		}
		if b, k := p.Truth(rv, p.End()); k && !b {
			return
		}
		at := p.End()
		key := "validator-true|" + fnKey(vfn)
		if eqConstAtom(p, at, true, "", func(x walk.DV) bool { return p.Resolve(x).V == vfn.Params[0] }) {
			c.bad(rule, key, p.Exit, "the validator accepts an empty e-mail address", p, at)
			return
		}
		_, byDomain := Has(p, at, Need{M: walk.Static(ievd), Idx: -1, Out: IsTrue})
		_, byFile := Has(p, at, Need{M: walk.Static(isValid), Idx: -1, Out: IsTrue})
		if cl, ok := extractOfCall(p, rv, 0); ok && (cl.C.StaticCallee() == ievd || cl.C.StaticCallee() == isValid) {
			byFile = true // the verdict of one of the two predicates is returned as is
		}
		allowAll := false
		for _, a := range p.Atoms(at) {
			if u, ok := a.DV.V.(*ssa.UnOp); ok && !a.IsNil && a.Val {
				if fv, ok := u.X.(*ssa.FreeVar); ok && fv.Name() == "allowAll" {
					allowAll = true
				}
			}
		}
		if u, ok := p.Resolve(rv).V.(*ssa.UnOp); ok && u.Op == token.MUL {
			if fv, ok := u.X.(*ssa.FreeVar); ok && fv.Name() == "allowAll" {
				allowAll = true // the '*' flag returned as is
			}
		}
		if byDomain || byFile || allowAll {
			c.ok(rule, key, p.Exit, "domain rule, authenticated-emails file, or '*'")
		} else {
			c.bad(rule, key, p.Exit, "the validator accepts an address without a domain rule hit, a file hit or the '*' rule", p, at)
		}
	})
}

// domainOf returns the loop element a suffix operand is built from (domain or domain[1:]).
func domainOf(v ssa.Value) ssa.Value {
	if sl, ok := v.(*ssa.Slice); ok {
		return sl.X
	}
	return v
}

// runC08R6: rule changes after login take effect — the file watcher always reloads and always re-arms.
func runC08R6(c *Ctx) { runWatcherReloadRule(c, "R6-rules-reload") }

// runWatcherReloadRule: every selected file event ends in action(); the watch is re-armed (C08.R6, also C20).
func runWatcherReloadRule(c *Ctx, rule string) {
	filter := c.Fn(rule, "pkg/watcher.filterEvent")
	wait := c.Fn(rule, "pkg/watcher.WaitForReplacement")
	if filter == nil || wait == nil {
		return
	}
	action := filter.Params[3]
	c.Walk(rule, filter, func(p *walk.Path) {
		if _, ok := p.Exit.(*ssa.Return); !ok {
			return
		}
		at := p.End()
		// which event class did this path select? (op & mask) != 0 assumed true
		selected := false
		for _, a := range p.Atoms(at) {
			b, ok := a.DV.V.(*ssa.BinOp)
			if !ok || a.IsNil {
				continue
			}
			// the switch compares (Clean(name)==filename) with (op&mask != 0): a generic equality atom between two booleans
			if (b.Op == token.EQL || b.Op == token.NEQ) && a.Val {
				for _, side := range []ssa.Value{b.X, b.Y} {
					if inner, ok := side.(*ssa.BinOp); ok && inner.Op == token.NEQ {
						if and, ok := inner.X.(*ssa.BinOp); ok && and.Op == token.AND {
							selected = true
						}
					}
				}
			}
		}
		if !selected {
			return
		}
		key := "event-reloads|" + fnKey(filter)
		called := false
		for _, cl := range p.Calls() {
			if !cl.C.IsInvoke() && cl.C.StaticCallee() == nil && p.Resolve(p.StepOp(cl.C.Value, cl.Step)).V == action {
				called = true
			}
		}
		if called {
			c.ok(rule, key, p.Exit, "a selected file event always ends in action()")
		} else {
			c.bad(rule, key, p.Exit, "a remove/create/write event on the watched file can be handled without running the reload action: rule changes after login stop taking effect", p, at)
		}
	})
	// WaitForReplacement returns only after the watch was re-added successfully
	c.Walk(rule, wait, func(p *walk.Path) {
		if _, ok := p.Exit.(*ssa.Return); !ok {
			return
		}
		key := "rearmed|" + fnKey(wait)
		ok := false
		for _, cl := range p.Calls() {
			if sc := cl.C.StaticCallee(); sc != nil && sc.Name() == "Add" && sc.Pkg != nil && sc.Pkg.Pkg.Path() == "github.com/fsnotify/fsnotify" {
				if n, k := p.ResultNil(cl.DV(), -1, p.End()); k && n {
					ok = true
				}
			}
		}
		if ok {
			c.ok(rule, key, p.Exit, "returns only after watcher.Add(filename) succeeded")
		} else {
			c.bad(rule, key, p.Exit, "WaitForReplacement can return without having re-added the watch: later rewrites of the file are never seen", p, p.End())
		}
	})
	// ... and as soon as the file exists: os.Stat's error alone decides; the FileInfo (size, mtime, mode) plays no part.
	// A replacement by an EMPTY file (revoke everyone) or one with an old mtime is still a replacement (round 7).
	nstat := 0
	for _, b := range wait.Blocks {
		for _, in := range b.Instrs {
			call, ok := in.(*ssa.Call)
			if !ok || !(isStd(&call.Call, "os", "Stat") || isStd(&call.Call, "os", "Lstat")) {
				continue
			}
			nstat++
			key := "exists-is-enough|" + fnKey(wait)
			used := false
			if call.Referrers() != nil {
				for _, r := range *call.Referrers() {
					if ex, ok := r.(*ssa.Extract); ok && ex.Index == 0 && ex.Referrers() != nil {
						for _, u := range *ex.Referrers() {
							if _, dbg := u.(*ssa.DebugRef); !dbg {
								used = true
							}
						}
					}
				}
			}
			if used {
				c.R.Bad(rule, key, c.pos(in), "WaitForReplacement looks at the replaced file's attributes (size, modification time, mode) before re-arming the watch: a replacement that does not meet the test — an empty allow-list, an older mtime — is never reloaded and the watch is never resumed", nil, nil)
			} else {
				c.ok(rule, key, in, "only the error of os.Stat decides that the file is back")
			}
		}
	}
	if nstat == 0 {
		c.R.Unknown(rule, "exists-is-enough|none", c.P.Pos(wait.Pos()), "WaitForReplacement no longer tests the file's existence with os.Stat")
	}
}

// runC08R8: the configured allowed-groups restriction cannot silently become empty. Authorize treats an
// empty ProviderData.AllowedGroups as "no restriction", and newProviderDataFromConfig fills the map
// from the operator's allowed_groups. Every other writer either adds to the map, or — if it REPLACES
// it (setAllowedGroups, a direct store) — does so only with a list known to be non-empty on that path,
// so that some restriction stays in force (the Google provider's `if len(opts.Groups) > 0` idiom).
func runC08R8(c *Ctx, rule string) {
	setAG := c.Fn(rule, "(*providers.ProviderData).setAllowedGroups")
	fromCfg := c.Fn(rule, "providers.newProviderDataFromConfig")
	agF := c.Field(rule, "providers.ProviderData.AllowedGroups")
	cfgAGF := c.Field(rule, "pkg/apis/options.Provider.AllowedGroups")
	if setAG == nil || fromCfg == nil || agF == nil || cfgAGF == nil {
		return
	}
	// (a) the base: newProviderDataFromConfig installs the operator's list
	{
		key := "base|" + fnKey(fromCfg)
		ok := false
		for _, cs := range c.callersOf(setAG) {
			if cs.Parent() != fromCfg {
				continue
			}
			if v := unwrap0(cs.Common().Args[1]); walk.IsFieldLoad(v, cfgAGF) {
				ok = true
			} else if f, isF := v.(*ssa.Field); isF && walk.FieldOf(f.X.Type(), f.Field) == cfgAGF {
				ok = true
			}
		}
		if ok {
			c.R.OK(rule, key, c.P.Pos(fromCfg.Pos()), "setAllowedGroups(providerConfig.AllowedGroups)")
		} else {
			c.R.Bad(rule, key, c.P.Pos(fromCfg.Pos()), "the provider is no longer initialised with the operator's allowed_groups", nil, nil)
		}
	}
	// (b) every other replacement carries a non-empty list
	nonEmpty := func(p *walk.Path, at int, list walk.DV) bool {
		for _, a := range p.Atoms(at) {
			b, ok := a.DV.V.(*ssa.BinOp)
			if !ok || a.IsNil {
				continue
			}
			isLen := func(v ssa.Value) bool {
				call, ok := p.Resolve(p.Op(v, a.DV)).V.(*ssa.Call)
				if !ok {
					return false
				}
				bi, ok := call.Call.Value.(*ssa.Builtin)
				return ok && bi.Name() == "len" && sameValueOrSlot(p, p.Op(call.Call.Args[0], p.Resolve(p.Op(v, a.DV))), list)
			}
			ky, yc := ConstInt(b.Y)
			switch {
			case b.Op == token.GTR && a.Val && isLen(b.X) && yc && ky >= 0:
				return true
			case b.Op == token.GEQ && a.Val && isLen(b.X) && yc && ky >= 1:
				return true
			case (b.Op == token.EQL || b.Op == token.NEQ) && !a.Val && isLen(b.X) && yc && ky == 0:
				return true
			}
		}
		return false
	}
	seenFn := map[*ssa.Function]bool{}
	for _, cs := range c.callersOf(setAG) {
		fn := cs.Parent()
		if fn == fromCfg || seenFn[fn] {
			continue
		}
		seenFn[fn] = true
		c.Walk(rule, fn, func(p *walk.Path) {
			for _, cl := range p.FindTop(walk.Static(setAG), p.End()) {
				key := "replacement|" + fnKey(fn)
				if nonEmpty(p, cl.Idx, p.Arg(cl, 1)) {
					c.ok(rule, key, cl.In, "replaces the allowed groups only with a list known to be non-empty")
				} else {
					c.bad(rule, key, cl.In, "the operator's allowed_groups are replaced by a provider-specific list that may be empty: with only the global option set the map ends up empty and Authorize admits every session", p, cl.Idx)
				}
			}
		})
	}
	// (c) direct stores to the field: only inside setAllowedGroups or as initialisation of a nil map
	for _, ref := range c.fieldRefs(agF) {
		if ref.Store == nil || ref.Fn == setAG {
			continue
		}
		key := "field-store|" + fnKey(ref.Fn)
		blk := ref.In.Block()
		nilInit := false
		for _, b := range ref.Fn.Blocks {
			iff, ok := b.Instrs[len(b.Instrs)-1].(*ssa.If)
			if !ok {
				continue
			}
			bo, ok := iff.Cond.(*ssa.BinOp)
			if !ok || bo.Op != token.EQL || !isNilConstV(bo.Y) || !walk.IsFieldLoad(bo.X, agF) {
				continue
			}
			if b.Succs[0] == blk || b.Succs[0].Dominates(blk) {
				nilInit = true
			}
		}
		if nilInit {
			c.ok(rule, key, ref.In, "initialises the map only when it is nil")
		} else {
			c.R.Bad(rule, key, c.pos(ref.In), "ProviderData.AllowedGroups is overwritten outside setAllowedGroups and not as a nil-map initialisation", nil, nil)
		}
	}
	// (d) setAllowedGroups keeps every configured entry, verbatim: Authorize reads an EMPTY map as "no restriction",
	// so an entry that is dropped or rewritten on the way in can turn "nobody matches" into "everybody passes"
	{
		key := "verbatim|" + fnKey(setAG)
		inserted := false
		bad := false
		c.WalkShallow(rule, setAG, func(p *walk.Path) {
			if _, ok := p.Exit.(*ssa.Return); !ok || bad {
				return
			}
			isElem := func(dv walk.DV) bool {
				r := p.Resolve(dv)
				u, ok := r.V.(*ssa.UnOp)
				if !ok || u.Op != token.MUL {
					return false
				}
				ia, ok := u.X.(*ssa.IndexAddr)
				return ok && p.Resolve(p.Op(ia.X, p.Op(ia, r))).V == ssa.Value(setAG.Params[1])
			}
			loads, puts := 0, 0
			for i, st := range p.Steps {
				switch in := st.In.(type) {
				case *ssa.UnOp:
					if isElem(p.DVOf(i)) {
						loads++
					}
				case *ssa.MapUpdate:
					if isElem(p.StepOp(in.Key, st)) {
						puts++
					}
				}
			}
			if puts > 0 {
				inserted = true
			}
			if loads != puts {
				bad = true
				c.bad(rule, key, p.Exit, sprintf("setAllowedGroups visits %d configured entr(ies) on this path but stores only %d of them verbatim: a list whose entries are all dropped or rewritten leaves an empty map, which Authorize reads as \"no group restriction\"", loads, puts), p, p.End())
			}
		})
		if !bad && inserted {
			c.R.OK(rule, key, c.P.Pos(setAG.Pos()), "every configured entry becomes a key of AllowedGroups, unchanged")
		} else if !bad {
			c.R.Unknown(rule, key, c.P.Pos(setAG.Pos()), "setAllowedGroups does not insert the elements of its argument one by one (idiom not recognised)")
		}
	}
}

// runC08R10: getAuthenticatedSession skips the e-mail Validator for a session without an e-mail — the exemption meant
// for htpasswd users. The two builders of bearer-token sessions therefore replace an empty e-mail by the subject before
// returning; the rule decides that this fallback is applied on every success path on which the e-mail was found empty
// (and that the test exists). It does not decide that the subject itself is non-empty.
func runC08R10(c *Ctx, rule string) {
	emailName := "Email"
	for _, name := range []string{"(*providers.OIDCProvider).CreateSessionFromToken", "pkg/apis/middleware.CreateTokenToSessionFunc$1"} {
		fn := c.Fn(rule, name)
		if fn == nil {
			continue
		}
		key := "fallback|" + fnKey(fn)
		n, bad := 0, false
		c.Walk(rule, fn, func(p *walk.Path) {
			rv, ok := p.ReturnDV(0)
			if !ok || bad {
				return
			}
			if ev, ok := p.ReturnDV(1); !ok || !DefinitelyNil(p, ev, p.End()) {
				return
			}
			if DefinitelyNil(p, rv, p.End()) {
				return
			}
			// the last test of an Email field against ""
			type test struct {
				step  int
				empty bool
				addr  walk.DV
			}
			var last *test
			for _, a := range p.Atoms(p.End()) {
				b, ok := a.DV.V.(*ssa.BinOp)
				if !ok || a.IsNil || (b.Op != token.EQL && b.Op != token.NEQ) {
					continue
				}
				x, y := p.Resolve(p.Op(b.X, a.DV)), p.Resolve(p.Op(b.Y, a.DV))
				if s, isC := ConstString(x.V); isC && s == "" {
					x, y = y, x
				} else if s, isC := ConstString(y.V); isC && s == "" {
					// x == ""
				} else if n, isN := ConstInt(y.V); isN && n == 0 {
					// len(x) == 0
					call, isCall := x.V.(*ssa.Call)
					if !isCall {
						continue
					}
					if bi, isB := call.Call.Value.(*ssa.Builtin); !isB || bi.Name() != "len" {
						continue
					}
					x = p.Resolve(p.Op(call.Call.Args[0], x))
				} else {
					continue
				}
				_ = y
				u, ok := x.V.(*ssa.UnOp)
				if !ok || u.Op != token.MUL {
					continue
				}
				fa, ok := u.X.(*ssa.FieldAddr)
				if !ok || walk.FieldOf(fa.X.Type(), fa.Field).Name() != emailName {
					continue
				}
				if last == nil || a.Step >= last.step {
					last = &test{a.Step, a.Val, p.Op(fa, x)} // equality atoms are kept in == form whatever the operator
				}
			}
			n++
			if last == nil {
				bad = true
				c.bad(rule, key, p.Exit, "a bearer-token session is returned without its e-mail having been tested for emptiness: a token without the e-mail claim yields a session that skips the e-mail rules like an htpasswd user", p, p.End())
				return
			}
			if !last.empty {
				return
			}
			filled := false
			for i := last.step; i < len(p.Steps); i++ {
				st, ok := p.Steps[i].In.(*ssa.Store)
				if !ok {
					continue
				}
				if fa, ok := st.Addr.(*ssa.FieldAddr); ok && walk.FieldOf(fa.X.Type(), fa.Field).Name() == emailName && p.Same(p.StepOp(st.Addr, p.Steps[i]), last.addr) {
					filled = true
				}
			}
			if !filled {
				bad = true
				c.bad(rule, key, p.Exit, "the session's e-mail was found empty and is returned empty on this path: getAuthenticatedSession exempts e-mail-less sessions from the e-mail-domain / authenticated-emails rules, so such a bearer token is served whatever its claims say", p, p.End())
			}
		})
		if !bad && n > 0 {
			c.R.OK(rule, key, c.P.Pos(fn.Pos()), sprintf("%d success path(s): e-mail non-empty, or replaced after having been found empty", n))
		} else if !bad {
			c.R.Unknown(rule, key, c.P.Pos(fn.Pos()), "no success path found")
		}
	}
}
