package rules

import (
	"go/token"
	"go/types"
	"strings"

	"golang.org/x/tools/go/ssa"

	"oapsa/internal/prog"
	"oapsa/internal/walk"
)

func init() {
	register(&Prop{
		ID:          "C20",
		Explanation: "Decides the synchronisation discipline (not the schedules): every access to htpasswdMap.users outside the construction set (functions whose receiver is a fresh, unpublished allocation) happens on paths where the map's rwm is held — read or write lock for loads, write lock for stores — by a must-hold lock walk (Lock/RLock gen, Unlock/RUnlock kill, deferred unlock = held to exit); no map reachable through a published htpasswdMap is updated or deleted from outside the construction set, the reload installs a map built locally by createHtpasswdMap, and Validate answers true only by comparing the presented password with the entry it read from users; the address of UserMap.m flows only into atomic.LoadPointer/StorePointer, the stored pointers are addresses of local maps that receive no update after the store, and readers only index; in both loaders the swap is reachable only on paths where every CSV read returned without error (or io.EOF for incremental reads) and, for htpasswd, createHtpasswdMap returned no error. Added during the build: reloads are totally ordered and none is skipped — the watcher package starts exactly one goroutine, file events are received at one site, every received event goes to filterEvent, filterEvent is driven only from the event loop and calls action() synchronously for every selected event (R5, partly shared with C08.R6). Round 3: a reload installs only a non-empty freshly parsed map and the reloaded map is the only basic.Validator implementation (R6). Round 4: the configured paths of the two credential files are never rewritten after loading and flow only to their loaders' constructors, emptiness tests, log lines and a short list of library calls that neither hold the file nor change the option (R7). Round 5: the action handed to the file watcher re-reads the file on every one of its paths (R8). Round 6: a validation consults the reloadable e-mail list at most once, and each lookup loads the published map exactly once (R9). Round 7: request handling keeps no state of its own between requests — no store, map update, in-place builtin, atomic/sync.Map write or pointer-receiver library call (singleflight, caches) reached from ServeHTTP targets a package-level variable, an object built at start-up, or a constructor variable captured by the handler it returned, declared in the packages implementing this property (RS; a class-wide who-may-write rule with zero instances today: a correct memoisation would be reported until reviewed). WaitForReplacement re-arms the watch as soon as os.Stat succeeds: the FileInfo (size, mtime) plays no part (under R5/C08.R6). Round 8 (class-wide, P12): in the packages implementing this property every named error result that is used at all is examined — compared with nil, returned, stored or handed to a non-formatting function — unless the code validates the value result instead (RE; zero instances today). Round 9: every record of the htpasswd file is either stored or reported as invalid (R10).",
		NotDecided:  "interleavings themselves (this is the necessary discipline a race detector would sample); fsnotify event semantics and file-system atomicity of rewrites.",
		Run:         runC20,
	})
}

// lockHeld replays the lock operations on the path before step at for the mutex field `mu` of base and
// reports (readHeld, writeHeld).
func lockHeld(p *walk.Path, at int, base walk.DV, mu *types.Var) (bool, bool) {
	r, w := 0, 0
	deferredR, deferredW := false, false
	for i, s := range p.Steps {
		if i >= at {
			break
		}
		var cc *ssa.CallCommon
		isDefer := false
		switch x := s.In.(type) {
		case *ssa.Call:
			cc = &x.Call
		case *ssa.Defer:
			cc, isDefer = &x.Call, true
		}
		if cc == nil {
			continue
		}
		sc := cc.StaticCallee()
		if sc == nil || sc.Signature.Recv() == nil || !strings.Contains(sc.Signature.Recv().Type().String(), "sync.RWMutex") && !strings.Contains(sc.Signature.Recv().Type().String(), "sync.Mutex") {
			continue
		}
		fa, ok := cc.Args[0].(*ssa.FieldAddr)
		if !ok || walk.FieldOf(fa.X.Type(), fa.Field) != mu || !p.Same(p.StepOp(fa.X, s), base) {
			continue
		}
		switch sc.Name() {
		case "Lock":
			w++
		case "RLock":
			r++
		case "Unlock":
			if isDefer {
				deferredW = true
			} else {
				w--
			}
		case "RUnlock":
			if isDefer {
				deferredR = true
			} else {
				r--
			}
		}
	}
	_ = deferredR
	_ = deferredW
	return r > 0 || w > 0, w > 0
}

func runC20(c *Ctx) {
	c.R.Rule("RE-errors-examined", "in the packages implementing this property every named error result that is used at all is examined, or the value is validated instead (P12, class-wide, round 8)", 1)
	runErrorsExamined(c, "RE-errors-examined", "pkg/authentication/basic", "pkg/watcher")
	c.R.Rule("RS-no-request-time-state", "request handling writes no state that outlives the request (package-level variables, objects built at start-up, constructor variables captured by handlers) declared in the packages implementing this property", 1)
	runStateless(c, "RS-no-request-time-state", "main.UserMap", "pkg/authentication", "pkg/watcher")
	r := c.R
	r.Rule("R1-lock-discipline", "every shared access to htpasswdMap.users holds rwm (write lock for stores)", 8)
	r.Rule("R2-immutable-after-publish", "no map mutation through a published htpasswdMap; reload installs a locally built map; Validate compares against the entry it read", 3)
	r.Rule("R3-atomic-discipline", "UserMap.m only through atomic.LoadPointer/StorePointer; stored maps are not updated afterwards; readers only index", 6)
	r.Rule("R5-serial-reloads", "reloads are totally ordered and none is skipped: one goroutine, one receive site for watcher events, every received event handed to filterEvent, action() called synchronously; every selected event reloads (shared with C08.R6)", 5)
	r.Rule("R6-reload-complete", "a reload installs only a non-empty freshly parsed map; the reloaded map is the only basic.Validator implementation", 2)
	r.Rule("R7-credential-path-as-configured", "the configured paths of the htpasswd and authenticated-e-mails files are never rewritten after loading and flow only to their loader/watcher constructors (besides emptiness tests and log lines)", 2)
	r.Rule("R8-reload-action-unconditional", "the action handed to the file watcher re-reads the file on every path (no gate on modification time, size or a previous result), and the file it re-reads is the one being watched", 2)
	r.Rule("R9-one-snapshot-per-validation", "a validation consults the reloadable e-mail list once: no path of the validator closure calls UserMap.IsValid twice, and IsValid loads the published map once", 2)
	r.Rule("R10-record-stored-or-reported", "every record of the htpasswd file is either stored or reported as invalid, so a file cut off inside a record is a parse failure and the previous contents stay in force (round 9)", 1)
	runHtpasswdRecordStoredOrReported(c, "R10-record-stored-or-reported")
	r.Rule("R4-failed-parse-keeps-old", "the swap is reachable only after error-free parsing", 2)

	usersF := c.Field("R1-lock-discipline", "pkg/authentication/basic.htpasswdMap.users")
	rwmF := c.Field("R1-lock-discipline", "pkg/authentication/basic.htpasswdMap.rwm")
	hT := c.P.Named("pkg/authentication/basic.htpasswdMap")
	if usersF == nil || rwmF == nil || hT == nil {
		return
	}

	// construction set: base is a fresh Alloc in the function, or a parameter whose every call site passes a fresh Alloc
	freshBase := func(v ssa.Value) bool {
		v = unwrap0(v)
		if _, ok := v.(*ssa.Alloc); ok {
			return true
		}
		// result of a constructor whose every return is a fresh allocation (or nil)
		if ex, ok := v.(*ssa.Extract); ok {
			if call, ok := ex.Tuple.(*ssa.Call); ok {
				if sc := call.Call.StaticCallee(); sc != nil && len(sc.Blocks) > 0 {
					for _, b := range sc.Blocks {
						if ret, ok := b.Instrs[len(b.Instrs)-1].(*ssa.Return); ok {
							rv := unwrap0(ret.Results[ex.Index])
							if _, isAlloc := rv.(*ssa.Alloc); isAlloc {
								continue
							}
							if k, isConst := rv.(*ssa.Const); isConst && k.Value == nil {
								continue
							}
							return false
						}
					}
					return true
				}
			}
		}
		return false
	}
	var construction func(fn *ssa.Function, base ssa.Value, depth int) bool
	construction = func(fn *ssa.Function, base ssa.Value, depth int) bool {
		if freshBase(base) {
			return true
		}
		pa, ok := base.(*ssa.Parameter)
		if !ok || depth > 1 {
			return false
		}
		idx := -1
		for i, q := range fn.Params {
			if q == pa {
				idx = i
			}
		}
		callers := c.callersOf(fn)
		if idx < 0 || len(callers) == 0 || len(c.funcValueUses(fn)) > 0 {
			return false
		}
		for _, cs := range callers {
			if !construction(cs.Parent(), cs.Common().Args[idx], depth+1) {
				return false
			}
		}
		return true
	}

	// ---- R1 ---------------------------------------------------------------------------------
	rule := "R1-lock-discipline"
	byFn := map[*ssa.Function][]fieldRef{}
	for _, ref := range c.fieldRefs(usersF) {
		byFn[ref.Fn] = append(byFn[ref.Fn], ref)
	}
	for fn, refs := range byFn {
		fn := fn
		targets := map[ssa.Instruction]fieldRef{}
		for _, ref := range refs {
			targets[ref.In] = ref
		}
		c.Walk(rule, fn, func(p *walk.Path) {
			for i, s := range p.Steps {
				ref, ok := targets[s.In]
				if !ok {
					continue
				}
				var fa *ssa.FieldAddr
				switch x := s.In.(type) {
				case *ssa.Store:
					fa, _ = x.Addr.(*ssa.FieldAddr)
				case *ssa.UnOp:
					fa, _ = x.X.(*ssa.FieldAddr)
				}
				if fa == nil {
					continue
				}
				key := ref.Kind + "|" + fnKey(fn)
				base := p.StepOp(fa.X, s)
				if construction(fn, p.Resolve(base).V, 0) {
					c.ok(rule, key+"|construction", s.In, "receiver is a fresh allocation not yet shared")
					continue
				}
				rd, wr := lockHeld(p, i, base, rwmF)
				switch {
				case ref.Kind == "store" && wr, ref.Kind == "load" && rd:
					c.ok(rule, key, s.In, "rwm held on every path to this access")
				case ref.Kind == "addr":
					c.bad(rule, key, s.In, "the address of htpasswdMap.users escapes: accesses can no longer be tied to the lock", p, i)
				default:
					c.bad(rule, key, s.In, "htpasswdMap.users is "+map[string]string{"store": "written without the write lock", "load": "read without holding rwm"}[ref.Kind]+" while the file watcher may swap it: data race", p, i)
				}
			}
		})
	}
	// lock/unlock pairing: no path returns with the lock held
	for fn := range byFn {
		fn := fn
		c.Walk(rule, fn, func(p *walk.Path) {
			if _, ok := p.Exit.(*ssa.Return); !ok || fn.Signature.Recv() == nil {
				return
			}
			base := walk.DV{V: fn.Params[0]}
			r, w := 0, 0
			deferred := 0
			for _, s := range p.Steps {
				var cc *ssa.CallCommon
				isDefer := false
				switch x := s.In.(type) {
				case *ssa.Call:
					cc = &x.Call
				case *ssa.Defer:
					cc, isDefer = &x.Call, true
				}
				if cc == nil || cc.StaticCallee() == nil || len(cc.Args) == 0 {
					continue
				}
				fa, ok := cc.Args[0].(*ssa.FieldAddr)
				if !ok || walk.FieldOf(fa.X.Type(), fa.Field) != rwmF || !p.Same(p.StepOp(fa.X, s), base) {
					continue
				}
				switch cc.StaticCallee().Name() {
				case "Lock":
					w++
				case "RLock":
					r++
				case "Unlock", "RUnlock":
					if isDefer {
						deferred++
					} else if cc.StaticCallee().Name() == "Unlock" {
						w--
					} else {
						r--
					}
				}
			}
			if r+w == 0 && deferred == 0 {
				return
			}
			key := "released|" + fnKey(fn)
			if r+w-deferred == 0 {
				c.ok(rule, key, p.Exit, "every Lock/RLock is released before return")
			} else {
				c.bad(rule, key, p.Exit, "a path returns with rwm still held (or releases it twice)", p, p.End())
			}
		})
	}

	// ---- R2 ---------------------------------------------------------------------------------
	rule = "R2-immutable-after-publish"
	create := c.Fn(rule, "pkg/authentication/basic.createHtpasswdMap")
	for _, fn := range c.P.ModFns {
		if prog.Short(prog.FnPkg(fn).Path()) != "pkg/authentication/basic" {
			continue
		}
		for _, b := range fn.Blocks {
			for _, in := range b.Instrs {
				var m ssa.Value
				what := ""
				switch x := in.(type) {
				case *ssa.MapUpdate:
					m, what = x.Map, "updated"
				case *ssa.Call:
					if bi, ok := x.Call.Value.(*ssa.Builtin); ok && bi.Name() == "delete" {
						m, what = x.Call.Args[0], "deleted from"
					}
				}
				if m == nil {
					continue
				}
				// map loaded from a field of an htpasswdMap?
				ld, ok := unwrap0(m).(*ssa.UnOp)
				if !ok {
					continue // local map
				}
				fa, ok := ld.X.(*ssa.FieldAddr)
				if !ok {
					continue
				}
				pt, ok := fa.X.Type().Underlying().(*types.Pointer)
				if !ok || !types.Identical(pt.Elem(), hT) {
					continue
				}
				key := "map-mutation|" + fnKey(fn) + "|" + walk.FieldOf(fa.X.Type(), fa.Field).Name()
				if construction(fn, fa.X, 0) {
					c.ok(rule, key, in, "construction set: the map is not yet shared")
				} else {
					c.bad(rule, key, in, "a map reachable from a published htpasswdMap is "+what+" outside the construction set: credential state is no longer an immutable snapshot replaced atomically on reload", nil, 0)
				}
			}
		}
	}
	if create != nil {
		for _, ref := range c.fieldRefs(usersF) {
			if ref.Kind != "store" || construction(ref.Fn, ref.Store.Addr.(*ssa.FieldAddr).X, 0) {
				continue
			}
			key := "reload-installs-fresh|" + fnKey(ref.Fn)
			okSrc := false
			if ld, ok := ref.Store.Val.(*ssa.UnOp); ok {
				if fa, ok := ld.X.(*ssa.FieldAddr); ok && walk.FieldOf(fa.X.Type(), fa.Field) == usersF {
					if ex, ok := fa.X.(*ssa.Extract); ok {
						if call, ok := ex.Tuple.(*ssa.Call); ok && call.Call.StaticCallee() == create {
							okSrc = true
						}
					}
				}
			}
			if okSrc {
				c.ok(rule, key, ref.In, "h.users = createHtpasswdMap(records).users")
			} else {
				c.bad(rule, key, ref.In, "the shared users map is replaced by something other than a map freshly built by createHtpasswdMap", nil, 0)
			}
		}
	}
	checkHtpasswdValidate(c, rule)
	runC20R5(c, "R5-serial-reloads")
	runC20R7(c, "R7-credential-path-as-configured")
	runC20R8(c, "R8-reload-action-unconditional")
	runC20R9(c, "R9-one-snapshot-per-validation")
	runC20R6(c, "R6-reload-complete")

	// ---- R3 ---------------------------------------------------------------------------------
	rule = "R3-atomic-discipline"
	mF := c.Field(rule, "main.UserMap.m")
	if mF != nil {
		for _, fn := range c.P.ModFns {
			for _, b := range fn.Blocks {
				for _, in := range b.Instrs {
					fa, ok := in.(*ssa.FieldAddr)
					if !ok || walk.FieldOf(fa.X.Type(), fa.Field) != mF {
						continue
					}
					for _, ref := range *fa.Referrers() {
						key := "m-access|" + fnKey(fn)
						call, ok := ref.(*ssa.Call)
						if ok && (isStd(&call.Call, "sync/atomic", "LoadPointer") || isStd(&call.Call, "sync/atomic", "StorePointer")) && call.Call.Args[0] == fa {
							c.ok(rule, key+"|"+call.Call.StaticCallee().Name(), ref, "atomic access")
							if call.Call.StaticCallee().Name() == "StorePointer" {
								c.checkStoredMapFrozen(rule, fn, call)
							} else {
								c.checkLoadedMapReadOnly(rule, fn, call)
							}
							continue
						}
						if _, ok := ref.(*ssa.DebugRef); ok {
							continue
						}
						c.bad(rule, key, ref, "UserMap.m is accessed without sync/atomic: torn or stale reads of the allow-list pointer", nil, 0)
					}
				}
			}
		}
	}

	// ---- R4 ---------------------------------------------------------------------------------
	rule = "R4-failed-parse-keeps-old"
	loadHt := c.Fn(rule, "(*pkg/authentication/basic.htpasswdMap).loadHTPasswdFile")
	loadEmails := c.Fn(rule, "(*main.UserMap).LoadAuthenticatedEmailsFile")
	isCSVRead := func(_ *walk.Path, k walk.Call) bool {
		sc := k.C.StaticCallee()
		return sc != nil && sc.Pkg != nil && sc.Pkg.Pkg.Path() == "encoding/csv" && (sc.Name() == "ReadAll" || sc.Name() == "Read")
	}
	checkSwap := func(fn *ssa.Function, isSwap func(p *walk.Path, s walk.Step) bool, needCreate bool) {
		if fn == nil {
			return
		}
		swaps := 0
		c.Walk(rule, fn, func(p *walk.Path) {
			for i, s := range p.Steps {
				if !isSwap(p, s) {
					continue
				}
				swaps++
				key := "swap-after-parse|" + fnKey(fn)
				reads := p.Find(isCSVRead, i)
				okParse := len(reads) > 0
				for _, rc := range reads {
					n, k := p.ResultNil(rc.DV(), 1, i)
					if k && n {
						continue
					}
					// incremental read terminated by io.EOF
					ek := p.ResultKey(rc.DV(), 1)
					eof := hasErrorsIsAtom(p, i, ek, "io.EOF", true)
					for _, a := range p.Atoms(i) {
						if b, ok := a.DV.V.(*ssa.BinOp); ok && !a.IsNil && a.Val {
							l, r := p.Op(b.X, a.DV), p.Op(b.Y, a.DV)
							if (p.Key(l) == ek && globalLoad(p.Resolve(r).V) == "io.EOF") || (p.Key(r) == ek && globalLoad(p.Resolve(l).V) == "io.EOF") {
								eof = true
							}
						}
					}
					if !eof {
						okParse = false
					}
				}
				if needCreate && create != nil {
					if _, ok := Has(p, i, Need{M: walk.Static(create), Idx: 1, Out: ErrNil}); !ok {
						okParse = false
					}
				}
				if okParse {
					c.ok(rule, key, s.In, "contents are replaced only after the file was read and parsed without error")
				} else {
					c.bad(rule, key, s.In, "the live contents can be replaced on a path where reading or parsing the new file failed: a malformed file no longer leaves the previous contents in force", p, i)
				}
			}
		})
		if swaps == 0 {
			c.R.Unknown(rule, "swap-after-parse|"+fnKey(fn), c.P.Pos(fn.Pos()), "no swap found in the loader")
		}
	}
	checkSwap(loadHt, func(p *walk.Path, s walk.Step) bool {
		st, ok := s.In.(*ssa.Store)
		if !ok {
			return false
		}
		fa, ok := st.Addr.(*ssa.FieldAddr)
		return ok && walk.FieldOf(fa.X.Type(), fa.Field) == usersF
	}, true)
	checkSwap(loadEmails, func(p *walk.Path, s walk.Step) bool {
		call, ok := s.In.(*ssa.Call)
		return ok && isStd(&call.Call, "sync/atomic", "StorePointer")
	}, false)
}

// checkStoredMapFrozen: the pointer stored is the address of a local map that receives no update after the store.
func (c *Ctx) checkStoredMapFrozen(rule string, fn *ssa.Function, store *ssa.Call) {
	key := "stored-map-frozen|" + fnKey(fn)
	cv, ok := unwrap0(store.Call.Args[1]).(*ssa.Convert)
	var cell *ssa.Alloc
	if ok {
		cell, _ = cv.X.(*ssa.Alloc)
	}
	if cell == nil {
		c.bad(rule, key, store, "the pointer published is not the address of a map built locally", nil, 0)
		return
	}
	frozen := true
	c.Walk(rule, fn, func(p *walk.Path) {
		after := false
		for _, s := range p.Steps {
			if s.In == ssa.Instruction(store) {
				after = true
				continue
			}
			if !after {
				continue
			}
			if mu, ok := s.In.(*ssa.MapUpdate); ok {
				if ld, ok := mu.Map.(*ssa.UnOp); ok && ld.X == cell {
					frozen = false
				}
			}
			if st, ok := s.In.(*ssa.Store); ok && st.Addr == cell {
				frozen = false
			}
		}
	})
	// closures capturing the cell must not update it either
	for _, r := range *cell.Referrers() {
		if _, ok := r.(*ssa.MakeClosure); ok {
			frozen = false
		}
	}
	if frozen {
		c.ok(rule, key, store, "the published map is built before the store and never updated afterwards")
	} else {
		c.bad(rule, key, store, "the map is modified after its pointer was published: readers can observe a map being written", nil, 0)
	}
}

// checkLoadedMapReadOnly: the loaded pointer is only dereferenced for lookups.
func (c *Ctx) checkLoadedMapReadOnly(rule string, fn *ssa.Function, load *ssa.Call) {
	key := "loaded-map-read-only|" + fnKey(fn)
	okUse := true
	var follow func(v ssa.Value, depth int)
	follow = func(v ssa.Value, depth int) {
		if depth > 4 {
			return
		}
		for _, r := range *v.Referrers() {
			switch x := r.(type) {
			case *ssa.Convert, *ssa.ChangeType:
				follow(x.(ssa.Value), depth+1)
			case *ssa.UnOp:
				follow(x, depth+1)
			case *ssa.Lookup, *ssa.DebugRef, *ssa.Extract, *ssa.Range:
			case *ssa.MapUpdate:
				okUse = false
			case *ssa.Call:
				if bi, ok := x.Call.Value.(*ssa.Builtin); ok && (bi.Name() == "len") {
					continue
				}
				okUse = false
			default:
				okUse = false
			}
		}
	}
	follow(load, 0)
	if okUse {
		c.ok(rule, key, load, "readers only index the loaded map")
	} else {
		c.bad(rule, key, load, "a reader does more than index the atomically loaded map", nil, 0)
	}
}

// checkHtpasswdValidate: the htpasswd validator answers true only by comparing against the entry it read (C20.R2, also C01).
func checkHtpasswdValidate(c *Ctx, rule string) {
	validate := c.Fn(rule, "(*pkg/authentication/basic.htpasswdMap).Validate")
	usersF := c.Field(rule, "pkg/authentication/basic.htpasswdMap.users")
	if usersF == nil {
		return
	}
	if validate != nil {
		c.Walk(rule, validate, func(p *walk.Path) {
			rv, ok := p.ReturnDV(0)
			if !ok {
				return
			}
			if b, k := p.Truth(rv, p.End()); k && !b {
				return
			}
			key := "true-return|" + fnKey(validate)
			// the entry: comma-ok lookup in h.users with the user parameter, exists==true
			entryOK := lookupHit(p, p.End(), func(m walk.DV) bool { return walk.IsFieldLoad(p.Resolve(m).V, usersF) }, func(k walk.DV) bool { return p.Resolve(k).V == validate.Params[1] })
			if !entryOK {
				c.bad(rule, key, p.Exit, "Validate can answer true without having found the user in the current users map", p, p.End())
				return
			}
			// the verdict is a comparison result: BinOp == (sha1) or (bcrypt compare == nil)
			r := p.Resolve(rv)
			okVerdict := false
			if b, ok := r.V.(*ssa.BinOp); ok && b.Op == token.EQL {
				okVerdict = true
			}
			if !okVerdict {
				for _, cl := range p.Calls() {
					if sc := cl.C.StaticCallee(); sc != nil && sc.Name() == "CompareHashAndPassword" {
						if n, k := p.ResultNil(cl.DV(), -1, p.End()); k && n {
							okVerdict = true
						}
					}
				}
			}
			if okVerdict {
				c.ok(rule, key, p.Exit, "user found in the current map and the password comparison against that entry succeeded")
			} else {
				c.bad(rule, key, p.Exit, "Validate can answer true without comparing the password against the entry it read from the current users map", p, p.End())
			}
		})
	}

}

// runC20R5: the watcher delivers every change, in order, on one goroutine.
func runC20R5(c *Ctx, rule string) {
	watch := c.Fn(rule, "pkg/watcher.WatchFileForUpdates")
	loop := c.Fn(rule, "pkg/watcher.WatchFileForUpdates$1")
	filter := c.Fn(rule, "pkg/watcher.filterEvent")
	eventsF := c.P.Field("github.com/fsnotify/fsnotify.Watcher.Events")
	if eventsF == nil {
		c.R.Unknown(rule, "anchor:fsnotify.Watcher.Events", "-", "field not found")
	}
	if watch == nil || loop == nil || filter == nil || eventsF == nil {
		return
	}
	// (a) goroutines: the event loop is the only one started in the package
	var wfns []*ssa.Function
	for _, fn := range c.P.ModFns {
		if prog.Short(prog.FnPkg(fn).Path()) == "pkg/watcher" {
			wfns = append(wfns, fn)
		}
	}
	for _, fn := range wfns {
		for _, b := range fn.Blocks {
			for _, in := range b.Instrs {
				g, ok := in.(*ssa.Go)
				if !ok {
					continue
				}
				key := "goroutine|" + fnKey(fn)
				target := ssa.Value(g.Call.Value)
				if mc, ok := target.(*ssa.MakeClosure); ok {
					target = mc.Fn
				}
				if fn == watch && target == ssa.Value(loop) {
					c.ok(rule, key, in, "the single event-loop goroutine")
				} else {
					c.R.Bad(rule, key, c.pos(in), "the watcher starts another goroutine: reloads are no longer totally ordered, an older file version can be published after a newer one", nil, nil)
				}
			}
		}
	}
	// (b) one receive site for watcher.Events, in the loop, and its value reaches filterEvent
	for _, fn := range wfns {
		for _, b := range fn.Blocks {
			for _, in := range b.Instrs {
				var chans []ssa.Value
				switch v := in.(type) {
				case *ssa.Select:
					for _, st := range v.States {
						if st.Dir == types.RecvOnly {
							chans = append(chans, st.Chan)
						}
					}
				case *ssa.UnOp:
					if v.Op == token.ARROW {
						chans = append(chans, v.X)
					}
				}
				for _, ch := range chans {
					ld, ok := unwrap(ch).(*ssa.UnOp)
					if !ok {
						continue
					}
					fa, ok := ld.X.(*ssa.FieldAddr)
					if !ok || fieldOfAddr(fa) != eventsF {
						continue
					}
					key := "receive-site|" + fnKey(fn)
					if fn != loop {
						c.R.Bad(rule, key, c.pos(in), "file events are also received outside the event loop: an event taken here is never turned into a reload, so a change can be skipped", nil, nil)
						continue
					}
					// the received event is passed to filterEvent in the same function
					inV, _ := in.(ssa.Value)
					passes := false
					for _, b2 := range fn.Blocks {
						for _, in2 := range b2.Instrs {
							if call, ok := in2.(*ssa.Call); ok && call.Call.StaticCallee() == filter {
								if ta, ok := unwrap(call.Call.Args[1]).(*ssa.TypeAssert); ok {
									if ex, ok := ta.X.(*ssa.Extract); ok && ex.Tuple == inV {
										passes = true
									}
								} else if ex, ok := unwrap(call.Call.Args[1]).(*ssa.Extract); ok && ex.Tuple == inV {
									passes = true
								} else if call.Call.Args[1] == inV {
									passes = true
								}
							}
						}
					}
					if passes {
						c.ok(rule, key, in, "the only receive site; the event goes to filterEvent")
					} else {
						c.R.Bad(rule, key, c.pos(in), "a received file event is not handed to filterEvent", nil, nil)
					}
				}
			}
		}
	}
	// (c) in the loop, nothing but filterEvent consumes events between two receives: filterEvent is called exactly at one site
	n := 0
	for _, ci := range c.callersOf(filter) {
		n++
		key := "filter-caller|" + fnKey(ci.Parent())
		if ci.Parent() == loop {
			c.ok(rule, key, ci, "called from the event loop")
		} else {
			c.R.Bad(rule, key, c.pos(ci), "filterEvent is driven from outside the event loop", nil, nil)
		}
	}
	if n == 0 {
		c.R.Unknown(rule, "filter-caller|none", "-", "filterEvent has no caller")
	}
	runWatcherReloadRule(c, rule)
}

func fieldOfAddr(fa *ssa.FieldAddr) *types.Var {
	t := fa.X.Type().Underlying()
	if pt, ok := t.(*types.Pointer); ok {
		t = pt.Elem().Underlying()
	}
	if st, ok := t.(*types.Struct); ok {
		return st.Field(fa.Field)
	}
	return nil
}

// runC20R6: (a) a reload never installs a credential map without a single entry: in loadHTPasswdFile the
// swap happens only on paths on which the freshly built map was found non-empty (today inside
// createHtpasswdMap, which pairs a nil error only with len(users) != 0) — an empty or comment-only
// version read during an in-place rewrite must leave the old contents in force; (b) the only
// implementation of basic.Validator is the reloaded map itself: a wrapper (cache, memo) in front of it
// keeps answering from contents a completed reload has replaced.
func runC20R6(c *Ctx, rule string) {
	create := c.Fn(rule, "pkg/authentication/basic.createHtpasswdMap")
	usersF := c.Field(rule, "pkg/authentication/basic.htpasswdMap.users")
	if create != nil && usersF != nil {
		c.Walk(rule, create, func(p *walk.Path) {
			ev, ok := p.ReturnDV(1)
			if !ok || !DefinitelyNil(p, ev, p.End()) {
				return
			}
			key := "non-empty|" + fnKey(create)
			nonEmpty := false
			for _, a := range p.Atoms(p.End()) {
				b, ok := a.DV.V.(*ssa.BinOp)
				if !ok || a.IsNil {
					continue
				}
				k, isConst := ConstInt(b.Y)
				lc, isCall := p.Resolve(p.Op(b.X, a.DV)).V.(*ssa.Call)
				if !isConst || !isCall {
					continue
				}
				if bi, ok := lc.Call.Value.(*ssa.Builtin); !ok || bi.Name() != "len" || !walk.IsFieldLoad(p.Resolve(p.Op(lc.Call.Args[0], p.Resolve(p.Op(b.X, a.DV)))).V, usersF) {
					continue
				}
				switch {
				case (b.Op == token.EQL || b.Op == token.NEQ) && k == 0 && !a.Val:
					nonEmpty = true
				case b.Op == token.GTR && k == 0 && a.Val:
					nonEmpty = true
				}
			}
			if nonEmpty {
				c.ok(rule, key, p.Exit, "a nil error only for a map with at least one entry")
			} else {
				c.bad(rule, key, p.Exit, "createHtpasswdMap reports success for a file without a single valid entry: a reload that catches an empty or comment-only version swaps in an empty map and every user is locked out until the next change", p, p.End())
			}
		})
	}
	// (b) implementations of basic.Validator
	vT := c.P.Named("pkg/authentication/basic.Validator")
	if vT == nil {
		c.R.Unknown(rule, "anchor:basic.Validator", "-", "interface not found")
		return
	}
	iface := vT.Underlying().(*types.Interface)
	n := 0
	for _, pk := range c.P.SortedMod() {
		scope := c.P.Mod[pk].Types.Scope()
		for _, name := range scope.Names() {
			tn, ok := scope.Lookup(name).(*types.TypeName)
			if !ok || tn.IsAlias() || types.IsInterface(tn.Type()) {
				continue
			}
			if !types.Implements(tn.Type(), iface) && !types.Implements(types.NewPointer(tn.Type()), iface) {
				continue
			}
			n++
			key := "validator-impl|" + pk + "." + name
			if pk == "pkg/authentication/basic" && name == "htpasswdMap" {
				c.R.OK(rule, key, c.P.Pos(tn.Pos()), "the reloaded credential map itself")
			} else {
				c.R.Bad(rule, key, c.P.Pos(tn.Pos()), "a second implementation of basic.Validator ("+pk+"."+name+"): whatever it answers from (a cache, a copy) is not replaced when the htpasswd file is reloaded", nil, nil)
			}
		}
	}
	if n == 0 {
		c.R.Unknown(rule, "validator-impl|none", "-", "no implementation of basic.Validator found")
	}
}

// runC20R7: a reload happens because the watcher, armed on the path the operator configured, sees that path change.
// Two ways to lose it without touching watcher or loaders: (a) rewriting the option to a "canonical" path (symlinks
// resolved) — a ConfigMap-style update re-points the symlink and the resolved target is never written again;
// (b) anything else opening the file and keeping it open — the kernel then reports the replacement as an attribute
// change of the old inode, which the event filter ignores. Decided structurally: the two option fields are stored
// only in option loading, and every use of a loaded value is an emptiness test, a log argument, or the argument of
// the reviewed constructor of its loader (which are covered by R1–R6).
func runC20R7(c *Ctx, rule string) {
	consumers := map[string]bool{
		"main.NewValidator":                             true, // -> NewUserMap -> WatchFileForUpdates + LoadAuthenticatedEmailsFile
		"pkg/authentication/basic.NewHTPasswdValidator": true, // -> loadHTPasswdFile + WatchFileForUpdates
	}
	for name := range consumers {
		c.Fn(rule, name)
	}
	isLogSink := func(mi *ssa.MakeInterface) bool {
		if mi.Referrers() == nil {
			return false
		}
		for _, r := range *mi.Referrers() {
			st, ok := r.(*ssa.Store)
			if !ok {
				if _, dbg := r.(*ssa.DebugRef); dbg {
					continue
				}
				return false
			}
			ia, ok := st.Addr.(*ssa.IndexAddr)
			if !ok {
				return false
			}
			arr, ok := ia.X.(*ssa.Alloc)
			if !ok || arr.Referrers() == nil {
				return false
			}
			for _, ar := range *arr.Referrers() {
				sl, ok := ar.(*ssa.Slice)
				if !ok || sl.Referrers() == nil {
					continue
				}
				for _, u := range *sl.Referrers() {
					ci, ok := u.(ssa.CallInstruction)
					if !ok {
						return false
					}
					sc := ci.Common().StaticCallee()
					if sc == nil || sc.Pkg == nil {
						return false
					}
					if pk := prog.Short(sc.Pkg.Pkg.Path()); pk != "pkg/logger" && pk != "fmt" {
						return false
					}
				}
			}
		}
		return true
	}
	for _, name := range []string{"HtpasswdFile", "AuthenticatedEmailsFile"} {
		f := c.Field(rule, "pkg/apis/options.Options."+name)
		if f == nil {
			continue
		}
		n, bad := 0, false
		for _, ref := range c.fieldRefs(f) {
			if strings.HasPrefix(prog.Short(prog.FnPkg(ref.Fn).Path()), "pkg/apis/options") {
				continue
			}
			if ref.Store != nil {
				bad = true
				c.bad(rule, "path-rewritten|"+name+"|"+fnKey(ref.Fn), ref.In, "Options."+name+" is rewritten after loading: the watcher is then armed on a path other than the one the operator maintains (a resolved symlink target is never updated again), so later contents are never loaded", nil, 0)
				continue
			}
			ld, ok := ref.In.(*ssa.UnOp)
			if !ok || ld.Referrers() == nil {
				continue
			}
			n++
			for _, u := range *ld.Referrers() {
				okUse := false
				switch x := u.(type) {
				case *ssa.DebugRef:
					okUse = true
				case *ssa.BinOp:
					okUse = x.Op == token.EQL || x.Op == token.NEQ
				case *ssa.MakeInterface:
					okUse = isLogSink(x)
				case ssa.CallInstruction:
					if sc := x.Common().StaticCallee(); sc != nil && consumers[prog.Name(sc)] {
						okUse = true
					} else if sc != nil && sc.Pkg != nil {
						// library calls that neither keep the file open nor change the option
						switch pk := sc.Pkg.Pkg.Path(); {
						case pk == "os" && (sc.Name() == "Stat" || sc.Name() == "Lstat"), pk == "path/filepath", pk == "strings", pk == "path":
							okUse = true
						}
					}
				}
				if !okUse {
					bad = true
					c.bad(rule, "path-flow|"+name+"|"+fnKey(ref.Fn), u, "the configured path of the "+name+" flows somewhere other than its loader's constructor, an emptiness test or a log line: whatever else resolves, opens or holds that file can keep the watcher from ever seeing it replaced", nil, 0)
				}
			}
		}
		switch {
		case n == 0:
			c.R.Unknown(rule, "path-flow|"+name, "-", "no reader of Options."+name+" found")
		case !bad:
			c.R.OK(rule, "path-flow|"+name, "-", sprintf("%d load(s) of Options.%s: emptiness tests, log lines and the loader's constructor only; no store outside option loading", n, name))
		}
	}
}

// runC20R8: the watcher (R5, C08.R6) calls the action for every selected event; the action is where the new contents
// are read. Every function value handed to WatchFileForUpdates as the action calls, on each of its return paths, a
// loader — a module function reached with the watched path (or a method of the object that holds it) that opens the
// file. An action that returns early because the file "looks unchanged" (same or older modification time, same size)
// keeps the old contents in force after a rollback or a timestamp-preserving copy.
func runC20R8(c *Ctx, rule string) {
	watch := c.Fn(rule, "pkg/watcher.WatchFileForUpdates")
	if watch == nil {
		return
	}
	opens := func(fn *ssa.Function) bool {
		for g := range c.staticReach(fn, 2) {
			for _, b := range g.Blocks {
				for _, in := range b.Instrs {
					if call, ok := in.(*ssa.Call); ok {
						if sc := call.Call.StaticCallee(); sc != nil && sc.Pkg != nil && sc.Pkg.Pkg.Path() == "os" && (sc.Name() == "Open" || sc.Name() == "OpenFile" || sc.Name() == "ReadFile") {
							return true
						}
					}
				}
			}
		}
		return false
	}
	n := 0
	for _, cs := range c.callersOf(watch) {
		args := cs.Common().Args
		if len(args) < 3 {
			continue
		}
		var action *ssa.Function
		switch x := unwrap0(args[2]).(type) {
		case *ssa.MakeClosure:
			action, _ = x.Fn.(*ssa.Function)
		case *ssa.Function:
			action = x
		}
		key := "action|" + fnKey(cs.Parent())
		if action == nil {
			c.R.Unknown(rule, key, c.pos(cs), "the watcher's action is not a function literal or named function")
			continue
		}
		n++
		bad, paths := false, 0
		c.WalkShallow(rule, action, func(p *walk.Path) {
			if _, ok := p.Exit.(*ssa.Return); !ok || bad {
				return
			}
			paths++
			for _, cl := range p.Calls() {
				if sc := cl.C.StaticCallee(); sc != nil && c.P.InModule(sc) && opens(sc) {
					return
				}
			}
			bad = true
			c.bad(rule, key, p.Exit, "the action the file watcher runs can return without re-reading the file: an update that does not pass the gate on this path (an equal or older modification time, for instance) is never loaded", p, p.End())
		})
		if !bad {
			c.R.OK(rule, key, c.pos(cs), sprintf("%d path(s) of the action, each re-reads the file", paths))
		}
	}
	if n == 0 {
		c.R.Unknown(rule, "action|none", "-", "no caller of WatchFileForUpdates found")
	}
}

// runC20R9: each IsValid is one atomic load of the published map, so each answers from a complete list — but an answer
// assembled from two of them can mix the old list with the new one (false for an address both lists allow, when a
// reload lands between the lookups). On every path of the validator closure built by newValidatorImpl UserMap.IsValid
// is called at most once, and IsValid itself performs exactly one atomic.LoadPointer on each path.
func runC20R9(c *Ctx, rule string) {
	vfn := c.Fn(rule, "main.newValidatorImpl$1")
	isValid := c.Fn(rule, "(*main.UserMap).IsValid")
	if vfn == nil || isValid == nil {
		return
	}
	key := "lookups-per-validation|" + fnKey(vfn)
	worst := 0
	var at ssa.Instruction
	c.WalkShallow(rule, vfn, func(p *walk.Path) {
		n := len(p.Find(walk.Static(isValid), p.End()))
		if n > worst {
			worst, at = n, p.Exit
			if n > 1 {
				c.bad(rule, key, p.Exit, sprintf("one validation looks the address up in the reloadable list %d times: a reload between the lookups makes the answer a mixture of the old and the new list (an address both allow can be refused)", n), p, p.End())
			}
		}
	})
	if worst <= 1 {
		pos := c.P.Pos(vfn.Pos())
		if at != nil {
			pos = c.pos(at)
		}
		c.R.OK(rule, key, pos, "at most one UserMap.IsValid per validation")
	}
	key = "loads-per-lookup|" + fnKey(isValid)
	bad := false
	c.WalkShallow(rule, isValid, func(p *walk.Path) {
		if _, ok := p.Exit.(*ssa.Return); !ok || bad {
			return
		}
		n := 0
		for _, cl := range p.Calls() {
			if sc := cl.C.StaticCallee(); sc != nil && sc.String() == "sync/atomic.LoadPointer" {
				n++
			}
		}
		if n != 1 {
			bad = true
			c.bad(rule, key, p.Exit, sprintf("IsValid loads the published map %d times on this path", n), p, p.End())
		}
	})
	if !bad {
		c.R.OK(rule, key, c.P.Pos(isValid.Pos()), "exactly one atomic.LoadPointer per lookup")
	}
}
