package rules

import (
	"go/token"
	"go/types"
	"sort"
	"strings"

	"golang.org/x/tools/go/ssa"

	"oapsa/internal/prog"
	"oapsa/internal/walk"
)

func init() {
	register(&Prop{
		ID:          "C04",
		Explanation: "Decides that sessions are built from claims only behind token verification: idTokenVerifier.Verify returns a token only when go-oidc's Verify returned it without error and verifyAudience's verdict was true; verifyAudience/isValidAudience are true only on a membership hit of a token audience in allowedAudiences, whose only writer is NewVerifier (keys: ClientID, ExtraAudiences); every oidc.Config literal leaves expiry and signature checks on and takes SkipIssuerCheck from SkipIssuerVerification alone (SkipClientIDCheck:true is accepted because the own audience check is proven); createSession / CreateSessionFromToken / the bearer closure build a session from the raw token only on paths where that same token passed Verify (sole exception: refresh with ErrMissingIDToken, where the token string is empty); the email_verified gate guards every success return of the two claim readers; the bearer loader list holds only provider.CreateSessionFromToken and CreateTokenToSessionFunc(verifier.Verify); every override of CreateSessionFromToken/RefreshSession/Redeem on an OIDC-embedding provider succeeds only after the embedded implementation succeeded; the claim extractor's token document is set once and never mutated, and GetClaim returns a profile-endpoint value only after the token lookup for that claim returned nothing. Added during the build: buildSessionFromClaims reads a claim from the verified token's claims before any profile-URL fallback (R7). Every go-oidc Claims() target is a variable of the calling invocation, so claims absent from one token cannot be inherited from another (R8). Round 3: every write of ProviderVerifierOptions.SkipIssuerVerification is the operator's option or constant false (under R2). Round 4: each insecure OIDC toggle is converted from the legacy flag of the same meaning (R9); every verifier is built from an options value of its own (R10); verifyAudience consults at most one audience claim found in the token — the first configured one present decides (under R1). Round 6: the configured provider's own CreateSessionFromToken (which applies the operator's claim mapping) is one of the bearer loaders (under R5). Round 7: request handling keeps no state of its own between requests — no store, map update, in-place builtin, atomic/sync.Map write or pointer-receiver library call (singleflight, caches) reached from ServeHTTP targets a package-level variable, an object built at start-up, or a constructor variable captured by the handler it returned, declared in the packages implementing this property (RS; a class-wide who-may-write rule with zero instances today: a correct memoisation would be reported until reviewed). A RefreshSession override that delegates to the generic refresh only extends the groups the refreshed token produced (R11); refresh adopts the token's identity claims with the token (R12, shared with C12.R9; generic OIDC path only — the legacy Azure provider keeps Graph groups by design and stays an unclaimed site). Round 8: the legacy Azure provider's verifySessionToken answers nil only without a verifier or after a Verify call of the path succeeded (R13; which token's claims are then read remains the unclaimed site). Round 8 (class-wide, P12): in the packages implementing this property every named error result that is used at all is examined — compared with nil, returned, stored or handed to a non-formatting function — unless the code validates the value result instead (RE; zero instances today). Round 9: login.gov's checkNonce answers nil only after jwt.ParseWithClaims returned no error (R14).",
		NotDecided:  "claim-value equality between token and session fields; go-oidc's signature/issuer/expiry code (trusted when not told to skip); the legacy Azure provider's extractClaimsIntoSession (verifies either token, reads the ID token's claims) is listed as an unclaimed site.",
		Run:         runC04,
	})
}

func runC04(c *Ctx) {
	c.R.Rule("RE-errors-examined", "in the packages implementing this property every named error result that is used at all is examined, or the value is validated instead (P12, class-wide, round 8)", 1)
	runErrorsExamined(c, "RE-errors-examined", "pkg/providers/oidc", "providers")
	c.R.Rule("RS-no-request-time-state", "request handling writes no state that outlives the request (package-level variables, objects built at start-up, constructor variables captured by handlers) declared in the packages implementing this property", 1)
	runStateless(c, "RS-no-request-time-state", "providers", "pkg/providers", "pkg/middleware.jwtSessionLoader")
	r := c.R
	r.Rule("R1-verifier", "idTokenVerifier.Verify ok => go-oidc Verify ok && verifyAudience true; audience verdict only by allowedAudiences membership; closed writer set", 6)
	r.Rule("R2-oidc-config", "oidc.Config literals: expiry/signature checks never skipped; SkipIssuerCheck only from SkipIssuerVerification", 5)
	r.Rule("R3-same-token", "claims are read only from the token that passed Verify on this path", 6)
	r.Rule("R4-email-verified", "email_verified gate on every success return of the claim readers", 5)
	r.Rule("R5-bearer-loaders", "bearer loader list = the configured provider's CreateSessionFromToken + CreateTokenToSessionFunc(verifier.Verify)", 3)
	r.Rule("R11-override-extends-refreshed-groups", "a RefreshSession override that delegates to the generic refresh only extends the groups the refreshed ID token produced, never restores a list captured before the refresh (round 7)", 1)
	runC04R11(c, "R11-override-extends-refreshed-groups")
	r.Rule("R12-refresh-adopts-identity", "a refresh that adopts the new ID token adopts its e-mail, user, groups and preferred user name with it (shared with C12.R9, round 7)", 3)
	runC12R9(c, "R12-refresh-adopts-identity")
	r.Rule("R13-azure-verify-nil-only-verified", "the legacy Azure provider's verifySessionToken answers nil only without a verifier or after a Verify call of the path succeeded (round 8)", 1)
	runAzureVerifyNilOnlyVerified(c, "R13-azure-verify-nil-only-verified")
	r.Rule("R14-logingov-verify-nil-only-parsed", "login.gov's checkNonce answers nil only after jwt.ParseWithClaims returned no error: no error class (expired, not yet valid) is tolerated (round 9)", 1)
	runLoginGovVerifyNilOnlyParsed(c, "R14-logingov-verify-nil-only-parsed")
	r.Rule("R9-legacy-toggle-table", "each insecure OIDC toggle is converted from the legacy flag of the same meaning", 4)
	r.Rule("R10-verifier-options-per-issuer", "every verifier is built from an options value of its own (no options object shared between issuers)", 2)
	r.Rule("R8-claims-target-fresh", "every go-oidc Claims() target is a variable allocated in the calling invocation", 3)
	r.Rule("R7-token-claims-first", "token claims are immutable after construction and take precedence; profile values only for claims the token lacks", 4)
	r.Rule("R6-overrides-delegate", "OIDC-embedding providers' overrides succeed only after the embedded implementation succeeded", 8)

	runC04R1(c)
	runC04R2(c)
	runC04R3R4(c)
	runC04R5(c)
	runC04R6(c)
	runC04R7(c)
	runC04R8(c, "R8-claims-target-fresh")
	runIssuerCheckOn(c, "R2-oidc-config")
	runLegacyToggleTable(c, "R9-legacy-toggle-table")
	runVerifierOptionsFresh(c, "R10-verifier-options-per-issuer")
}

func runC04R1(c *Ctx) { runVerifierRule(c, "R1-verifier") }

// runVerifierRule: the ID-token verifier accepts only with go-oidc ok and the own audience membership check (C04.R1, also C01: bearer credentials).
func runVerifierRule(c *Ctx, rule string) {
	verify := c.Fn(rule, "(*pkg/providers/oidc.idTokenVerifier).Verify")
	va := c.Fn(rule, "(*pkg/providers/oidc.idTokenVerifier).verifyAudience")
	newVerifier := c.Fn(rule, "pkg/providers/oidc.NewVerifier")
	allowedF := c.Field(rule, "pkg/providers/oidc.idTokenVerifier.allowedAudiences")
	audF := c.P.Field("github.com/coreos/go-oidc/v3/oidc.IDToken.Audience")
	if verify == nil || va == nil || newVerifier == nil || allowedF == nil || audF == nil {
		if audF == nil {
			c.R.Unknown(rule, "anchor:oidc.IDToken.Audience", "-", "go-oidc IDToken.Audience field not found")
		}
		return
	}
	isGoOIDCVerify := func(_ *walk.Path, k walk.Call) bool {
		sc := k.C.StaticCallee()
		return sc != nil && sc.Name() == "Verify" && sc.Pkg != nil && sc.Pkg.Pkg.Path() == "github.com/coreos/go-oidc/v3/oidc"
	}
	c.Walk(rule, verify, func(p *walk.Path) {
		rv, ok := p.ReturnDV(0)
		if !ok || DefinitelyNil(p, rv, p.End()) {
			return
		}
		key := "success-return|" + fnKey(verify)
		gv, ok := extractOfCall(p, rv, 0)
		if !ok || !isGoOIDCVerify(p, gv) || p.Resolve(p.Arg(gv, 2)).V != verify.Params[2] {
			c.bad(rule, key, p.Exit, "Verify returns a token that is not go-oidc's verification result for the presented raw token", p, p.End())
			return
		}
		if n, k := p.ResultNil(gv.DV(), 1, p.End()); !(k && n) {
			c.bad(rule, key, p.Exit, "Verify returns the token although go-oidc's error is not known to be nil", p, p.End())
			return
		}
		if _, ok := Has(p, p.End(), Need{M: walk.Static(va), Idx: 0, Out: IsTrue, Where: func(p *walk.Path, k walk.Call) bool {
			return ResultIs(p, p.Arg(k, 1), gv, 0)
		}}); !ok {
			c.bad(rule, key, p.Exit, "Verify returns the token on a path where verifyAudience(token, claims) was not true (go-oidc's client-ID check is off, so audience enforcement is this check)", p, p.End())
			return
		}
		c.ok(rule, key, p.Exit, "go-oidc Verify ok && verifyAudience(token)==true")
	})
	// verifyAudience: a possibly-true verdict needs a membership hit of an element of token.Audience in
	// v.allowedAudiences. The isValidAudience helper is not an anchor: where it exists the walker inlines it.
	c.Walk(rule, va, func(p *walk.Path) {
		rv, ok := p.ReturnDV(0)
		if !ok {
			return
		}
		if b, k := p.Truth(rv, p.End()); k && !b {
			return
		}
		key := "true-verdict|" + fnKey(va)
		if lookupHit(p, p.End(), func(m walk.DV) bool { return walk.IsFieldLoad(p.Resolve(m).V, allowedF) }, func(k walk.DV) bool {
			r := p.Resolve(k)
			u, ok := r.V.(*ssa.UnOp)
			if !ok {
				return false
			}
			ia, ok := u.X.(*ssa.IndexAddr)
			return ok && fieldLoadOn(p, p.Op(ia.X, p.Op(ia, r)), audF, walk.DV{V: va.Params[1]})
		}) {
			c.ok(rule, key, p.Exit, "some element of token.Audience is a key of v.allowedAudiences")
		} else {
			c.bad(rule, key, p.Exit, "verifyAudience can report true without a membership hit of one of the token's audiences in v.allowedAudiences", p, p.End())
		}
	})
	// the first configured audience claim that the token carries decides: no path looks at a second claim after one
	// was found (a later claim such as azp/client_id "rescuing" a token whose audience is another service)
	{
		key := "first-claim-decides|" + fnKey(va)
		worst := 0
		var at ssa.Instruction
		c.Walk(rule, va, func(p *walk.Path) {
			hits := 0
			for _, a := range p.Atoms(p.End()) {
				if a.IsNil || !a.Val {
					continue
				}
				ex, ok := a.DV.V.(*ssa.Extract)
				if !ok || ex.Index != 1 {
					continue
				}
				t := p.Resolve(p.Op(ex.Tuple, a.DV))
				if lk, ok := t.V.(*ssa.Lookup); ok && lk.CommaOk && len(va.Params) > 2 && p.Resolve(p.Op(lk.X, t)).V == ssa.Value(va.Params[2]) {
					hits++
				}
			}
			if hits > worst {
				worst = hits
				at = p.Exit
				if hits > 1 {
					c.bad(rule, key, p.Exit, "verifyAudience goes on to another configured audience claim after one was found in the token: a token whose audience is not allowed is accepted because a later claim holds an allowed value", p, p.End())
				}
			}
		})
		if worst == 1 {
			c.ok(rule, key, at, "every path consults at most one audience claim found in the token")
		} else if worst == 0 {
			c.R.Unknown(rule, key, c.P.Pos(va.Pos()), "no lookup of a configured audience claim in the token's claims found")
		}
	}
	// writers of allowedAudiences
	for _, ref := range c.fieldRefs(allowedF) {
		if ref.Kind == "load" {
			continue
		}
		key := ref.Kind + "|" + fnKey(ref.Fn)
		if ref.Kind == "store" && ref.Fn == newVerifier {
			c.ok(rule, key, ref.In, "constructor")
		} else {
			c.bad(rule, key, ref.In, "allowedAudiences is written outside NewVerifier", nil, 0)
		}
	}
	// map updates on the allowed set: only in NewVerifier, keys = vo.ClientID / elements of vo.ExtraAudiences
	clientIDF := c.Field(rule, "pkg/providers/oidc.IDTokenVerificationOptions.ClientID")
	extraF := c.Field(rule, "pkg/providers/oidc.IDTokenVerificationOptions.ExtraAudiences")
	if clientIDF != nil && extraF != nil {
		for _, b := range newVerifier.Blocks {
			for _, in := range b.Instrs {
				mu, ok := in.(*ssa.MapUpdate)
				if !ok {
					continue
				}
				key := "allowed-key|" + fnKey(newVerifier)
				k := mu.Key
				okKey := isFieldLoadOf(k, clientIDF)
				if u, ok := k.(*ssa.UnOp); ok {
					if ia, ok := u.X.(*ssa.IndexAddr); ok && isFieldLoadOf(ia.X, extraF) {
						okKey = true
					}
				}
				if f, ok := k.(*ssa.Field); ok && walk.FieldOf(f.X.Type(), f.Field) == clientIDF {
					okKey = true
				}
				if okKey {
					c.ok(rule, key+"|"+k.Name(), in, "allowed audience from ClientID / ExtraAudiences")
				} else {
					c.bad(rule, key+"|"+k.Name(), in, "an allowed audience is added that is neither the client ID nor a configured extra audience", nil, 0)
				}
			}
		}
	}
}

func runC04R2(c *Ctx) { runOIDCConfigRule(c, "R2-oidc-config") }

// runOIDCConfigRule: every oidc.Config literal keeps expiry and signature checks on and takes SkipIssuerCheck from the
// SkipIssuerVerification option alone (C04.R2, also C01.R11: the verifiers of bearer tokens are built from it).
func runOIDCConfigRule(c *Ctx, rule string) {
	cfgT := c.P.Named("github.com/coreos/go-oidc/v3/oidc.Config")
	skipIssuerOpt := c.Field(rule, "pkg/providers/oidc.ProviderVerifierOptions.SkipIssuerVerification")
	if cfgT == nil || skipIssuerOpt == nil {
		if cfgT == nil {
			c.R.Unknown(rule, "anchor:oidc.Config", "-", "go-oidc Config type not found")
		}
		return
	}
	n := 0
	for _, fn := range c.P.ModFns {
		for _, b := range fn.Blocks {
			for _, in := range b.Instrs {
				fa, ok := in.(*ssa.FieldAddr)
				if !ok {
					continue
				}
				pt, ok := fa.X.Type().Underlying().(*types.Pointer)
				if !ok || !types.Identical(pt.Elem(), cfgT) {
					continue
				}
				f := walk.FieldOf(fa.X.Type(), fa.Field)
				for _, ref := range *fa.Referrers() {
					st, ok := ref.(*ssa.Store)
					if !ok || st.Addr != fa {
						continue
					}
					n++
					key := "config|" + fnKey(fn) + "|" + f.Name()
					switch f.Name() {
					case "SkipExpiryCheck", "InsecureSkipSignatureCheck":
						if k, ok := st.Val.(*ssa.Const); ok {
							if b, _ := boolConst(k); !b {
								c.ok(rule, key, st, "constant false")
								continue
							}
						}
						c.bad(rule, key, st, "an oidc.Config can disable "+strings.TrimPrefix(strings.TrimPrefix(f.Name(), "InsecureSkip"), "Skip")+" verification of ID tokens", nil, 0)
					case "SkipIssuerCheck":
						if isFieldLoadOf(st.Val, skipIssuerOpt) || isFieldValueOf(st.Val, skipIssuerOpt) {
							c.ok(rule, key, st, "only the explicit insecure option SkipIssuerVerification")
						} else {
							c.bad(rule, key, st, "issuer checking can be skipped by something other than the explicit SkipIssuerVerification option", nil, 0)
						}
					case "SkipClientIDCheck":
						c.ok(rule, key, st, "client-ID check replaced by the own audience check (R1)")
					case "Now":
						c.bad(rule, key, st, "an oidc.Config overrides the clock used for expiry checks", nil, 0)
					default:
						c.ok(rule, key, st, "not a check-disabling field")
					}
				}
			}
		}
	}
	if n == 0 {
		c.R.Unknown(rule, "config|none", "-", "no oidc.Config literal found: verifier construction has moved")
	}
}

func boolConst(k *ssa.Const) (bool, bool) {
	if k.Value == nil {
		return false, true
	}
	return k.Value.String() == "true", true
}

// isFieldValueOf: v is a value projection (ssa.Field) of field f — used when the struct is passed by value.
func isFieldValueOf(v ssa.Value, f *types.Var) bool {
	x, ok := v.(*ssa.Field)
	return ok && walk.FieldOf(x.X.Type(), x.Field) == f
}

func runC04R3R4(c *Ctx) {
	rule := "R3-same-token"
	createSession := c.Fn(rule, "(*providers.OIDCProvider).createSession")
	csft := c.Fn(rule, "(*providers.OIDCProvider).CreateSessionFromToken")
	bearer := c.Fn(rule, "pkg/apis/middleware.CreateTokenToSessionFunc$1")
	verifyIDToken := c.Fn(rule, "(*providers.ProviderData).verifyIDToken")
	build := c.Fn(rule, "(*providers.ProviderData).buildSessionFromClaims")
	getIDToken := c.Fn(rule, "providers.getIDToken")
	verifyM := c.Method(rule, "pkg/providers/oidc.IDTokenVerifier.Verify")
	if createSession == nil || csft == nil || bearer == nil || verifyIDToken == nil || build == nil || getIDToken == nil || verifyM == nil {
		return
	}
	isGetIDTokenOf := func(p *walk.Path, dv walk.DV, tok ssa.Value) bool {
		cl, ok := extractOfCall(p, dv, 0)
		return ok && cl.C.StaticCallee() == getIDToken && p.Resolve(p.Arg(cl, 0)).V == tok
	}
	// createSession
	tokP, refreshP := createSession.Params[2], createSession.Params[3]
	c.Walk(rule, createSession, func(p *walk.Path) {
		rv, ok := p.ReturnDV(0)
		if !ok || DefinitelyNil(p, rv, p.End()) {
			return
		}
		at := p.End()
		key := "success-return|" + fnKey(createSession)
		bc, ok := Has(p, at, Need{M: walk.Static(build), Idx: 1, Out: ErrNil})
		if !ok || !isGetIDTokenOf(p, p.Arg(bc, 1), tokP) {
			c.bad(rule, key, p.Exit, "the session is not built from getIDToken(token) of the token response being processed", p, at)
			return
		}
		vc, ok := Has(p, at, Need{M: walk.Static(verifyIDToken), Out: Called, Where: func(p *walk.Path, k walk.Call) bool {
			return p.Resolve(p.Arg(k, 2)).V == tokP && k.Idx < bc.Idx
		}})
		if !ok {
			c.bad(rule, key, p.Exit, "a session is built from the token's claims without verifyIDToken(token) having run first", p, at)
			return
		}
		if n, k := p.ResultNil(vc.DV(), 1, at); k && n {
			c.ok(rule, key+"|verified", p.Exit, "verifyIDToken(token) err==nil before buildSessionFromClaims(getIDToken(token))")
			return
		}
		// exception: refresh && err is ErrMissingIDToken
		refresh := false
		if b, k := p.Truth(walk.DV{V: refreshP}, at); k && b {
			refresh = true
		}
		missing := false
		ek := p.ResultKey(vc.DV(), 1)
		for _, a := range p.Atoms(at) {
			if a.IsNil || !a.Val {
				continue
			}
			if b, ok := a.DV.V.(*ssa.BinOp); ok && (b.Op == token.EQL || b.Op == token.NEQ) {
				l, r := p.Op(b.X, a.DV), p.Op(b.Y, a.DV)
				if (p.Key(l) == ek && strings.HasSuffix(globalLoad(p.Resolve(r).V), "providers.ErrMissingIDToken")) ||
					(p.Key(r) == ek && strings.HasSuffix(globalLoad(p.Resolve(l).V), "providers.ErrMissingIDToken")) {
					missing = true
				}
			}
			if call, ok := a.DV.V.(*ssa.Call); ok && isStd(&call.Call, "errors", "Is") &&
				p.Key(p.Op(call.Call.Args[0], a.DV)) == ek && strings.HasSuffix(globalLoad(call.Call.Args[1]), "providers.ErrMissingIDToken") {
				missing = true
			}
		}
		if refresh && missing {
			c.ok(rule, key+"|refresh-without-id-token", p.Exit, "refresh response without id_token: token string is empty, empty claims")
			return
		}
		c.bad(rule, key, p.Exit, sprintf("a session is built although ID-token verification failed (tolerated only for refresh && ErrMissingIDToken; refresh:%v missing-id-token:%v)", refresh, missing), p, at)
	})
	// verifyIDToken: non-nil token only from Verifier.Verify(ctx, getIDToken(token)); missing => ErrMissingIDToken
	c.Walk(rule, verifyIDToken, func(p *walk.Path) {
		ev, ok := p.ReturnDV(1)
		if !ok {
			return
		}
		key := "verify-result|" + fnKey(verifyIDToken)
		if cl, ok := extractOfCall(p, ev, 1); ok && walk.Invoke(c.P, verifyM)(p, cl) {
			if isGetIDTokenOf(p, p.Arg(cl, 1), verifyIDToken.Params[2]) {
				c.ok(rule, key+"|verifier", p.Exit, "returns Verifier.Verify(ctx, getIDToken(token))")
			} else {
				c.bad(rule, key, p.Exit, "verifyIDToken verifies something other than getIDToken(token)", p, p.End())
			}
			return
		}
		if definitelyNonNil(p, ev, p.End()) {
			c.ok(rule, key+"|error", p.Exit, "definite error (missing token / no verifier)")
			return
		}
		c.bad(rule, key, p.Exit, "verifyIDToken can return a nil error without Verifier.Verify having accepted the token", p, p.End())
	})
	// CreateSessionFromToken (bearer on OIDC provider)
	c.Walk(rule, csft, func(p *walk.Path) {
		rv, ok := p.ReturnDV(0)
		if !ok || DefinitelyNil(p, rv, p.End()) {
			return
		}
		at := p.End()
		key := "success-return|" + fnKey(csft)
		tok := csft.Params[2]
		vc, ok := Has(p, at, Need{M: walk.Invoke(c.P, verifyM), Idx: 1, Out: ErrNil, Where: func(p *walk.Path, k walk.Call) bool {
			return p.Resolve(p.Arg(k, 1)).V == tok
		}})
		if !ok {
			c.bad(rule, key, p.Exit, "a bearer session is created on a path where Verifier.Verify(token) did not succeed", p, at)
			return
		}
		if _, ok := Has(p, at, Need{M: walk.Static(build), Idx: 1, Out: ErrNil, Where: func(p *walk.Path, k walk.Call) bool {
			return p.Resolve(p.Arg(k, 1)).V == tok && k.Idx > vc.Idx
		}}); !ok {
			c.bad(rule, key, p.Exit, "the bearer session is not built from the verified token after verification", p, at)
			return
		}
		c.ok(rule, key, p.Exit, "Verify(token) ok, then buildSessionFromClaims(token)")
	})
	// generic bearer closure
	c.Walk(rule, bearer, func(p *walk.Path) {
		rv, ok := p.ReturnDV(0)
		if !ok || DefinitelyNil(p, rv, p.End()) {
			return
		}
		at := p.End()
		key := "success-return|" + fnKey(bearer)
		tok := bearer.Params[1]
		var vcall *walk.Call
		for _, cl := range p.Calls() {
			cl := cl
			if cl.C.IsInvoke() || cl.C.StaticCallee() != nil {
				continue
			}
			if _, isFV := p.Resolve(p.StepOp(cl.C.Value, cl.Step)).V.(*ssa.UnOp); !isFV {
				if _, isFree := cl.C.Value.(*ssa.FreeVar); !isFree {
					continue
				}
			}
			if len(cl.C.Args) == 2 && p.Resolve(p.Arg(cl, 1)).V == tok {
				if n, k := p.ResultNil(cl.DV(), 1, at); k && n {
					vcall = &cl
				}
			}
		}
		if vcall == nil {
			c.bad(rule, key, p.Exit, "a bearer session is created on a path where verify(ctx, token) did not succeed", p, at)
			return
		}
		// claims are read from the verified token object
		claimsOK := false
		for _, cl := range p.Calls() {
			sc := cl.C.StaticCallee()
			if sc != nil && sc.Name() == "Claims" && ResultIs(p, p.Arg(cl, 0), *vcall, 0) {
				if n, k := p.ResultNil(cl.DV(), -1, at); k && n {
					claimsOK = true
				}
			}
		}
		if !claimsOK {
			c.bad(rule, key, p.Exit, "claims are not read from the token object that verify returned", p, at)
			return
		}
		c.ok(rule, key, p.Exit, "verify(ctx, token) ok, claims from the verified token")
	})

	// ---- R4 ---------------------------------------------------------------------------------
	rule = "R4-email-verified"
	getClaimInto := c.Method(rule, "pkg/providers/util.ClaimExtractor.GetClaimInto")
	allowUnverifiedF := c.Field(rule, "providers.ProviderData.AllowUnverifiedEmail")
	emailClaimF := c.Field(rule, "providers.ProviderData.EmailClaim")
	if getClaimInto != nil && allowUnverifiedF != nil && emailClaimF != nil {
		c.Walk(rule, build, func(p *walk.Path) {
			rv, ok := p.ReturnDV(0)
			if !ok || DefinitelyNil(p, rv, p.End()) {
				return
			}
			at := p.End()
			key := "success-return|" + fnKey(build)
			// empty token: empty session
			if eqConstAtom(p, at, true, "", func(x walk.DV) bool { return x.V == build.Params[1] }) {
				c.ok(rule, key+"|empty-token", p.Exit, "no id_token: empty session, nothing to gate")
				return
			}
			// gate disabled: EmailClaim != "email" or AllowUnverifiedEmail
			if fieldBoolAtom(p, at, allowUnverifiedF, true) {
				c.ok(rule, key+"|operator-allows-unverified", p.Exit, "AllowUnverifiedEmail")
				return
			}
			if eqConstAtom(p, at, false, "email", func(x walk.DV) bool { return walk.IsFieldLoad(p.Resolve(x).V, emailClaimF) }) {
				c.ok(rule, key+"|custom-email-claim", p.Exit, "a non-standard e-mail claim is configured: email_verified does not apply")
				return
			}
			// gate active: GetClaimInto("email_verified", &verified) ok and !(exists && !verified)
			var cell ssa.Value
			gc, ok := Has(p, at, Need{M: walk.Invoke(c.P, getClaimInto), Idx: 1, Out: ErrNil, Where: func(p *walk.Path, k walk.Call) bool {
				s, ok := ConstString(k.C.Args[0])
				if ok && s == "email_verified" {
					cell = unwrap(k.C.Args[1])
					return true
				}
				return false
			}})
			if !ok {
				c.bad(rule, key, p.Exit, "a session is returned with the e-mail gate active but without reading email_verified", p, at)
				return
			}
			exists, eKnown := p.ResultTruth(gc.DV(), 0, at)
			verified, vKnown := false, false
			for _, a := range p.Atoms(at) {
				if u, ok := a.DV.V.(*ssa.UnOp); ok && !a.IsNil && u.Op == token.MUL && u.X == cell {
					verified, vKnown = a.Val, true
				}
			}
			if (eKnown && !exists) || (vKnown && verified) {
				c.ok(rule, key+"|gate", p.Exit, "email_verified absent or true")
			} else {
				c.bad(rule, key, p.Exit, "a session is returned although email_verified may be present and false", p, at)
			}
		})
		runBearerEmailVerified(c, rule)
	}
}

func isNamedFieldLoad(v ssa.Value, name string) bool {
	u, ok := v.(*ssa.UnOp)
	if !ok || u.Op != token.MUL {
		return false
	}
	fa, ok := u.X.(*ssa.FieldAddr)
	if !ok {
		return false
	}
	f := walk.FieldOf(fa.X.Type(), fa.Field)
	return f != nil && f.Name() == name
}

func runC04R5(c *Ctx) {
	rule := "R5-bearer-loaders"
	bsc := c.Fn(rule, "main.buildSessionChain")
	newJwt := c.Fn(rule, "pkg/middleware.NewJwtSessionLoader")
	cttsf := c.Fn(rule, "pkg/apis/middleware.CreateTokenToSessionFunc")
	csftM := c.Method(rule, "providers.Provider.CreateSessionFromToken")
	if bsc == nil || newJwt == nil || cttsf == nil || csftM == nil {
		return
	}
	// every value stored into a []TokenToSessionFunc backing array in buildSessionChain
	n := 0
	providerLoader := false
	for _, b := range bsc.Blocks {
		for _, in := range b.Instrs {
			st, ok := in.(*ssa.Store)
			if !ok {
				continue
			}
			ia, ok := st.Addr.(*ssa.IndexAddr)
			if !ok || !strings.Contains(ia.X.Type().String(), "TokenToSessionFunc") {
				continue
			}
			n++
			key := "loader|" + st.Val.Name()
			v := unwrap0(st.Val)
			switch x := v.(type) {
			case *ssa.MakeClosure:
				fn := x.Fn.(*ssa.Function)
				if fn.Synthetic != "" && strings.HasPrefix(fn.Name(), "CreateSessionFromToken") {
					if len(x.Bindings) == 1 && len(bsc.Params) > 1 && x.Bindings[0] == ssa.Value(bsc.Params[1]) {
						providerLoader = true
					}
					c.ok(rule, key, st, "provider.CreateSessionFromToken (bound interface method)")
					continue
				}
			case *ssa.Call:
				if x.Call.StaticCallee() == cttsf {
					arg := unwrap0(x.Call.Args[0])
					if mc, ok := arg.(*ssa.MakeClosure); ok {
						if fn := mc.Fn.(*ssa.Function); fn.Synthetic != "" && strings.HasPrefix(fn.Name(), "Verify") {
							c.ok(rule, key, st, "CreateTokenToSessionFunc(verifier.Verify)")
							continue
						}
					}
				}
			}
			c.bad(rule, key, st, "a bearer session loader is registered that is neither provider.CreateSessionFromToken nor CreateTokenToSessionFunc(verifier.Verify)", nil, 0)
		}
	}
	if n < 2 {
		c.R.Unknown(rule, "loader|count", c.P.Pos(bsc.Pos()), "expected the provider loader and the extra-issuer loaders in buildSessionChain")
	}
	// the provider's own tokens go through the provider's CreateSessionFromToken: the OIDC family overrides it to build the
	// session from the operator's configured claims (e-mail, groups, roles); the generic closure reads the standard ones
	if providerLoader {
		c.R.OK(rule, "provider-loader|"+fnKey(bsc), c.P.Pos(bsc.Pos()), "the configured provider's own CreateSessionFromToken is one of the loaders")
	} else {
		c.R.Bad(rule, "provider-loader|"+fnKey(bsc), c.P.Pos(bsc.Pos()), "the configured provider's own CreateSessionFromToken is not among the bearer loaders: its tokens are turned into sessions by the generic closure, which ignores the provider's claim mapping (oidc-email-claim, oidc-groups-claim, Keycloak roles), so authorisation is evaluated on claims the operator did not choose", nil, nil)
	}
	// the list given to NewJwtSessionLoader is that list (only call site)
	for _, cs := range c.callersOf(newJwt) {
		if cs.Parent() != bsc {
			c.bad(rule, "jwt-loader-site|"+fnKey(cs.Parent()), cs, "NewJwtSessionLoader is constructed outside buildSessionChain", nil, 0)
		}
	}
}

func runC04R6(c *Ctx) {
	rule := "R6-overrides-delegate"
	oidcT := c.P.Named("providers.OIDCProvider")
	if oidcT == nil {
		c.R.Unknown(rule, "anchor:OIDCProvider", "-", "providers.OIDCProvider not found")
		return
	}
	for _, mname := range []string{"CreateSessionFromToken", "RefreshSession", "Redeem"} {
		m := c.Method(rule, "providers.Provider."+mname)
		base := c.Fn(rule, "(*providers.OIDCProvider)."+mname)
		createSession := c.P.Func("(*providers.OIDCProvider).createSession")
		if m == nil || base == nil {
			continue
		}
		for _, impl := range c.P.Implementations(m) {
			if impl == base || !c.P.InModule(impl) || impl.Signature.Recv() == nil || !embeds(impl.Signature.Recv().Type(), oidcT) {
				continue
			}
			impl := impl
			memo := map[*ssa.Function]bool{}
			var check func(fn *ssa.Function, depth int, report bool) bool
			check = func(fn *ssa.Function, depth int, report bool) bool {
				if v, ok := memo[fn]; ok && !report {
					return v
				}
				memo[fn] = true // optimistic for recursion
				all := true
				errIdx := errResultIndex(fn.Signature)
				if errIdx < 0 {
					return false
				}
				c.Walk(rule, fn, func(p *walk.Path) {
					ev, ok := p.ReturnDV(errIdx)
					if !ok {
						return
					}
					key := "override|" + fnKey(impl)
					if !DefinitelyNil(p, ev, p.End()) {
						if cl, ok := extractOfCall(p, ev, errIdx); ok {
							if isDelegate(p, cl, base, createSession) {
								if report {
									c.ok(rule, key+"|passes-error", p.Exit, "returns the embedded implementation's error")
								}
								return
							}
							// whole result of a helper in the module that itself delegates
							if sc := cl.C.StaticCallee(); sc != nil && c.P.InModule(sc) && depth < 2 {
								if rv, ok := p.ReturnDV(0); ok {
									if cl0, ok := extractOfCall(p, rv, 0); ok && cl0.In == cl.In && check(sc, depth+1, false) {
										if report {
											c.ok(rule, key+"|via-helper", p.Exit, "returns the result of "+prog.Name(sc)+", which succeeds only after the embedded implementation succeeded")
										}
										return
									}
								}
							}
						}
						if definitelyNonNil(p, ev, p.End()) {
							return
						}
					}
					rv, _ := p.ReturnDV(0)
					if mname == "RefreshSession" {
						if b, k := p.Truth(rv, p.End()); k && !b {
							return
						}
					} else if DefinitelyNil(p, rv, p.End()) {
						return
					}
					for _, cl := range p.Calls() {
						if !isDelegate(p, cl, base, createSession) {
							continue
						}
						ei := errResultIndex(cl.C.Signature())
						if n, k := p.ResultNil(cl.DV(), ei, p.End()); k && n {
							if report {
								c.ok(rule, key, p.Exit, "succeeds only after "+walk.CalleeName(cl.C)+" succeeded")
							}
							return
						}
					}
					all = false
					if report {
						c.bad(rule, key, p.Exit, prog.Name(impl)+" can succeed without the embedded OIDC implementation (and its token verification) having succeeded", p, p.End())
					}
				})
				memo[fn] = all
				return all
			}
			check(impl, 0, true)
		}
	}
}

// isDelegate: a call to the embedded OIDC method, to createSession, or through an oidc*Func field.
func isDelegate(p *walk.Path, cl walk.Call, base, createSession *ssa.Function) bool {
	if sc := cl.C.StaticCallee(); sc != nil {
		return sc == base || (createSession != nil && sc == createSession)
	}
	if cl.C.IsInvoke() {
		return false
	}
	v := p.Resolve(p.StepOp(cl.C.Value, cl.Step)).V
	if u, ok := v.(*ssa.UnOp); ok {
		if fa, ok := u.X.(*ssa.FieldAddr); ok {
			f := walk.FieldOf(fa.X.Type(), fa.Field)
			return f != nil && strings.HasPrefix(f.Name(), "oidc") && strings.HasSuffix(f.Name(), "Func")
		}
	}
	return false
}

// runC04R7: the verified token's claims win; the profile endpoint only fills claims the token lacks.
func runC04R7(c *Ctx) {
	rule := "R7-token-claims-first"
	tokenF := c.Field(rule, "pkg/providers/util.claimExtractor.tokenClaims")
	profileF := c.Field(rule, "pkg/providers/util.claimExtractor.profileClaims")
	getClaim := c.Fn(rule, "(*pkg/providers/util.claimExtractor).GetClaim")
	getFrom := c.Fn(rule, "pkg/providers/util.getClaimFrom")
	ctor := c.Fn(rule, "pkg/providers/util.NewClaimExtractor")
	if tokenF == nil || profileF == nil || getClaim == nil || getFrom == nil || ctor == nil {
		return
	}
	// the token claim document is set once and never mutated
	for _, ref := range c.fieldRefs(tokenF) {
		key := ref.Kind + "|" + fnKey(ref.Fn)
		switch ref.Kind {
		case "store":
			if ref.Fn == ctor {
				c.ok(rule, key, ref.In, "constructor stores the parsed ID-token payload")
			} else {
				c.bad(rule, key, ref.In, "the token claim document is replaced after construction", nil, 0)
			}
		case "load":
			ld := ref.In.(*ssa.UnOp)
			mut := ""
			for _, u := range *ld.Referrers() {
				if call, ok := u.(ssa.CallInstruction); ok {
					if sc := call.Common().StaticCallee(); sc != nil && len(call.Common().Args) > 0 && call.Common().Args[0] == ld {
						switch sc.Name() {
						case "Set", "SetPath", "Del", "UnmarshalJSON":
							mut = sc.Name()
						}
					}
				}
			}
			if mut == "" {
				c.ok(rule, key, ref.In, "read-only use of the token claims")
			} else {
				c.bad(rule, key, ref.In, "the verified token's claim document is mutated ("+mut+"): values from the unauthenticated-by-signature profile endpoint can replace token claims", nil, 0)
			}
		default:
			c.bad(rule, key, ref.In, "the address of tokenClaims escapes", nil, 0)
		}
	}
	c.Walk(rule, getClaim, func(p *walk.Path) {
		ex, ok := p.ReturnDV(1)
		if !ok {
			return
		}
		if b, k := p.Truth(ex, p.End()); k && !b {
			return
		}
		at := p.End()
		key := "found-return|" + fnKey(getClaim)
		rv, _ := p.ReturnDV(0)
		cl, ok := extractOfCall(p, rv, 0)
		if !ok || cl.C.StaticCallee() != getFrom || p.Resolve(p.Arg(cl, 0)).V != getClaim.Params[1] {
			c.bad(rule, key, p.Exit, "GetClaim reports a claim whose value is not getClaimFrom(claim, ·)", p, at)
			return
		}
		src := p.Resolve(p.Arg(cl, 1)).V
		switch {
		case walk.IsFieldLoad(src, tokenF):
			c.ok(rule, key+"|token", p.Exit, "value from the verified token")
		case walk.IsFieldLoad(src, profileF):
			// only after the token lookup missed
			missed := false
			for _, tc := range p.Find(walk.Static(getFrom), cl.Idx) {
				if walk.IsFieldLoad(p.Resolve(p.Arg(tc, 1)).V, tokenF) && p.Resolve(p.Arg(tc, 0)).V == getClaim.Params[1] {
					if n, k := p.ResultNil(tc.DV(), -1, at); k && n {
						missed = true
					}
				}
			}
			if missed {
				c.ok(rule, key+"|profile", p.Exit, "profile value only after the token lookup returned nothing")
			} else {
				c.bad(rule, key, p.Exit, "a profile-endpoint value is returned without the token having been consulted first and found lacking the claim", p, at)
			}
		default:
			c.bad(rule, key, p.Exit, "GetClaim reads from a claim document that is neither the token's nor the profile's", p, at)
		}
	})
}

// runC04R8: token claims are decoded into an object that belongs to this invocation. Every
// (*oidc.IDToken).Claims / (*oidc.UserInfo).Claims target in the module is a variable allocated in
// the calling function activation — never a captured variable of an enclosing constructor, a global
// or a field of a long-lived receiver, where claims absent from the current token would keep the
// values of an earlier one.
func runC04R8(c *Ctx, rule string) {
	n := 0
	for _, fn := range c.P.ModFns {
		for _, b := range fn.Blocks {
			for _, in := range b.Instrs {
				call, ok := in.(*ssa.Call)
				if !ok {
					continue
				}
				sc := call.Call.StaticCallee()
				if sc == nil || sc.Name() != "Claims" || sc.Pkg == nil || sc.Pkg.Pkg.Path() != "github.com/coreos/go-oidc/v3/oidc" || len(call.Call.Args) != 2 {
					continue
				}
				n++
				key := "claims-target|" + fnKey(fn)
				target := unwrap(call.Call.Args[1])
				switch t := target.(type) {
				case *ssa.Alloc:
					if t.Parent() == fn {
						c.ok(rule, key, in, "decoded into a variable of this invocation")
						continue
					}
				}
				c.R.Bad(rule, key, c.pos(in), sprintf("token claims are decoded into %s, which outlives this invocation: claims the current token lacks keep the values of an earlier token", describeValue(target)), nil, nil)
			}
		}
	}
	if n == 0 {
		c.R.Unknown(rule, "claims-target|none", "-", "no go-oidc Claims call found in the module")
	}
}

func describeValue(v ssa.Value) string {
	switch x := v.(type) {
	case *ssa.FreeVar:
		return "the captured variable " + x.Name()
	case *ssa.Global:
		return "the global " + x.Name()
	case *ssa.FieldAddr:
		return "a field of " + x.X.Name()
	case *ssa.Parameter:
		return "the parameter " + x.Name()
	}
	return "a value of another function (" + v.Name() + ")"
}

// runIssuerCheckOn: issuer verification is switched off only by the operator's explicit option. Every
// write of ProviderVerifierOptions.SkipIssuerVerification (composite literal or later store) takes its
// value from OIDCOptions.InsecureSkipIssuerVerification or is the constant false (C04.R2, also C01:
// bearer tokens of extra issuers are verified through these options).
func runIssuerCheckOn(c *Ctx, rule string) {
	skipF := c.Field(rule, "pkg/providers/oidc.ProviderVerifierOptions.SkipIssuerVerification")
	optF := c.Field(rule, "pkg/apis/options.OIDCOptions.InsecureSkipIssuerVerification")
	if skipF == nil || optF == nil {
		return
	}
	n := 0
	for _, ref := range c.fieldRefs(skipF) {
		if ref.Store == nil {
			continue
		}
		n++
		key := "skip-issuer-write|" + fnKey(ref.Fn)
		v := unwrap0(ref.Store.Val)
		fromOption := walk.IsFieldLoad(v, optF)
		if f, ok := v.(*ssa.Field); ok && walk.FieldOf(f.X.Type(), f.Field) == optF {
			fromOption = true
		}
		k, isConst := v.(*ssa.Const)
		switch {
		case fromOption:
			c.ok(rule, key, ref.In, "from the operator's insecure-skip-issuer-verification option")
		case isConst && k.Value != nil && k.Value.String() == "false":
			c.ok(rule, key, ref.In, "constant false")
		default:
			c.R.Bad(rule, key, c.pos(ref.In), "issuer verification is switched off by something other than the operator's explicit option: tokens of a foreign issuer signed with the same keys are accepted", nil, nil)
		}
	}
	if n == 0 {
		c.R.Unknown(rule, "skip-issuer-write|none", "-", "no write of ProviderVerifierOptions.SkipIssuerVerification found")
	}
}

// runBearerEmailVerified: the bearer-token session builder returns a session only with email_verified
// absent (nil pointer after typed decoding) or true (C04.R4, also C14: a wrongly typed claim fails the
// typed decoding instead of slipping past a type assertion).
func runBearerEmailVerified(c *Ctx, rule string) {
	bearer := c.Fn(rule, "pkg/apis/middleware.CreateTokenToSessionFunc$1")
	if bearer == nil {
		return
	}
	{
		c.Walk(rule, bearer, func(p *walk.Path) {
			rv, ok := p.ReturnDV(0)
			if !ok || DefinitelyNil(p, rv, p.End()) {
				return
			}
			at := p.End()
			key := "success-return|" + fnKey(bearer)
			// claims.Verified == nil, or *claims.Verified true
			okGate := false
			for _, a := range p.Atoms(at) {
				if a.IsNil && a.Val && isNamedFieldLoad(a.DV.V, "Verified") {
					okGate = true
				}
				if u, ok := a.DV.V.(*ssa.UnOp); ok && !a.IsNil && a.Val && u.Op == token.MUL && isNamedFieldLoad(u.X, "Verified") {
					okGate = true
				}
			}
			if okGate {
				c.ok(rule, key, p.Exit, "email_verified absent (nil) or true")
			} else {
				c.bad(rule, key, p.Exit, "a bearer session is returned although email_verified may be present and false", p, at)
			}
		})
	}
}

// runLegacyToggleTable: each insecure-* OIDC toggle of the structured options is fed, in the legacy
// conversion, from the legacy flag of the same meaning and from nothing else — a copy-paste slip there
// silently turns one relaxation (say, skipping issuer verification) into another (accepting unverified
// e-mails, skipping the nonce).
func runLegacyToggleTable(c *Ctx, rule string, only ...string) {
	table := map[string]string{
		"InsecureAllowUnverifiedEmail":   "InsecureOIDCAllowUnverifiedEmail",
		"InsecureSkipIssuerVerification": "InsecureOIDCSkipIssuerVerification",
		"InsecureSkipNonce":              "InsecureOIDCSkipNonce",
		"SkipDiscovery":                  "SkipOIDCDiscovery",
	}
	want := map[string]bool{}
	for _, o := range only {
		want[o] = true
	}
	n := 0
	var names []string
	for k := range table {
		names = append(names, k)
	}
	sort.Strings(names)
	for _, to := range names {
		if len(want) > 0 && !want[to] {
			continue
		}
		from := table[to]
		toF := c.Field(rule, "pkg/apis/options.OIDCOptions."+to)
		fromF := c.Field(rule, "pkg/apis/options.LegacyProvider."+from)
		if toF == nil || fromF == nil {
			continue
		}
		for _, ref := range c.fieldRefs(toF) {
			if ref.Store == nil || prog.Short(prog.FnPkg(ref.Fn).Path()) != "pkg/apis/options" {
				continue
			}
			v := unwrap0(ref.Store.Val)
			if k, isConst := v.(*ssa.Const); isConst && k.Value != nil {
				continue // defaults (providerDefaults etc.)
			}
			n++
			key := "toggle|" + to + "|" + fnKey(ref.Fn)
			ok := walk.IsFieldLoad(v, fromF)
			if f, isF := v.(*ssa.Field); isF && walk.FieldOf(f.X.Type(), f.Field) == fromF {
				ok = true
			}
			if ok {
				c.ok(rule, key, ref.In, to+" <- "+from)
			} else {
				c.R.Bad(rule, key, c.pos(ref.In), "the structured option "+to+" is not set from the legacy flag "+from+" in the legacy conversion: another flag now relaxes this check", nil, nil)
			}
		}
	}
	if n == 0 {
		c.R.Unknown(rule, "toggle|none", "-", "the legacy conversion sets none of the insecure OIDC toggles from a legacy flag")
	}
}

// runVerifierOptionsFresh: every NewProviderVerifier call is given an options value that the calling
// function built itself (a local composite literal, possibly amended locally). An options object that is
// shared between calls — a pointer parameter, a field — carries what one issuer's fallback set
// (SkipDiscovery, a JWKS URL) over to the next issuer's verifier.
func runVerifierOptionsFresh(c *Ctx, rule string) {
	npv := c.Fn(rule, "pkg/providers/oidc.NewProviderVerifier")
	if npv == nil {
		return
	}
	n := 0
	for _, cs := range c.callersOf(npv) {
		n++
		fn := cs.Parent()
		key := "options-own|" + fnKey(fn)
		arg := unwrap0(cs.Common().Args[1])
		own := false
		switch x := arg.(type) {
		case *ssa.UnOp:
			if al, ok := x.X.(*ssa.Alloc); ok && x.Op == token.MUL && al.Parent() == fn {
				own = true
			}
		case *ssa.Alloc:
			own = x.Parent() == fn
		}
		if own {
			c.ok(rule, key, cs, "options built in the calling function")
		} else {
			c.R.Bad(rule, key, c.pos(cs), "a verifier is built from an options object that is not local to the call ("+describeValue(arg)+"): settings left there for one issuer (no-discovery fallback, its JWKS URL) are applied to the next issuer, whose tokens are then checked against another issuer's keys", nil, nil)
		}
	}
	if n == 0 {
		c.R.Unknown(rule, "options-own|none", "-", "NewProviderVerifier has no caller")
	}
}

// runC04R11 (round 7): a provider that wraps the generic refresh (Keycloak-OIDC, GitLab, Entra ID: an embedded
// *OIDCProvider or a stored refresh function) may ADD to what the refreshed, verified ID token says — roles, projects —
// but must not put back what the session said before the refresh. Every store to s.Groups that follows the delegate call
// is computed from a read of s.Groups made after that call (append to it, de-duplicate it); a value captured before the
// delegate ran is the previous token's groups, and a group revoked at the identity provider would survive every refresh.
func runC04R11(c *Ctx, rule string) {
	sessT := c.P.Named("pkg/apis/sessions.SessionState")
	groupsF := c.Field(rule, "pkg/apis/sessions.SessionState.Groups")
	if sessT == nil || groupsF == nil {
		return
	}
	isRefreshSig := func(sig *types.Signature) bool {
		if sig == nil || sig.Params().Len() != 2 || sig.Results().Len() != 2 {
			return false
		}
		pt, ok := sig.Params().At(1).Type().(*types.Pointer)
		if !ok || !types.Identical(pt.Elem(), sessT) {
			return false
		}
		b, ok := sig.Results().At(0).Type().Underlying().(*types.Basic)
		return ok && b.Kind() == types.Bool
	}
	n := 0
	for _, fn := range c.P.ModFns {
		if fn.Name() != "RefreshSession" || prog.Short(prog.FnPkg(fn).Path()) != "providers" || len(fn.Params) < 3 || len(fn.Blocks) == 0 {
			continue
		}
		sp := fn.Params[2]
		// the delegate: a call with the refresh signature that is handed this session
		var delegate *ssa.Call
		for _, b := range fn.Blocks {
			for _, in := range b.Instrs {
				call, ok := in.(*ssa.Call)
				if !ok || !isRefreshSig(call.Call.Signature()) {
					continue
				}
				args := call.Call.Args
				if len(args) > 0 && args[len(args)-1] == ssa.Value(sp) {
					delegate = call
				}
			}
		}
		if delegate == nil {
			continue
		}
		after := func(in ssa.Instruction) bool {
			if in.Block() == delegate.Block() {
				for _, x := range in.Block().Instrs {
					if x == ssa.Instruction(delegate) {
						return true
					}
					if x == in {
						return false
					}
				}
			}
			return delegate.Block().Dominates(in.Block())
		}
		for _, b := range fn.Blocks {
			for _, in := range b.Instrs {
				st, ok := in.(*ssa.Store)
				if !ok {
					continue
				}
				fa, ok := st.Addr.(*ssa.FieldAddr)
				if !ok || fa.X != ssa.Value(sp) || walk.FieldOf(fa.X.Type(), fa.Field) != groupsF || !after(in) {
					continue
				}
				n++
				key := "extends-refreshed-groups|" + fnKey(fn)
				// does the stored value depend on a read of s.Groups made after the delegate returned?
				seen := map[ssa.Value]bool{}
				var dep func(v ssa.Value, d int) bool
				dep = func(v ssa.Value, d int) bool {
					if v == nil || d > 10 || seen[v] {
						return false
					}
					seen[v] = true
					if ld, ok := v.(*ssa.UnOp); ok && ld.Op == token.MUL {
						if a, ok := ld.X.(*ssa.FieldAddr); ok && a.X == ssa.Value(sp) && walk.FieldOf(a.X.Type(), a.Field) == groupsF {
							return after(ld)
						}
					}
					in, ok := v.(ssa.Instruction)
					if !ok {
						return false
					}
					for _, op := range in.Operands(nil) {
						if op != nil && *op != nil && dep(*op, d+1) {
							return true
						}
					}
					return false
				}
				if dep(st.Val, 0) {
					c.ok(rule, key, in, "the groups stored after the delegated refresh are computed from the groups it produced")
				} else {
					c.R.Bad(rule, key, c.pos(in), "after the delegated refresh returned, s.Groups is assigned a value that does not derive from the groups the refresh just took from the verified ID token (a list captured before the refresh): the refreshed session keeps the previous token's groups", nil, nil)
				}
			}
		}
	}
	if n == 0 {
		c.R.Unknown(rule, "extends-refreshed-groups|none", "-", "no RefreshSession override that stores s.Groups after delegating found (GitLab today)")
	}
}
