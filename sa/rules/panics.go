package rules

import (
	"bufio"
	"bytes"
	"fmt"
	"go/ast"
	"go/constant"
	"go/token"
	"go/types"
	"os"
	"os/exec"
	"path/filepath"
	"sort"
	"strconv"
	"strings"

	"golang.org/x/tools/go/ssa"

	"oapsa/internal/prog"
	"oapsa/internal/walk"
)

// panicSite is one potential panic source found in request-reachable code (A7).
type panicSite struct {
	Kind string // P1 explicit panic, P2 unchecked type assertion, P4 unproven bounds check, P5 Must* with dynamic argument
	Fn   *ssa.Function
	Pos  token.Pos
	Expr string // normalised expression text (never a line number)
	In   ssa.Instruction
}

func (s panicSite) key() string { return s.Kind + "|" + prog.Name(s.Fn) + "|" + s.Expr }

// requestReachable computes R: module functions reachable from ServeHTTP in the VTA call graph, plus
// the closures they create.
func (c *Ctx) requestReachable(rule string) map[*ssa.Function]bool {
	root := c.Fn(rule, "(*main.OAuthProxy).ServeHTTP")
	if root == nil {
		return nil
	}
	return c.P.Reachable(root)
}

func (c *Ctx) exprString(n ast.Node) string {
	var buf bytes.Buffer
	if e, ok := n.(ast.Expr); ok {
		buf.WriteString(types.ExprString(e))
	} else {
		fmt.Fprintf(&buf, "%T", n)
	}
	s := buf.String()
	if len(s) > 120 {
		s = s[:120]
	}
	return s
}

// enclosingFunc maps a source position to the innermost SSA function whose syntax contains it.
func (c *Ctx) enclosingFunc(pos token.Pos) *ssa.Function {
	var best *ssa.Function
	var bestLen token.Pos = 1 << 40
	for _, fn := range c.P.ModFns {
		syn := fn.Syntax()
		if syn == nil {
			continue
		}
		if syn.Pos() <= pos && pos < syn.End() && syn.End()-syn.Pos() < bestLen {
			best, bestLen = fn, syn.End()-syn.Pos()
		}
	}
	return best
}

// innermostExprAt returns the innermost AST expression that starts at or contains pos, preferring
// index/slice/type-assert expressions whose bracket is at pos.
func (c *Ctx) nodeAt(pos token.Pos) (idx ast.Node, innermost ast.Node) {
	f, _ := c.P.FileOf(pos)
	if f == nil {
		return nil, nil
	}
	ast.Inspect(f, func(n ast.Node) bool {
		if n == nil || !(n.Pos() <= pos && pos < n.End()) {
			return n == nil || false
		}
		switch x := n.(type) {
		case *ast.IndexExpr:
			if x.Lbrack == pos || x.Pos() == pos {
				idx = x
			}
		case *ast.SliceExpr:
			if x.Lbrack == pos || x.Pos() == pos {
				idx = x
			}
		}
		if _, ok := n.(ast.Expr); ok {
			innermost = n
		}
		return true
	})
	return idx, innermost
}

// explicitPanics / typeAsserts / mustCalls enumerate P1, P2, P5 in the given function set.
func (c *Ctx) ssaPanicSites(fns map[*ssa.Function]bool) []panicSite {
	var out []panicSite
	nDiv, nMap := 0, 0
	defer func() {
		c.R.Notes = append(c.R.Notes, sprintf("P7/P8 scan over %d functions: %d integer divisions/remainders and %d map assignments examined; those not by a non-zero constant / not into a locally made map are listed as sites", len(fns), nDiv, nMap))
	}()
	for fn := range fns {
		if fn.Synthetic != "" && fn.Syntax() == nil {
			continue
		}
		for _, b := range fn.Blocks {
			for _, in := range b.Instrs {
				switch x := in.(type) {
				case *ssa.Panic:
					if !x.Pos().IsValid() {
						continue
					}
					out = append(out, panicSite{"P1", fn, x.Pos(), "panic", in})
				case *ssa.TypeAssert:
					if x.CommaOk || !x.Pos().IsValid() {
						continue
					}
					// go/ssa synthesises assertions for bound interface method values: require a source-level assertion
					if ta := c.typeAssertAt(x.Pos()); ta != nil {
						out = append(out, panicSite{"P2", fn, x.Pos(), c.exprString(ta), in})
					}
				case *ssa.BinOp:
					// P7: integer division / remainder by a value that is not a non-zero constant
					if (x.Op == token.QUO || x.Op == token.REM) && x.Pos().IsValid() {
						if b, ok := x.X.Type().Underlying().(*types.Basic); ok && b.Info()&types.IsInteger != 0 {
							nDiv++
							if k, ok := x.Y.(*ssa.Const); !ok || k.Value == nil || constant.Sign(k.Value) == 0 {
								out = append(out, panicSite{"P7", fn, x.Pos(), "integer " + x.Op.String() + " by " + divisorText(x.Y), in})
							}
						}
					}
				case *ssa.Lookup:
					// P11: m[k] in its single-value form yields nil for an absent key; a nilable result (pointer, interface,
					// map, func) that is never compared with nil is a nil dereference waiting for the missing key (round 7)
					if x.CommaOk || !x.Pos().IsValid() {
						continue
					}
					if _, isMap := x.X.Type().Underlying().(*types.Map); !isMap {
						continue
					}
					switch x.Type().Underlying().(type) {
					case *types.Pointer, *types.Interface, *types.Map, *types.Signature:
						if !nilTested(x) {
							out = append(out, panicSite{"P11", fn, x.Pos(), "single-value lookup in " + mapText(x.X), in})
						}
					}
				case *ssa.MapUpdate:
					// P8: assignment into a map that is not made in this function
					nMap++
					if x.Pos().IsValid() && !locallyMade(x.Map, 0) {
						out = append(out, panicSite{"P8", fn, x.Pos(), "map update of " + mapText(x.Map), in})
					}
				case *ssa.Call:
					sc := x.Call.StaticCallee()
					if sc == nil || !strings.HasPrefix(sc.Name(), "Must") || len(x.Call.Args) == 0 {
						continue
					}
					dynamic := false
					for _, a := range x.Call.Args {
						if _, ok := a.(*ssa.Const); !ok {
							if _, isRecv := a.Type().Underlying().(*types.Pointer); isRecv && a == x.Call.Args[0] && sc.Signature.Recv() != nil {
								continue
							}
							dynamic = true
						}
					}
					if dynamic {
						out = append(out, panicSite{"P5", fn, x.Pos(), sc.Name() + "(dynamic)", in})
					}
				}
			}
		}
	}
	sort.Slice(out, func(i, j int) bool { return out[i].key() < out[j].key() })
	return out
}

func divisorText(v ssa.Value) string {
	switch x := v.(type) {
	case *ssa.Const:
		return "constant " + x.Value.String()
	case *ssa.Parameter:
		return "parameter " + x.Name()
	case *ssa.Call:
		return "result of " + walk.CalleeName(&x.Call)
	}
	return "a dynamic value"
}

func mapText(v ssa.Value) string {
	switch x := unwrap0(v).(type) {
	case *ssa.Parameter:
		return "parameter " + x.Name()
	case *ssa.UnOp:
		if fa, ok := x.X.(*ssa.FieldAddr); ok {
			return "field " + walk.FieldOf(fa.X.Type(), fa.Field).Name()
		}
		if g, ok := x.X.(*ssa.Global); ok {
			return "global " + g.Name()
		}
	case *ssa.Call:
		return "result of " + walk.CalleeName(&x.Call)
	}
	return "a value of unknown origin"
}

// locallyMade: the map is created in this function (make / literal), possibly through phis and local cells.
func locallyMade(v ssa.Value, depth int) bool {
	if depth > 6 {
		return false
	}
	switch x := unwrap0(v).(type) {
	case *ssa.MakeMap:
		return true
	case *ssa.Phi:
		for _, e := range x.Edges {
			if !locallyMade(e, depth+1) {
				return false
			}
		}
		return true
	case *ssa.UnOp:
		if al, ok := x.X.(*ssa.Alloc); ok && x.Op == token.MUL {
			sts := storesTo(al)
			if len(sts) == 0 {
				return false
			}
			for _, st := range sts {
				if !locallyMade(st.Val, depth+1) {
					return false
				}
			}
			return true
		}
	case *ssa.MakeInterface:
		return locallyMade(x.X, depth+1)
	}
	return false
}

func (c *Ctx) typeAssertAt(pos token.Pos) *ast.TypeAssertExpr {
	f, _ := c.P.FileOf(pos)
	if f == nil {
		return nil
	}
	var found *ast.TypeAssertExpr
	ast.Inspect(f, func(n ast.Node) bool {
		if n == nil || !(n.Pos() <= pos && pos < n.End()) {
			return n == nil || false
		}
		if ta, ok := n.(*ast.TypeAssertExpr); ok && ta.Type != nil && (ta.Lparen == pos || ta.Pos() == pos || ta.Lparen-1 == pos) {
			found = ta
		}
		return true
	})
	return found
}

// bceResidue asks the compiler for the bounds checks its prove pass could not eliminate (P4) and maps
// each to (function, expression). Checks that sit in inlined standard-library code (the innermost
// expression at the reported position is a call, not an index/slice) are attributed to the trusted
// standard library and skipped.
func (c *Ctx) bceResidue(rule string) ([]panicSite, int) {
	cmd := exec.Command("go", "build", "-gcflags="+prog.ModPath+"/...=-d=ssa/check_bce/debug=1", "-o", os.DevNull, ".")
	cmd.Dir = c.P.Repo
	out, err := cmd.CombinedOutput()
	if err != nil && !bytes.Contains(out, []byte("Found Is")) {
		c.R.Unknown(rule, "bce|compile", "-", "compiler BCE pass failed: "+strings.TrimSpace(string(out)))
		return nil, 0
	}
	var sites []panicSite
	total := 0
	// build a position index: file -> token.File
	files := map[string]*token.File{}
	c.P.Fset.Iterate(func(f *token.File) bool {
		files[f.Name()] = f
		return true
	})
	sc := bufio.NewScanner(bytes.NewReader(out))
	for sc.Scan() {
		line := sc.Text()
		i := strings.Index(line, ": Found Is")
		if i < 0 {
			continue
		}
		total++
		parts := strings.Split(line[:i], ":")
		if len(parts) < 3 {
			continue
		}
		fname := filepath.Join(c.P.Repo, parts[0])
		ln, _ := strconv.Atoi(parts[1])
		col, _ := strconv.Atoi(parts[2])
		tf := files[fname]
		if tf == nil || ln < 1 || ln > tf.LineCount() {
			continue
		}
		pos := tf.LineStart(ln) + token.Pos(col-1)
		idx, _ := c.nodeAt(pos)
		if idx == nil {
			continue // inlined callee body (std): trusted
		}
		fn := c.enclosingFunc(pos)
		if fn == nil {
			continue
		}
		sites = append(sites, panicSite{"P4", fn, pos, c.exprString(idx), nil})
	}
	if total == 0 {
		c.R.Unknown(rule, "bce|empty", "-", "compiler reported no residual bounds checks at all: the BCE debug flag no longer works")
	}
	sort.Slice(sites, func(i, j int) bool { return sites[i].key() < sites[j].key() })
	return sites, total
}

// reviewed is the table (kind|function|expression) -> one-line reason, committed in the checker.
type reviewed map[string]string

func (c *Ctx) dischargeSites(rule string, sites []panicSite, table reviewed, auto func(panicSite) (string, bool)) {
	seen := map[string]bool{}
	for _, s := range sites {
		k := s.key()
		if seen[k] {
			continue
		}
		seen[k] = true
		pos := c.P.Pos(s.Pos)
		if auto != nil {
			if how, ok := auto(s); ok {
				c.R.OK(rule, k, pos, how)
				continue
			}
		}
		if why, ok := table[k]; ok {
			c.R.OK(rule, k, pos, "reviewed: "+why)
			continue
		}
		// the same construct in another function of the same package: code moved by an extract-/inline-helper
		// refactoring keeps its reviewed reason (the reason is about the expression and its guard, which moved with it)
		if why, from, ok := movedReviewed(table, s); ok {
			c.R.OK(rule, k, pos, "reviewed (construct moved within the package, was in "+from+"): "+why)
			continue
		}
		c.R.Bad(rule, k, pos, panicKindText(s.Kind)+" in request-reachable code without a guard the analysis can find and without a reviewed reason: "+s.Expr, nil, nil)
	}
}

func panicKindText(k string) string {
	switch k {
	case "P1":
		return "explicit panic"
	case "P2":
		return "unchecked type assertion (panics on a wrongly typed value)"
	case "P4":
		return "index/slice whose bound the compiler cannot prove"
	case "P5":
		return "Must* call with a dynamic argument"
	case "P7":
		return "integer division by a value not known to be non-zero"
	case "P8":
		return "assignment into a map not created in this function (panics if it is nil)"
	case "P11":
		return "nilable value read from a map with the single-value form (nil for an absent key) and never compared with nil before it is used, stored or handed on"
	}
	return k
}

var _ = walk.IsFieldLoad

// movedReviewed finds a reviewed entry of the same kind and expression whose function lies in the site's package
// and no longer contains such a site.
func movedReviewed(table reviewed, s panicSite) (why, from string, ok bool) {
	pk := prog.Short(prog.FnPkg(s.Fn).Path())
	fnPkg := func(name string) string {
		name = strings.TrimPrefix(strings.TrimPrefix(name, "("), "*")
		if i := strings.LastIndex(name, "/"); i >= 0 {
			if j := strings.Index(name[i:], "."); j >= 0 {
				return name[:i+j]
			}
		}
		if j := strings.Index(name, "."); j >= 0 {
			return name[:j]
		}
		return name
	}
	var keys []string
	for k := range table {
		keys = append(keys, k)
	}
	sort.Strings(keys)
	for _, k := range keys {
		parts := strings.SplitN(k, "|", 3)
		if len(parts) != 3 || parts[0] != s.Kind || parts[2] != s.Expr {
			continue
		}
		if fnPkg(parts[1]) == pk {
			return table[k], parts[1], true
		}
	}
	return "", "", false
}

// nilTested: some referrer of v (through value-preserving wrappers and phis, depth 3) compares it with nil.
func nilTested(v ssa.Value) bool {
	seen := map[ssa.Value]bool{}
	var rec func(v ssa.Value, d int) bool
	rec = func(v ssa.Value, d int) bool {
		if d > 3 || seen[v] || v.Referrers() == nil {
			return false
		}
		seen[v] = true
		for _, r := range *v.Referrers() {
			switch x := r.(type) {
			case *ssa.BinOp:
				if x.Op == token.EQL || x.Op == token.NEQ {
					for _, o := range []ssa.Value{x.X, x.Y} {
						if k, ok := o.(*ssa.Const); ok && k.IsNil() {
							return true
						}
					}
				}
			case *ssa.Phi:
				if rec(x, d+1) {
					return true
				}
			case *ssa.ChangeType:
				if rec(x, d+1) {
					return true
				}
			case *ssa.ChangeInterface:
				if rec(x, d+1) {
					return true
				}
			}
		}
		return false
	}
	return rec(v, 0)
}
