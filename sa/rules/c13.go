package rules

import (
	"go/token"
	"go/types"
	"strings"

	"golang.org/x/tools/go/ssa"

	"oapsa/internal/prog"
	"oapsa/internal/walk"
)

func init() {
	register(&Prop{
		ID:          "C13",
		Explanation: "Decides the error discipline around the session store: every call site in production code of a store-family operation (SessionStore, persistence.Store, redis Client, Lock, SessionState lock helpers, redislock, go-redis commands, the ticket's save/load/clear function values, and every module function that returns such an error) is enumerated; where the enclosing function returns an error the store error is returned or turned into a non-nil error on every path on which it is not known to be nil (the lock retry loop and the refresh-then-validate policy are the two reviewed, structurally checked exceptions), elsewhere it is examined by a branch on every path; Manager.Save sets the ticket cookie only after saveSession returned nil; SignIn and OAuthCallback redirect only after SaveSession returned nil; the readiness endpoint writes 200 only after VerifyConnection returned nil and that error is passed up unchanged from Client.Ping; every Cipher.Decrypt slices its input only under a dominating length guard for the same bound. Added during the build: a failed or empty reload under the refresh lock ends the session (R6, shared with C12); sign-out answers success only after the delete succeeded (R7, shared with C11.R1); in store/persistence/encoding/encryption/middleware code a fallible call's pointer result is dereferenced only behind its err==nil edge (R8). Round 3: every VerifyConnection of a store with a connection returns the result of a probe made during that call (under R4); an error answer of a handler is final (R9). Round 5: a store or decoding function whose caller dereferences the result after checking only the error never returns (nil, nil) (R10). Round 7: request handling keeps no state of its own between requests — no store, map update, in-place builtin, atomic/sync.Map write or pointer-receiver library call (singleflight, caches) reached from ServeHTTP targets a package-level variable, an object built at start-up, or a constructor variable captured by the handler it returned, declared in the packages implementing this property (RS; a class-wide who-may-write rule with zero instances today: a correct memoisation would be reported until reviewed). The proxy's three store wrappers (ClearSessionCookie, SaveSession, LoadCookiedSession) hand back the result of the store call made on that path, on every path (R11); P11 under the panic-source scan. Round 8: the ping middleware, which runs before the readiness check, claims a request only on a set hit of its own escaped path or User-Agent, verbatim (R12); http.ErrNoCookie sentinel rule (R13, shared with C11.R11). Round 8 (class-wide, P12): in the packages implementing this property every named error result that is used at all is examined — compared with nil, returned, stored or handed to a non-formatting function — unless the code validates the value result instead (RE; zero instances today).",
		NotDecided:  "fault sequences (lost replies, pairs of faults), behaviour of msgpack/lz4 on corrupt bytes, time-outs.",
		Run:         runC13,
	})
}

// storeFamily decides whether a call is a store-family operation and names it.
type storeFamily struct {
	c        *Ctx
	ifaces   []*types.Named
	lockFns  map[*ssa.Function]bool
	wrappers map[*ssa.Function]bool
}

func newStoreFamily(c *Ctx, rule string) *storeFamily {
	f := &storeFamily{c: c, lockFns: map[*ssa.Function]bool{}, wrappers: map[*ssa.Function]bool{}}
	for _, q := range []string{"pkg/apis/sessions.SessionStore", "pkg/sessions/persistence.Store", "pkg/sessions/redis.Client", "pkg/apis/sessions.Lock", "pkg/middleware.Verifiable"} {
		n := c.P.Named(q)
		if n == nil {
			c.R.Unknown(rule, "anchor:"+q, "-", "store-family interface "+q+" not found")
			continue
		}
		f.ifaces = append(f.ifaces, n)
	}
	for _, m := range []string{"ObtainLock", "RefreshLock", "ReleaseLock", "PeekLock"} {
		if fn := c.Fn(rule, "(*pkg/apis/sessions.SessionState)."+m); fn != nil {
			f.lockFns[fn] = true
		}
	}
	// closure: module functions with an error result that contain a family call
	for round := 0; round < 4; round++ {
		for _, fn := range c.P.ModFns {
			if f.wrappers[fn] || errResultIndex(fn.Signature) < 0 || f.lockFns[fn] {
				continue
			}
			pk := prog.Short(prog.FnPkg(fn).Path())
			if pk == "pkg/validation" || strings.HasPrefix(pk, "pkg/apis/options") {
				continue
			}
			for _, b := range fn.Blocks {
				for _, in := range b.Instrs {
					if ci, ok := in.(ssa.CallInstruction); ok {
						if name := f.name(ci.Common()); name != "" {
							f.wrappers[fn] = true
						}
					}
				}
			}
		}
	}
	return f
}

func (f *storeFamily) name(cc *ssa.CallCommon) string {
	if errResultIndex(cc.Signature()) < 0 {
		return ""
	}
	if cc.IsInvoke() {
		for _, n := range f.ifaces {
			if types.Identical(cc.Value.Type(), n) {
				return n.Obj().Name() + "." + cc.Method.Name()
			}
		}
		return ""
	}
	if sc := cc.StaticCallee(); sc != nil {
		if f.lockFns[sc] || f.wrappers[sc] {
			return prog.Name(sc)
		}
		if sc.Pkg != nil {
			switch sc.Pkg.Pkg.Path() {
			case "github.com/bsm/redislock":
				return "redislock." + sc.Name()
			case "github.com/redis/go-redis/v9":
				switch sc.Name() {
				case "Err", "Bytes", "Result":
					return "redis-cmd." + sc.Name()
				}
			}
		}
		return ""
	}
	// function values of the ticket's save/load/clear types
	if n, ok := cc.Value.Type().(*types.Named); ok {
		switch n.Obj().Name() {
		case "saveFunc", "loadFunc", "clearFunc":
			if prog.Short(n.Obj().Pkg().Path()) == "pkg/sessions/persistence" {
				return n.Obj().Name()
			}
		}
	}
	return ""
}

func runC13(c *Ctx) {
	c.R.Rule("RE-errors-examined", "in the packages implementing this property every named error result that is used at all is examined, or the value is validated instead (P12, class-wide, round 8)", 1)
	runErrorsExamined(c, "RE-errors-examined", "pkg/sessions", "pkg/middleware")
	c.R.Rule("RS-no-request-time-state", "request handling writes no state that outlives the request (package-level variables, objects built at start-up, constructor variables captured by handlers) declared in the packages implementing this property", 1)
	runStateless(c, "RS-no-request-time-state", "pkg/middleware.storedSessionLoader", "pkg/sessions")
	r := c.R
	r.Rule("R1-error-discipline", "no store/lock/ping error is dropped: propagated where the function returns an error, examined by a branch elsewhere; reviewed exceptions are structurally checked", 53)
	r.Rule("R2-cookie-after-persist", "Manager.Save sets the cookie only after saveSession()==nil", 1)
	r.Rule("R3-handlers", "SignIn / OAuthCallback redirect only after SaveSession()==nil", 2)
	r.Rule("R4-readiness", "readiness 200 only after VerifyConnection()==nil; Ping error passed up unchanged", 2)
	r.Rule("R6-reload-under-lock", "a failed or empty reload under the refresh lock ends the request's session (shared with C12.R2/R5): refresh only after a successful reload; errors mean no session and a cleared store session", 3)
	r.Rule("R7-sign-out", "sign-out answers success only after the store delete succeeded (shared with C11.R1)", 2)
	r.Rule("R8-result-before-errcheck", "in the session stores, persistence, session encoding and encryption code a fallible call's result is dereferenced only behind its err==nil edge (damaged stored data is an error, not a crash)", 8)
	r.Rule("R11-store-wrappers-delegate", "ClearSessionCookie, SaveSession and LoadCookiedSession answer with the result of the store call made on that path, on every path (round 7)", 3)
	runStoreWrappersDelegate(c, "R11-store-wrappers-delegate")
	r.Rule("R12-health-check-claims-own-paths-only", "the ping middleware, which runs before the readiness check, claims a request only on a set hit of its own escaped path or User-Agent, verbatim (round 8)", 1)
	runOwnEndpointKeyVerbatim(c, "R12-health-check-claims-own-paths-only")
	r.Rule("R13-no-cookie-sentinel-only-from-request", "decodeTicketFromRequest hands back http.ErrNoCookie only as req.Cookie's own error (shared with C11.R11, round 8)", 1)
	runNoCookieSentinelOnlyFromRequest(c, "R13-no-cookie-sentinel-only-from-request")
	r.Rule("R10-value-or-error", "a store/decoding function whose caller dereferences the result after checking only the error never returns (nil, nil): empty or truncated stored data is an error, not a missing value", 3)
	r.Rule("R9-single-answer", "in every handler of the proxy an error answer (ErrorPage, http.Error, errorJSON) is final: no status, redirect, page or upstream hand-off follows it on any path", 8)
	r.Rule("R5-decrypt-bounds", "every Cipher.Decrypt slices its input only under a length guard for the same bound", 3)

	rule := "R1-error-discipline"
	fam := newStoreFamily(c, rule)
	refreshIfNeeded := c.Fn(rule, "(*pkg/middleware.storedSessionLoader).refreshSessionIfNeeded")
	refreshSession := c.Fn(rule, "(*pkg/middleware.storedSessionLoader).refreshSession")
	validateSession := c.Fn(rule, "(*pkg/middleware.storedSessionLoader).validateSession")
	msave := c.Fn(rule, "(*pkg/sessions/persistence.Manager).Save")
	dtfr := c.Fn(rule, "pkg/sessions/persistence.decodeTicketFromRequest")

	for _, fn := range c.P.ModFns {
		pk := prog.Short(prog.FnPkg(fn).Path())
		if pk == "pkg/validation" {
			continue // configuration time, not request handling
		}
		// collect family call sites
		var sites []ssa.CallInstruction
		for _, b := range fn.Blocks {
			for _, in := range b.Instrs {
				if ci, ok := in.(ssa.CallInstruction); ok && fam.name(ci.Common()) != "" {
					sites = append(sites, ci)
				}
			}
		}
		if len(sites) == 0 {
			continue
		}
		c.R.CallSites += len(sites)
		fn := fn
		retIdx := errResultIndex(fn.Signature)
		isSite := func(_ *walk.Path, cl walk.Call) bool { return fam.name(cl.C) != "" }
		c.Walk(rule, fn, func(p *walk.Path) { // helpers inlined so that an error handed through a translating helper keeps its identity
			if _, ok := p.Exit.(*ssa.Return); !ok || p.ExitF != 0 {
				return
			}
			at := p.End()
			for _, cl := range p.Find(isSite, at) {
				if cl.Step.F != 0 {
					continue // a site inside an inlined helper is judged in the helper's own walk
				}
				name := fam.name(cl.C)
				key := "site|" + fnKey(fn) + "|" + name
				if _, isDefer := cl.In.(*ssa.Defer); isDefer {
					c.bad(rule, key, cl.In, "a store operation is deferred directly: its error cannot be examined", p, at)
					continue
				}
				if _, isGo := cl.In.(*ssa.Go); isGo {
					c.bad(rule, key, cl.In, "a store operation runs in a goroutine: its error is dropped", p, at)
					continue
				}
				ek, single, idx := callErrDV(p, cl)
				ri := idx
				if single {
					ri = -1
				}
				isNil, known := p.ResultNil(cl.DV(), ri, at)
				if retIdx < 0 {
					// no error result: the error must be examined by a branch
					if known {
						c.ok(rule, key, cl.In, "error examined by a branch (function has no error result; consequences checked by R2-R4, C11, C12)")
					} else if errorIsUsed(cl) {
						c.ok(rule, key, cl.In, "error handed on (written to the response / logged with the outcome decided elsewhere)")
					} else {
						c.bad(rule, key, cl.In, "the error of "+name+" is not examined on this path", p, at)
					}
					continue
				}
				ret, _ := p.ReturnDV(retIdx)
				switch {
				case p.Key(ret) == ek:
					c.ok(rule, key, cl.In, "error returned as is")
				case known && isNil:
					c.ok(rule, key, cl.In, "error nil on this path")
				case definitelyNonNil(p, ret, at):
					c.ok(rule, key, cl.In, "failure makes "+fn.Name()+" return a non-nil error")
				default:
					// reviewed, structurally checked exceptions
					if fn == refreshIfNeeded && strings.HasSuffix(name, "ObtainLock") && retriedLockError(p, cl, at) {
						c.ok(rule, key+"|retry", cl.In, "reviewed: ErrLockNotObtained is retried; the path continues only after a later ObtainLock returned nil")
						continue
					}
					if fn == refreshIfNeeded && cl.C.StaticCallee() == refreshSession {
						if vc, ok := extractOfCall(p, ret, 0); ok && vc.C.StaticCallee() == validateSession && vc.Idx > cl.Idx {
							c.ok(rule, key+"|validate-decides", cl.In, "reviewed: a failed refresh/save is logged and the session is kept only if validateSession, whose result is returned, accepts it")
							continue
						}
					}
					if fn == msave && cl.C.StaticCallee() == dtfr {
						if _, ok := Has(p, at, Need{M: walk.Static(c.P.Func("pkg/sessions/persistence.newTicket")), Idx: 1, Out: ErrNil}); ok {
							c.ok(rule, key+"|new-ticket", cl.In, "reviewed: an undecodable ticket on Save is replaced by a fresh ticket")
							continue
						}
					}
					c.bad(rule, key, cl.In, "a failure of "+name+" can be swallowed: "+prog.Name(fn)+" may return a nil error although that error is not known to be nil", p, at)
				}
			}
		})
	}

	var storeFns []*ssa.Function
	for _, fn := range c.P.ModFns {
		pk := prog.Short(prog.FnPkg(fn).Path())
		if strings.HasPrefix(pk, "pkg/sessions") || pk == "pkg/encryption" || pk == "pkg/apis/sessions" || pk == "pkg/middleware" {
			storeFns = append(storeFns, fn)
		}
	}
	c.checkErrResults("R8-result-before-errcheck", storeFns)
	c.checkNilNilPairs("R10-value-or-error", storeFns)

	if a := c.c12Anchors("R6-reload-under-lock"); a != nil {
		c.checkRefreshProtocol("R6-reload-under-lock", a)
		c.checkLoaderClears("R6-reload-under-lock", a)
		runSignOutRule(c, "R7-sign-out")
		runSingleResponse(c, "R9-single-answer")
	}

	// ---- R2 ---------------------------------------------------------------------------------
	rule = "R2-cookie-after-persist"
	saveSession := c.Fn(rule, "(*pkg/sessions/persistence.ticket).saveSession")
	httpSetCookie := c.StdFunc(rule, "net/http.SetCookie")
	if msave != nil && saveSession != nil && httpSetCookie != nil {
		// ticket.setCookie is not an anchor: where it exists the walker inlines it, so the rule sees the
		// http.SetCookie call itself whether the helper exists or was folded into Manager.Save
		n := 0
		isTicketMethod := func(k walk.Call) bool {
			sc := k.C.StaticCallee()
			if sc == nil || sc.Signature.Recv() == nil {
				return false
			}
			return sc.Signature.Recv().Type().String() == saveSession.Signature.Recv().Type().String()
		}
		c.Walk(rule, msave, func(p *walk.Path) {
			for _, sc := range p.Find(walk.Static(httpSetCookie), p.End()) {
				n++
				key := "setCookie|" + fnKey(msave)
				k, ok := Has(p, sc.Idx, Need{M: walk.Static(saveSession), Idx: -1, Out: ErrNil, Where: func(p *walk.Path, k walk.Call) bool {
					return len(msave.Params) > 3 && p.Resolve(p.Arg(k, 1)).V == msave.Params[3]
				}})
				if !ok {
					c.bad(rule, key, sc.In, "the ticket cookie is handed out on a path where persisting that session did not succeed", p, sc.Idx)
					continue
				}
				same := true
				for _, m := range p.Calls() {
					if m.Idx > k.Idx && m.Idx < sc.Idx && isTicketMethod(m) && !p.Same(p.Arg(m, 0), p.Arg(k, 0)) {
						same = false
					}
				}
				if same {
					c.ok(rule, key, sc.In, "ticket.saveSession(s, ...)==nil for the session being saved, and the cookie is built from that same ticket")
				} else {
					c.bad(rule, key, sc.In, "the cookie handed out is built from a different ticket than the one the session was persisted under", p, sc.Idx)
				}
			}
		})
		if n == 0 {
			c.R.Unknown(rule, "setCookie|none", c.P.Pos(msave.Pos()), "Manager.Save never sets the ticket cookie")
		}
	}

	// ---- R3 ---------------------------------------------------------------------------------
	rule = "R3-handlers"
	saveSess := c.Fn(rule, "(*main.OAuthProxy).SaveSession")
	storeSave := c.Method(rule, "pkg/apis/sessions.SessionStore.Save")
	redirect := c.StdFunc(rule, "net/http.Redirect")
	if saveSess != nil && storeSave != nil && redirect != nil {
		for _, name := range []string{"(*main.OAuthProxy).SignIn", "(*main.OAuthProxy).OAuthCallback"} {
			fn := c.Fn(rule, name)
			if fn == nil {
				continue
			}
			n := 0
			c.Walk(rule, fn, func(p *walk.Path) {
				for _, rd := range p.FindTop(walk.Static(redirect), p.End()) {
					n++
					key := "redirect|" + fnKey(fn)
					if _, ok := Has(p, rd.Idx, Need{M: walk.Or(walk.Static(saveSess), walk.Invoke(c.P, storeSave)), Idx: -1, Out: ErrNil}); ok {
						c.ok(rule, key, rd.In, "SaveSession(...)==nil")
					} else {
						c.bad(rule, key, rd.In, "the login success redirect is sent on a path where saving the session did not succeed", p, rd.Idx)
					}
				}
			})
			if n == 0 {
				c.R.Unknown(rule, "redirect|none|"+name, c.P.Pos(fn.Pos()), "handler performs no redirect")
			}
		}
	}

	// ---- R4 ---------------------------------------------------------------------------------
	rule = "R4-readiness"
	rc := c.Fn(rule, "pkg/middleware.readynessCheck$1")
	verifyM := c.Method(rule, "pkg/middleware.Verifiable.VerifyConnection")
	if rc != nil && verifyM != nil {
		n := 0
		c.Walk(rule, rc, func(p *walk.Path) {
			for i, s := range p.Steps {
				ci, ok := s.In.(ssa.CallInstruction)
				if !ok || !isInvokeOf(ci.Common(), "net/http.ResponseWriter", "WriteHeader", c.P) {
					continue
				}
				code, ok := ConstInt(ci.Common().Args[0])
				if ok && code >= 400 {
					continue
				}
				n++
				key := "ready-200|" + fnKey(rc)
				if _, ok := Has(p, i, Need{M: walk.Invoke(c.P, verifyM), Idx: -1, Out: ErrNil}); ok {
					c.ok(rule, key, s.In, "VerifyConnection(ctx)==nil")
				} else {
					c.bad(rule, key, s.In, "the readiness endpoint reports ready on a path where the store connection was not verified", p, i)
				}
			}
		})
		if n == 0 {
			c.R.Unknown(rule, "ready-200|none", c.P.Pos(rc.Pos()), "readiness handler writes no success status")
		}
		// chain: the verifiable given to NewReadynessCheck is the session store
		for _, cs := range c.callersOf(c.P.Func("pkg/middleware.NewReadynessCheck")) {
			key := "verifiable-is-store|" + fnKey(cs.Parent())
			arg := unwrap(cs.Common().Args[1])
			if pa, ok := arg.(*ssa.Parameter); ok && strings.Contains(pa.Type().String(), "SessionStore") {
				c.ok(rule, key, cs, "NewReadynessCheck(path, sessionStore)")
			} else {
				c.bad(rule, key, cs, "the readiness check does not verify the session store", nil, 0)
			}
		}
	}

	runVerifyChain(c, "R4-readiness")

	// ---- R5 ---------------------------------------------------------------------------------
	rule = "R5-decrypt-bounds"
	decryptM := c.Method(rule, "pkg/encryption.Cipher.Decrypt")
	if decryptM != nil {
		for _, impl := range c.P.Implementations(decryptM) {
			if !c.P.InModule(impl) {
				continue
			}
			impl := impl
			input := impl.Params[1]
			slices := 0
			c.Walk(rule, impl, func(p *walk.Path) {
				for i, s := range p.Steps {
					sl, ok := s.In.(*ssa.Slice)
					if !ok || p.Resolve(p.StepOp(sl.X, s)).V != input {
						continue
					}
					slices++
					key := "slice-guard|" + fnKey(impl)
					for _, bound := range []ssa.Value{sl.Low, sl.High} {
						if bound == nil {
							continue
						}
						bdv := p.StepOp(bound, s)
						if lenGuard(p, i, input, bdv) {
							c.ok(rule, key, sl, "len(ciphertext) >= bound established before slicing")
						} else {
							c.bad(rule, key, sl, "the ciphertext is sliced at a bound that is not guarded by a length check: a truncated stored value panics", p, i)
						}
					}
				}
			})
			if slices == 0 {
				c.ok(rule, "slice-guard|"+fnKey(impl), impl.Blocks[0].Instrs[0], "does not slice its input")
			}
		}
	}
}

// errorIsUsed: the call's error result has a use other than being dropped.
func errorIsUsed(cl walk.Call) bool {
	v, ok := cl.In.(ssa.Value)
	if !ok {
		return false
	}
	idx := errResultIndex(cl.C.Signature())
	if cl.C.Signature().Results().Len() == 1 {
		return len(*v.Referrers()) > 0
	}
	for _, r := range *v.Referrers() {
		if ex, ok := r.(*ssa.Extract); ok && ex.Index == idx && len(*ex.Referrers()) > 0 {
			return true
		}
	}
	return false
}

// retriedLockError: the call's error satisfied errors.Is(err, ErrLockNotObtained) and a later ObtainLock on the path returned nil.
func retriedLockError(p *walk.Path, cl walk.Call, at int) bool {
	ek, _, _ := callErrDV(p, cl)
	isNotObtained := false
	for _, a := range p.Atoms(at) {
		call, ok := a.DV.V.(*ssa.Call)
		if !ok || a.IsNil || !a.Val || !isStd(&call.Call, "errors", "Is") {
			continue
		}
		if p.Key(p.Op(call.Call.Args[0], a.DV)) == ek && strings.HasSuffix(globalLoad(call.Call.Args[1]), "ErrLockNotObtained") {
			isNotObtained = true
		}
	}
	if !isNotObtained {
		return false
	}
	for _, later := range p.Calls() {
		if later.Idx > cl.Idx && later.C.StaticCallee() == cl.C.StaticCallee() {
			if n, k := p.ResultNil(later.DV(), -1, at); k && n {
				return true
			}
		}
	}
	return false
}

// lenGuard: before step at, an assumption establishes len(input) >= bound (i.e. len(input) < bound is false).
func lenGuard(p *walk.Path, at int, input ssa.Value, bound walk.DV) bool {
	bk := p.Key(bound)
	for _, a := range p.Atoms(at) {
		b, ok := a.DV.V.(*ssa.BinOp)
		if !ok || a.IsNil {
			continue
		}
		isLen := func(v ssa.Value) bool {
			call, ok := v.(*ssa.Call)
			if !ok {
				return false
			}
			bi, ok := call.Call.Value.(*ssa.Builtin)
			return ok && bi.Name() == "len" && p.Resolve(p.Op(call.Call.Args[0], a.DV)).V == input
		}
		switch {
		case b.Op == token.LSS && !a.Val && isLen(b.X) && p.Key(p.Op(b.Y, a.DV)) == bk: // !(len < bound)
			return true
		case b.Op == token.GEQ && a.Val && isLen(b.X) && p.Key(p.Op(b.Y, a.DV)) == bk: // len >= bound
			return true
		case b.Op == token.GTR && !a.Val && isLen(b.Y) && p.Key(p.Op(b.X, a.DV)) == bk: // !(bound > len)
			return true
		case b.Op == token.LEQ && a.Val && isLen(b.Y) && p.Key(p.Op(b.X, a.DV)) == bk: // bound <= len
			return true
		}
	}
	return false
}

// runSingleResponse: an error answer is final — after ErrorPage / http.Error / errorJSON no status,
// redirect, page or hand-off to the upstream follows on the same path. (An error answer followed by
// the success answer is how "fail closed" silently becomes "fail open": a forgotten return.)
// The reverse order (a status written, then an error page because writing the body failed) exists
// twice on the reference tree and breaks no property; it is not flagged.
func runSingleResponse(c *Ctx, rule string) {
	handlers := []string{"SignIn", "SignOut", "UserInfo", "OAuthStart", "doOAuthStart", "OAuthCallback", "AuthOnly", "Proxy", "SignInPage", "backendLogout"}
	errorPage := c.Fn(rule, "(*main.OAuthProxy).ErrorPage")
	signInPage := c.Fn(rule, "(*main.OAuthProxy).SignInPage")
	errorJSON := c.Fn(rule, "(*main.OAuthProxy).errorJSON")
	doStart := c.Fn(rule, "(*main.OAuthProxy).doOAuthStart")
	httpError := c.StdFunc(rule, "net/http.Error")
	redirect := c.StdFunc(rule, "net/http.Redirect")
	writeHeader := c.Method(rule, "net/http.ResponseWriter.WriteHeader")
	serveHTTP := c.Method(rule, "net/http.Handler.ServeHTTP")
	if errorPage == nil || signInPage == nil || errorJSON == nil || doStart == nil || httpError == nil || redirect == nil || writeHeader == nil || serveHTTP == nil {
		return
	}
	answer := func(p *walk.Path, cl walk.Call) string {
		if sc := cl.C.StaticCallee(); sc != nil {
			switch sc {
			case errorPage:
				return "ErrorPage"
			case signInPage:
				return "SignInPage"
			case errorJSON:
				return "errorJSON"
			case doStart:
				return "doOAuthStart"
			case httpError:
				return "http.Error"
			case redirect:
				return "http.Redirect"
			}
			return ""
		}
		if cl.C.IsInvoke() {
			switch {
			case walk.SameMethod(cl.C.Method, writeHeader):
				return "WriteHeader"
			case cl.C.Method.Name() == "ServeHTTP":
				return "ServeHTTP"
			}
		}
		return ""
	}
	for _, h := range handlers {
		fn := c.Fn(rule, "(*main.OAuthProxy)."+h)
		if fn == nil {
			continue
		}
		worst := 0
		flagged := false
		c.WalkShallow(rule, fn, func(p *walk.Path) {
			if _, ok := p.Exit.(*ssa.Return); !ok {
				return
			}
			var seq []string
			var after walk.Call
			errorSeen, violated := false, false
			for _, cl := range p.Calls() {
				if _, isDefer := cl.In.(*ssa.Defer); isDefer {
					continue
				}
				a := answer(p, cl)
				if a == "" {
					continue
				}
				seq = append(seq, a)
				if errorSeen && !violated {
					violated, after = true, cl
				}
				if a == "ErrorPage" || a == "http.Error" || a == "errorJSON" {
					errorSeen = true
				}
			}
			if len(seq) > worst {
				worst = len(seq)
			}
			if violated && !flagged {
				flagged = true
				c.bad(rule, "single-answer|"+fnKey(fn), after.In, "this handler keeps answering after an error answer ("+strings.Join(seq, " then ")+"): the error must end the request, otherwise failing closed turns into failing open", p, after.Idx)
			}
		})
		if !flagged {
			c.R.OK(rule, "single-answer|"+fnKey(fn), c.P.Pos(fn.Pos()), sprintf("no answer follows an error answer on any path (at most %d answering calls per path)", worst))
		}
	}
}

// runVerifyChain: every VerifyConnection of a store that has a connection answers nil only as the
// nil result of probing the next layer on that very call (Manager -> Store -> Client.Ping); a cached or
// coalesced answer predates an outage. The cookie store, which has no connection, is the reviewed constant.
func runVerifyChain(c *Ctx, rule string) {
	pingM := c.Method(rule, "pkg/sessions/redis.Client.Ping")
	n := 0
	for _, fn := range c.P.ModFns {
		if fn.Name() != "VerifyConnection" || fn.Signature.Recv() == nil || len(fn.Blocks) == 0 {
			continue
		}
		pk := prog.Short(prog.FnPkg(fn).Path())
		if pk == "pkg/sessions/cookie" {
			c.R.OK(rule, "probe|"+fnKey(fn), c.P.Pos(fn.Pos()), "reviewed: the cookie store has no connection to verify")
			continue
		}
		if !strings.HasPrefix(pk, "pkg/sessions") {
			continue
		}
		n++
		fn := fn
		c.Walk(rule, fn, func(p *walk.Path) {
			rv, ok := p.ReturnDV(0)
			if !ok {
				return
			}
			at := p.End()
			key := "probe|" + fnKey(fn)
			if definitelyNonNil(p, rv, at) {
				c.ok(rule, key+"|error", p.Exit, "a constructed error")
				return
			}
			// anything that may be nil must be this call's own probe result
			fromProbe := false
			for _, cl := range p.Calls() {
				if !cl.C.IsInvoke() {
					continue
				}
				if cl.C.Method.Name() == "VerifyConnection" || (pingM != nil && walk.SameMethod(cl.C.Method, pingM)) || cl.C.Method.Name() == "Ping" {
					if p.Key(rv) == p.ResultKey(cl.DV(), -1) {
						fromProbe = true
					}
					if nn, k := p.ResultNil(cl.DV(), -1, at); k && nn && DefinitelyNil(p, rv, at) {
						fromProbe = true
					}
				}
			}
			if fromProbe {
				c.ok(rule, key, p.Exit, "returns the result of probing the next layer during this call")
			} else {
				c.bad(rule, key, p.Exit, "VerifyConnection can answer with something other than the result of a probe made during this call (a cached or coalesced result predates an outage): readiness stays 200 while the store is unreachable", p, at)
			}
		})
	}
	if n == 0 {
		c.R.Unknown(rule, "probe|none", "-", "no VerifyConnection implementation with a connection found")
	}
}

// runStoreWrappersDelegate (round 7; C13.R11, C11.R10): the handlers reach the session store through three one-line
// methods of the proxy (ClearSessionCookie, SaveSession, LoadCookiedSession). Each of them answers, on every path, with
// the result of the store call made on that path: a wrapper that answers nil without asking the store ("already cleared
// by the loader", "nothing to save") reports success for an operation that may have failed or never happened — the
// sign-out handler then redirects while the stored session is still there.
func runStoreWrappersDelegate(c *Ctx, rule string) {
	for _, w := range []struct{ fn, method string }{
		{"(*main.OAuthProxy).ClearSessionCookie", "Clear"},
		{"(*main.OAuthProxy).SaveSession", "Save"},
		{"(*main.OAuthProxy).LoadCookiedSession", "Load"},
	} {
		fn := c.Fn(rule, w.fn)
		m := c.Method(rule, "pkg/apis/sessions.SessionStore."+w.method)
		if fn == nil || m == nil {
			continue
		}
		key := "delegates|" + fnKey(fn)
		bad := false
		n := 0
		c.Walk(rule, fn, func(p *walk.Path) {
			if _, ok := p.Exit.(*ssa.Return); !ok {
				return
			}
			n++
			nres := fn.Signature.Results().Len()
			ret, ok := p.ReturnDV(nres - 1)
			calls := p.Find(walk.Invoke(c.P, m), p.End())
			good := false
			if ok {
				for _, cl := range calls {
					if ResultIs(p, ret, cl, nres-1) || (nres == 1 && sameValueOrSlot(p, ret, cl.DV())) {
						good = true
					}
				}
			}
			if !good && !bad {
				bad = true
				c.bad(rule, key, p.Exit, sprintf("%s can return without handing back the result of sessionStore.%s made on that path: the caller takes the answer for the store's and acts on a success the store never reported", prog.Name(fn), w.method), p, p.End())
			}
		})
		if n > 0 && !bad {
			c.R.OK(rule, key, c.P.Pos(fn.Pos()), "every return hands back sessionStore."+w.method+"'s result")
		}
	}
}
