package rules

import (
	"go/token"
	"go/types"
	"sort"
	"strings"

	"golang.org/x/tools/go/ssa"

	"oapsa/internal/prog"
)

// Request handling keeps no state of its own between requests.
//
// A class-wide who-may-write rule (round 7). Every property here is stated per request ("a request is served only
// if IT carries …", "the callback establishes a session only if ITS state matches …"). The code gets that for free
// today because request handling writes nothing that outlives the request: every decision is a function of the
// request, the configuration and the session store. A write, made while handling a request, into
//
//	(a) a package-level variable,
//	(b) a field (or an element / map entry reached through a field) of an object built at start-up — a module
//	    struct type that request-reachable code never allocates: the proxy, the providers, the stores, the
//	    loaders, the verifier, the options —,
//	(c) a variable of a constructor captured by the handler closure it returned, or
//	(d) any of those through sync/atomic or sync.Map,
//
// makes the next request's decision depend on an earlier request (a cache of verified credentials, a remembered
// login, a memoised verdict). Today there are none, so the rule needs no table. It is scoped, per property, by
// WHERE THE STATE LIVES, not by who writes it: the package declaring the variable, the start-up object's type or the
// constructor ("pkg" or "pkg.Type" entries) must be one that implements the property, so that a write into, say, the
// shared cookie options from a login handler alarms the cookie properties and not every property main implements. It does not decide that a cache is wrong — a correct memoisation would be
// reported until it is reviewed — only that none exists.
func runStateless(c *Ctx, rule string, pkgs ...string) {
	R := c.requestReachable(rule)
	if R == nil {
		return
	}
	inScope := func(pkgPath, typeName string) bool {
		sp := prog.Short(pkgPath)
		for _, p := range pkgs {
			if sp == p || strings.HasPrefix(sp, p+"/") || (typeName != "" && p == sp+"."+typeName) {
				return true
			}
		}
		return false
	}
	// module struct types allocated somewhere in request-reachable code are per-request types
	perReq := map[*types.TypeName]bool{}
	for fn := range R {
		for _, b := range fn.Blocks {
			for _, in := range b.Instrs {
				if al, ok := in.(*ssa.Alloc); ok {
					if pt, ok := al.Type().Underlying().(*types.Pointer); ok {
						if n, ok := pt.Elem().(*types.Named); ok {
							perReq[n.Obj()] = true
						}
					}
				}
			}
		}
	}
	longLived := func(t types.Type) *types.Named {
		n, ok := t.(*types.Named)
		if !ok || n.Obj().Pkg() == nil {
			return nil
		}
		if _, ok := n.Underlying().(*types.Struct); !ok {
			return nil
		}
		if !strings.HasPrefix(n.Obj().Pkg().Path(), prog.ModPath) || perReq[n.Obj()] {
			return nil
		}
		return n
	}
	var shared func(v ssa.Value, fn *ssa.Function, d int) (string, string, string)
	shared = func(v ssa.Value, fn *ssa.Function, d int) (string, string, string) {
		if d > 10 {
			return "", "", ""
		}
		switch x := v.(type) {
		case *ssa.FieldAddr:
			if pt, ok := x.X.Type().Underlying().(*types.Pointer); ok {
				if n := longLived(pt.Elem()); n != nil {
					return "field " + n.Obj().Name() + "." + n.Underlying().(*types.Struct).Field(x.Field).Name() + " of an object built at start-up", n.Obj().Pkg().Path(), n.Obj().Name()
				}
			}
			return shared(x.X, fn, d+1)
		case *ssa.Field:
			return shared(x.X, fn, d+1)
		case *ssa.IndexAddr:
			return shared(x.X, fn, d+1)
		case *ssa.Index:
			return shared(x.X, fn, d+1)
		case *ssa.Slice:
			return shared(x.X, fn, d+1)
		case *ssa.ChangeType:
			return shared(x.X, fn, d+1)
		case *ssa.Convert:
			return shared(x.X, fn, d+1)
		case *ssa.UnOp:
			if x.Op == token.MUL {
				return shared(x.X, fn, d+1)
			}
		case *ssa.Global:
			pp := ""
			if x.Pkg != nil {
				pp = x.Pkg.Pkg.Path()
			}
			return "package-level variable " + x.Name(), pp, ""
		case *ssa.FreeVar:
			if w, owner := capturedFromConstructor(x, fn); w != "" {
				pp := ""
				if pk := prog.FnPkg(owner); pk != nil {
					pp = pk.Path()
				}
				return w, pp, ""
			}
		}
		return "", "", ""
	}
	examined, bad := 0, 0
	var fns []*ssa.Function
	for fn := range R {
		if c.P.InModule(fn) {
			fns = append(fns, fn)
		}
	}
	sort.Slice(fns, func(i, j int) bool { return prog.Name(fns[i]) < prog.Name(fns[j]) })
	report := func(fn *ssa.Function, in ssa.Instruction, how, what string) {
		bad++
		c.R.Bad(rule, "request-time-state|"+fnKey(fn)+"|"+what, c.pos(in), "request-handling code "+how+" "+what+": state written while serving one request and read while serving another makes a decision depend on an earlier request (today request handling writes nothing that outlives the request)", nil, nil)
	}
	for _, fn := range fns {
		for _, b := range fn.Blocks {
			for _, in := range b.Instrs {
				switch x := in.(type) {
				case *ssa.Store:
					examined++
					if w, pp, tn := shared(x.Addr, fn, 0); w != "" && inScope(pp, tn) {
						report(fn, in, "stores into", w)
					}
				case *ssa.MapUpdate:
					examined++
					if w, pp, tn := shared(x.Map, fn, 0); w != "" && inScope(pp, tn) {
						report(fn, in, "updates a map held in", w)
					}
				case ssa.CallInstruction:
					cc := x.Common()
					if bi, ok := cc.Value.(*ssa.Builtin); ok && (bi.Name() == "delete" || bi.Name() == "copy" || bi.Name() == "clear") && len(cc.Args) > 0 {
						examined++
						if w, pp, tn := shared(cc.Args[0], fn, 0); w != "" && inScope(pp, tn) {
							report(fn, in, bi.Name()+"s (in place) what is held in", w)
						}
						continue
					}
					sc := cc.StaticCallee()
					if sc == nil || sc.Pkg == nil {
						continue
					}
					pp := sc.Pkg.Pkg.Path()
					// (e) a pointer-receiver method of a library type called on a VALUE that is part of a start-up object
					// (s.group.Do(…) on a singleflight.Group, a cache, a rate limiter, a buffer): the library object is
					// the shared state. Mutexes are not state; they protect it.
					if sc.Signature.Recv() != nil && !strings.HasPrefix(pp, prog.ModPath) && len(cc.Args) > 0 && pp != "sync" && pp != "sync/atomic" {
						if _, isPtr := sc.Signature.Recv().Type().(*types.Pointer); isPtr {
							if fa, ok := cc.Args[0].(*ssa.FieldAddr); ok {
								examined++
								if w, tp, tn := shared(fa, fn, 0); w != "" && inScope(tp, tn) {
									report(fn, in, "calls "+sc.Name()+" (a pointer-receiver method of "+pp+") on", w)
								}
								continue
							}
							if g, ok := cc.Args[0].(*ssa.Global); ok {
								examined++
								if w, tp, tn := shared(g, fn, 0); w != "" && inScope(tp, tn) {
									report(fn, in, "calls "+sc.Name()+" (a pointer-receiver method of "+pp+") on", w)
								}
								continue
							}
						}
					}
					if pp != "sync/atomic" && !(pp == "sync" && sc.Signature.Recv() != nil && strings.Contains(sc.Signature.Recv().Type().String(), "sync.Map")) {
						continue
					}
					n := sc.Name()
					if !(strings.HasPrefix(n, "Store") || strings.HasPrefix(n, "Add") || strings.HasPrefix(n, "Swap") || strings.HasPrefix(n, "CompareAndSwap") || strings.HasPrefix(n, "LoadOrStore") || strings.HasPrefix(n, "Delete") || strings.HasPrefix(n, "LoadAndDelete") || n == "And" || n == "Or" || n == "Clear") {
						continue
					}
					if len(cc.Args) == 0 {
						continue
					}
					examined++
					if w, tp, tn := shared(cc.Args[0], fn, 0); w != "" && inScope(tp, tn) {
						report(fn, in, "calls "+sc.Name()+" of "+pp+" on", w)
					}
				}
			}
		}
	}
	if bad == 0 {
		c.R.OK(rule, "request-time-state|none", "-", sprintf("%d stores, map updates, in-place builtins and atomic/sync.Map writes in %d request-reachable module functions: none targets a package-level variable, an object built at start-up, or a constructor's captured variable declared in %s", examined, len(fns), strings.Join(pkgs, ", ")))
	}
}

// capturedFromConstructor: fv is a free variable of closure fn. It is shared state when the variable it is bound
// to lives in a function that hands out a function or handler value (a middleware constructor: the returned
// closure, and the variable with it, outlives the call) and fn itself is not merely invoked on the spot
// (deferred / called in place) by that function.
func capturedFromConstructor(fv *ssa.FreeVar, fn *ssa.Function) (string, *ssa.Function) {
	cur, v := fn, ssa.Value(fv)
	escapes := false
	for d := 0; d < 6; d++ {
		f, ok := v.(*ssa.FreeVar)
		if !ok {
			break
		}
		parent := cur.Parent()
		if parent == nil {
			return "", nil
		}
		idx := -1
		for i, q := range cur.FreeVars {
			if q == f {
				idx = i
			}
		}
		if idx < 0 {
			return "", nil
		}
		var next ssa.Value
		for _, b := range parent.Blocks {
			for _, in := range b.Instrs {
				mc, ok := in.(*ssa.MakeClosure)
				if !ok || mc.Fn != ssa.Value(cur) || idx >= len(mc.Bindings) {
					continue
				}
				next = mc.Bindings[idx]
				if !onlyInvokedInPlace(mc) {
					escapes = true
				}
			}
		}
		if next == nil {
			return "", nil
		}
		cur, v = parent, next
	}
	al, ok := v.(*ssa.Alloc)
	if !ok || !escapes {
		return "", nil
	}
	owner := al.Parent()
	if owner == nil || owner == fn {
		return "", nil
	}
	res := owner.Signature.Results()
	for i := 0; i < res.Len(); i++ {
		t := res.At(i).Type()
		if _, ok := t.Underlying().(*types.Signature); ok {
			return "variable " + al.Comment + " of " + prog.Name(owner) + ", captured by the closure it returns", owner
		}
		if it, ok := t.Underlying().(*types.Interface); ok {
			for j := 0; j < it.NumMethods(); j++ {
				if it.Method(j).Name() == "ServeHTTP" {
					return "variable " + al.Comment + " of " + prog.Name(owner) + ", captured by the handler it returns", owner
				}
			}
		}
	}
	return "", nil
}

// onlyInvokedInPlace: the closure value is used only as the callee of call/defer/go instructions of its parent.
func onlyInvokedInPlace(mc *ssa.MakeClosure) bool {
	if mc.Referrers() == nil {
		return true
	}
	for _, r := range *mc.Referrers() {
		ci, ok := r.(ssa.CallInstruction)
		if !ok || ci.Common().Value != ssa.Value(mc) {
			if _, dbg := r.(*ssa.DebugRef); dbg {
				continue
			}
			return false
		}
	}
	return true
}
