package rules

import (
	"go/token"
	"go/types"
	"strings"

	"golang.org/x/tools/go/ssa"

	"oapsa/internal/prog"
	"oapsa/internal/walk"
)

// ---- P3a: nullable timestamp fields of SessionState -------------------------------------------

type nullableCtx struct {
	c       *Ctx
	fields  map[*types.Var]bool
	setters map[*ssa.Function][]*types.Var // setter -> fields it makes non-nil on its receiver
	summary map[*ssa.Parameter]int         // 0 unknown, 1 derefs unguarded, 2 safe
}

func (c *Ctx) newNullable(rule string) *nullableCtx {
	n := &nullableCtx{c: c, fields: map[*types.Var]bool{}, setters: map[*ssa.Function][]*types.Var{}, summary: map[*ssa.Parameter]int{}}
	ca := c.Field(rule, "pkg/apis/sessions.SessionState.CreatedAt")
	eo := c.Field(rule, "pkg/apis/sessions.SessionState.ExpiresOn")
	if ca == nil || eo == nil {
		return nil
	}
	n.fields[ca], n.fields[eo] = true, true
	for name, fs := range map[string][]*types.Var{"CreatedAtNow": {ca}, "SetExpiresOn": {eo}, "ExpiresIn": {ca, eo}} {
		if fn := c.Fn(rule, "(*pkg/apis/sessions.SessionState)."+name); fn != nil {
			n.setters[fn] = fs
		}
	}
	return n
}

// nullableLoad: v is a load of one of the nullable fields; returns (base, field).
func (n *nullableCtx) nullableLoad(v ssa.Value) (ssa.Value, *types.Var) {
	u, ok := v.(*ssa.UnOp)
	if !ok || u.Op != token.MUL {
		return nil, nil
	}
	fa, ok := u.X.(*ssa.FieldAddr)
	if !ok {
		return nil, nil
	}
	f := walk.FieldOf(fa.X.Type(), fa.Field)
	if !n.fields[f] {
		return nil, nil
	}
	return fa.X, f
}

// guarded: before step at, field f of base is known non-nil on this path.
func (n *nullableCtx) guarded(p *walk.Path, at int, base walk.DV, f *types.Var) bool {
	for _, a := range p.Atoms(at) {
		if !a.IsNil || a.Val {
			continue
		}
		if b, bf := n.nullableLoad(a.DV.V); bf == f && p.Same(p.Op(b, p.Op(a.DV.V.(*ssa.UnOp).X, a.DV)), base) {
			return true
		}
	}
	for i, s := range p.Steps {
		if i >= at {
			break
		}
		switch x := s.In.(type) {
		case *ssa.Call:
			if fs, ok := n.setters[x.Call.StaticCallee()]; ok && p.Same(p.StepOp(x.Call.Args[0], s), base) {
				for _, sf := range fs {
					if sf == f {
						return true
					}
				}
			}
		case *ssa.Store:
			if fa, ok := x.Addr.(*ssa.FieldAddr); ok && walk.FieldOf(fa.X.Type(), fa.Field) == f && p.Same(p.StepOp(fa.X, s), base) {
				v := p.Resolve(p.StepOp(x.Val, s)).V
				if _, isAlloc := v.(*ssa.Alloc); isAlloc {
					return true
				}
				if _, isFA := v.(*ssa.FieldAddr); isFA {
					return true
				}
			}
		}
	}
	return false
}

// derefsUnguarded: some path of the parameter's function dereferences it without a prior nil test.
func (n *nullableCtx) derefsUnguarded(pa *ssa.Parameter) bool {
	if v := n.summary[pa]; v != 0 {
		return v == 1
	}
	n.summary[pa] = 2
	fn := pa.Parent()
	if len(fn.Blocks) == 0 {
		return false
	}
	bad := false
	w := walk.New(n.c.P, fn)
	w.MaxPaths = 5000
	w.Run(func(p *walk.Path) {
		if bad {
			return
		}
		for i, s := range p.Steps {
			u, ok := s.In.(*ssa.UnOp)
			if !ok || u.Op != token.MUL || p.Resolve(p.StepOp(u.X, s)).V != pa {
				continue
			}
			if isNil, known := p.Nil(walk.DV{V: pa}, i); !(known && !isNil) {
				bad = true
			}
		}
	})
	if bad || w.Overflow {
		n.summary[pa] = 1
	}
	return n.summary[pa] == 1
}

// checkTimestamps implements P3a over the given functions.
func (n *nullableCtx) checkTimestamps(rule string, fns []*ssa.Function) {
	c := n.c
	for _, fn := range fns {
		touches := false
		for _, b := range fn.Blocks {
			for _, in := range b.Instrs {
				if fa, ok := in.(*ssa.FieldAddr); ok && n.fields[walk.FieldOf(fa.X.Type(), fa.Field)] {
					touches = true
				}
			}
		}
		if !touches {
			continue
		}
		fn := fn
		c.WalkShallow(rule, fn, func(p *walk.Path) {
			for i, s := range p.Steps {
				var ptr ssa.Value
				what := ""
				switch x := s.In.(type) {
				case *ssa.UnOp:
					if x.Op == token.MUL {
						if b, _ := n.nullableLoad(p.Resolve(p.StepOp(x.X, s)).V); b != nil {
							ptr, what = p.Resolve(p.StepOp(x.X, s)).V, "dereference"
						}
					}
				case *ssa.Call:
					sc := x.Call.StaticCallee()
					if sc == nil || !c.P.InModule(sc) {
						continue
					}
					for ai, a := range x.Call.Args {
						rv := p.Resolve(p.StepOp(a, s)).V
						if b, _ := n.nullableLoad(rv); b != nil && ai < len(sc.Params) && n.derefsUnguarded(sc.Params[ai]) {
							ptr, what = rv, "passed to "+prog.Name(sc)+", which dereferences it without a nil check"
						}
					}
				}
				if ptr == nil {
					continue
				}
				b, f := n.nullableLoad(ptr)
				ld := ptr.(*ssa.UnOp)
				base := p.Op(b, p.Op(ld.X, walk.DV{V: ptr, I: s.I}))
				key := "P3|" + fnKey(fn) + "|" + f.Name()
				if n.guarded(p, i, base, f) {
					c.ok(rule, key, s.In, f.Name()+" known non-nil (nil test, setter or fresh address) before the "+what)
					continue
				}
				// parameter field with no local guard: every static call site must establish it
				if pa, ok := p.Resolve(base).V.(*ssa.Parameter); ok && n.callersGuard(pa, f) {
					c.ok(rule, key, s.In, f.Name()+" established non-nil at every call site of "+fn.Name())
					continue
				}
				c.bad(rule, key, s.In, "nil "+f.Name()+" can reach a "+what+": sessions from basic auth or bearer tokens carry no timestamps", p, i)
			}
		})
	}
}

func (n *nullableCtx) callersGuard(pa *ssa.Parameter, f *types.Var) bool {
	fn := pa.Parent()
	idx := -1
	for i, q := range fn.Params {
		if q == pa {
			idx = i
		}
	}
	callers := n.c.callersOf(fn)
	if idx < 0 || len(callers) == 0 || len(n.c.funcValueUses(fn)) > 0 {
		return false
	}
	for _, cs := range callers {
		okSite := true
		found := false
		w := walk.New(n.c.P, cs.Parent())
		w.MaxPaths = 5000
		w.Run(func(p *walk.Path) {
			for i, s := range p.Steps {
				if s.In != cs.(ssa.Instruction) {
					continue
				}
				found = true
				if !n.guarded(p, i, p.StepOp(cs.Common().Args[idx], s), f) {
					okSite = false
				}
			}
		})
		if !okSite || !found || w.Overflow {
			return false
		}
	}
	return true
}

// ---- P3b: pointers filled by a decoder and then used without a nil check -----------------------

// decodedPointerSites: a local pointer variable whose address is handed to a decoder (json.Unmarshal,
// UnmarshalInto, Claims) and that is later dereferenced although no nil comparison of it exists in the function.
func (c *Ctx) checkDecodedPointers(rule string, fns []*ssa.Function) {
	for _, fn := range fns {
		for _, b := range fn.Blocks {
			for _, in := range b.Instrs {
				al, ok := in.(*ssa.Alloc)
				if !ok {
					continue
				}
				pt, ok := al.Type().Underlying().(*types.Pointer)
				if !ok {
					continue
				}
				if _, isPtr := pt.Elem().Underlying().(*types.Pointer); !isPtr {
					continue // the cell must itself hold a pointer
				}
				decoded := ""
				var loads []*ssa.UnOp
				for _, ref := range *al.Referrers() {
					switch x := ref.(type) {
					case *ssa.MakeInterface:
						for _, r2 := range *x.Referrers() {
							if call, ok := r2.(ssa.CallInstruction); ok {
								name := walk.CalleeName(call.Common())
								if strings.HasSuffix(name, "Unmarshal") || strings.HasSuffix(name, "UnmarshalInto") || strings.HasSuffix(name, ".Claims") || strings.HasSuffix(name, "Decode") {
									decoded = name
								}
							}
						}
					case *ssa.UnOp:
						if x.Op == token.MUL {
							loads = append(loads, x)
						}
					}
				}
				if decoded == "" {
					continue
				}
				nilTested, derefd := false, ssa.Instruction(nil)
				for _, ld := range loads {
					for _, r := range *ld.Referrers() {
						switch y := r.(type) {
						case *ssa.BinOp:
							if (y.Op == token.EQL || y.Op == token.NEQ) && (isNilConstV(y.X) || isNilConstV(y.Y)) {
								nilTested = true
							}
						case *ssa.FieldAddr, *ssa.UnOp:
							derefd = r
						case ssa.CallInstruction:
							cc := y.Common()
							if !cc.IsInvoke() && len(cc.Args) > 0 && cc.Args[0] == ld && cc.StaticCallee() != nil && cc.StaticCallee().Signature.Recv() != nil {
								derefd = r
							}
						}
					}
				}
				if derefd == nil {
					continue
				}
				key := "P3|" + fnKey(fn) + "|decoded:" + al.Comment
				if nilTested {
					c.ok(rule, key, derefd, "pointer filled by "+decoded+" is nil-tested before use")
				} else {
					c.bad(rule, key, derefd, "a pointer filled by "+decoded+" is used without a nil test: a JSON null from the identity provider leaves it nil", nil, 0)
				}
			}
		}
	}
}

func isNilConstV(v ssa.Value) bool {
	k, ok := v.(*ssa.Const)
	return ok && k.Value == nil
}
