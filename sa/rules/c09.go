package rules

import (
	"go/constant"
	"go/token"
	"go/types"
	"strings"

	"golang.org/x/tools/go/ssa"

	"oapsa/internal/prog"
	"oapsa/internal/walk"
)

func init() {
	register(&Prop{
		ID:          "C09",
		Explanation: "Decides the wiring of the lifetime threshold: encryption.Validate reports ok only if expiration==0 or the signed timestamp t (time.Unix of the integer parsed from the MAC-covered timestamp part) satisfies t.After(time.Now().Add(-expiration)) and t.Before(time.Now().Add(5 minutes)) with exactly those operands; every caller passes Cookie.Expire as the expiration; the timestamp signed into session and ticket cookies is *CreatedAt of the session being saved and SignedValue writes now.Unix(); SessionStore.Save implementations stamp CreatedAt only when it is unset; refreshSession stamps CreatedAtNow() on the session before re-saving it; MakeCookieFromOptions derives Max-Age from its expiration argument, which for session/ticket cookies is Cookie.Expire (CSRF: Cookie.CSRFExpire, deletions: a negative constant); the server-side entry's TTL is Cookie.Expire passed unchanged through ticket.saveSession -> Store.Save -> redis Set. Added during the build: SessionStore.Save implementations stamp CreatedAt only when unset (R6); refreshSession resets the issue time only when the provider refreshed or reported ErrNotImplemented (R7); every cookie sent derives from the constructors that carry Max-Age (R8, shared with C18.R1). Round 4: request-reachable code never writes a field of the shared options.Cookie (R9); every Provider.RefreshSession answers true only as its delegate's verdict, after the delegate answered true, or after its own token redemption returned no error, so refreshSession never re-stamps an unrefreshed session (R10). Round 6: SessionState.CreatedAt is written only by CreatedAtNow or copied from another session's CreatedAt (R11). Round 7: request handling keeps no state of its own between requests — no store, map update, in-place builtin, atomic/sync.Map write or pointer-receiver library call (singleflight, caches) reached from ServeHTTP targets a package-level variable, an object built at start-up, or a constructor variable captured by the handler it returned, declared in the packages implementing this property (RS; a class-wide who-may-write rule with zero instances today: a correct memoisation would be reported until reviewed). Round 8: Cookie.Expire, Refresh and CSRFExpire are written only by option loading and validation, also in private copies (R12).",
		NotDecided:  "second-granularity/off-by-one semantics of time.After/Before and Unix truncation (values); behaviour of Redis TTLs.",
		Run:         runC09,
	})
}

func isTimeMethod(c *ssa.CallCommon, name string) bool {
	sc := c.StaticCallee()
	if sc == nil || sc.Name() != name || sc.Signature.Recv() == nil {
		return false
	}
	n, ok := sc.Signature.Recv().Type().(*types.Named)
	return ok && n.Obj().Pkg().Path() == "time" && n.Obj().Name() == "Time"
}

func isStd(c *ssa.CallCommon, pkg, name string) bool {
	sc := c.StaticCallee()
	return sc != nil && sc.Pkg != nil && sc.Pkg.Pkg.Path() == pkg && sc.Name() == name && sc.Signature.Recv() == nil
}

func runC09(c *Ctx) {
	c.R.Rule("RS-no-request-time-state", "request handling writes no state that outlives the request (package-level variables, objects built at start-up, constructor variables captured by handlers) declared in the packages implementing this property", 1)
	runStateless(c, "RS-no-request-time-state", "pkg/encryption", "pkg/sessions", "pkg/cookies", "pkg/middleware.storedSessionLoader")
	r := c.R
	r.Rule("R1-window", "Validate ok => expiration==0 || (t.After(now-expiration) && t.Before(now+5m)), t parsed from the signed timestamp part", 2)
	r.Rule("R2-callers-pass-expire", "every Validate call passes Cookie.Expire", 3)
	r.Rule("R3-signed-timestamp", "the timestamp signed for session/ticket cookies is *CreatedAt of the saved session; SignedValue writes now.Unix()", 4)
	r.Rule("R4-refresh-stamps", "refreshSession calls session.CreatedAtNow() before store.Save(session)", 1)
	r.Rule("R5-maxage-ttl", "Max-Age from the expiration argument; session/ticket cookies pass Cookie.Expire; store TTL is Cookie.Expire passed unchanged", 15)
	r.Rule("R7-stamp-only-on-refresh", "refreshSession resets CreatedAt only when the provider refreshed (or reported ErrNotImplemented)", 1)
	r.Rule("R8-cookies-carry-maxage", "every cookie sent derives from MakeCookieFromOptions/copyCookie, which carry Max-Age (shared with C18.R1)", 9)
	r.Rule("R9-cookie-options-frozen", "request-reachable code never writes a field of the shared options.Cookie (lifetime, refresh period, secret, ...)", 1)
	r.Rule("R10-refreshed-verdict", "a provider's RefreshSession answers true only as its delegate's verdict or after its own token redemption succeeded", 5)
	r.Rule("R11-issue-time-is-own-clock", "SessionState.CreatedAt is written only by CreatedAtNow (the proxy's own clock) or copied from another session's CreatedAt; never taken from a token or a response", 2)
	r.Rule("R6-save-keeps-stamp", "SessionStore.Save implementations stamp CreatedAt only when unset", 2)

	runC09R9(c, "R9-cookie-options-frozen")
	r.Rule("R12-lifetime-written-by-loading-only", "Cookie.Expire, Refresh and CSRFExpire are written only by option loading and validation, also in private copies (round 8)", 1)
	runC09R12(c, "R12-lifetime-written-by-loading-only")
	runC09R10(c, "R10-refreshed-verdict")
	runC09R11(c, "R11-issue-time-is-own-clock")

	rule := "R1-window"
	validate := c.Fn(rule, "pkg/encryption.Validate")
	expireF := c.Field(rule, "pkg/apis/options.Cookie.Expire")
	csrfExpireF := c.Field(rule, "pkg/apis/options.Cookie.CSRFExpire")
	createdAtF := c.Field(rule, "pkg/apis/sessions.SessionState.CreatedAt")
	if validate == nil || expireF == nil || createdAtF == nil || csrfExpireF == nil {
		return
	}
	runValidateWindowRule(c, rule)

	// ---- R2 ---------------------------------------------------------------------------------
	rule = "R2-callers-pass-expire"
	for _, cs := range c.callersOf(validate) {
		c.R.CallSites++
		key := "caller|" + fnKey(cs.Parent())
		if isFieldLoadOf(cs.Common().Args[2], expireF) {
			c.ok(rule, key, cs, "Validate(cookie, secret, Cookie.Expire)")
		} else {
			c.bad(rule, key, cs, "encryption.Validate is called with an expiration that is not the configured Cookie.Expire", nil, 0)
		}
	}
	if len(c.funcValueUses(validate)) > 0 {
		c.R.Unknown(rule, "value-use", "-", "encryption.Validate is used as a function value: callers cannot be enumerated")
	}

	// ---- R3 ---------------------------------------------------------------------------------
	rule = "R3-signed-timestamp"
	signed := c.Fn(rule, "pkg/encryption.SignedValue")
	storeSave := c.Method(rule, "pkg/apis/sessions.SessionStore.Save")
	if signed != nil && storeSave != nil {
		saveImpls := map[*ssa.Function]bool{}
		for _, f := range c.P.Implementations(storeSave) {
			if c.P.InModule(f) {
				saveImpls[f] = true
			}
		}
		for _, cs := range c.callersOf(signed) {
			c.R.CallSites++
			fn := cs.Parent()
			key := "signed-now|" + fnKey(fn)
			var bad string
			n := 0
			for _, o := range c.origins(cs.Common().Args[3], 4) {
				n++
				// clock reading for the short-lived CSRF cookie
				if call, ok := o.(*ssa.Call); ok && call.Call.StaticCallee() != nil && call.Call.StaticCallee().Name() == "Now" {
					if prog.FnPkg(fn).Path() == prog.ModPath+"/pkg/cookies" {
						continue
					}
					bad = "signs the current time instead of the session's CreatedAt"
					continue
				}
				base, ok := derefOfFieldLoad(o, createdAtF)
				if !ok {
					bad = "signs a time that is not *session.CreatedAt (" + o.String() + ")"
					continue
				}
				// the session is the parameter of a SessionStore.Save implementation (possibly passed down)
				okBase := false
				for _, bo := range c.origins(base, 4) {
					if pa, ok := bo.(*ssa.Parameter); ok && saveImpls[pa.Parent()] {
						okBase = true
					}
				}
				if !okBase {
					bad = "signs CreatedAt of a session that is not the one being saved"
				}
			}
			if bad == "" && n > 0 {
				c.ok(rule, key, cs, "timestamp argument traces to *CreatedAt of the session given to SessionStore.Save (CSRF: clock)")
			} else {
				c.bad(rule, key, cs, "SignedValue: "+bad, nil, 0)
			}
		}
		// SignedValue formats now.Unix() into the value and the MAC
		okUnix := false
		for _, b := range signed.Blocks {
			for _, in := range b.Instrs {
				if call, ok := in.(*ssa.Call); ok && isTimeMethod(&call.Call, "Unix") && call.Call.Args[0] == signed.Params[3] {
					okUnix = true
				}
			}
		}
		if okUnix {
			c.ok(rule, "now-unix|"+fnKey(signed), signed.Blocks[0].Instrs[0], "timeStr derives from now.Unix()")
		} else {
			c.bad(rule, "now-unix|"+fnKey(signed), signed.Blocks[0].Instrs[0], "SignedValue does not write now.Unix() of its now argument", nil, 0)
		}
	}

	// ---- R4 ---------------------------------------------------------------------------------
	rule = "R4-refresh-stamps"
	refresh := c.Fn(rule, "(*pkg/middleware.storedSessionLoader).refreshSession")
	createdAtNow := c.Fn(rule, "(*pkg/apis/sessions.SessionState).CreatedAtNow")
	if refresh != nil && createdAtNow != nil && storeSave != nil {
		n := 0
		c.Walk(rule, refresh, func(p *walk.Path) {
			for _, sv := range p.Find(walk.Invoke(c.P, storeSave), p.End()) {
				n++
				key := "save-after-stamp|" + fnKey(refresh)
				sess := p.Arg(sv, 2)
				if _, ok := Has(p, sv.Idx, Need{M: walk.Static(createdAtNow), Out: Called, Where: func(p *walk.Path, k walk.Call) bool {
					return p.Same(p.Arg(k, 0), sess)
				}}); ok {
					c.ok(rule, key, sv.In, "session.CreatedAtNow() precedes store.Save(session)")
				} else {
					c.bad(rule, key, sv.In, "the refreshed session is saved without resetting CreatedAt: it keeps its old issue time and expires early / is refreshed on every request", p, sv.Idx)
				}
			}
		})
		if n == 0 {
			c.R.Unknown(rule, "save-after-stamp|none", c.P.Pos(refresh.Pos()), "refreshSession never saves")
		}
	}

	// ---- R7 ---------------------------------------------------------------------------------
	rule = "R7-stamp-only-on-refresh"
	if a := c.c12Anchors(rule); a != nil && createdAtNow != nil {
		n := 0
		c.Walk(rule, a.rs, func(p *walk.Path) {
			for _, st := range p.FindTop(walk.Static(createdAtNow), p.End()) {
				n++
				key := "stamp-needs-refresh|" + fnKey(a.rs)
				rc, ok := Has(p, st.Idx, Need{M: walk.ThroughField(a.refresherF), Out: Called})
				if !ok {
					c.bad(rule, key, st.In, "the session's issue time is reset on a path that never asked the provider to refresh it", p, st.Idx)
					continue
				}
				ek, _, _ := callErrDV(p, rc)
				refreshed, known := p.ResultTruth(rc.DV(), 0, st.Idx)
				switch {
				case known && refreshed:
					c.ok(rule, key, st.In, "the provider reported refreshed==true")
				case hasErrorsIsAtom(p, st.Idx, ek, "providers.ErrNotImplemented", true):
					c.ok(rule, key+"|not-implemented", st.In, "reviewed: providers without refresh support (ErrNotImplemented) reset the timer so that validation runs once per period")
				default:
					c.bad(rule, key, st.In, "the session's issue time is reset although the provider did not refresh it (refreshed is not known true, error is not ErrNotImplemented): an unrefreshed session's lifetime is extended past cookie-expire", p, st.Idx)
				}
			}
		})
		if n == 0 {
			c.R.Unknown(rule, "stamp-needs-refresh|none", c.P.Pos(a.rs.Pos()), "refreshSession never stamps")
		}
	}
	// session/ticket cookies reach the browser only through the constructors that carry Max-Age (shared with C18.R1)
	runCookieConstructorRule(c, "R8-cookies-carry-maxage")

	// ---- R5 ---------------------------------------------------------------------------------
	rule = "R5-maxage-ttl"
	mk := c.Fn(rule, "pkg/cookies.MakeCookieFromOptions")
	maxAgeF := c.P.Field("net/http.Cookie.MaxAge")
	nameF := c.Field(rule, "pkg/apis/options.Cookie.Name")
	if mk != nil && maxAgeF != nil && nameF != nil {
		expP := mk.Params[4]
		// Max-Age wiring
		c.Walk(rule, mk, func(p *walk.Path) {
			if _, ok := p.Exit.(*ssa.Return); !ok {
				return
			}
			key := "maxage|" + fnKey(mk)
			var positive, known bool
			for _, a := range p.Atoms(p.End()) {
				if b, ok := a.DV.V.(*ssa.BinOp); ok && !a.IsNil && b.Op == token.GTR && p.Resolve(p.Op(b.X, a.DV)).V == ssa.Value(expP) {
					if n, ok := ConstInt(b.Y); ok && n == 0 {
						positive, known = a.Val, true
					}
				}
			}
			if !known {
				c.bad(rule, key, p.Exit, "MakeCookieFromOptions no longer distinguishes expiration > 0", p, p.End())
				return
			}
			var stored ssa.Value
			var storedDV walk.DV
			for _, s := range p.Steps {
				if st, ok := s.In.(*ssa.Store); ok {
					if fa, ok := st.Addr.(*ssa.FieldAddr); ok && walk.FieldOf(fa.X.Type(), fa.Field) == maxAgeF {
						storedDV = p.Resolve(p.StepOp(st.Val, s))
						stored = storedDV.V
					}
				}
			}
			if !positive {
				if stored == nil {
					c.ok(rule, key+"|non-positive", p.Exit, "no positive Max-Age for expiration <= 0")
				} else if n, ok := ConstInt(stored); ok && n <= 0 {
					c.ok(rule, key+"|non-positive", p.Exit, "deletion Max-Age")
				} else {
					c.bad(rule, key, p.Exit, "a Max-Age is set although expiration <= 0", p, p.End())
				}
				return
			}
			okWire := false
			if cv, ok := stored.(*ssa.Convert); ok {
				x := p.Resolve(p.Op(cv.X, storedDV))
				if call, ok := x.V.(*ssa.Call); ok && call.Call.StaticCallee() != nil && call.Call.StaticCallee().Name() == "Seconds" && p.Resolve(p.Op(call.Call.Args[0], x)).V == ssa.Value(expP) {
					okWire = true
				}
			}
			if okWire {
				c.ok(rule, key+"|positive", p.Exit, "MaxAge = int(expiration.Seconds())")
			} else {
				c.bad(rule, key, p.Exit, "for a positive expiration Max-Age is not int(expiration.Seconds()) of the expiration argument", p, p.End())
			}
		})
		// what callers pass
		// isCSRFName: the cookie name is built by csrf.cookieName()
		isCSRFName := func(v ssa.Value) bool {
			call, ok := v.(*ssa.Call)
			return ok && call.Call.StaticCallee() != nil && call.Call.StaticCallee().Name() == "cookieName"
		}
		var visitCaller func(fn *ssa.Function, expIdx int, csrf bool, depth int)
		seenCaller := map[*ssa.Function]bool{}
		visitCaller = func(fn *ssa.Function, expIdx int, csrf bool, depth int) {
			if seenCaller[fn] || depth > 3 {
				return
			}
			seenCaller[fn] = true
			for _, cs := range c.callersOf(fn) {
				c.R.CallSites++
				args := cs.Common().Args
				expArg := args[expIdx]
				isCSRF := csrf
				if depth == 0 {
					isCSRF = isCSRFName(args[1])
				}
				key := "cookie-expiration|" + fnKey(cs.Parent())
				// wrapper passing its own expiration parameter through
				if pe, ok := expArg.(*ssa.Parameter); ok {
					pi := -1
					for i, pp := range cs.Parent().Params {
						if pp == pe {
							pi = i
						}
					}
					if pi >= 0 {
						c.ok(rule, key+"|wrapper", cs, "wrapper passes its expiration parameter through")
						visitCaller(cs.Parent(), pi, isCSRF, depth+1)
						continue
					}
				}
				if n, ok := ConstInt(expArg); ok && n < 0 {
					c.ok(rule, key+"|deletion", cs, "deletion: negative constant expiration")
					continue
				}
				switch {
				case isCSRF && isFieldLoadOf(expArg, csrfExpireF):
					c.ok(rule, key+"|csrf", cs, "CSRF cookie: Cookie.CSRFExpire")
				case !isCSRF && isFieldLoadOf(expArg, expireF):
					c.ok(rule, key+"|session", cs, "session/ticket cookie: Cookie.Expire")
				default:
					c.bad(rule, key, cs, "cookie is created with an expiration that is neither the configured lifetime for its kind nor a deletion constant", nil, 0)
				}
			}
		}
		visitCaller(mk, 4, false, 0)
	}
	runStoreTTLChain(c, rule)

	// ---- R6 ---------------------------------------------------------------------------------
	rule = "R6-save-keeps-stamp"
	isZero := func(cc *ssa.CallCommon) bool { return isTimeMethod(cc, "IsZero") }
	if storeSave != nil && createdAtNow != nil {
		for _, impl := range c.P.Implementations(storeSave) {
			if !c.P.InModule(impl) {
				continue
			}
			impl := impl
			sess := impl.Params[3]
			stamped := false
			c.Walk(rule, impl, func(p *walk.Path) {
				for _, cl := range p.Find(walk.Static(createdAtNow), p.End()) {
					if p.Resolve(p.Arg(cl, 0)).V != sess {
						continue
					}
					stamped = true
					key := "stamp-guard|" + fnKey(impl)
					at := cl.Idx
					guard := false
					for _, a := range p.Atoms(at) {
						if a.IsNil && a.Val && fieldLoadOn(p, a.DV, createdAtF, walk.DV{V: sess}) {
							guard = true
						}
						if call, ok := a.DV.V.(*ssa.Call); ok && !a.IsNil && a.Val && isZero(&call.Call) {
							if _, ok := derefOfFieldLoad(call.Call.Args[0], createdAtF); ok {
								guard = true
							}
						}
					}
					if guard {
						c.ok(rule, key, cl.In, "CreatedAtNow() only when CreatedAt is nil or zero")
					} else {
						c.bad(rule, key, cl.In, "Save resets CreatedAt of a session that already carries an issue time: re-saving extends its lifetime past cookie-expire", p, at)
					}
				}
			})
			// direct stores to CreatedAt inside Save are not allowed either
			for _, ref := range c.fieldRefs(createdAtF) {
				if ref.Fn == impl && ref.Kind == "store" {
					c.bad(rule, "direct-store|"+fnKey(impl), ref.In, "Save writes SessionState.CreatedAt directly", nil, 0)
				}
			}
			if !stamped {
				c.R.Unknown(rule, "stamp-guard|"+fnKey(impl), c.P.Pos(impl.Pos()), "Save implementation never stamps an unset CreatedAt (signing *CreatedAt would dereference nil)")
			}
		}
	}
	_ = constant.MakeBool
}

// runC09R9: the one options.Cookie struct built at start-up is shared, by pointer, between the proxy, both session
// stores, the ticket and the CSRF helpers; all of them read Expire (and Refresh, Secret, ...) from it on every
// request. A write to one of its fields in code reachable from ServeHTTP changes the configured lifetime for the
// whole process. The rule enumerates every store through a *options.Cookie in request-reachable module code; a store
// into a local value copy (an Alloc of the struct) is not one.
func runC09R9(c *Ctx, rule string) {
	cookieT := c.P.Named("pkg/apis/options.Cookie")
	R := c.requestReachable(rule)
	if cookieT == nil || R == nil {
		if cookieT == nil {
			c.R.Unknown(rule, "anchor:options.Cookie", "-", "type pkg/apis/options.Cookie not found")
		}
		return
	}
	isCookiePtr := func(t types.Type) bool {
		pt, ok := t.Underlying().(*types.Pointer)
		return ok && types.Identical(pt.Elem(), cookieT)
	}
	n, setup, bad := 0, 0, 0
	for _, fn := range c.P.ModFns {
		for _, b := range fn.Blocks {
			for _, in := range b.Instrs {
				st, ok := in.(*ssa.Store)
				if !ok {
					continue
				}
				var base ssa.Value
				what := ""
				if fa, ok := st.Addr.(*ssa.FieldAddr); ok && isCookiePtr(fa.X.Type()) {
					base, what = fa.X, "field "+walk.FieldOf(fa.X.Type(), fa.Field).Name()
				} else if isCookiePtr(st.Addr.Type()) {
					base, what = st.Addr, "the whole struct"
				} else {
					continue
				}
				if !R[fn] {
					setup++
					continue
				}
				n++
				if al, ok := base.(*ssa.Alloc); ok && !al.Heap {
					continue // a local value copy that does not escape
				}
				if al, ok := base.(*ssa.Alloc); ok && al.Heap && !reachesShared(al) {
					continue
				}
				if pa, ok := base.(*ssa.Parameter); ok {
					// a helper that edits the options it is handed: fine when every caller hands it a private copy
					private, idx := true, -1
					for i, q := range fn.Params {
						if q == pa {
							idx = i
						}
					}
					callers := c.callersOf(fn)
					for _, cs := range callers {
						if idx < 0 || idx >= len(cs.Common().Args) {
							private = false
							continue
						}
						al, ok := cs.Common().Args[idx].(*ssa.Alloc)
						if !ok || (al.Heap && reachesShared(al)) {
							private = false
						}
					}
					if private && len(callers) > 0 {
						continue
					}
				}
				bad++
				c.R.Bad(rule, "shared-cookie-options-store|"+fnKey(fn), c.pos(in), "request-handling code writes "+what+" of an options.Cookie reached through a pointer: the struct is shared by the proxy, the session stores and the CSRF helpers, so the configured cookie lifetime / refresh period / secret changes for every later request", nil, nil)
			}
		}
	}
	if bad == 0 {
		c.R.OK(rule, "shared-cookie-options-store|none", "-", sprintf("%d store(s) through *options.Cookie in request-reachable code, none into the shared struct (%d in option loading and validation, which run before serving)", n, setup))
	}
}

// reachesShared: a heap Alloc of options.Cookie that was initialised from nothing but local data is a private copy.
// Conservative: private only when every use is a field address, a load, or a store INTO it.
func reachesShared(al *ssa.Alloc) bool {
	if al.Referrers() == nil {
		return false
	}
	for _, r := range *al.Referrers() {
		switch x := r.(type) {
		case *ssa.FieldAddr, *ssa.DebugRef:
		case *ssa.UnOp:
		case *ssa.Store:
			if x.Val == ssa.Value(al) {
				return true
			}
		default:
			_ = x
		}
	}
	return false
}

// runC09R10: refreshSession re-stamps and re-saves the session (new signature time, new store TTL) whenever the
// provider answers refreshed == true. An implementation that answers true without new tokens having been obtained
// extends the session's lifetime past cookie-expire on every request older than cookie-refresh. Every implementation
// of Provider.RefreshSession is walked: a result that may be true is the delegate's own verdict (embedded
// RefreshSession / oidcRefreshFunc), or is reached only after the delegate answered true, or — where there is no
// delegate on the path — after a module call with an error result returned nil (the token redemption).
func runC09R10(c *Ctx, rule string) {
	m := c.Method(rule, "providers.Provider.RefreshSession")
	if m == nil {
		return
	}
	isDeleg := func(p *walk.Path, cl walk.Call) bool {
		if sc := cl.C.StaticCallee(); sc != nil {
			return sc.Name() == "RefreshSession" && c.P.InModule(sc)
		}
		return isDelegate(p, cl, nil, nil)
	}
	for _, impl := range c.P.Implementations(m) {
		if !c.P.InModule(impl) || len(impl.Blocks) == 0 || impl.Synthetic != "" {
			continue
		}
		impl := impl
		key := "true-verdict|" + fnKey(impl)
		n, bad := 0, false
		c.WalkShallow(rule, impl, func(p *walk.Path) {
			rv, ok := p.ReturnDV(0)
			if !ok || bad {
				return
			}
			if b, k := p.Truth(rv, p.End()); k && !b {
				return
			}
			n++
			if cl, ok := extractOfCall(p, rv, 0); ok && isDeleg(p, cl) {
				return // the delegate's verdict, passed on
			}
			var delegs []walk.Call
			redeemed := false
			for _, cl := range p.Calls() {
				if isDeleg(p, cl) {
					delegs = append(delegs, cl)
					continue
				}
				if sc := cl.C.StaticCallee(); sc != nil && c.P.InModule(sc) {
					if ei := errResultIndex(sc.Signature); ei >= 0 {
						idx := ei
						if sc.Signature.Results().Len() == 1 {
							idx = -1
						}
						if isNil, k := p.ResultNil(cl.DV(), idx, p.End()); k && isNil {
							redeemed = true
						}
					}
				}
			}
			if len(delegs) > 0 {
				for _, d := range delegs {
					if b, k := p.ResultTruth(d.DV(), 0, p.End()); k && b {
						return
					}
				}
				bad = true
				c.bad(rule, key, p.Exit, prog.Name(impl)+" can answer refreshed=true although the implementation it delegates to did not answer true (no refresh token, nothing redeemed): refreshSession then re-stamps and re-saves the session, which extends its lifetime without any refresh", p, p.End())
				return
			}
			if !redeemed {
				bad = true
				c.bad(rule, key, p.Exit, prog.Name(impl)+" can answer refreshed=true on a path where no token redemption succeeded: refreshSession then re-stamps and re-saves the session, which extends its lifetime without any refresh", p, p.End())
			}
		})
		if !bad {
			c.R.OK(rule, key, c.P.Pos(impl.Pos()), sprintf("%d possibly-true return(s): delegate's verdict, or after the delegate answered true / the redemption returned no error", n))
		}
	}
}

// runStoreTTLChain (C09.R5, also C10.R10): the server-side entry is kept exactly as long as the cookie that names it —
// Cookie.Expire is handed unchanged through ticket.saveSession -> Store.Save -> redis Set. A shorter TTL makes a
// presented, still valid ticket load nothing; a longer one keeps sessions past their lifetime.
func runStoreTTLChain(c *Ctx, rule string) {
	expireF := c.Field(rule, "pkg/apis/options.Cookie.Expire")
	if expireF == nil {
		return
	}
	var ttlLinkFn func(fn *ssa.Function, fnName string, match func(cc *ssa.CallCommon) bool, argIdx int, want func(v ssa.Value, fn *ssa.Function) bool, what string)
	ttlLink := func(fnName string, match func(cc *ssa.CallCommon) bool, argIdx int, want func(v ssa.Value, fn *ssa.Function) bool, what string) {
		ttlLinkFn(c.Fn(rule, fnName), fnName, match, argIdx, want, what)
	}
	ttlLinkFn = func(fn *ssa.Function, fnName string, match func(cc *ssa.CallCommon) bool, argIdx int, want func(v ssa.Value, fn *ssa.Function) bool, what string) {
		if fn == nil {
			return
		}
		n := 0
		for _, b := range fn.Blocks {
			for _, in := range b.Instrs {
				ci, ok := in.(ssa.CallInstruction)
				if !ok || !match(ci.Common()) {
					continue
				}
				n++
				key := "ttl|" + fnKey(fn)
				args := ci.Common().Args
				if argIdx < len(args) && want(args[argIdx], fn) {
					c.ok(rule, key, in, what)
				} else {
					c.bad(rule, key, in, "the stored session's lifetime is not passed on unchanged here ("+what+" expected)", nil, 0)
				}
			}
		}
		if n == 0 {
			c.R.Unknown(rule, "ttl|"+fnName, c.P.Pos(fn.Pos()), "expected store call not found")
		}
	}
	paramN := func(i int) func(ssa.Value, *ssa.Function) bool {
		return func(v ssa.Value, fn *ssa.Function) bool { return i < len(fn.Params) && v == fn.Params[i] }
	}
	ttlLink("(*pkg/sessions/persistence.ticket).saveSession", func(cc *ssa.CallCommon) bool {
		pa, ok := cc.Value.(*ssa.Parameter)
		return ok && !cc.IsInvoke() && pa.Name() == "saver"
	}, 2, func(v ssa.Value, _ *ssa.Function) bool { return isFieldLoadOf(v, expireF) }, "saver(id, ciphertext, Cookie.Expire)")
	// the saver Manager.Save hands to ticket.saveSession: a closure or a bound method; its expiration is its last parameter
	saver := c.funcHandedTo(rule, c.Fn(rule, "(*pkg/sessions/persistence.Manager).Save"), c.Fn(rule, "(*pkg/sessions/persistence.ticket).saveSession"))
	ttlLinkFn(saver, "the saver of Manager.Save", func(cc *ssa.CallCommon) bool {
		return cc.IsInvoke() && cc.Method.Name() == "Save"
	}, 3, func(v ssa.Value, fn *ssa.Function) bool {
		return len(fn.Params) > 0 && v == fn.Params[len(fn.Params)-1]
	}, "Store.Save(ctx, key, val, exp)")
	ttlLink("(*pkg/sessions/redis.SessionStore).Save", func(cc *ssa.CallCommon) bool {
		return cc.IsInvoke() && cc.Method.Name() == "Set"
	}, 3, paramN(4), "Client.Set(ctx, key, value, exp)")
	// a save that reports success has written: on every nil-error return of the redis store's Save the client's Set was
	// called with the function's own key, value and expiration and returned no error (cookie-expire=0 — a browser-session
	// cookie — is a valid lifetime, not "nothing to store")
	if rsave := c.Fn(rule, "(*pkg/sessions/redis.SessionStore).Save"); rsave != nil && len(rsave.Params) >= 5 {
		key := "save-writes|" + fnKey(rsave)
		n, bad := 0, false
		c.WalkShallow(rule, rsave, func(p *walk.Path) {
			ev, ok := p.ReturnDV(0)
			if !ok || bad || definitelyNonNil(p, ev, p.End()) {
				return // a failure: nothing is claimed to have been saved
			}
			n++
			for _, cl := range p.Calls() {
				if cl.C.IsInvoke() && cl.C.Method.Name() == "Set" && len(cl.C.Args) >= 4 {
					same := p.Resolve(p.StepOp(cl.C.Args[1], cl.Step)).V == ssa.Value(rsave.Params[2]) && p.Resolve(p.StepOp(cl.C.Args[2], cl.Step)).V == ssa.Value(rsave.Params[3]) && p.Resolve(p.StepOp(cl.C.Args[3], cl.Step)).V == ssa.Value(rsave.Params[4])
					if !same {
						continue
					}
					if isNil, k := p.ResultNil(cl.DV(), -1, p.End()); k && isNil {
						return
					}
					if p.Key(ev) == p.ResultKey(cl.DV(), -1) {
						return // Set's own error handed back as is
					}
				}
			}
			bad = true
			c.bad(rule, key, p.Exit, "the redis store's Save reports success on a path where the entry was not written with the given key, value and expiration: the cookie naming it is handed out and the next request loads nothing", p, p.End())
		})
		if !bad && n > 0 {
			c.R.OK(rule, key, c.P.Pos(rsave.Pos()), sprintf("%d return(s) that may report success, each after Client.Set(ctx, key, value, exp) == nil", n))
		} else if !bad {
			c.R.Unknown(rule, key, c.P.Pos(rsave.Pos()), "Save has no nil-error return")
		}
	}
	// the redis client wrappers: every go-redis SET-family command issued by the wrapper — directly or in a module helper
	// it calls — is given the wrapper's own expiration parameter (a constant 0, KeepTTL or a computed value is not it)
	const goRedis = "github.com/redis/go-redis/v9"
	isRedisSet := func(cc *ssa.CallCommon) bool {
		name, pk := "", ""
		if cc.IsInvoke() {
			name = cc.Method.Name()
			if cc.Method.Pkg() != nil {
				pk = cc.Method.Pkg().Path()
			}
		} else if sc := cc.StaticCallee(); sc != nil && sc.Pkg != nil {
			name, pk = sc.Name(), sc.Pkg.Pkg.Path()
		}
		return pk == goRedis && strings.HasPrefix(name, "Set") && name != "SetRange" && name != "SetBit"
	}
	isDuration := func(t types.Type) bool { return t.String() == "time.Duration" }
	for _, cl := range []string{"(*pkg/sessions/redis.client).Set", "(*pkg/sessions/redis.clusterClient).Set"} {
		w := c.Fn(rule, cl)
		if w == nil || len(w.Params) < 5 {
			continue
		}
		exp := w.Params[4]
		n := 0
		var scan func(g *ssa.Function, isExp func(v ssa.Value) bool, depth int)
		scan = func(g *ssa.Function, isExp func(v ssa.Value) bool, depth int) {
			for _, b := range g.Blocks {
				for _, in := range b.Instrs {
					ci, ok := in.(ssa.CallInstruction)
					if !ok {
						continue
					}
					cc := ci.Common()
					if isRedisSet(cc) {
						n++
						key := "ttl|" + fnKey(w)
						okArg, has := false, false
						for _, a := range cc.Args {
							if isDuration(a.Type()) {
								has = true
								okArg = isExp(a)
							}
						}
						if has && okArg {
							c.ok(rule, key, in, "redis "+walk.CalleeName(cc)+"(..., expiration)")
						} else {
							c.bad(rule, key, in, "a redis SET-family command writes the session entry with a lifetime other than the expiration handed down (the stored session's lifetime is not passed on unchanged here): a plain SET without it drops the key's TTL, so the entry outlives cookie-expire", nil, 0)
						}
						continue
					}
					if sc := cc.StaticCallee(); sc != nil && c.P.InModule(sc) && len(sc.Blocks) > 0 && depth < 2 && sc != g {
						// a helper: which of its parameters receive the expiration
						recv := map[ssa.Value]bool{}
						for i, a := range cc.Args {
							if isExp(a) && i < len(sc.Params) {
								recv[sc.Params[i]] = true
							}
						}
						scan(sc, func(v ssa.Value) bool { return recv[v] }, depth+1)
					}
				}
			}
		}
		scan(w, func(v ssa.Value) bool { return v == ssa.Value(exp) }, 0)
		if n == 0 {
			c.R.Unknown(rule, "ttl|"+cl, c.P.Pos(w.Pos()), "no redis SET-family command found in the wrapper or its helpers")
		}
	}

}

// runC09R11: the lifetime is counted from CreatedAt, which the stores sign into the cookie. Every store to
// SessionState.CreatedAt in the module is the one in CreatedAtNow — the address of a local holding Clock.Now() — or
// copies another session's CreatedAt. A value taken from outside (the ID token's iat, a response field) moves the
// start of the lifetime by the other party's clock: an issuer a few minutes ahead buys that much extra validity.
func runC09R11(c *Ctx, rule string) {
	createdF := c.Field(rule, "pkg/apis/sessions.SessionState.CreatedAt")
	stamp := c.Fn(rule, "(*pkg/apis/sessions.SessionState).CreatedAtNow")
	if createdF == nil || stamp == nil {
		return
	}
	n := 0
	for _, ref := range c.fieldRefs(createdF) {
		if ref.Store == nil {
			continue
		}
		n++
		key := "created-at-writer|" + fnKey(ref.Fn)
		v := unwrap0(ref.Store.Val)
		switch {
		case ref.Fn == stamp:
			okNow := false
			if al, isAlloc := v.(*ssa.Alloc); isAlloc {
				for _, st := range storesTo(al) {
					if call, isCall := unwrap0(st.Val).(*ssa.Call); isCall {
						if call.Call.IsInvoke() && call.Call.Method.Name() == "Now" {
							okNow = true
						} else if sc := call.Call.StaticCallee(); sc != nil && sc.Name() == "Now" {
							okNow = true
						}
					}
				}
			}
			if okNow {
				c.ok(rule, key, ref.In, "CreatedAtNow stores the address of Clock.Now()'s result")
			} else {
				c.R.Bad(rule, key, c.pos(ref.In), "CreatedAtNow no longer stamps the result of Clock.Now()", nil, nil)
			}
		case walk.IsFieldLoad(v, createdF):
			c.ok(rule, key, ref.In, "copied from another session's CreatedAt")
		default:
			c.R.Bad(rule, key, c.pos(ref.In), "the session's issue time is set from something other than the proxy's own clock (CreatedAtNow) or another session's CreatedAt: cookie-expire is then counted from a time another party chose, and a clock ahead of the proxy's extends the lifetime", nil, nil)
		}
	}
	if n == 0 {
		c.R.Unknown(rule, "created-at-writer|none", "-", "no store to SessionState.CreatedAt found")
	}
}

// runValidateWindowRule (C09.R1, also C11.R9): Validate reports ok only if expiration==0 or the signed timestamp lies in
// (now-expiration, now+5 minutes). The upper bound's tolerance matters for sign-out too: replicas whose clocks differ
// by seconds would otherwise refuse a fresh ticket now and honour it later, after the stored session it names has
// been orphaned by a new login and survived the sign-out.
func runValidateWindowRule(c *Ctx, rule string) {
	validate := c.Fn(rule, "pkg/encryption.Validate")
	if validate == nil || len(validate.Params) < 3 {
		return
	}
	expParam := validate.Params[2]
	c.Walk(rule, validate, func(p *walk.Path) {
		rv, ok := p.ReturnDV(2)
		if !ok {
			return
		}
		if b, k := p.Truth(rv, p.End()); k && !b {
			return
		}
		key := "ok-return|" + fnKey(validate)
		at := p.End()
		// every operand is resolved through inlined helper frames (a helper extracted from Validate takes the
		// expiration and the timestamp as parameters)
		isExp := func(v ssa.Value, ctx walk.DV) bool { return p.Resolve(p.Op(v, ctx)).V == ssa.Value(expParam) }
		// unlimited lifetime configured
		zero := false
		for _, a := range p.Atoms(at) {
			if b, ok := a.DV.V.(*ssa.BinOp); ok && !a.IsNil && a.Val && (b.Op == token.EQL || b.Op == token.NEQ) {
				for _, pair := range [][2]ssa.Value{{b.X, b.Y}, {b.Y, b.X}} {
					if n, ok := ConstInt(pair[1]); ok && n == 0 && isExp(pair[0], a.DV) {
						zero = true
					}
				}
			}
		}
		if zero {
			c.ok(rule, key+"|no-expiry", p.Exit, "expiration==0: lifetime checking disabled by configuration")
			return
		}
		var after, before *walk.Call
		for _, cl := range p.Calls() {
			cl := cl
			if b, k := p.ResultTruth(cl.DV(), -1, at); !(k && b) {
				continue
			}
			if isTimeMethod(cl.C, "After") {
				after = &cl
			}
			if isTimeMethod(cl.C, "Before") {
				before = &cl
			}
		}
		if after == nil || before == nil {
			c.bad(rule, key, p.Exit, "Validate reports ok with a non-zero expiration without both t.After(lower)==true and t.Before(upper)==true", p, at)
			return
		}
		// t: time.Unix(int64(Atoi(parts[1])), 0)
		tOK := func(dv walk.DV) bool {
			r := p.Resolve(dv)
			u, ok := r.V.(*ssa.Call)
			if !ok || !isStd(&u.Call, "time", "Unix") {
				return false
			}
			if n, ok := ConstInt(u.Call.Args[1]); !ok || n != 0 {
				return false
			}
			cvr := p.Resolve(p.Op(u.Call.Args[0], r))
			cv, ok := cvr.V.(*ssa.Convert)
			if !ok {
				return false
			}
			exr := p.Resolve(p.Op(cv.X, cvr))
			ex, ok := exr.V.(*ssa.Extract)
			if !ok || ex.Index != 0 {
				return false
			}
			atr := p.Resolve(p.Op(ex.Tuple, exr))
			atoi, ok := atr.V.(*ssa.Call)
			if !ok || !isStd(&atoi.Call, "strconv", "Atoi") {
				return false
			}
			idx, ok := barPart(p.Resolve(p.Op(atoi.Call.Args[0], atr)).V)
			return ok && idx == 1
		}
		if !tOK(p.Recv(*after)) || !tOK(p.Recv(*before)) {
			c.bad(rule, key, p.Exit, "the time compared against the window is not time.Unix(Atoi(timestamp part), 0)", p, at)
			return
		}
		// operands: now.Add(d) with now = time.Now()
		bound := func(dv walk.DV) (d walk.DV, ok bool) {
			r := p.Resolve(dv)
			add, ok := r.V.(*ssa.Call)
			if !ok || !isTimeMethod(&add.Call, "Add") {
				return walk.DV{}, false
			}
			now, ok := p.Resolve(p.Op(add.Call.Args[0], r)).V.(*ssa.Call)
			if !ok || !isStd(&now.Call, "time", "Now") {
				return walk.DV{}, false
			}
			return p.Resolve(p.Op(add.Call.Args[1], r)), true
		}
		lo, ok1 := bound(p.Arg(*after, 1))
		hi, ok2 := bound(p.Arg(*before, 1))
		if !ok1 || !ok2 {
			c.bad(rule, key, p.Exit, "the window bounds are not time.Now().Add(·)", p, at)
			return
		}
		negExp := false
		switch x := lo.V.(type) {
		case *ssa.BinOp:
			if x.Op == token.MUL {
				for _, pair := range [][2]ssa.Value{{x.X, x.Y}, {x.Y, x.X}} {
					if n, ok := ConstInt(pair[1]); ok && n == -1 && isExp(pair[0], lo) {
						negExp = true
					}
				}
			}
			if x.Op == token.SUB {
				if n, ok := ConstInt(x.X); ok && n == 0 && isExp(x.Y, lo) {
					negExp = true
				}
			}
		case *ssa.UnOp:
			if x.Op == token.SUB && isExp(x.X, lo) {
				negExp = true
			}
		}
		if !negExp {
			c.bad(rule, key, p.Exit, "the lower bound of the validity window is not now - expiration (exactly the expiration argument)", p, at)
			return
		}
		if n, ok := ConstInt(hi.V); !ok || n != int64(5*60*1e9) {
			c.bad(rule, key, p.Exit, "the upper bound of the validity window is not now + 5 minutes", p, at)
			return
		}
		c.ok(rule, key+"|window", p.Exit, "t=Unix(Atoi(parts[1])); t.After(Now()-expiration) && t.Before(Now()+5m)")
	})
}

// runC09R12 (round 8): the three durations of options.Cookie — Expire, Refresh, CSRFExpire — are written by option
// loading and validation only, also in a private copy. The session stores, the ticket and encryption.Validate all take
// their threshold, the Max-Age and the store TTL from the one Cookie.Expire they are handed; a constructor that "adds a
// grace period for the store entry" to its own copy silently lengthens all three.
func runC09R12(c *Ctx, rule string) {
	cookieT := c.P.Named("pkg/apis/options.Cookie")
	if cookieT == nil {
		c.R.Unknown(rule, "anchor:options.Cookie", "-", "type pkg/apis/options.Cookie not found")
		return
	}
	lifetime := map[string]bool{"Expire": true, "Refresh": true, "CSRFExpire": true}
	n, bad := 0, 0
	for _, fn := range c.P.ModFns {
		pk := prog.Short(prog.FnPkg(fn).Path())
		for _, b := range fn.Blocks {
			for _, in := range b.Instrs {
				st, ok := in.(*ssa.Store)
				if !ok {
					continue
				}
				fa, ok := st.Addr.(*ssa.FieldAddr)
				if !ok {
					continue
				}
				pt, ok := fa.X.Type().Underlying().(*types.Pointer)
				if !ok || !types.Identical(pt.Elem(), cookieT) {
					continue
				}
				f := walk.FieldOf(fa.X.Type(), fa.Field)
				if f == nil || !lifetime[f.Name()] {
					continue
				}
				n++
				if strings.HasPrefix(pk, "pkg/apis/options") || pk == "pkg/validation" {
					continue
				}
				bad++
				c.R.Bad(rule, "lifetime-written|"+fnKey(fn), c.pos(in), "Cookie."+f.Name()+" is written outside option loading and validation (also a private copy counts: the stores, the ticket and the signature check take their threshold, Max-Age and store TTL from the Cookie they are handed)", nil, nil)
			}
		}
	}
	if bad == 0 {
		c.R.OK(rule, "lifetime-written|none", "-", sprintf("%d store(s) to Cookie.Expire/Refresh/CSRFExpire, all in option loading or validation", n))
	}
}
