package rules

import (
	"go/token"
	"go/types"
	"strings"

	"golang.org/x/tools/go/ssa"

	"oapsa/internal/prog"
	"oapsa/internal/walk"
)

func init() {
	register(&Prop{
		ID:          "C17",
		Explanation: "PARTIAL claim — decides four structural conditions of faithful proxying, not routing or byte fidelity as behaviour: (1) stores into the request line, host and body of an *http.Request (Method, URL, RequestURI, Host, Body, and fields of the URL reached from a request) occur, in production code, only in pkg/upstream (rewrite, director, unix round-tripper) or on values that are clones/new requests; (2) between the outer handler and the upstream no production code reachable from the pass path parses or consumes the body (ParseForm/FormValue/PostFormValue/ParseMultipartForm/MultipartReader/Body reads) outside the reviewed login endpoints; (3) the registration-order comparator puts a rewrite rule before a plain one only when the other has no rewrite target and otherwise orders by longer path, on every true-returning path; (4) the rewrite query merge only appends rewritten values to the client's query (url.Values.Add), never overwrites or replaces entries. Added during the build: (5) every ResponseWriter wrapper of the module relays WriteHeader/Write to the wrapped writer exactly once with the caller's argument on every path; (6) the upstream-host director is installed only for an explicit pass-host-header=false and is the only writer of Request.Host in pkg/upstream (one reviewed exception: the unix round tripper fills an empty Host); (7) the director calls the original director and then sets URL.Opaque to the same request's RequestURI and clears RawQuery, every reverse proxy returned has that director installed, the proxy's own router is NewRouter().UseEncodedPath() and the upstream router uses encoded-path matching exactly when proxyRawPath is set. Round 3: flattenHeaders writes back the join of exactly the values it ranged over (8). Round 4: the structured configuration's upstreamConfig reaches Options.UpstreamServers as one value (proxyRawPath included) and a legacy --upstream is routed under the decoded path (or fragment) of its URL (R9). Round 5: the per-upstream handler objects hand every request to the handler they wrap with the caller's writer and request, and never answer themselves (R10). Round 6: the ping/ready middleware recognises its endpoints by the request path as sent, EscapedPath() (R11). Round 7: the structured configuration is environment-substituted exactly once (R12, shared with C07.R11). Round 8: the ping middleware claims a request only on a set hit of its own escaped path or User-Agent (R12, shared with C13.R12). Round 8 (class-wide, P12): in the packages implementing this property every named error result that is used at all is examined — compared with nil, returned, stored or handed to a non-formatting function — unless the code validates the value result instead (RE; zero instances today).",
		NotDecided:  "longest-prefix routing of gorilla/mux over all paths, percent-encoding fidelity through RequestURI/URL.Path/RawPath, response relay by httputil.ReverseProxy, header pass-through: behaviour of third-party routers over all inputs.",
		Run:         runC17,
	})
}

func runC17(c *Ctx) {
	c.R.Rule("RE-errors-examined", "in the packages implementing this property every named error result that is used at all is examined, or the value is validated instead (P12, class-wide, round 8)", 1)
	runErrorsExamined(c, "RE-errors-examined", "pkg/upstream")
	c.R.Rule("RS-no-request-time-state", "request handling writes no state that outlives the request (package-level variables, objects built at start-up, constructor variables captured by handlers) declared in the packages implementing this property", 1)
	runStateless(c, "RS-no-request-time-state", "pkg/upstream")
	r := c.R
	r.Rule("R1-request-writers", "request line/host/body of a live request written only in pkg/upstream or on clones", 11)
	r.Rule("R2-body-untouched", "no body-consuming call on the pass path outside the reviewed login endpoints", 4)
	r.Rule("R3-order-comparator", "rewrite-first only against a non-rewrite; otherwise longer path first", 2)
	r.Rule("R4-query-merge", "rewrite query merge appends, never overwrites", 1)
	r.Rule("R5-response-wrapper", "every ResponseWriter wrapper of the module relays WriteHeader/Write to the wrapped writer exactly once, with the caller's argument, on every path", 2)
	r.Rule("R6-pass-host-default", "the upstream-host director is installed only for an explicit pass-host-header=false; it is the only writer of Request.Host in pkg/upstream", 2)
	runC17R5(c, "R5-response-wrapper")
	runC17R6(c, "R6-pass-host-default")
	r.Rule("R7-request-target-verbatim", "the director sends RequestURI verbatim after the original director, every reverse proxy gets it, routers match on the encoded path (upstream router iff proxyRawPath)", 4)
	runC17R7(c, "R7-request-target-verbatim")
	r.Rule("R12-health-check-claims-own-paths-only", "the ping middleware claims a request — and keeps it from its upstream — only on a set hit of its own escaped path or User-Agent, verbatim (shared with C13.R12, round 8)", 1)
	runOwnEndpointKeyVerbatim(c, "R12-health-check-claims-own-paths-only")
	r.Rule("R9-upstream-config-verbatim", "the structured configuration's upstreamConfig reaches Options.UpstreamServers as a whole (proxyRawPath included); a legacy --upstream is routed under the decoded path of its URL", 2)
	runC17R9(c, "R9-upstream-config-verbatim")
	r.Rule("R10-upstream-handlers-delegate", "the per-upstream handlers (file server, HTTP/WebSocket proxy) hand every request to the handler they wrap, with the caller's writer and request, and never answer themselves", 2)
	runC17R10(c, "R10-upstream-handlers-delegate")
	r.Rule("R11-own-endpoints-match-wire-path", "the middleware that answers the ping/ready endpoints itself compares their configured paths with the request's path as sent (EscapedPath()), never with the decoded path", 2)
	runC17R11(c, "R11-own-endpoints-match-wire-path")
	r.Rule("R12-loader-switches", "the option loader's switches are a reviewed closed list and the structured configuration is environment-substituted exactly once, so $$N in a rewrite target reaches the rewriter as $N (shared with C07.R11)", 1)
	runLoaderSwitchesRule(c, "R12-loader-switches")
	r.Rule("R8-flatten-lossless", "flattenHeaders writes back the join of exactly the values it ranged over", 1)
	runC17R8(c, "R8-flatten-lossless")

	// ---- R1 ---------------------------------------------------------------------------------
	rule := "R1-request-writers"
	reqFields := map[string]bool{"Method": true, "URL": true, "RequestURI": true, "Host": true, "Body": true, "ContentLength": true, "TransferEncoding": true}
	isReqPtr := func(v ssa.Value) bool { return strings.HasSuffix(v.Type().String(), "*net/http.Request") }
	// clone: the request value is the result of Clone/WithContext/NewRequest* in this function
	isClone := func(v ssa.Value) bool {
		v = unwrap0(v)
		for i := 0; i < 4; i++ {
			if ex, ok := v.(*ssa.Extract); ok {
				v = ex.Tuple
			}
			if call, ok := v.(*ssa.Call); ok {
				if sc := call.Call.StaticCallee(); sc != nil {
					switch sc.Name() {
					case "Clone", "WithContext", "NewRequest", "NewRequestWithContext":
						return true
					}
				}
				return false
			}
			if phi, ok := v.(*ssa.Phi); ok {
				all := true
				for _, e := range phi.Edges {
					if !isCloneShallow(e) {
						all = false
					}
				}
				return all
			}
		}
		return false
	}
	n := 0
	for _, fn := range c.P.ModFns {
		pk := prog.Short(prog.FnPkg(fn).Path())
		for _, b := range fn.Blocks {
			for _, in := range b.Instrs {
				st, ok := in.(*ssa.Store)
				if !ok {
					continue
				}
				fa, ok := st.Addr.(*ssa.FieldAddr)
				if !ok {
					continue
				}
				f := walk.FieldOf(fa.X.Type(), fa.Field)
				var req ssa.Value
				what := ""
				switch {
				case isReqPtr(fa.X) && reqFields[f.Name()]:
					req, what = fa.X, "Request."+f.Name()
				case strings.HasSuffix(fa.X.Type().String(), "*net/url.URL"):
					// URL reached from a request: *(&req.URL)
					if ld, ok := fa.X.(*ssa.UnOp); ok {
						if fa2, ok := ld.X.(*ssa.FieldAddr); ok && isReqPtr(fa2.X) && walk.FieldOf(fa2.X.Type(), fa2.Field).Name() == "URL" {
							req, what = fa2.X, "Request.URL."+f.Name()
						}
					}
				}
				if req == nil {
					continue
				}
				n++
				key := "store|" + fnKey(fn) + "|" + what
				switch {
				case pk == "pkg/upstream":
					c.ok(rule, key, in, "upstream package (rewrite / director / unix transport)")
				case isClone(req):
					c.ok(rule, key, in, "written on a clone / new request, not the client's request")
				case pk == "pkg/requests":
					c.ok(rule, key, in, "outbound identity-provider request builder")
				default:
					c.bad(rule, key, in, what+" of a live request is rewritten outside pkg/upstream: the upstream no longer receives what the client sent", nil, 0)
				}
			}
		}
	}
	if n == 0 {
		c.R.Unknown(rule, "store|none", "-", "no request-line store found at all (the rewrite handler has moved)")
	}

	// ---- R2 ---------------------------------------------------------------------------------
	rule = "R2-body-untouched"
	consuming := map[string]bool{"ParseForm": true, "FormValue": true, "PostFormValue": true, "ParseMultipartForm": true, "MultipartReader": true, "FormFile": true}
	reviewedBody := map[string]string{
		"(*main.OAuthProxy).ManualSignIn":             "sign-in form endpoint: reads username/password of a POST to /oauth2/sign_in, never proxied",
		"(*main.OAuthProxy).OAuthCallback":            "callback endpoint: reads code/state, never proxied",
		"(*pkg/app/redirect.appDirector).GetRedirect": "parses the form to read rd; called from sign-in/start/sign-out/error paths only (R2b checks it is not on the pass path)",
	}
	R := c.requestReachable(rule)
	proxy := c.Fn(rule, "(*main.OAuthProxy).Proxy")
	gas := c.Fn(rule, "(*main.OAuthProxy).getAuthenticatedSession")
	for fn := range R {
		for _, b := range fn.Blocks {
			for _, in := range b.Instrs {
				ci, ok := in.(ssa.CallInstruction)
				if !ok {
					continue
				}
				sc := ci.Common().StaticCallee()
				bodyRead := false
				if sc != nil && sc.Signature.Recv() != nil && strings.HasSuffix(sc.Signature.Recv().Type().String(), "net/http.Request") && consuming[sc.Name()] {
					bodyRead = true
				}
				// io.ReadAll(req.Body) and friends
				if sc != nil && (sc.Name() == "ReadAll" || sc.Name() == "Copy") && len(ci.Common().Args) > 0 {
					for _, a := range ci.Common().Args {
						if ld, ok := unwrap(a).(*ssa.UnOp); ok {
							if fa, ok := ld.X.(*ssa.FieldAddr); ok && isReqPtr(fa.X) && walk.FieldOf(fa.X.Type(), fa.Field).Name() == "Body" {
								bodyRead = true
							}
						}
					}
				}
				if !bodyRead {
					continue
				}
				key := "body-consumer|" + fnKey(fn)
				if why, ok := reviewedBody[fnKey(fn)]; ok {
					c.ok(rule, key, in, "reviewed: "+why)
				} else {
					c.bad(rule, key, in, "request body is consumed in request-reachable code outside the login endpoints: a proxied POST reaches the upstream with an empty body", nil, 0)
				}
			}
		}
	}
	// R2b: the success branch of Proxy (and the session middlewares) do not reach a body consumer
	if proxy != nil && gas != nil {
		reach := c.staticReach(gas, 6)
		var middle []*ssa.Function
		// the handler closures of the session and header middlewares: every closure of the constructor that has the
		// handler signature (rw, req) — found by shape, not by its $N name, which shifts when a sibling closure becomes a
		// named function (neutral batch 8)
		isHandler := func(f *ssa.Function) bool {
			ps := f.Signature.Params()
			return ps.Len() == 2 && strings.HasSuffix(ps.At(0).Type().String(), "net/http.ResponseWriter") && strings.HasSuffix(ps.At(1).Type().String(), "net/http.Request")
		}
		for _, nme := range []string{"(*pkg/middleware.storedSessionLoader).loadSession", "(*pkg/middleware.jwtSessionLoader).loadSession", "pkg/middleware.loadBasicAuthSession", "pkg/middleware.injectRequestHeaders", "pkg/middleware.injectResponseHeaders"} {
			ctor := c.Fn(rule, nme)
			if ctor == nil {
				continue
			}
			found := false
			var visit func(f *ssa.Function)
			visit = func(f *ssa.Function) {
				for _, an := range f.AnonFuncs {
					if isHandler(an) {
						found = true
						middle = append(middle, an)
						for g := range c.staticReach(an, 6) {
							reach[g] = true
						}
					}
					visit(an)
				}
			}
			visit(ctor)
			if !found {
				c.R.Unknown(rule, "anchor:handler-of:"+nme, "-", "no handler closure found in "+nme)
			}
		}
		if f := c.stripHandlerFn(rule); f != nil {
			middle = append(middle, f)
			for g := range c.staticReach(f, 6) {
				reach[g] = true
			}
		}
		bad := ""
		for g := range reach {
			if _, ok := reviewedBody[fnKey(g)]; ok {
				bad += " " + fnKey(g)
			}
		}
		key := "pass-path|" + fnKey(proxy)
		if bad == "" {
			c.ok(rule, key, proxy.Blocks[0].Instrs[0], sprintf("no body consumer statically reachable from getAuthenticatedSession or the %d session/header middlewares", len(middle)))
		} else {
			c.bad(rule, key, proxy.Blocks[0].Instrs[0], "a body-consuming function is reachable on the pass path:"+bad, nil, 0)
		}
	}

	// ---- R3 ---------------------------------------------------------------------------------
	rule = "R3-order-comparator"
	cmp := c.Fn(rule, "pkg/upstream.sortByPathLongest$1")
	rwF := c.Field(rule, "pkg/apis/options.Upstream.RewriteTarget")
	pathF := c.Field(rule, "pkg/apis/options.Upstream.Path")
	if cmp != nil && rwF != nil && pathF != nil {
		iP, jP := cmp.Params[0], cmp.Params[1]
		// which index does a field load belong to
		idxOf := func(v ssa.Value) ssa.Value {
			ld, ok := v.(*ssa.UnOp)
			if !ok {
				return nil
			}
			fa, ok := ld.X.(*ssa.FieldAddr)
			if !ok {
				return nil
			}
			ia, ok := fa.X.(*ssa.IndexAddr)
			if !ok {
				return nil
			}
			return ia.Index
		}
		emptiness := func(p *walk.Path, idx ssa.Value) (empty, known bool) {
			for _, a := range p.Atoms(p.End()) {
				b, ok := a.DV.V.(*ssa.BinOp)
				if !ok || a.IsNil || (b.Op != token.EQL && b.Op != token.NEQ) {
					continue
				}
				for _, pair := range [][2]ssa.Value{{b.X, b.Y}, {b.Y, b.X}} {
					if s, ok := ConstString(pair[1]); ok && s == "" && isFieldLoadOf(pair[0], rwF) && idxOf(pair[0]) == idx {
						return a.Val, true
					}
				}
			}
			return false, false
		}
		c.Walk(rule, cmp, func(p *walk.Path) {
			rv, ok := p.ReturnDV(0)
			if !ok {
				return
			}
			if b, k := p.Truth(rv, p.End()); k && !b {
				return
			}
			key := "true-return|" + fnKey(cmp)
			iE, iK := emptiness(p, iP)
			jE, jK := emptiness(p, jP)
			r := p.Resolve(rv)
			if b, ok := r.V.(*ssa.BinOp); ok && (b.Op == token.GTR || b.Op == token.LSS) {
				// length comparison: allowed only when both are rewrites or both are plain
				lenOf := func(v ssa.Value) ssa.Value {
					call, ok := v.(*ssa.Call)
					if !ok {
						return nil
					}
					if bi, ok := call.Call.Value.(*ssa.Builtin); !ok || bi.Name() != "len" || !isFieldLoadOf(call.Call.Args[0], pathF) {
						return nil
					}
					return idxOf(call.Call.Args[0])
				}
				l, rr := lenOf(b.X), lenOf(b.Y)
				longerFirst := (b.Op == token.GTR && l == iP && rr == jP) || (b.Op == token.LSS && l == jP && rr == iP)
				if longerFirst && iK && jK && iE == jE {
					c.ok(rule, key+"|same-kind", p.Exit, "same kind (both rewrite or both plain): longer path first")
				} else {
					c.bad(rule, key, p.Exit, "paths are ordered by length although it is not established that both upstreams are of the same kind, or not longer-first", p, p.End())
				}
				return
			}
			// rewrite-first: needs i rewrite (non-empty) and j plain (empty)
			if iK && jK && !iE && jE {
				c.ok(rule, key+"|rewrite-first", p.Exit, "a rewrite rule precedes a plain upstream")
			} else {
				c.bad(rule, key, p.Exit, "the comparator can put one upstream first without establishing that it is a rewrite and the other is not: two different rewrite rules compare 'less' in both directions and the longer pattern no longer wins", p, p.End())
			}
		})
	}

	// ---- R4 ---------------------------------------------------------------------------------
	rule = "R4-query-merge"
	spq := c.Fn(rule, "pkg/upstream.splitPathAndQuery")
	if spq != nil {
		orig := spq.Params[0]
		adds, bad := 0, ""
		for _, b := range spq.Blocks {
			for _, in := range b.Instrs {
				switch x := in.(type) {
				case *ssa.MapUpdate:
					if unwrap0(x.Map) == orig {
						bad = "assigns into the client's query map"
					}
				case *ssa.Call:
					sc := x.Call.StaticCallee()
					if sc == nil {
						continue
					}
					uses := false
					for _, a := range x.Call.Args {
						if unwrap(a) == orig || unwrap0(a) == orig {
							uses = true
						}
					}
					if !uses {
						continue
					}
					switch {
					case sc.Name() == "Add" && strings.HasSuffix(sc.Signature.Recv().Type().String(), "net/url.Values"):
						adds++
					case sc.Name() == "Encode", sc.Name() == "Get", sc.Name() == "Has":
					default:
						bad = "passes the client's query map to " + sc.String()
					}
				}
			}
		}
		switch {
		case bad != "":
			c.bad(rule, "merge|"+fnKey(spq), spq.Blocks[0].Instrs[0], "the rewrite query merge "+bad+": client-supplied values under the same key are dropped", nil, 0)
		case adds == 0:
			c.bad(rule, "merge|"+fnKey(spq), spq.Blocks[0].Instrs[0], "rewritten query values are no longer appended to the client's query", nil, 0)
		default:
			c.ok(rule, "merge|"+fnKey(spq), spq.Blocks[0].Instrs[0], "rewritten values are appended with url.Values.Add; nothing overwrites the client's entries")
		}
	}
}

func isCloneShallow(v ssa.Value) bool {
	v = unwrap0(v)
	if ex, ok := v.(*ssa.Extract); ok {
		v = ex.Tuple
	}
	if call, ok := v.(*ssa.Call); ok {
		if sc := call.Call.StaticCallee(); sc != nil {
			switch sc.Name() {
			case "Clone", "WithContext", "NewRequest", "NewRequestWithContext":
				return true
			}
		}
	}
	return false
}

// runC17R5: the ResponseWriter wrapper every request passes through relays status and body calls
// to the wrapped writer unconditionally and unchanged.
func runC17R5(c *Ctx, rule string) {
	rwT := c.P.Named("net/http.ResponseWriter")
	if rwT == nil {
		c.R.Unknown(rule, "anchor:http.ResponseWriter", "-", "type not found")
		return
	}
	iface := rwT.Underlying().(*types.Interface)
	n := 0
	for _, pk := range c.P.SortedMod() {
		scope := c.P.Mod[pk].Types.Scope()
		for _, name := range scope.Names() {
			tn, ok := scope.Lookup(name).(*types.TypeName)
			if !ok || tn.IsAlias() {
				continue
			}
			named, ok := tn.Type().(*types.Named)
			if !ok || types.IsInterface(named) || !types.Implements(types.NewPointer(named), iface) {
				continue
			}
			st, ok := named.Underlying().(*types.Struct)
			if !ok {
				continue
			}
			// the wrapped writer: a field of type http.ResponseWriter
			var inner *types.Var
			for i := 0; i < st.NumFields(); i++ {
				if types.Identical(st.Field(i).Type(), rwT) {
					inner = st.Field(i)
				}
			}
			if inner == nil {
				continue
			}
			for _, mname := range []string{"WriteHeader", "Write"} {
				fn := c.P.SSA.LookupMethod(types.NewPointer(named), tn.Pkg(), mname)
				if fn == nil || fn.Synthetic != "" || len(fn.Blocks) == 0 {
					continue // promoted from the embedded writer: relays by construction
				}
				n++
				fn, mname := fn, mname
				c.Walk(rule, fn, func(p *walk.Path) {
					if _, ok := p.Exit.(*ssa.Return); !ok {
						return
					}
					at := p.End()
					key := "relays|" + fnKey(fn)
					relayed := 0
					var relay walk.Call
					for _, cl := range p.Calls() {
						if !cl.C.IsInvoke() || cl.C.Method.Name() != mname || cl.Idx >= at {
							continue
						}
						recv := p.Resolve(p.StepOp(cl.C.Value, cl.Step))
						if !fieldLoadOn(p, recv, inner, walk.DV{V: fn.Params[0]}) {
							continue
						}
						if p.Resolve(p.Arg(cl, 0)).V == fn.Params[1] {
							relayed++
							relay = cl
						}
					}
					switch {
					case relayed != 1:
						c.bad(rule, key, p.Exit, sprintf("%s returns on a path that relays the call to the wrapped writer %d times (with the caller's argument) instead of exactly once: the upstream's status or body does not reach the client unchanged", fn.Name(), relayed), p, at)
					case mname == "Write":
						r0, _ := p.ReturnDV(0)
						if !ResultIs(p, r0, relay, 0) {
							c.bad(rule, key, p.Exit, "Write does not report the wrapped writer's byte count", p, at)
						} else {
							c.ok(rule, key, p.Exit, "relays Write(b) once and returns its count")
						}
					default:
						c.ok(rule, key, p.Exit, "relays WriteHeader(status) exactly once on every path")
					}
				})
			}
		}
	}
	if n == 0 {
		c.R.Unknown(rule, "wrappers|none", "-", "no ResponseWriter wrapper with its own WriteHeader/Write found")
	}
}

// runC17R6: the client's Host header is replaced by the upstream's only when the operator turned
// pass-host-header off explicitly (unset means pass).
func runC17R6(c *Ctx, rule string) {
	nrp := c.Fn(rule, "pkg/upstream.newReverseProxy")
	setHost := c.Fn(rule, "pkg/upstream.setProxyUpstreamHostHeader")
	setHost1 := c.Fn(rule, "pkg/upstream.setProxyUpstreamHostHeader$1")
	phF := c.Field(rule, "pkg/apis/options.Upstream.PassHostHeader")
	hostF := c.P.Field("net/http.Request.Host")
	if nrp == nil || setHost == nil || setHost1 == nil || phF == nil || hostF == nil {
		return
	}
	c.Walk(rule, nrp, func(p *walk.Path) {
		for _, cl := range p.Find(walk.Static(setHost), p.End()) {
			key := "host-replaced-only-when-off|" + fnKey(nrp)
			nonNil, off := false, false
			for _, a := range p.Atoms(cl.Idx) {
				v := p.Resolve(a.DV).V
				if a.IsNil && !a.Val && walk.IsFieldLoad(v, phF) {
					nonNil = true
				}
				if !a.IsNil && !a.Val {
					if u, ok := v.(*ssa.UnOp); ok && u.Op == token.MUL && walk.IsFieldLoad(p.Resolve(p.Op(u.X, a.DV)).V, phF) {
						off = true
					}
				}
			}
			if nonNil && off {
				c.ok(rule, key, cl.In, "PassHostHeader != nil && !*PassHostHeader")
			} else {
				c.bad(rule, key, cl.In, "the client's Host header is replaced by the upstream's host on a path where pass-host-header is not known to be explicitly false (unset must mean: pass the client's Host)", p, cl.Idx)
			}
		}
	})
	// the only writer of Request.Host in pkg/upstream is that director
	for _, ref := range c.fieldRefs(hostF) {
		if ref.Store == nil || prog.Short(prog.FnPkg(ref.Fn).Path()) != "pkg/upstream" {
			continue
		}
		key := "host-writer|" + fnKey(ref.Fn)
		if ref.Fn == setHost1 {
			c.ok(rule, key, ref.In, "the explicit pass-host-header=false director")
		} else if k, ok := ConstString(ref.Store.Val); ok && k == "localhost" && ref.Fn.Name() == "RoundTrip" {
			c.ok(rule, key, ref.In, "reviewed: the unix-socket round tripper fills an EMPTY Host with the constant \"localhost\" (the reverse proxy refuses requests without a host)")
		} else {
			c.R.Bad(rule, key, c.pos(ref.In), "Request.Host of a proxied request is rewritten outside the pass-host-header=false director", nil, nil)
		}
	}
}

// runC17R7: the three URL representations are reconciled as the anchors say — the director sends
// RequestURI verbatim (Opaque), every reverse proxy gets that director, and the routers match on the
// encoded path (outer mux always, upstream mux exactly when proxyRawPath is set).
func runC17R7(c *Ctx, rule string) {
	setDir := c.Fn(rule, "pkg/upstream.setProxyDirector")
	dir1 := c.Fn(rule, "pkg/upstream.setProxyDirector$1")
	nrp := c.Fn(rule, "pkg/upstream.newReverseProxy")
	newProxy := c.Fn(rule, "pkg/upstream.NewProxy")
	bsm := c.Fn(rule, "(*main.OAuthProxy).buildServeMux")
	rawF := c.Field(rule, "pkg/apis/options.UpstreamConfig.ProxyRawPath")
	opaqueF := c.P.Field("net/url.URL.Opaque")
	rawQueryF := c.P.Field("net/url.URL.RawQuery")
	reqURIF := c.P.Field("net/http.Request.RequestURI")
	if setDir == nil || dir1 == nil || nrp == nil || newProxy == nil || bsm == nil || rawF == nil || opaqueF == nil || rawQueryF == nil || reqURIF == nil {
		return
	}
	// (a) the director: original director first, then Opaque = req.RequestURI, RawQuery = ""
	c.Walk(rule, dir1, func(p *walk.Path) {
		if _, ok := p.Exit.(*ssa.Return); !ok {
			return
		}
		key := "director|" + fnKey(dir1)
		req := dir1.Params[0]
		var calledOrig, opaqueOK, queryOK bool
		origAt, opaqueAt := -1, -1
		for i, s := range p.Steps {
			switch v := s.In.(type) {
			case *ssa.Call:
				if !v.Call.IsInvoke() && v.Call.StaticCallee() == nil && len(v.Call.Args) == 1 && p.Resolve(p.StepOp(v.Call.Args[0], s)).V == ssa.Value(req) {
					calledOrig, origAt = true, i
				}
			case *ssa.Store:
				fa, ok := p.Resolve(p.StepOp(v.Addr, s)).V.(*ssa.FieldAddr)
				if !ok {
					continue
				}
				switch walk.FieldOf(fa.X.Type(), fa.Field) {
				case opaqueF:
					if base, ok := walk.FieldLoadBase(p.Resolve(p.StepOp(v.Val, s)).V, reqURIF); ok && base == ssa.Value(req) {
						opaqueOK, opaqueAt = true, i
					}
				case rawQueryF:
					if k, ok := ConstString(p.Resolve(p.StepOp(v.Val, s)).V); ok && k == "" {
						queryOK = true
					}
				}
			}
		}
		if calledOrig && opaqueOK && queryOK && origAt < opaqueAt {
			c.ok(rule, key, p.Exit, "director(req); req.URL.Opaque = req.RequestURI; req.URL.RawQuery = \"\"")
		} else {
			c.bad(rule, key, p.Exit, sprintf("the proxy director no longer sends the client's request target verbatim (original director called first: %v, Opaque = RequestURI of the same request: %v, RawQuery cleared: %v): percent-encoded paths or queries reach the upstream changed", calledOrig && (!opaqueOK || origAt < opaqueAt), opaqueOK, queryOK), p, p.End())
		}
	})
	// (b) every reverse proxy built gets that director
	c.Walk(rule, nrp, func(p *walk.Path) {
		rv, ok := p.ReturnDV(0)
		if !ok || DefinitelyNil(p, rv, p.End()) {
			return
		}
		key := "director-installed|" + fnKey(nrp)
		if r := p.Resolve(rv); true {
			if mi, ok := r.V.(*ssa.MakeInterface); ok {
				rv = p.Op(mi.X, r)
			}
		}
		okInst := false
		for _, cl := range p.FindTop(walk.Static(setDir), p.End()) {
			if p.Same(p.Arg(cl, 0), rv) {
				okInst = true
			}
		}
		if okInst {
			c.ok(rule, key, p.Exit, "setProxyDirector(proxy) on the returned proxy")
		} else {
			c.bad(rule, key, p.Exit, "a reverse proxy is returned without the verbatim-request-target director", p, p.End())
		}
	})
	// (c) routers match on the encoded path
	isRouterCall := func(cc *ssa.CallCommon, name string) bool {
		sc := cc.StaticCallee()
		return sc != nil && sc.Name() == name && sc.Pkg != nil && sc.Pkg.Pkg.Path() == "github.com/gorilla/mux"
	}
	// outer mux: the router every route hangs off is NewRouter().UseEncodedPath()
	{
		key := "outer-mux-encoded|" + fnKey(bsm)
		nNew, nEnc := 0, 0
		for _, b := range bsm.Blocks {
			for _, in := range b.Instrs {
				call, ok := in.(*ssa.Call)
				if !ok {
					continue
				}
				if isRouterCall(&call.Call, "NewRouter") {
					nNew++
					for _, ref := range *call.Referrers() {
						if c2, ok := ref.(*ssa.Call); ok && isRouterCall(&c2.Call, "UseEncodedPath") && c2.Call.Args[0] == ssa.Value(call) {
							nEnc++
						}
					}
				}
			}
		}
		if nNew > 0 && nNew == nEnc {
			c.ok(rule, key, bsm.Blocks[0].Instrs[0], "mux.NewRouter().UseEncodedPath()")
		} else {
			c.R.Bad(rule, key, c.P.Pos(bsm.Pos()), "the proxy's router is not switched to encoded-path matching: %2F in a path is decoded before routing and the upstream sees a different path", nil, nil)
		}
	}
	// upstream mux: UseEncodedPath exactly when ProxyRawPath is set
	c.Walk(rule, newProxy, func(p *walk.Path) {
		rv, ok := p.ReturnDV(0)
		if !ok || DefinitelyNil(p, rv, p.End()) {
			return
		}
		key := "upstream-mux-encoded|" + fnKey(newProxy)
		enc := false
		for _, cl := range p.Calls() {
			if isRouterCall(cl.C, "UseEncodedPath") {
				enc = true
			}
		}
		raw, known := false, false
		for _, a := range p.Atoms(p.End()) {
			if !a.IsNil {
				v := p.Resolve(a.DV).V
				if _, ok := walk.FieldLoadBase(v, rawF); ok {
					raw, known = a.Val, true
				}
				if f, ok := v.(*ssa.Field); ok && walk.FieldOf(f.X.Type(), f.Field) == rawF {
					raw, known = a.Val, true
				}
			}
		}
		switch {
		case !known:
			c.bad(rule, key, p.Exit, "NewProxy succeeds on a path that never consulted proxyRawPath", p, p.End())
		case raw == enc:
			c.ok(rule, key+sprintf("|raw=%v", raw), p.Exit, "UseEncodedPath() iff proxyRawPath")
		default:
			c.bad(rule, key, p.Exit, sprintf("proxyRawPath=%v but the upstream router's encoded-path matching is %v", raw, enc), p, p.End())
		}
	})
}

// runC17R8: flattening multi-valued headers is lossless: the value written back under a name is
// strings.Join(<the values ranged over for that name>, ",") of the untouched value slice — every client
// value reaches the upstream, in order, repeats included.
func runC17R8(c *Ctx, rule string) {
	fn := c.Fn(rule, "pkg/middleware.flattenHeaders")
	hdrSet := c.StdFunc(rule, "net/http.Header.Set")
	if fn == nil || hdrSet == nil {
		return
	}
	n := 0
	for _, b := range fn.Blocks {
		for _, in := range b.Instrs {
			call, ok := in.(*ssa.Call)
			if !ok || call.Call.StaticCallee() != hdrSet {
				continue
			}
			n++
			key := "flatten-lossless|" + fnKey(fn)
			join, ok := unwrap0(call.Call.Args[2]).(*ssa.Call)
			good := ok && isStd(&join.Call, "strings", "Join")
			if good {
				ex, isEx := unwrap0(join.Call.Args[0]).(*ssa.Extract)
				_, fromRange := (ssa.Value)(nil), false
				if isEx {
					_, fromRange = ex.Tuple.(*ssa.Next)
				}
				nameEx, nameIsEx := unwrap0(call.Call.Args[1]).(*ssa.Extract)
				sameIter := isEx && nameIsEx && nameEx.Tuple == ex.Tuple
				good = fromRange && sameIter
			}
			if good {
				c.ok(rule, key, in, "headers.Set(name, strings.Join(values, sep)) with name, values of the same range step")
			} else {
				c.R.Bad(rule, key, c.pos(in), "flattenHeaders writes back something other than the join of the very values it ranged over: values of a client's repeated header are dropped, reordered or altered on the way to the upstream", nil, nil)
			}
		}
	}
	if n == 0 {
		c.R.Unknown(rule, "flatten-lossless|none", c.P.Pos(fn.Pos()), "flattenHeaders writes nothing back")
	}
}

// runC17R9: what the router is built from is what the operator wrote. (a) MergeInto assigns the alpha
// UpstreamConfig to Options.UpstreamServers as one value: copying members one by one silently drops proxyRawPath,
// and encoded paths are then cleaned and routed on their decoded form. (b) The legacy converter registers each
// upstream under url.URL.Path — the decoded path, which is what the router matches request paths against (without
// proxyRawPath); the escaped spelling never matches a request.
func runC17R9(c *Ctx, rule string) {
	runAlphaMergeVerbatim(c, rule, "UpstreamServers", "UpstreamConfig", "alpha-upstreams-whole", "members of the structured upstreamConfig (proxyRawPath) do not reach the options, so raw-path proxying configured in the YAML is silently off")
	conv := c.Fn(rule, "(*pkg/apis/options.LegacyUpstreams).convert")
	pathF := c.Field(rule, "pkg/apis/options.Upstream.Path")
	if conv == nil || pathF == nil {
		return
	}
	var decoded func(v ssa.Value, depth int) (bool, string)
	decoded = func(v ssa.Value, depth int) (bool, string) {
		v = unwrap0(v)
		if depth > 4 {
			return false, "a derivation too deep to decide"
		}
		switch x := v.(type) {
		case *ssa.Const:
			return true, ""
		case *ssa.Phi:
			for _, e := range x.Edges {
				if ok, why := decoded(e, depth+1); !ok {
					return false, why
				}
			}
			return true, ""
		case *ssa.UnOp:
			if fa, ok := x.X.(*ssa.FieldAddr); ok && x.Op == token.MUL {
				f := walk.FieldOf(fa.X.Type(), fa.Field)
				if f != nil && (f.Name() == "Path" || f.Name() == "Fragment") && strings.HasSuffix(fa.X.Type().String(), "net/url.URL") {
					return true, "" // both are the decoded forms (file upstreams are served under the URL's fragment)
				}
				if f != nil {
					return false, "field " + f.Name()
				}
			}
			if al, ok := x.X.(*ssa.Alloc); ok && x.Op == token.MUL {
				for _, st := range storesTo(al) {
					if ok, why := decoded(st.Val, depth+1); !ok {
						return false, why
					}
				}
				return true, ""
			}
		case *ssa.Call:
			if sc := x.Call.StaticCallee(); sc != nil {
				return false, "the result of " + sc.Name() + "()"
			}
		}
		return false, "an unrecognised derivation"
	}
	n := 0
	for _, ref := range c.fieldRefs(pathF) {
		if ref.Store == nil || ref.Fn != conv {
			continue
		}
		n++
		key := "legacy-upstream-path|" + fnKey(conv)
		if ok, why := decoded(ref.Store.Val, 0); ok {
			c.ok(rule, key, ref.In, "Upstream.Path is the parsed URL's decoded Path / Fragment, or a constant")
		} else {
			c.R.Bad(rule, key, c.pos(ref.In), "a legacy upstream is registered under "+why+" instead of the decoded path of its URL: the router matches decoded request paths, so an upstream whose path needs escaping (a space, a non-ASCII letter) never matches and its requests go to the catch-all upstream", nil, nil)
		}
	}
	if n == 0 {
		c.R.Unknown(rule, "legacy-upstream-path|none", c.P.Pos(conv.Pos()), "the legacy converter does not set Upstream.Path")
	}
}

// runC17R10: once the router has picked an upstream, its handler object (fileServer, httpUpstreamProxy) only records
// the upstream's id, signs the request where configured, and hands (rw, req) to the handler it wraps. On every return
// path of their ServeHTTP a wrapped handler — a field of the receiver — was invoked with the function's own writer
// and request, and the function itself writes no answer (no http.Error, WriteHeader or Write): a guard that answers
// 4xx here replaces the upstream's status and body for requests the upstream would have served.
func runC17R10(c *Ctx, rule string) {
	for _, name := range []string{"(*pkg/upstream.fileServer).ServeHTTP", "(*pkg/upstream.httpUpstreamProxy).ServeHTTP"} {
		fn := c.Fn(rule, name)
		if fn == nil || len(fn.Params) < 3 {
			continue
		}
		recv, rw, req := fn.Params[0], fn.Params[1], fn.Params[2]
		key := "delegates|" + fnKey(fn)
		n, bad := 0, false
		c.WalkShallow(rule, fn, func(p *walk.Path) {
			if _, ok := p.Exit.(*ssa.Return); !ok || bad {
				return
			}
			n++
			delegated := false
			for _, cl := range p.Calls() {
				if cl.C.IsInvoke() {
					switch cl.C.Method.Name() {
					case "ServeHTTP":
						hv := p.Resolve(p.StepOp(cl.C.Value, cl.Step))
						ld, ok := hv.V.(*ssa.UnOp)
						if !ok {
							continue
						}
						fa, ok := ld.X.(*ssa.FieldAddr)
						if !ok || p.Resolve(p.Op(fa.X, p.Op(fa, hv))).V != ssa.Value(recv) {
							continue
						}
						if len(cl.C.Args) == 2 && p.Resolve(p.StepOp(cl.C.Args[0], cl.Step)).V == ssa.Value(rw) && p.Resolve(p.StepOp(cl.C.Args[1], cl.Step)).V == ssa.Value(req) {
							delegated = true
						}
					case "WriteHeader", "Write":
						if p.Resolve(p.StepOp(cl.C.Value, cl.Step)).V == ssa.Value(rw) {
							bad = true
							c.bad(rule, key, cl.In, "the upstream handler object writes an answer of its own: the upstream's status and body are replaced", p, cl.Idx)
							return
						}
					}
					continue
				}
				if sc := cl.C.StaticCallee(); sc != nil && (sc.String() == "net/http.Error" || sc.String() == "net/http.Redirect" || sc.String() == "net/http.NotFound") {
					bad = true
					c.bad(rule, key, cl.In, "the upstream handler object answers "+sc.Name()+" itself: requests the upstream would have served get this answer instead of the upstream's status and body", p, cl.Idx)
					return
				}
			}
			if !delegated {
				bad = true
				c.bad(rule, key, p.Exit, "the upstream handler object returns on a path that never hands (rw, req) to the handler it wraps", p, p.End())
			}
		})
		if !bad && n > 0 {
			c.R.OK(rule, key, c.P.Pos(fn.Pos()), sprintf("%d return path(s), each through the wrapped handler with the caller's writer and request", n))
		} else if !bad {
			c.R.Unknown(rule, key, c.P.Pos(fn.Pos()), "no return path found")
		}
	}
}

// runC17R11: the health-check and readiness middlewares sit in front of everything and answer 200 themselves when the
// request's path is one of the configured ones. They compare with req.URL.EscapedPath(): a request whose *decoded*
// path happens to equal /ping (/%70ing) is an ordinary request for the upstream and must be delivered, status and body
// relayed. In both functions every map lookup or string comparison against a path derived from req.URL uses the
// EscapedPath() result, not the Path field.
func runC17R11(c *Ctx, rule string) {
	for _, name := range []string{"pkg/middleware.isHealthCheckRequest", "pkg/middleware.readynessCheck$1"} {
		fn := c.Fn(rule, name)
		if fn == nil {
			continue
		}
		key := "wire-path|" + fnKey(fn)
		escaped, decoded := 0, 0
		var at ssa.Instruction
		for _, b := range fn.Blocks {
			for _, in := range b.Instrs {
				switch x := in.(type) {
				case *ssa.Call:
					if sc := x.Call.StaticCallee(); sc != nil && sc.String() == "(*net/url.URL).EscapedPath" {
						escaped++
					}
				case *ssa.FieldAddr:
					if f := walk.FieldOf(x.X.Type(), x.Field); f != nil && (f.Name() == "Path" || f.Name() == "RawPath") && strings.HasSuffix(x.X.Type().String(), "net/url.URL") {
						decoded++
						at = in
					}
				}
			}
		}
		switch {
		case decoded > 0:
			c.bad(rule, key, at, "an endpoint the proxy answers itself is recognised by the decoded path of the request: a percent-encoded spelling of the ping/ready path, which is an ordinary request for the upstream, is answered 200 by the proxy and never delivered", nil, 0)
		case escaped > 0:
			c.ok(rule, key, fn.Blocks[0].Instrs[0], "compares with req.URL.EscapedPath()")
		default:
			c.R.Unknown(rule, key, c.P.Pos(fn.Pos()), "no path comparison found")
		}
	}
}
