package rules

import (
	"go/token"
	"go/types"
	"strings"

	"golang.org/x/tools/go/ssa"

	"oapsa/internal/prog"
	"oapsa/internal/walk"
)

// P6 — result used before its error is examined.
//
// For every call v, ..., err := f(...) whose result list ends in an error and has a pointer or
// interface result v, every dereference of v (field access, *v, index through v, method invoke on an
// interface v) must be dominated by the err==nil edge of a test of that call's err (or by a v!=nil
// edge). A callee that reports failure hands back a nil v in this code base (enumerated: the callee
// is a module function with a `return nil, ..., <non-nil>` exit, or lies outside the module, where
// the Go convention applies), so a dereference that is not behind the test is a nil dereference on
// the failure path: a request crash instead of an error answer.
//
// The rule is path-insensitive on purpose (dominators on the SSA CFG): it is cheap enough to run
// over every module function, and the accepted idioms are exactly the two guards above.

type errResultSite struct {
	Fn     *ssa.Function
	Call   *ssa.Call
	Use    ssa.Instruction
	Callee string
	Safe   bool
	How    string
}

// mayReturnNilWithError reports whether the callee can hand back a nil idx-th result next to an error.
func mayReturnNilWithError(c *Ctx, call *ssa.Call, idx, errIdx int) bool {
	callee := call.Call.StaticCallee()
	if callee == nil || !c.P.InModule(callee) || len(callee.Blocks) == 0 {
		return true // interface method, function value or foreign function: Go convention
	}
	for _, b := range callee.Blocks {
		ret, ok := b.Instrs[len(b.Instrs)-1].(*ssa.Return)
		if !ok || len(ret.Results) <= errIdx {
			continue
		}
		if isNilConstV(ret.Results[errIdx]) {
			continue
		}
		r := ret.Results[idx]
		if isNilConstV(r) {
			return true
		}
		// forwarding another call's result pair: return g(...)
		if ex, ok := r.(*ssa.Extract); ok {
			if inner, ok := ex.Tuple.(*ssa.Call); ok {
				if sig := inner.Call.Signature(); sig.Results().Len() > ex.Index {
					return true
				}
			}
		}
		if _, ok := r.(*ssa.Phi); ok {
			return true
		}
	}
	return false
}

func isErrorType(t types.Type) bool {
	n, ok := t.(*types.Named)
	return ok && n.Obj().Pkg() == nil && n.Obj().Name() == "error"
}

// nilTestEdges returns, for value v, the blocks entered only when v is known nil / non-nil.
func nilTestEdges(v ssa.Value) (whenNil, whenNonNil []*ssa.BasicBlock) {
	whenNil, whenNonNil, _ = nilTestEdges2(v)
	return
}

// nilTestEdges2 additionally returns the raw (from,to) edges taken when v is nil.
func nilTestEdges2(v ssa.Value) (whenNil, whenNonNil []*ssa.BasicBlock, nilEdges [][2]*ssa.BasicBlock) {
	for _, ref := range *v.Referrers() {
		bo, ok := ref.(*ssa.BinOp)
		if !ok || (bo.Op != token.EQL && bo.Op != token.NEQ) {
			continue
		}
		other := bo.Y
		if other == v {
			other = bo.X
		}
		if !isNilConstV(other) {
			continue
		}
		for _, r2 := range *bo.Referrers() {
			iff, ok := r2.(*ssa.If)
			if !ok {
				continue
			}
			t, f := iff.Block().Succs[0], iff.Block().Succs[1]
			if bo.Op == token.NEQ {
				t, f = f, t
			}
			// t: v == nil, f: v != nil
			nilEdges = append(nilEdges, [2]*ssa.BasicBlock{iff.Block(), t})
			if edgeOnly(iff.Block(), t) {
				whenNil = append(whenNil, t)
			}
			// if v != nil { logger.Fatal(...) }: the non-nil arm never comes back
			if endsProcess(f) {
				for _, j := range f.Succs {
					okJ := true
					for _, p := range j.Preds {
						if p != f && p != iff.Block() && !j.Dominates(p) {
							okJ = false
						}
					}
					if okJ && (j == t || edgeOnly(iff.Block(), t)) {
						whenNil = append(whenNil, j)
					}
				}
			}
			if edgeOnly(iff.Block(), f) {
				whenNonNil = append(whenNonNil, f)
			}
		}
	}
	return
}

// endsProcess: the block calls a function that terminates the process (logger.Fatal*, log.Fatal*, os.Exit).
func endsProcess(b *ssa.BasicBlock) bool {
	for _, in := range b.Instrs {
		call, ok := in.(*ssa.Call)
		if !ok {
			continue
		}
		f := call.Call.StaticCallee()
		if f == nil || f.Pkg == nil {
			continue
		}
		switch path := f.Pkg.Pkg.Path(); {
		case path == "os" && f.Name() == "Exit":
			return true
		case (path == "log" || prog.Short(path) == "pkg/logger") && (f.Name() == "Fatal" || f.Name() == "Fatalf" || f.Name() == "Fatalln"):
			return true
		}
	}
	return false
}

// edgeOnly: every way into succ passes the edge from -> succ (other predecessors are back edges from
// blocks succ itself dominates).
func edgeOnly(from, succ *ssa.BasicBlock) bool {
	for _, p := range succ.Preds {
		if p == from {
			continue
		}
		if !succ.Dominates(p) {
			return false
		}
	}
	return true
}

func dominatedByAny(b *ssa.BasicBlock, ds []*ssa.BasicBlock) bool {
	for _, d := range ds {
		if d.Dominates(b) {
			return true
		}
	}
	return false
}

// errResultSites enumerates the dereferences of fallible results in fns.
func (c *Ctx) errResultSites(fns []*ssa.Function) []errResultSite {
	var out []errResultSite
	for _, fn := range fns {
		for _, b := range fn.Blocks {
			for _, in := range b.Instrs {
				call, ok := in.(*ssa.Call)
				if !ok {
					continue
				}
				res := call.Call.Signature().Results()
				if res.Len() < 2 || !isErrorType(res.At(res.Len()-1).Type()) {
					continue
				}
				errIdx := res.Len() - 1
				var errV ssa.Value
				vals := map[int]*ssa.Extract{}
				for _, ref := range *call.Referrers() {
					if ex, ok := ref.(*ssa.Extract); ok {
						if ex.Index == errIdx {
							errV = ex
						} else {
							vals[ex.Index] = ex
						}
					}
				}
				var errNil []*ssa.BasicBlock
				var errNilEdges [][2]*ssa.BasicBlock
				if errV != nil {
					errNil, _, errNilEdges = nilTestEdges2(errV)
				}
				for idx, v := range vals {
					t := v.Type().Underlying()
					_, isPtr := t.(*types.Pointer)
					_, isIface := t.(*types.Interface)
					if !isPtr && !isIface {
						continue
					}
					if !mayReturnNilWithError(c, call, idx, errIdx) {
						continue
					}
					_, vNonNil := nilTestEdges(v)
					judge := func(val ssa.Value, nonNil []*ssa.BasicBlock, viaPhi bool) {
						for _, use := range *val.Referrers() {
							if !derefUse(c, use, val) {
								continue
							}
							s := errResultSite{Fn: fn, Call: call, Use: use, Callee: calleeText(call)}
							switch {
							case !viaPhi && dominatedByAny(use.Block(), errNil):
								s.Safe, s.How = true, "behind the err==nil edge of the call's own error"
							case dominatedByAny(use.Block(), nonNil):
								s.Safe, s.How = true, "behind a non-nil test of the result (or a nil test of the error merged with it)"
							}
							out = append(out, s)
						}
					}
					judge(v, vNonNil, false)
					// one level of merging: v reaches a phi along an edge that is not an err==nil edge
					for _, use := range *v.Referrers() {
						phi, ok := use.(*ssa.Phi)
						if !ok {
							continue
						}
						for i, e := range phi.Edges {
							if e != ssa.Value(v) {
								continue
							}
							pred := phi.Block().Preds[i]
							safeEdge := dominatedByAny(pred, errNil) || dominatedByAny(pred, vNonNil)
							for _, ne := range errNilEdges {
								if ne[0] == pred && ne[1] == phi.Block() {
									safeEdge = true
								}
							}
							if !safeEdge {
								_, phiNonNil := nilTestEdges(phi)
								// the call's error merges at the same point along the same edge: a nil test of the
								// merged error covers the merged value
								if errV != nil {
									for _, in2 := range phi.Block().Instrs {
										pe, ok := in2.(*ssa.Phi)
										if !ok {
											break
										}
										if pe != phi && i < len(pe.Edges) && pe.Edges[i] == errV {
											mergedNil, _ := nilTestEdges(pe)
											phiNonNil = append(phiNonNil, mergedNil...)
										}
									}
								}
								judge(phi, phiNonNil, true)
							}
						}
					}
				}
			}
		}
	}
	return out
}

func calleeText(call *ssa.Call) string {
	if call.Call.IsInvoke() {
		return call.Call.Method.FullName()
	}
	if f := call.Call.StaticCallee(); f != nil {
		return prog.Name(f)
	}
	return call.Call.Value.Name()
}

// reviewedErrResults: callee|function -> reason, for callees documented to return a usable value
// together with an error.
var reviewedErrResults = map[string]string{
	"net/url.Parse|main.checkAllowedEmailDomains": "url.Parse(\"\") of the constant empty string cannot fail (checked: the argument is the constant \"\")",
}

// checkErrResults discharges every site in fns under rule; returns the number of sites.
func (c *Ctx) checkErrResults(rule string, fns []*ssa.Function) int {
	sites := c.errResultSites(fns)
	for _, s := range sites {
		key := "P6|" + prog.Name(s.Fn) + "|" + s.Callee
		if s.Safe {
			c.ok(rule, key, s.Use, s.How)
			continue
		}
		if why, ok := reviewedErrResults[s.Callee+"|"+prog.Name(s.Fn)]; ok {
			if s.Callee != "net/url.Parse" || isEmptyConst(s.Call.Call.Args[0]) {
				c.ok(rule, key, s.Use, "reviewed: "+why)
				continue
			}
		}
		c.R.Bad(rule, key, c.pos(s.Use), "the result of "+s.Callee+" is dereferenced where the call's error has not been tested nil: on the failure path the result is nil and request handling crashes instead of answering with an error", nil, nil)
	}
	return len(sites)
}

func isEmptyConst(v ssa.Value) bool {
	s, ok := ConstString(v)
	return ok && s == ""
}

// derefUse: the instruction dereferences val (directly, or by handing it to a module callee that
// dereferences the corresponding parameter without a nil test).
func derefUse(c *Ctx, use ssa.Instruction, val ssa.Value) bool {
	switch u := use.(type) {
	case *ssa.FieldAddr:
		return u.X == val
	case *ssa.IndexAddr:
		return u.X == val
	case *ssa.UnOp:
		return u.Op == token.MUL && u.X == val
	case *ssa.Call:
		return callDerefs(c, &u.Call, val)
	case *ssa.Defer:
		return callDerefs(c, &u.Call, val)
	}
	return false
}

func callDerefs(c *Ctx, cc *ssa.CallCommon, val ssa.Value) bool {
	if cc.IsInvoke() {
		return cc.Value == val
	}
	callee := cc.StaticCallee()
	if callee == nil || !c.P.InModule(callee) || len(callee.Blocks) == 0 {
		return false
	}
	for i, a := range cc.Args {
		if a == val && i < len(callee.Params) && paramDerefUnguarded(callee.Params[i]) {
			return true
		}
	}
	return false
}

// paramDerefUnguarded: the parameter is dereferenced somewhere not dominated by a non-nil test of it.
func paramDerefUnguarded(pa *ssa.Parameter) bool {
	if _, ok := pa.Type().Underlying().(*types.Pointer); !ok {
		return false
	}
	_, nonNil := nilTestEdges(pa)
	for _, use := range *pa.Referrers() {
		d := false
		switch u := use.(type) {
		case *ssa.FieldAddr:
			d = u.X == ssa.Value(pa)
		case *ssa.IndexAddr:
			d = u.X == ssa.Value(pa)
		case *ssa.UnOp:
			d = u.Op == token.MUL && u.X == ssa.Value(pa)
		}
		if d && !dominatedByAny(use.Block(), nonNil) {
			return true
		}
	}
	return false
}

// checkNilNilPairs is the callee side of the result-before-errcheck rule (an Engler-style contradiction between two
// sites that each look fine): a caller examines only the error of a call and then dereferences the pointer result,
// i.e. it believes "no error means a value". Every such callee in the module must then never return (nil, nil): each
// of its return paths with a definitely nil error carries a pointer that is not definitely nil. Callers that test the
// value for nil impose nothing.
func (c *Ctx) checkNilNilPairs(rule string, fns []*ssa.Function) int {
	type need struct {
		callee *ssa.Function
		user   *ssa.Function
		at     ssa.Instruction
	}
	var needs []need
	seen := map[*ssa.Function]bool{}
	for _, fn := range fns {
		for _, b := range fn.Blocks {
			for _, in := range b.Instrs {
				call, ok := in.(*ssa.Call)
				if !ok {
					continue
				}
				callee := call.Call.StaticCallee()
				if callee == nil || !c.P.InModule(callee) || len(callee.Blocks) == 0 || seen[callee] {
					continue
				}
				res := callee.Signature.Results()
				if res.Len() != 2 || !isErrorType(res.At(1).Type()) {
					continue
				}
				if _, isPtr := res.At(0).Type().Underlying().(*types.Pointer); !isPtr {
					continue
				}
				if call.Referrers() == nil {
					continue
				}
				for _, r := range *call.Referrers() {
					ex, ok := r.(*ssa.Extract)
					if !ok || ex.Index != 0 || ex.Referrers() == nil {
						continue
					}
					whenNil, whenNonNil := nilTestEdges(ex)
					if len(whenNil)+len(whenNonNil) > 0 {
						continue // the caller tests the value itself
					}
					for _, u := range *ex.Referrers() {
						if derefUse(c, u, ex) {
							needs = append(needs, need{callee, fn, u})
							seen[callee] = true
							break
						}
					}
				}
			}
		}
	}
	n := 0
	for _, nd := range needs {
		nd := nd
		n++
		key := "value-or-error|" + fnKey(nd.callee)
		bad := false
		c.WalkShallow(rule, nd.callee, func(p *walk.Path) {
			if _, ok := p.Exit.(*ssa.Return); !ok || bad {
				return
			}
			r0, ok0 := p.ReturnDV(0)
			r1, ok1 := p.ReturnDV(1)
			if !ok0 || !ok1 {
				return
			}
			if DefinitelyNil(p, r1, p.End()) && DefinitelyNil(p, r0, p.End()) {
				bad = true
				c.bad(rule, key, p.Exit, prog.Name(nd.callee)+" returns neither a value nor an error on this path, while "+prog.Name(nd.user)+" ("+c.pos(nd.at)+") dereferences the value after checking only the error: the request panics", p, p.End())
			}
		})
		if !bad {
			c.R.OK(rule, key, c.P.Pos(nd.callee.Pos()), "no (nil, nil) return; "+prog.Name(nd.user)+" relies on it")
		}
	}
	return n
}

// ---- P12: the error of a call is consulted for its text only ---------------------------------------------------
//
// v, e := f(...) where v is used but e is never compared with nil, returned, stored, or handed to anything but a
// formatter or logger: the code tests a NEIGHBOUR's error (`if err != nil` after `x, xErr := …`) or none at all. An
// Engler-style contradiction — the author believed the call can fail (the error is named and even printed) and acts as if
// it had not. Path-insensitive, over SSA referrers (through phis).
type unexaminedErr struct {
	Fn   *ssa.Function
	Call *ssa.Call
}

func (c *Ctx) unexaminedErrors(fns []*ssa.Function) []unexaminedErr {
	var out []unexaminedErr
	isFormatter := func(cc *ssa.CallCommon) bool {
		sc := cc.StaticCallee()
		if sc == nil || sc.Pkg == nil {
			return false
		}
		pp := sc.Pkg.Pkg.Path()
		return pp == "fmt" || pp == "log" || strings.HasSuffix(pp, "/pkg/logger")
	}
	for _, fn := range fns {
		for _, b := range fn.Blocks {
			for _, in := range b.Instrs {
				call, ok := in.(*ssa.Call)
				if !ok || call.Referrers() == nil {
					continue
				}
				res := call.Call.Signature().Results()
				if res.Len() < 2 || !isErrorType(res.At(res.Len()-1).Type()) {
					continue
				}
				var errV *ssa.Extract
				valueUsed := false
				for _, ref := range *call.Referrers() {
					if ex, ok := ref.(*ssa.Extract); ok {
						if ex.Index == res.Len()-1 {
							errV = ex
						} else if ex.Referrers() != nil {
							for _, u := range *ex.Referrers() {
								if _, dbg := u.(*ssa.DebugRef); !dbg {
									valueUsed = true
								}
							}
						}
					}
				}
				if errV == nil || !valueUsed {
					continue // an unused value imposes nothing
				}
				errUses := 0
				if errV.Referrers() != nil {
					for _, u := range *errV.Referrers() {
						if _, dbg := u.(*ssa.DebugRef); !dbg {
							errUses++
						}
					}
				}
				// the value itself is validated (email == "", len(x) > 0, v != nil): the code judges the outcome by the value
				valueTested := false
				for _, ref := range *call.Referrers() {
					ex, ok := ref.(*ssa.Extract)
					if !ok || ex.Index == res.Len()-1 || ex.Referrers() == nil {
						continue
					}
					for _, u := range *ex.Referrers() {
						switch x := u.(type) {
						case *ssa.BinOp:
							valueTested = true
						case *ssa.Call:
							if b, ok := x.Call.Value.(*ssa.Builtin); ok && b.Name() == "len" && x.Referrers() != nil {
								for _, lu := range *x.Referrers() {
									if _, ok := lu.(*ssa.BinOp); ok {
										valueTested = true
									}
								}
							}
						}
					}
				}
				if valueTested {
					continue
				}
				if errUses == 0 {
					continue // `v, _ := f()`: discarding the error is a different, visible decision (errcheck's business)
				}
				examined := false
				seen := map[ssa.Value]bool{}
				var visit func(v ssa.Value, d int)
				visit = func(v ssa.Value, d int) {
					if examined || d > 6 || seen[v] || v.Referrers() == nil {
						return
					}
					seen[v] = true
					for _, r := range *v.Referrers() {
						switch x := r.(type) {
						case *ssa.DebugRef:
						case *ssa.Store:
							// the element store of a variadic call: fmt.Errorf("… %v", e) — follow the argument slice to its consumer
							if ia, ok := x.Addr.(*ssa.IndexAddr); ok && x.Val == v {
								if al, ok := ia.X.(*ssa.Alloc); ok && al.Comment == "varargs" && al.Referrers() != nil {
									onlyFormatters := true
									for _, ar := range *al.Referrers() {
										sl, ok := ar.(*ssa.Slice)
										if !ok || sl.Referrers() == nil {
											continue
										}
										for _, su := range *sl.Referrers() {
											if ci, ok := su.(ssa.CallInstruction); !ok || !isFormatter(ci.Common()) {
												onlyFormatters = false
											}
										}
									}
									if onlyFormatters {
										continue
									}
								}
							}
							examined = true
						case *ssa.BinOp, *ssa.Return, *ssa.TypeAssert, *ssa.MapUpdate, *ssa.Send, *ssa.MakeClosure:
							examined = true
						case *ssa.Phi:
							visit(x, d+1)
						case *ssa.MakeInterface:
							visit(x, d+1)
						case *ssa.ChangeInterface:
							visit(x, d+1)
						case *ssa.ChangeType:
							visit(x, d+1)
						case ssa.CallInstruction:
							if x.Common().IsInvoke() && x.Common().Value == v {
								// err.Error() and the like: reading the text
								continue
							}
							if !isFormatter(x.Common()) {
								examined = true
							}
						case *ssa.IndexAddr, *ssa.Slice:
							// a varargs slice being filled for a formatter: follow where the slice goes
							if val, ok := r.(ssa.Value); ok {
								visit(val, d+1)
							}
						default:
							examined = true // unknown use: assume it is looked at
						}
					}
				}
				// varargs: the error is stored into an element of a fresh []interface{}; follow the backing array to its consumer
				visit(errV, 0)
				if !examined {
					out = append(out, unexaminedErr{fn, call})
				}
			}
		}
	}
	return out
}

// runErrorsExamined registers P12 for a property: in the packages implementing it, every named error result that is
// used at all is examined (compared with nil, returned, stored, handed to a non-formatting function) unless the code
// validates the value result instead. Zero instances today (class-wide, round 8).
func runErrorsExamined(c *Ctx, rule string, pkgs ...string) {
	var fns []*ssa.Function
	for _, fn := range c.P.ModFns {
		pk := prog.FnPkg(fn)
		if pk == nil {
			continue
		}
		sp := prog.Short(pk.Path())
		for _, p := range pkgs {
			if sp == p || strings.HasPrefix(sp, p+"/") {
				fns = append(fns, fn)
				break
			}
		}
	}
	sites := c.unexaminedErrors(fns)
	for _, s := range sites {
		c.R.Bad(rule, "error-text-only|"+fnKey(s.Fn)+"|"+calleeText(s.Call), c.pos(s.Call), "the error of "+calleeText(s.Call)+" is named and printed but never examined (not compared with nil, returned, stored or handed on) while the call's value is used: the code tests another call's error, or none, and carries on with whatever a failed call left in the value", nil, nil)
	}
	if len(sites) == 0 {
		c.R.OK(rule, "error-text-only|none", "-", sprintf("%d functions of %s: every named error result that is used is examined, or the value is validated instead", len(fns), strings.Join(pkgs, ", ")))
	}
}
