package rules

import (
	"go/token"
	"go/types"
	"net/url"
	"path"
	"regexp"
	"strings"

	"golang.org/x/tools/go/ssa"

	"oapsa/internal/prog"
	"oapsa/internal/walk"
)

func init() {
	register(&Prop{
		ID:          "C06",
		Explanation: "Decides sanitiser dominance for redirect targets: every http.Redirect in production code is enumerated and classified; the post-login, sign-in and sign-out redirects and the error/sign-in page links take, on every path, either result #0 of AppDirector.GetRedirect, the constant \"/\", or a value for which IsValidRedirect(value)==true was established on that path; GetRedirect returns only \"/\" or a candidate for which IsValidRedirect was true; the login redirect is provider.GetLoginURL(...), every implementation of which returns the String() of makeLoginURL's copy of the configured LoginURL, whose only field store is RawQuery; IsValidRedirect answers true only on the relative branch (prefix '/', not '//', no match of the invalid-redirect regex — atoms over the input only) or with IsEndpointAllowed(url.Parse(redirect), allowedDomains)==true after an error-free parse; IsEndpointAllowed answers true only for a non-empty whitelist host accepted by isHostnameAllowed together with one of the three port conditions; isHostnameAllowed admits sub-domains only through a suffix test whose operand is known to begin with '.', otherwise only by equality with the entry's bare name; and the relative-branch acceptance language, extracted from the path atoms and the regex constant, is disjoint — on the complete set of strings up to length 5 over a 15-symbol adversarial alphabet — from the strings that http.Redirect's rewriting followed by browser normalisation (tab/CR/LF removal, backslash as slash) turns into a scheme-relative '//' target. Added during the build: in request-reachable code no store goes into a field of the url.URL behind ProviderData.LoginURL/RedeemURL/ProfileURL/ValidateURL (R6). Round 4: Azure's tenant override rewrites only an unset or built-in default endpoint, and the rd candidate is read from req.Form, which holds query and body (R7). Round 5: GetRequestURI returns the forwarded-URI header value or the request URI itself, never a cut or rewritten string (R8). Round 6: the sign-in and error pages embed the redirect target they are handed, unchanged (R9). Round 7: request handling keeps no state of its own between requests — no store, map update, in-place builtin, atomic/sync.Map write or pointer-receiver library call (singleflight, caches) reached from ServeHTTP targets a package-level variable, an object built at start-up, or a constructor variable captured by the handler it returned, declared in the packages implementing this property (RS; a class-wide who-may-write rule with zero instances today: a correct memoisation would be reported until reviewed). The operator's whitelist_domains are read-only between option loading and the redirect validator (R10). Round 8: makeLoginURL sends state and redirect_uri exactly as handed in; the one escaping is url.Values.Encode's (R11). Round 8 (class-wide, P12): in the packages implementing this property every named error result that is used at all is examined — compared with nil, returned, stored or handed to a non-formatting function — unless the code validates the value result instead (RE; zero instances today).",
		NotDecided:  "parser differentials on absolute URLs between url.Parse and browsers; strings longer than the enumeration bound or outside its alphabet; 'lands byte for byte' (value round trip through state).",
		Run:         runC06,
	})
}

func runC06(c *Ctx) {
	c.R.Rule("RE-errors-examined", "in the packages implementing this property every named error result that is used at all is examined, or the value is validated instead (P12, class-wide, round 8)", 1)
	runErrorsExamined(c, "RE-errors-examined", "pkg/app")
	c.R.Rule("RS-no-request-time-state", "request handling writes no state that outlives the request (package-level variables, objects built at start-up, constructor variables captured by handlers) declared in the packages implementing this property", 1)
	runStateless(c, "RS-no-request-time-state", "pkg/app", "providers.ProviderData")
	r := c.R
	r.Rule("R1-sanitiser-dominance", "every redirect/page-link sink takes GetRedirect's result, \"/\" or a value validated on the path", 8)
	r.Rule("R2-getredirect", "GetRedirect returns only \"/\" or a candidate with IsValidRedirect true", 2)
	r.Rule("R3-login-redirect", "login URL = makeLoginURL copy of the configured LoginURL with only the query rewritten, in every provider", 7)
	r.Rule("R4-validator-structure", "IsValidRedirect / IsEndpointAllowed / isHostnameAllowed accepting paths", 5)
	r.Rule("R5-language", "relative-branch acceptance language is disjoint from scheme-relative targets (bounded exhaustive probe of the extracted constants)", 1)

	getRedirectM := c.Method("R1-sanitiser-dominance", "pkg/app/redirect.AppDirector.GetRedirect")
	isValidM := c.Method("R1-sanitiser-dominance", "pkg/app/redirect.Validator.IsValidRedirect")
	httpRedirect := c.StdFunc("R1-sanitiser-dominance", "net/http.Redirect")
	if getRedirectM == nil || isValidM == nil || httpRedirect == nil {
		return
	}

	// safeOnPath: the string value is GetRedirect#0, "/" or validated on this path before step at.
	safeOnPath := func(p *walk.Path, v walk.DV, at int) (bool, string) {
		r := p.Resolve(v)
		if s, ok := ConstString(r.V); ok {
			if s == "/" || s == "" {
				return true, "constant " + strconvQuote(s)
			}
			return false, "constant " + strconvQuote(s)
		}
		if cl, ok := extractOfCall(p, r, 0); ok && walk.Invoke(c.P, getRedirectM)(p, cl) {
			return true, "GetRedirect(req)#0"
		}
		if _, ok := Has(p, at, Need{M: walk.Invoke(c.P, isValidM), Idx: -1, Out: IsTrue, Where: func(p *walk.Path, k walk.Call) bool {
			return p.Same(p.Arg(k, 0), r)
		}}); ok {
			return true, "IsValidRedirect(value)==true on this path"
		}
		return false, "a value that was not validated on this path"
	}

	// ---- R1 ---------------------------------------------------------------------------------
	rule := "R1-sanitiser-dominance"
	reviewedRedirects := map[string]string{
		"(*main.OAuthProxy).doOAuthStart":                            "login redirect to the identity provider (R3)",
		"pkg/middleware.redirectToHTTPS$1":                           "same-host upgrade to https of the current request URL (not a post-login/sign-out/error target)",
		"pkg/upstream.registerTrailingSlashHandler$1":                "same-URL trailing-slash redirect of an authenticated upstream request",
		"(*pkg/upstream.multiplexer).registerTrailingSlashHandler$1": "same-URL trailing-slash redirect of an authenticated upstream request",
	}
	for _, cs := range c.callersOf(httpRedirect) {
		fn := cs.Parent()
		c.R.CallSites++
		if why, ok := reviewedRedirects[fnKey(fn)]; ok {
			c.ok(rule, "redirect|"+fnKey(fn), cs, "reviewed: "+why)
			continue
		}
		if prog.Short(prog.FnPkg(fn).Path()) == "pkg/upstream" {
			c.ok(rule, "redirect|"+fnKey(fn), cs, "reviewed: same-URL trailing-slash redirect inside the upstream handler")
			continue
		}
		cs := cs
		found := false
		c.Walk(rule, fn, func(p *walk.Path) {
			for i, s := range p.Steps {
				if s.In != cs.(ssa.Instruction) {
					continue
				}
				found = true
				key := "redirect|" + fnKey(fn)
				if ok, how := safeOnPath(p, p.StepOp(cs.Common().Args[2], s), i); ok {
					c.ok(rule, key, s.In, how)
				} else {
					c.bad(rule, key, s.In, "the browser is redirected to "+how+": request-derived data reaches Location unvalidated", p, i)
				}
			}
		})
		if !found {
			c.R.Unknown(rule, "redirect|"+fnKey(fn), c.pos(cs), "redirect call not reached by the walker")
		}
	}
	// page links: ErrorPageOpts.RedirectURL and WriteSignInPage's redirectURL
	redirectURLF := c.Field(rule, "pkg/app/pagewriter.ErrorPageOpts.RedirectURL")
	writeSignIn := c.Method(rule, "pkg/app/pagewriter.Writer.WriteSignInPage")
	if redirectURLF != nil && writeSignIn != nil {
		for _, fn := range c.P.ModFns {
			if prog.FnPkg(fn) != c.P.Main.Types {
				continue
			}
			hasSink := false
			for _, b := range fn.Blocks {
				for _, in := range b.Instrs {
					if st, ok := in.(*ssa.Store); ok {
						if fa, ok := st.Addr.(*ssa.FieldAddr); ok && walk.FieldOf(fa.X.Type(), fa.Field) == redirectURLF {
							hasSink = true
						}
					}
					if ci, ok := in.(ssa.CallInstruction); ok && ci.Common().IsInvoke() && walk.SameMethod(ci.Common().Method, writeSignIn) {
						hasSink = true
					}
				}
			}
			if !hasSink {
				continue
			}
			fn := fn
			signInPath := c.P.Field("main.OAuthProxy.SignInPath")
			c.Walk(rule, fn, func(p *walk.Path) {
				for i, s := range p.Steps {
					var v ssa.Value
					kind := ""
					if st, ok := s.In.(*ssa.Store); ok {
						if fa, ok := st.Addr.(*ssa.FieldAddr); ok && walk.FieldOf(fa.X.Type(), fa.Field) == redirectURLF {
							v, kind = st.Val, "error-page-link"
						}
					}
					if ci, ok := s.In.(ssa.CallInstruction); ok && ci.Common().IsInvoke() && walk.SameMethod(ci.Common().Method, writeSignIn) {
						v, kind = ci.Common().Args[2], "sign-in-page-link"
					}
					if v == nil {
						continue
					}
					_ = signInPath
					key := kind + "|" + fnKey(fn)
					if ok, how := safeOnPath(p, p.StepOp(v, s), i); ok {
						c.ok(rule, key, s.In, how)
					} else {
						c.bad(rule, key, s.In, "a page link is built from "+how, p, i)
					}
				}
			})
		}
	}

	// ---- R2 ---------------------------------------------------------------------------------
	rule = "R2-getredirect"
	getRedirect := c.Fn(rule, "(*pkg/app/redirect.appDirector).GetRedirect")
	if getRedirect != nil {
		c.Walk(rule, getRedirect, func(p *walk.Path) {
			ev, ok := p.ReturnDV(1)
			if !ok || !DefinitelyNil(p, ev, p.End()) {
				return
			}
			rv, _ := p.ReturnDV(0)
			key := "nil-error-return|" + fnKey(getRedirect)
			r := p.Resolve(rv)
			if s, ok := ConstString(r.V); ok && s == "/" {
				c.ok(rule, key+"|default", p.Exit, "\"/\"")
				return
			}
			if _, ok := Has(p, p.End(), Need{M: walk.Invoke(c.P, isValidM), Idx: -1, Out: IsTrue, Where: func(p *walk.Path, k walk.Call) bool {
				return p.Same(p.Arg(k, 0), r)
			}}); ok {
				c.ok(rule, key+"|validated", p.Exit, "candidate with IsValidRedirect(candidate)==true")
			} else {
				c.bad(rule, key, p.Exit, "GetRedirect returns a candidate for which IsValidRedirect was not established true", p, p.End())
			}
		})
	}

	runC06R3(c)
	runC06R4(c)
	r.Rule("R6-endpoints-immutable", "no store into a field of the url.URL behind ProviderData.LoginURL/RedeemURL/ProfileURL/ValidateURL", 1)
	runC06R6(c, "R6-endpoints-immutable")
	r.Rule("R7-configured-endpoint-and-rd-source", "Azure's tenant override touches only an unset/default endpoint; the rd candidate comes from req.Form (query and body)", 2)
	runC06R7(c, "R7-configured-endpoint-and-rd-source")
	r.Rule("R8-requested-uri-verbatim", "the page the user asked for is taken verbatim: GetRequestURI returns the X-Forwarded-Uri header value or req.URL.RequestURI() itself, never a cut or rewritten string", 1)
	runC06R8(c, "R8-requested-uri-verbatim")
	r.Rule("R10-whitelist-reaches-validator-verbatim", "the operator's whitelist_domains entries are never rewritten between option loading and the redirect validator built from them (a normalising pass that re-joins host and port changes which host:port an entry permits; round 7)", 1)
	runOptionListsVerbatim(c, "R10-whitelist-reaches-validator-verbatim", "WhitelistDomains")
	r.Rule("R11-state-and-redirect-uri-sent-verbatim", "makeLoginURL sends the state (which carries the application redirect) and the redirect_uri exactly as handed in; the one escaping is url.Values.Encode's (round 8)", 2)
	runLoginURLParamsVerbatim(c, "R11-state-and-redirect-uri-sent-verbatim")
	r.Rule("R9-pages-keep-the-target", "the sign-in and error pages embed the redirect target they are handed, unchanged: every Redirect/RedirectURL of the page data is the caller's parameter (or option field) itself, or a constant", 3)
	runC06R9(c, "R9-pages-keep-the-target")
	runC06R5(c)
}

func runC06R3(c *Ctx) {
	rule := "R3-login-redirect"
	glM := c.Method(rule, "providers.Provider.GetLoginURL")
	mlu := c.Fn(rule, "providers.makeLoginURL")
	loginURLF := c.Field(rule, "providers.ProviderData.LoginURL")
	if glM == nil || mlu == nil || loginURLF == nil {
		return
	}
	for _, impl := range c.P.Implementations(glM) {
		if !c.P.InModule(impl) {
			continue
		}
		impl := impl
		c.Walk(rule, impl, func(p *walk.Path) {
			rv, ok := p.ReturnDV(0)
			if !ok {
				return
			}
			key := "impl|" + fnKey(impl)
			sc, ok := extractOfCall(p, rv, 0)
			okS := false
			if ok && sc.C.StaticCallee() != nil && sc.C.StaticCallee().Name() == "String" {
				// receiver: address of a local holding makeLoginURL's result
				recv := p.Resolve(p.Arg(sc, 0)).V
				if al, ok := recv.(*ssa.Alloc); ok {
					for _, st := range storesTo(al) {
						if call, ok := st.Val.(*ssa.Call); ok && call.Call.StaticCallee() == mlu {
							okS = true
						}
					}
				}
				if call, ok := recv.(*ssa.Call); ok && call.Call.StaticCallee() == mlu {
					okS = true
				}
			}
			// delegation to another implementation
			if !okS && ok && sc.C.StaticCallee() != nil && sc.C.StaticCallee().Name() == "GetLoginURL" {
				okS = true
			}
			if okS {
				c.ok(rule, key, p.Exit, "makeLoginURL(...).String()")
			} else {
				c.bad(rule, key, p.Exit, prog.Name(impl)+" does not return makeLoginURL(...).String(): the login redirect may not target the configured authorization endpoint", p, p.End())
			}
		})
	}
	// makeLoginURL: a := *p.LoginURL; only a.RawQuery is stored
	okCopy := false
	for _, b := range mlu.Blocks {
		for _, in := range b.Instrs {
			st, ok := in.(*ssa.Store)
			if !ok {
				continue
			}
			switch addr := st.Addr.(type) {
			case *ssa.Alloc:
				if strings.HasSuffix(addr.Type().String(), "net/url.URL") {
					if ld, ok := st.Val.(*ssa.UnOp); ok && walk.IsFieldLoad(ld.X, loginURLF) {
						okCopy = true
					} else {
						c.bad(rule, "copy|"+fnKey(mlu), in, "the login URL is not a copy of the configured ProviderData.LoginURL", nil, 0)
					}
				}
			case *ssa.FieldAddr:
				if strings.HasSuffix(addr.X.Type().String(), "net/url.URL") {
					f := walk.FieldOf(addr.X.Type(), addr.Field).Name()
					if f == "RawQuery" {
						c.ok(rule, "field-store|"+fnKey(mlu)+"|"+f, in, "only the query is rewritten")
					} else {
						c.bad(rule, "field-store|"+fnKey(mlu)+"|"+f, in, "makeLoginURL rewrites "+f+" of the login URL: the authorization endpoint can be changed by request data", nil, 0)
					}
				}
			}
		}
	}
	if okCopy {
		c.ok(rule, "copy|"+fnKey(mlu), mlu.Blocks[0].Instrs[0], "a := *p.LoginURL")
	} else {
		c.bad(rule, "copy|"+fnKey(mlu), mlu.Blocks[0].Instrs[0], "makeLoginURL does not start from a copy of the configured LoginURL", nil, 0)
	}
}

// strCallAtom finds an assumed atom strings.<fn>(a, b)==want with operand predicates.
func strCallAtom(p *walk.Path, at int, fn string, want bool, isA, isB func(walk.DV) bool) bool {
	for _, a := range p.Atoms(at) {
		call, ok := a.DV.V.(*ssa.Call)
		if !ok || a.IsNil || a.Val != want || !isStd(&call.Call, "strings", fn) {
			continue
		}
		if isA(p.Op(call.Call.Args[0], a.DV)) && isB(p.Op(call.Call.Args[1], a.DV)) {
			return true
		}
	}
	return false
}

func isConstStr(p *walk.Path, s string) func(walk.DV) bool {
	return func(x walk.DV) bool {
		k, ok := ConstString(p.Resolve(x).V)
		return ok && k == s
	}
}

func runC06R4(c *Ctx) { runRedirectValidators(c, "R4-validator-structure", true) }

// runRedirectValidators: accepting paths of IsValidRedirect (optional), IsEndpointAllowed and isHostnameAllowed (C06.R4, also C08).
func runRedirectValidators(c *Ctx, rule string, withRedirect bool) {
	ivr := c.Fn(rule, "(*pkg/app/redirect.validator).IsValidRedirect")
	iea := c.Fn(rule, "pkg/util.IsEndpointAllowed")
	// isHostnameAllowed is analysed on its own when it exists as a function (today); when a refactoring has inlined it
	// into IsEndpointAllowed, the same acceptance conditions are decided on IsEndpointAllowed's accepting paths
	iha := c.P.Func("pkg/util.isHostnameAllowed")
	if iha != nil {
		c.Fn(rule, "pkg/util.isHostnameAllowed") // an anchor: never inlined
	}
	shp := c.Fn(rule, "pkg/util.SplitHostPort")
	allowedF := c.Field(rule, "pkg/app/redirect.validator.allowedDomains")
	if ivr == nil || iea == nil || shp == nil || allowedF == nil {
		return
	}
	in := ivr.Params[1]
	isIn := func(p *walk.Path) func(walk.DV) bool {
		return func(x walk.DV) bool { return p.Resolve(x).V == in }
	}
	c.Walk(rule, ivr, func(p *walk.Path) {
		rv, ok := p.ReturnDV(0)
		if !ok || !withRedirect {
			return
		}
		if b, k := p.Truth(rv, p.End()); k && !b {
			return
		}
		at := p.End()
		key := "true-return|" + fnKey(ivr)
		// absolute branch
		if ec, ok := Has(p, at, Need{M: walk.Static(iea), Idx: -1, Out: IsTrue}); ok {
			pc, ok := extractOfCall(p, p.Arg(ec, 0), 0)
			okParse := ok && isStd(pc.C, "net/url", "Parse") && p.Resolve(p.Arg(pc, 0)).V == in
			if okParse {
				if n, k := p.ResultNil(pc.DV(), 1, at); !(k && n) {
					okParse = false
				}
			}
			if okParse && walk.IsFieldLoad(p.Resolve(p.Arg(ec, 1)).V, allowedF) {
				c.ok(rule, key+"|absolute", p.Exit, "IsEndpointAllowed(url.Parse(redirect), v.allowedDomains)==true after an error-free parse")
			} else {
				c.bad(rule, key, p.Exit, "the absolute branch accepts without IsEndpointAllowed on the parsed redirect and the configured whitelist", p, at)
			}
			return
		}
		// relative branch: atoms over the input only
		slash := strCallAtom(p, at, "HasPrefix", true, isIn(p), isConstStr(p, "/"))
		dslash := strCallAtom(p, at, "HasPrefix", false, isIn(p), isConstStr(p, "//"))
		regexFalse := false
		for _, cl := range p.Calls() {
			if sc := cl.C.StaticCallee(); sc != nil && sc.Name() == "MatchString" && p.Resolve(p.Arg(cl, 1)).V == in {
				if b, k := p.ResultTruth(cl.DV(), -1, at); k && !b && strings.HasSuffix(globalLoad(p.Resolve(p.Arg(cl, 0)).V), "invalidRedirectRegex") {
					regexFalse = true
				}
			}
		}
		if slash && dslash && regexFalse {
			c.ok(rule, key+"|relative", p.Exit, "HasPrefix(\"/\") && !HasPrefix(\"//\") && !invalidRedirectRegex.MatchString (language checked by R5)")
		} else {
			c.bad(rule, key, p.Exit, sprintf("IsValidRedirect accepts on a path that is neither the whitelist branch nor the full relative-path test (prefix /:%v not //:%v regex rejects:%v)", slash, dslash, regexFalse), p, at)
		}
	})
	// IsEndpointAllowed
	c.Walk(rule, iea, func(p *walk.Path) {
		rv, ok := p.ReturnDV(0)
		if !ok {
			return
		}
		if b, k := p.Truth(rv, p.End()); k && !b {
			return
		}
		at := p.End()
		key := "true-return|" + fnKey(iea)
		var sp walk.Call
		if iha != nil {
			hc, ok := HasLast(p, at, Need{M: walk.Static(iha), Idx: -1, Out: IsTrue})
			if !ok {
				c.bad(rule, key, p.Exit, "IsEndpointAllowed accepts without isHostnameAllowed", p, at)
				return
			}
			// hostname = endpoint.Hostname(); allowedHost = SplitHostPort(elem)#0, non-empty
			hn, ok1 := extractOfCall(p, p.Arg(hc, 0), 0)
			okHost := ok1 && hn.C.StaticCallee() != nil && hn.C.StaticCallee().Name() == "Hostname" && p.Resolve(p.Arg(hn, 0)).V == iea.Params[0]
			sp2, ok2 := extractOfCall(p, p.Arg(hc, 1), 0)
			okSplit := ok2 && sp2.C.StaticCallee() == shp
			nonEmpty := okSplit && eqConstAtom(p, at, false, "", func(x walk.DV) bool { return p.Same(x, p.Arg(hc, 1)) })
			if !okHost || !okSplit {
				c.bad(rule, key, p.Exit, "isHostnameAllowed is not applied to (endpoint.Hostname(), host part of a whitelist entry)", p, at)
				return
			}
			if !nonEmpty {
				c.bad(rule, key, p.Exit, "a whitelist entry with an empty host part is not skipped: it matches URLs with an empty host such as https:///evil.example", p, at)
				return
			}
			sp = sp2
		} else {
			// the host comparison lives in this function: the entry of the accepting (last) iteration
			sp2, ok := HasLast(p, at, Need{M: walk.Static(shp), Out: Called})
			if !ok {
				c.bad(rule, key, p.Exit, "IsEndpointAllowed accepts without splitting a whitelist entry into host and port", p, at)
				return
			}
			isAllowed := func(x walk.DV) bool { return ResultIs(p, x, sp2, 0) }
			isHost := func(x walk.DV) bool {
				hn, ok := extractOfCall(p, x, 0)
				return ok && hn.C.StaticCallee() != nil && hn.C.StaticCallee().Name() == "Hostname" && p.Resolve(p.Arg(hn, 0)).V == iea.Params[0]
			}
			if !eqConstAtom(p, at, false, "", isAllowed) {
				c.bad(rule, key, p.Exit, "a whitelist entry with an empty host part is not skipped: it matches URLs with an empty host such as https:///evil.example", p, at)
				return
			}
			if !checkHostAcceptance(c, rule, "host-accepted|"+fnKey(iea), p, at, isHost, isAllowed) {
				return
			}
			sp = sp2
		}
		// port conditions
		allowedPort := p.ResultKey(sp.DV(), 1)
		isAllowedPort := func(x walk.DV) bool { return p.Key(x) == allowedPort }
		isRedirectPort := func(x walk.DV) bool {
			cl, ok := extractOfCall(p, x, 0)
			return ok && cl.C.StaticCallee() != nil && cl.C.StaticCallee().Name() == "Port" && p.Resolve(p.Arg(cl, 0)).V == iea.Params[0]
		}
		star := eqConstAtom(p, at, true, "*", isAllowedPort)
		same := eqAtom(p, at, true, isAllowedPort, isRedirectPort)
		both := eqConstAtom(p, at, true, "", isAllowedPort) && eqConstAtom(p, at, true, "", isRedirectPort)
		if star || same || both {
			c.ok(rule, key, p.Exit, "host accepted and port rule satisfied (any-port / equal / both empty)")
		} else {
			c.bad(rule, key, p.Exit, "IsEndpointAllowed accepts a host without one of the three port conditions", p, at)
		}
	})
	// isHostnameAllowed
	if iha != nil {
		host, allowed := iha.Params[0], iha.Params[1]
		c.Walk(rule, iha, func(p *walk.Path) {
			rv, ok := p.ReturnDV(0)
			if !ok {
				return
			}
			if b, k := p.Truth(rv, p.End()); k && !b {
				return
			}
			isHost := func(x walk.DV) bool { return p.Resolve(x).V == ssa.Value(host) }
			isAllowed := func(x walk.DV) bool { return p.Resolve(x).V == ssa.Value(allowed) }
			checkHostAcceptance(c, rule, "true-return|"+fnKey(iha), p, p.End(), isHost, isAllowed)
		})
	}
}

// checkHostAcceptance judges one accepting path: the hostname equals the whitelist entry's bare name, or it passed a
// suffix test whose operand is known to begin with '.' (label boundary). isHost / isAllowed identify the two
// strings on this path (parameters of isHostnameAllowed, or the values of IsEndpointAllowed's accepting iteration).
func checkHostAcceptance(c *Ctx, rule, key string, p *walk.Path, at int, isHost, isAllowed func(walk.DV) bool) bool {
	// equality with the bare name
	bare := eqAtom(p, at, true, isHost, func(x walk.DV) bool {
		r := p.Resolve(x)
		call, ok := r.V.(*ssa.Call)
		if !ok || !isStd(&call.Call, "strings", "TrimPrefix") || !isAllowed(p.Op(call.Call.Args[0], r)) {
			return false
		}
		s, _ := ConstString(call.Call.Args[1])
		return s == "." || s == "*."
	}) || eqAtom(p, at, true, isHost, isAllowed)
	if bare {
		c.ok(rule, key+"|exact", p.Exit, "hostname equals the entry's bare name")
		return true
	}
	// suffix tests: every accepting suffix operand must be known to start with '.'
	okSuffix, any := true, false
	for _, a := range p.Atoms(at) {
		call, ok := a.DV.V.(*ssa.Call)
		if !ok || a.IsNil || !a.Val || !isStd(&call.Call, "strings", "HasSuffix") {
			continue
		}
		if !isHost(p.Op(call.Call.Args[0], a.DV)) {
			continue
		}
		op := p.Resolve(p.Op(call.Call.Args[1], a.DV))
		sliceFrom1, sliceOfAllowed := false, false
		if sl, ok := op.V.(*ssa.Slice); ok && isAllowed(p.Op(sl.X, op)) {
			sliceOfAllowed = true
			if n, ok := ConstInt(sl.Low); ok && sl.High == nil && sl.Low != nil && n == 1 {
				sliceFrom1 = true
			}
		}
		if !isAllowed(op) && !sliceOfAllowed {
			continue // a suffix test of another loop iteration (another whitelist entry, whose port rule then failed)
		}
		any = true
		switch {
		case isAllowed(op) && strCallAtom(p, at, "HasPrefix", true, isAllowed, isConstStr(p, ".")):
		case sliceFrom1 && strCallAtom(p, at, "HasPrefix", true, isAllowed, isConstStr(p, "*.")):
		default:
			okSuffix = false
		}
	}
	if any && okSuffix {
		c.ok(rule, key+"|subdomain", p.Exit, "suffix test against an operand known to begin with '.' (label boundary)")
		return true
	}
	c.bad(rule, key, p.Exit, "a hostname is accepted by a suffix test whose operand is not known to begin with '.' (evilexample.com vs .example.com), or without any comparison", p, at)
	return false
}

// isSliceFrom: v is base[low:] with a constant low.
func isSliceFrom(v ssa.Value, base ssa.Value, low int64) bool {
	sl, ok := v.(*ssa.Slice)
	if !ok || sl.X != base || sl.High != nil || sl.Low == nil {
		return false
	}
	n, ok := ConstInt(sl.Low)
	return ok && n == low
}

// ---- R5: language obligation ------------------------------------------------------------------

// httpRedirectRewrite replicates the URL rewriting of net/http.Redirect for a request to "/oauth2/callback".
func httpRedirectRewrite(u string) string {
	if pu, err := url.Parse(u); err == nil && pu.Scheme == "" {
		oldpath := "/oauth2/callback"
		if u == "" || u[0] != '/' {
			olddir, _ := path.Split(oldpath)
			u = olddir + u
		}
		query := ""
		if i := strings.Index(u, "?"); i != -1 {
			u, query = u[:i], u[i:]
		}
		trailing := strings.HasSuffix(u, "/")
		u = path.Clean(u)
		if trailing && !strings.HasSuffix(u, "/") {
			u += "/"
		}
		u += query
	}
	return u
}

// browserSchemeRelative: after WHATWG URL preprocessing the string starts with two slashes (or backslashes).
func browserSchemeRelative(s string) bool {
	s = strings.Map(func(r rune) rune {
		if r == '\t' || r == '\n' || r == '\r' {
			return -1
		}
		return r
	}, s)
	s = strings.TrimFunc(s, func(r rune) bool { return r <= 0x20 })
	if len(s) < 2 {
		return false
	}
	isSl := func(b byte) bool { return b == '/' || b == '\\' }
	return isSl(s[0]) && isSl(s[1])
}

func runC06R5(c *Ctx) {
	rule := "R5-language"
	ivr := c.P.Func("(*pkg/app/redirect.validator).IsValidRedirect")
	if ivr == nil {
		return
	}
	// extract the relative branch's constants from the code: required prefixes, forbidden prefixes, the regex source
	var need, forbid []string
	var reSrc string
	var reInstr ssa.Instruction
	in := ivr.Params[1]
	found := false
	w := walk.New(c.P, ivr)
	w.Run(func(p *walk.Path) {
		rv, ok := p.ReturnDV(0)
		if !ok || found {
			return
		}
		if b, k := p.Truth(rv, p.End()); !(k && b) {
			return
		}
		rel := true
		var n, f []string
		usesRegex := false
		for _, a := range p.Atoms(p.End()) {
			call, ok := a.DV.V.(*ssa.Call)
			if !ok || a.IsNil {
				continue
			}
			sc := call.Call.StaticCallee()
			switch {
			case isStd(&call.Call, "strings", "HasPrefix") && call.Call.Args[0] == in:
				s, _ := ConstString(call.Call.Args[1])
				if a.Val {
					n = append(n, s)
				} else {
					f = append(f, s)
				}
			case sc != nil && sc.Name() == "MatchString" && !a.Val:
				usesRegex = true
			case sc != nil && c.P.InModule(sc):
				rel = false // whitelist branch
			}
		}
		if rel && usesRegex {
			need, forbid, found = n, f, true
		}
	})
	// the regex constant: initialiser of the package-level invalidRedirectRegex
	if pk := c.P.SSA.Package(c.P.Pkg("pkg/app/redirect")); pk != nil {
		if init := pk.Func("init"); init != nil {
			for _, b := range init.Blocks {
				for _, i2 := range b.Instrs {
					if st, ok := i2.(*ssa.Store); ok {
						if g, ok := st.Addr.(*ssa.Global); ok && g.Name() == "invalidRedirectRegex" {
							if call, ok := st.Val.(*ssa.Call); ok && len(call.Call.Args) == 1 {
								reSrc, _ = ConstString(call.Call.Args[0])
								reInstr = i2
							}
						}
					}
				}
			}
		}
	}
	if !found || reSrc == "" {
		c.R.Unknown(rule, "extract", c.P.Pos(ivr.Pos()), "could not extract the relative-branch atoms and the regex constant from the validator")
		return
	}
	re, err := regexp.Compile(reSrc)
	if err != nil {
		c.R.Unknown(rule, "extract", c.pos(reInstr), "the regex constant does not compile: "+err.Error())
		return
	}
	accept := func(s string) bool {
		for _, pfx := range need {
			if !strings.HasPrefix(s, pfx) {
				return false
			}
		}
		for _, pfx := range forbid {
			if strings.HasPrefix(s, pfx) {
				return false
			}
		}
		return !re.MatchString(s)
	}
	alphabet := []string{"/", "\\", ".", " ", "\t", "\n", "\r", "\v", "\f", "a", "?", "#", "%", "@", ":"}
	maxLen := 5
	if c.Tier == "thorough" {
		// deeper exploration: all strings up to length 6 over the same alphabet plus non-ASCII space and NUL
		alphabet = append(alphabet, "\u00a0", "\x00", "\u2028")
		maxLen = 6
	}
	total, accepted := 0, 0
	witness := ""
	var gen func(prefix string, n int)
	gen = func(prefix string, n int) {
		if witness != "" {
			return
		}
		if n == 0 {
			total++
			if accept(prefix) {
				accepted++
				if browserSchemeRelative(prefix) || browserSchemeRelative(httpRedirectRewrite(prefix)) {
					witness = prefix
				}
			}
			return
		}
		for _, a := range alphabet {
			gen(prefix+a, n-1)
		}
	}
	for l := 1; l <= maxLen && witness == ""; l++ {
		gen("", l)
	}
	key := "relative-language|" + fnKey(ivr)
	if witness != "" {
		c.R.Bad(rule, key, c.pos(reInstr), sprintf("the relative-redirect test accepts %q, which http.Redirect emits as %q — a scheme-relative target for browsers (open redirect)", witness, httpRedirectRewrite(witness)), nil, []string{"required prefixes: " + strings.Join(need, " "), "forbidden prefixes: " + strings.Join(forbid, " "), "regex: " + reSrc})
		return
	}
	c.R.OK(rule, key, c.pos(reInstr), sprintf("%d strings (all of length <= %d over %d symbols) enumerated, %d accepted by need=%q forbid=%q regex=%q, none scheme-relative after http.Redirect + browser normalisation", total, maxLen, len(alphabet), accepted, need, forbid, reSrc))
	_ = token.ADD
}

// runC06R6: the configured provider endpoints are never edited in place. ProviderData's URL fields are
// pointers shared by every request; the login redirect is "the configured endpoint with only the
// query rewritten" only as long as nobody stores into a field of the url.URL those pointers lead to.
// Every store into a *url.URL field whose pointer derives (loads, locals, phis, returns of module
// helpers) from ProviderData.LoginURL/RedeemURL/ProfileURL/ValidateURL without a struct copy is a
// violation in request-reachable code (VTA from ServeHTTP); provider construction runs before the
// provider is published and may edit its own endpoints.
func runC06R6(c *Ctx, rule string) {
	var urlFields []*types.Var
	for _, n := range []string{"LoginURL", "RedeemURL", "ProfileURL", "ValidateURL"} {
		if f := c.Field(rule, "providers.ProviderData."+n); f != nil {
			urlFields = append(urlFields, f)
		}
	}
	if len(urlFields) == 0 {
		return
	}
	isShared := func(v ssa.Value) bool {
		for _, f := range urlFields {
			if walk.IsFieldLoad(v, f) {
				return true
			}
		}
		return false
	}
	var derives func(v ssa.Value, depth int, seen map[ssa.Value]bool) bool
	derives = func(v ssa.Value, depth int, seen map[ssa.Value]bool) bool {
		if depth > 6 || seen[v] {
			return false
		}
		seen[v] = true
		v = unwrap0(v)
		if isShared(v) {
			return true
		}
		switch x := v.(type) {
		case *ssa.Phi:
			for _, e := range x.Edges {
				if derives(e, depth+1, seen) {
					return true
				}
			}
		case *ssa.UnOp:
			if al, ok := x.X.(*ssa.Alloc); ok && x.Op == token.MUL {
				for _, st := range storesTo(al) {
					if derives(st.Val, depth+1, seen) {
						return true
					}
				}
			}
		case *ssa.Call:
			if sc := x.Call.StaticCallee(); sc != nil && c.P.InModule(sc) {
				for _, b := range sc.Blocks {
					if ret, ok := b.Instrs[len(b.Instrs)-1].(*ssa.Return); ok && len(ret.Results) > 0 {
						if derives(ret.Results[0], depth+1, seen) {
							return true
						}
					}
				}
			}
		case *ssa.Parameter:
			// a helper's parameter: any caller passing a shared pointer
			fn := x.Parent()
			for i, q := range fn.Params {
				if q != x {
					continue
				}
				for _, cs := range c.callersOf(fn) {
					if i < len(cs.Common().Args) && derives(cs.Common().Args[i], depth+1, seen) {
						return true
					}
				}
			}
		}
		return false
	}
	R := c.requestReachable(rule)
	if R == nil {
		return
	}
	n, bad, setup := 0, 0, 0
	for _, fn := range c.P.ModFns {
		pk := prog.Short(prog.FnPkg(fn).Path())
		if pk != "providers" && !strings.HasPrefix(pk, "pkg/providers") && pk != "main" {
			continue
		}
		if !R[fn] {
			// provider construction (NewAzureProvider's tenant override, defaults): runs before the provider is
			// published to request handling; editing the endpoints there is configuration, not corruption
			for _, b := range fn.Blocks {
				for _, in := range b.Instrs {
					if st, ok := in.(*ssa.Store); ok {
						if fa, ok := st.Addr.(*ssa.FieldAddr); ok {
							if pt, ok := fa.X.Type().Underlying().(*types.Pointer); ok && pt.Elem().String() == "net/url.URL" {
								setup++
							}
						}
					}
				}
			}
			continue
		}
		for _, b := range fn.Blocks {
			for _, in := range b.Instrs {
				st, ok := in.(*ssa.Store)
				if !ok {
					continue
				}
				fa, ok := st.Addr.(*ssa.FieldAddr)
				if !ok {
					continue
				}
				pt, ok := fa.X.Type().Underlying().(*types.Pointer)
				if !ok || pt.Elem().String() != "net/url.URL" {
					continue
				}
				n++
				if _, isLocalCopy := fa.X.(*ssa.Alloc); isLocalCopy {
					continue // a local url.URL value (copy or literal)
				}
				if derives(fa.X, 0, map[ssa.Value]bool{}) {
					bad++
					c.R.Bad(rule, "shared-url-store|"+fnKey(fn), c.pos(in), "a field ("+walk.FieldOf(fa.X.Type(), fa.Field).Name()+") of the url.URL behind a configured provider endpoint is overwritten in place: the pointer is shared by all requests, so later login redirects and back-channel calls go to the edited URL", nil, nil)
				}
			}
		}
	}
	if bad == 0 {
		c.R.OK(rule, "shared-url-store|none", "-", sprintf("%d stores into url.URL fields in request-reachable provider and main code, none through a pointer derived from a configured endpoint (%d more in set-up code that runs before the provider is published)", n, setup))
	}
}

// runC06R7: (a) an explicitly configured Azure endpoint is left alone: overrideTenantURL rewrites *current only when it
// is nil/empty or its full String() equals the built-in default's String() — comparing anything less (the host)
// replaces a configured authorization endpoint by the tenant default; (b) the `rd` candidate is read from the
// parsed form (req.Form, which holds query AND POST-body values): the sign-in form posts rd in the body, and a
// getter that only looks at the URL query drops the page the user asked for.
func runC06R7(c *Ctx, rule string) {
	ov := c.Fn(rule, "providers.overrideTenantURL")
	if ov != nil {
		n := 0
		c.Walk(rule, ov, func(p *walk.Path) {
			for i, s := range p.Steps {
				st, ok := s.In.(*ssa.Store)
				if !ok || s.F != 0 || p.Resolve(p.StepOp(st.Addr, s)).V != ssa.Value(ov.Params[0]) {
					continue
				}
				n++
				key := "override-only-default|" + fnKey(ov)
				isStringOf := func(x walk.DV, param ssa.Value) bool {
					cl, ok := extractOfCall(p, x, 0)
					return ok && cl.C.StaticCallee() != nil && cl.C.StaticCallee().String() == "(*net/url.URL).String" && p.Resolve(p.Arg(cl, 0)).V == param
				}
				cur, def := ssa.Value(ov.Params[0]), ssa.Value(ov.Params[1])
				okCond := false
				if isNil, k := p.Nil(walk.DV{V: cur}, i); k && isNil {
					okCond = true
				}
				if eqConstAtom(p, i, true, "", func(x walk.DV) bool { return isStringOf(x, cur) }) {
					okCond = true
				}
				if eqAtom(p, i, true, func(x walk.DV) bool { return isStringOf(x, cur) }, func(x walk.DV) bool { return isStringOf(x, def) }) {
					okCond = true
				}
				if okCond {
					c.ok(rule, key, s.In, "rewritten only when unset or equal to the built-in default URL")
				} else {
					c.bad(rule, key, s.In, "the configured endpoint is overwritten on a path where it is not known to be unset or identical to the built-in default: an explicitly configured authorization endpoint is replaced", p, i)
				}
			}
		})
		if n == 0 {
			c.R.Unknown(rule, "override-only-default|none", c.P.Pos(ov.Pos()), "overrideTenantURL never writes *current")
		}
	}
	getter := c.Fn(rule, "(*pkg/app/redirect.appDirector).getRdQuerystringRedirect")
	formF := c.P.Field("net/http.Request.Form")
	if getter != nil && formF != nil {
		key := "rd-from-form|" + fnKey(getter)
		ok := false
		for _, b := range getter.Blocks {
			for _, in := range b.Instrs {
				call, isCall := in.(*ssa.Call)
				if !isCall || call.Call.StaticCallee() == nil || call.Call.StaticCallee().String() != "(net/url.Values).Get" {
					continue
				}
				if k, isK := ConstString(call.Call.Args[1]); !isK || k != "rd" {
					continue
				}
				if base, isF := walk.FieldLoadBase(unwrap0(call.Call.Args[0]), formF); isF && base == ssa.Value(getter.Params[1]) {
					ok = true
				}
			}
		}
		if ok {
			c.R.OK(rule, key, c.P.Pos(getter.Pos()), "req.Form.Get(\"rd\")")
		} else {
			c.R.Bad(rule, key, c.P.Pos(getter.Pos()), "the rd redirect candidate is not read from req.Form: a value posted in the sign-in form's body is ignored and the user lands on \"/\" instead of the page requested before login", nil, nil)
		}
	}
}

// runC06R8: the default post-login target is GetRequestURI's result (getURIRedirect), validated afterwards. The
// validator accepts any same-site path, so a shortened or rewritten URI is still "valid" — the user simply lands
// somewhere else than asked. Every return of GetRequestURI (helpers inlined) is the very result of
// http.Header.Get(...) or of (*url.URL).RequestURI() on the request's URL; a string operation in between (a cut at
// a comma, trimming, cleaning) is refused.
func runC06R8(c *Ctx, rule string) {
	getURI := c.Fn(rule, "pkg/requests/util.GetRequestURI")
	if getURI == nil {
		return
	}
	key := "verbatim|" + fnKey(getURI)
	n, bad := 0, false
	c.Walk(rule, getURI, func(p *walk.Path) {
		rv, ok := p.ReturnDV(0)
		if !ok || bad {
			return
		}
		n++
		cl, ok := extractOfCall(p, rv, 0)
		if ok {
			if sc := cl.C.StaticCallee(); sc != nil {
				switch sc.String() {
				case "(net/http.Header).Get", "(*net/url.URL).RequestURI":
					return
				}
			}
		}
		bad = true
		what := "a derived string"
		if ok {
			what = "the result of " + walk.CalleeName(cl.C)
		}
		c.bad(rule, key, p.Exit, "GetRequestURI returns "+what+" instead of the header value or the request URI itself: the page the user asked for (commas, spaces and all) is not where the login returns to", p, p.End())
	})
	if !bad && n > 0 {
		c.R.OK(rule, key, c.P.Pos(getURI.Pos()), sprintf("%d return path(s): Header.Get(...) or URL.RequestURI(), unmodified", n))
	} else if !bad {
		c.R.Unknown(rule, key, c.P.Pos(getURI.Pos()), "no return path found")
	}
}

// runC06R9: the target reaches the browser a second time through rendered pages — the sign-in page's hidden rd inputs,
// the error page's "Go back"/"Sign in" forms — and comes back with the login form. The page writer is downstream of
// validation and must not decide about targets on its own: every store into a field named Redirect or RedirectURL of
// a struct built in pkg/app/pagewriter takes a parameter of the enclosing function, a load of the RedirectURL option
// field, or a constant. A "harmless" substitution there (targets that look like proxy endpoints become "/") sends
// users of /oauth2-docs/... to the front page after login.
func runC06R9(c *Ctx, rule string) {
	n := 0
	for _, fn := range c.P.ModFns {
		if prog.Short(prog.FnPkg(fn).Path()) != "pkg/app/pagewriter" {
			continue
		}
		for _, b := range fn.Blocks {
			for _, in := range b.Instrs {
				st, ok := in.(*ssa.Store)
				if !ok {
					continue
				}
				fa, ok := st.Addr.(*ssa.FieldAddr)
				if !ok {
					continue
				}
				f := walk.FieldOf(fa.X.Type(), fa.Field)
				if f == nil || (f.Name() != "Redirect" && f.Name() != "RedirectURL") {
					continue
				}
				n++
				key := "page-target|" + f.Name() + "|" + fnKey(fn)
				v := unwrap0(st.Val)
				okSrc := false
				switch x := v.(type) {
				case *ssa.Parameter, *ssa.Const:
					okSrc = true
				case *ssa.UnOp:
					if ld, isF := x.X.(*ssa.FieldAddr); isF && x.Op == token.MUL {
						if g := walk.FieldOf(ld.X.Type(), ld.Field); g != nil && (g.Name() == "RedirectURL" || g.Name() == "Redirect") {
							okSrc = true
						}
					}
					if fv, isFV := x.X.(*ssa.FreeVar); isFV && x.Op == token.MUL {
						_ = fv
						okSrc = true // a parameter captured by a closure
					}
				case *ssa.Field:
					if g := walk.FieldOf(x.X.Type(), x.Field); g != nil && (g.Name() == "RedirectURL" || g.Name() == "Redirect") {
						okSrc = true
					}
				case *ssa.FreeVar:
					okSrc = true
				}
				if okSrc {
					c.ok(rule, key, in, "the page embeds the target it was handed")
				} else {
					c.R.Bad(rule, key, c.pos(in), "the page writer embeds a redirect target it computed itself instead of the one it was handed: the login that starts from this page no longer returns to the page the user asked for", nil, nil)
				}
			}
		}
	}
	if n == 0 {
		c.R.Unknown(rule, "page-target|none", "-", "no Redirect/RedirectURL field is set in pkg/app/pagewriter")
	}
}
