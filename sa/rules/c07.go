package rules

import (
	"go/token"
	"go/types"
	"sort"
	"strings"

	"golang.org/x/tools/go/ssa"

	"oapsa/internal/prog"
	"oapsa/internal/walk"
)

func init() {
	register(&Prop{
		ID:          "C07",
		Explanation: "Decides the wiring between stripping and injecting identity headers: NewRequestHeaderInjector gives the same configured header list to the strip builder and the injector builder and composes alice.New(strip, inject) in that order, dropping the strip stage only when the builder returned nil; the strip builder collects header.Name exactly for entries without PreserveRequestValue and returns nil only for an empty collection; the strip handler calls the canonicalising http.Header.Del on the request's header for every collected name unconditionally before calling next; the upstream handler and the auth-only 202 writer are used only as the argument of p.headersChain.Then (whose result is what serves the request), headersChain has one writer, the constructor, fed from buildHeadersChain = alice.New(request injector, response injector); every value written by the injectors derives only from session.GetClaim(...), configured secret bytes, configured prefixes and constants, never from a header read; GetClaim returns no values for a nil session; the inject handlers inject scope.Session into the request's (response's) own header map before next; the legacy conversion sets PreserveRequestValue = !SkipAuthStripHeaders for every element after the last append; claim injectors add a header only on paths where the claim value itself was tested non-empty; getRequestHeaders adds each legacy header group exactly on the paths whose tested flags ask for it (PassBasicAuth||PassUserHeaders -> user headers, PassAccessToken, PassAuthorization, PassBasicAuth&&password -> basic-auth header). Added during the build: a claim source injects only non-empty claim values and the legacy flags map to the documented header groups (R6). GetClaim answers each claim name from the session field of that name only (R7); with request signing configured the upstream proxy overwrites GAP-Auth from its own response header before every hand-off (R8). Round 4: the session the injectors read is this request's own — bearer claims decoded into a per-invocation object, and a request that waited for the refresh lock continues with the reloaded session (R9, shared with C04.R8 and C12.R2). Round 5: the operator's injected-header configuration is read-only between option loading and the injector builders (R10). Round 6: the option loader's viper switches are a reviewed closed list with their constant arguments (R11). Round 7: request handling keeps no state of its own between requests — no store, map update, in-place builtin, atomic/sync.Map write or pointer-receiver library call (singleflight, caches) reached from ServeHTTP targets a package-level variable, an object built at start-up, or a constructor variable captured by the handler it returned, declared in the packages implementing this property (RS; a class-wide who-may-write rule with zero instances today: a correct memoisation would be reported until reviewed). No reader of the session's group list filters, sorts or overwrites it in place (R12). Round 8: the structured configuration's injectRequestHeaders/injectResponseHeaders reach the options as a whole (R13). Round 8 (class-wide, P12): in the packages implementing this property every named error result that is used at all is examined — compared with nil, returned, stored or handed to a non-formatting function — unless the code validates the value result instead (RE; zero instances today).",
		NotDecided:  "per-option value tables of the legacy flags (which claims each flag maps to); header-name normalisation by upstream servers (underscore/dash); values produced by GetClaim for each claim name.",
		Run:         runC07,
	})
}

func runC07(c *Ctx) {
	c.R.Rule("RE-errors-examined", "in the packages implementing this property every named error result that is used at all is examined, or the value is validated instead (P12, class-wide, round 8)", 1)
	runErrorsExamined(c, "RE-errors-examined", "pkg/header")
	c.R.Rule("RS-no-request-time-state", "request handling writes no state that outlives the request (package-level variables, objects built at start-up, constructor variables captured by handlers) declared in the packages implementing this property", 1)
	runStateless(c, "RS-no-request-time-state", "pkg/header", "pkg/middleware")
	r := c.R
	r.Rule("R1-same-list-strip-first", "strip and inject built from the same list, strip first, strip dropped only when nil", 2)
	r.Rule("R2-strip-semantics", "collect Name iff !PreserveRequestValue; strip = Header.Del on the request for every collected name, before next", 5)
	r.Rule("R3-only-through-chain", "upstream handler and 202 writer only as headersChain.Then(...) arguments; headersChain has one writer from buildHeadersChain", 4)
	r.Rule("R4-value-provenance", "injected values derive only from GetClaim, configured secrets/prefixes and constants; nil session injects nothing; handlers inject scope.Session", 7)
	r.Rule("R6-empty-claims-and-legacy-table", "no header for an empty claim value; legacy flags select their header groups as documented", 6)
	r.Rule("R7-claim-field-table", "GetClaim answers each claim name from the session field of that name only; nothing for unknown claims or a nil session", 9)
	r.Rule("R8-gap-auth-replaced", "with signing configured, GAP-Auth is overwritten from the proxy's own response header before every hand-off to an upstream handler", 2)
	r.Rule("R9-session-belongs-to-request", "the session the injectors read is this request's own: bearer claims are decoded into a per-invocation object (shared with C04.R8) and a request that waited for the refresh lock continues with the reloaded session (shared with C12.R2)", 4)
	r.Rule("R12-session-groups-never-edited-in-place", "no code that reads the session's group list (Authorize, constraints, providers, injectors) filters, sorts or overwrites it in place; the injected group headers are the session's (round 7)", 1)
	runC07R12(c, "R12-session-groups-never-edited-in-place")
	r.Rule("R13-alpha-header-lists-verbatim", "the structured configuration's injectRequestHeaders / injectResponseHeaders reach the options as a whole: an entry with a name and no values is the operator's way to say 'strip only' (round 8)", 2)
	runAlphaMergeVerbatim(c, "R13-alpha-header-lists-verbatim", "InjectRequestHeaders", "InjectRequestHeaders", "alpha-request-headers-whole", "entries of the structured injectRequestHeaders (a named header without values: strip only) do not reach the options, so client values under that name pass to the upstream")
	runAlphaMergeVerbatim(c, "R13-alpha-header-lists-verbatim", "InjectResponseHeaders", "InjectResponseHeaders", "alpha-response-headers-whole", "entries of the structured injectResponseHeaders do not reach the options")
	r.Rule("R10-header-config-verbatim", "the operator's injected-header configuration (headers and their value lists) is never written between option loading and the injector builders", 3)
	runC07R10(c, "R10-header-config-verbatim")
	r.Rule("R11-loader-switches", "the switches that decide how flags, environment and config file combine into option values (skip-auth-strip-headers among them) are a reviewed closed list (shared with C15.R9)", 1)
	runLoaderSwitchesRule(c, "R11-loader-switches")
	r.Rule("R5-legacy-conversion", "PreserveRequestValue = !SkipAuthStripHeaders applied to every element after the last append", 1)

	// ---- R1 ---------------------------------------------------------------------------------
	rule := "R1-same-list-strip-first"
	nrhi := c.Fn(rule, "pkg/middleware.NewRequestHeaderInjector")
	newStrip := c.Fn(rule, "pkg/middleware.newStripHeaders")
	newInj := c.Fn(rule, "pkg/middleware.newRequestHeaderInjector")
	if nrhi != nil && newStrip != nil && newInj != nil {
		c.Walk(rule, nrhi, func(p *walk.Path) {
			rv, ok := p.ReturnDV(0)
			if !ok || DefinitelyNil(p, rv, p.End()) {
				return
			}
			at := p.End()
			key := "composition|" + fnKey(nrhi)
			inj, ok1 := Has(p, at, Need{M: walk.Static(newInj), Idx: 1, Out: ErrNil, Where: func(p *walk.Path, k walk.Call) bool {
				return p.Resolve(p.Arg(k, 0)).V == nrhi.Params[0]
			}})
			st, ok2 := Has(p, at, Need{M: walk.Static(newStrip), Out: Called, Where: func(p *walk.Path, k walk.Call) bool {
				return p.Resolve(p.Arg(k, 0)).V == nrhi.Params[0]
			}})
			if !ok1 || !ok2 {
				c.bad(rule, key, p.Exit, "the strip stage and the inject stage are not both built from the configured header list", p, at)
				return
			}
			if n, k := p.Nil(st.DV(), at); k && n {
				// no strip stage: must return the injector alone
				if ResultIs(p, rv, inj, 0) {
					c.ok(rule, key+"|nothing-to-strip", p.Exit, "strip builder returned nil (every header preserved): injector alone")
				} else {
					c.bad(rule, key, p.Exit, "without a strip stage something other than the injector is returned", p, at)
				}
				return
			}
			// alice.New(strip, inject).Then
			mc, ok := p.Resolve(rv).V.(*ssa.MakeClosure)
			if !ok || len(mc.Bindings) != 1 || !strings.HasPrefix(mc.Fn.Name(), "Then") {
				c.bad(rule, key, p.Exit, "with a strip stage present the result is not alice.New(strip, inject).Then", p, at)
				return
			}
			nc, ok := mc.Bindings[0].(*ssa.Call)
			if !ok || nc.Call.StaticCallee() == nil || nc.Call.StaticCallee().Name() != "New" {
				c.bad(rule, key, p.Exit, "the chain is not built with alice.New", p, at)
				return
			}
			e0, e1 := varargElem(nc.Call.Args[0], 0), varargElem(nc.Call.Args[0], 1)
			ncd := p.Op(nc, p.Resolve(rv))
			if e0 != nil && e1 != nil && p.Same(p.Op(e0, ncd), st.DV()) && ResultIs(p, p.Op(e1, ncd), inj, 0) && varargElem(nc.Call.Args[0], 2) == nil {
				c.ok(rule, key+"|strip-then-inject", p.Exit, "alice.New(strip, inject): client values are removed before session values are added")
			} else {
				c.bad(rule, key, p.Exit, "the request-header chain is not exactly (strip, inject) in that order: injected values are stripped or client values survive", p, at)
			}
		})
	}

	// ---- R2 ---------------------------------------------------------------------------------
	rule = "R2-strip-semantics"
	preserveF := c.Field(rule, "pkg/apis/options.Header.PreserveRequestValue")
	nameF := c.Field(rule, "pkg/apis/options.Header.Name")
	headerDel := c.StdFunc(rule, "net/http.Header.Del")
	stripHandler := c.stripHandlerFn(rule)
	if newStrip != nil && preserveF != nil && nameF != nil && stripHandler != nil && headerDel != nil {
		// collection: every append of a Name happens exactly under PreserveRequestValue==false; every
		// loop iteration with PreserveRequestValue==false appends
		appended := 0
		c.Walk(rule, newStrip, func(p *walk.Path) {
			at := p.End()
			type iter struct {
				preserve, known bool
				appended        bool
			}
			// base of a field load X.f as a dynamic value
			baseOf := func(dv walk.DV) (walk.DV, bool) {
				r := p.Resolve(dv)
				u, ok := r.V.(*ssa.UnOp)
				if !ok {
					return walk.DV{}, false
				}
				fa, ok := u.X.(*ssa.FieldAddr)
				if !ok {
					return walk.DV{}, false
				}
				return p.Op(fa.X, p.Op(fa, r)), true
			}
			var appendedBases []walk.DV
			for i, s := range p.Steps {
				call, ok := s.In.(*ssa.Call)
				if !ok {
					continue
				}
				bi, ok := call.Call.Value.(*ssa.Builtin)
				if !ok || bi.Name() != "append" {
					continue
				}
				el := varargElem(call.Call.Args[1], 0)
				if el == nil || !isFieldLoadOf(el, nameF) {
					continue
				}
				appended++
				key := "collect|" + fnKey(newStrip)
				nb, _ := baseOf(p.StepOp(el, s))
				appendedBases = append(appendedBases, nb)
				// the preserve flag of the same entry must be assumed false before
				okGuard := false
				for _, a := range p.Atoms(i) {
					if a.IsNil || a.Val || !isFieldLoadOf(a.DV.V, preserveF) {
						continue
					}
					if pb, ok := baseOf(a.DV); ok && p.Same(pb, nb) {
						okGuard = true
					}
				}
				if okGuard {
					c.ok(rule, key, s.In, "Name collected under !PreserveRequestValue of the same entry")
				} else {
					c.bad(rule, key, s.In, "a header name is collected for stripping without the !PreserveRequestValue test on that entry", p, i)
				}
			}
			// completeness: every entry whose preserve flag was false is collected
			for _, a := range p.Atoms(at) {
				if a.IsNil || a.Val || !isFieldLoadOf(a.DV.V, preserveF) {
					continue
				}
				pb, ok := baseOf(a.DV)
				found := false
				for _, nb := range appendedBases {
					if ok && p.Same(pb, nb) {
						found = true
					}
				}
				key := "collect-complete|" + fnKey(newStrip)
				if found {
					c.ok(rule, key, p.Exit, "every non-preserved entry is collected")
				} else {
					c.bad(rule, key, p.Exit, "an entry without PreserveRequestValue is not collected for stripping", p, at)
				}
			}
			// nil only for an empty collection
			if rv, ok := p.ReturnDV(0); ok && DefinitelyNil(p, rv, at) {
				key := "nil-only-when-empty|" + fnKey(newStrip)
				empty := false
				for _, a := range p.Atoms(at) {
					if b, ok := a.DV.V.(*ssa.BinOp); ok && !a.IsNil && a.Val && b.Op == token.EQL {
						if n, ok := ConstInt(b.Y); ok && n == 0 {
							if call, ok := b.X.(*ssa.Call); ok {
								if bi, ok := call.Call.Value.(*ssa.Builtin); ok && bi.Name() == "len" {
									empty = true
								}
							}
						}
					}
				}
				if empty {
					c.ok(rule, key, p.Exit, "no strip stage only when nothing was collected")
				} else {
					c.bad(rule, key, p.Exit, "the strip stage is dropped although names may have been collected", p, at)
				}
			}
		})
		if appended == 0 {
			c.bad(rule, "collect|"+fnKey(newStrip), newStrip.Blocks[0].Instrs[0], "the strip builder no longer collects configured header names into the list handed to the strip handler", nil, 0)
		}
		// handler: Del(req.Header, element of captured list) for each element, then next
		okDel, okNext := false, false
		c.Walk(rule, stripHandler, func(p *walk.Path) {
			if _, ok := p.Exit.(*ssa.Return); !ok {
				return
			}
			at := p.End()
			// a path that went through the loop body must have called Del on the request header with the element
			bodyVisited := false
			for _, s := range p.Steps {
				if _, ok := s.In.(*ssa.IndexAddr); ok {
					bodyVisited = true
				}
			}
			if bodyVisited {
				if _, ok := Has(p, at, Need{M: walk.Static(headerDel), Out: Called, Where: func(p *walk.Path, k walk.Call) bool {
					hdr := p.Resolve(p.Arg(k, 0)).V
					return fromRequestParam(hdr, stripHandler.Params[1]) && indexOfFreeVar(p.Resolve(p.Arg(k, 1)).V)
				}}); ok {
					okDel = true
				} else {
					c.bad(rule, "del|"+fnKey(stripHandler), p.Exit, "an iteration over the configured names does not call req.Header.Del(name)", p, at)
				}
			}
			next := false
			for _, cl := range p.Calls() {
				if cl.C.IsInvoke() && cl.C.Method.Name() == "ServeHTTP" {
					next = true
				}
			}
			if next {
				okNext = true
			} else {
				c.bad(rule, "next|"+fnKey(stripHandler), p.Exit, "the strip handler does not pass the request on", p, at)
			}
		})
		if okDel {
			c.ok(rule, "del|"+fnKey(stripHandler), stripHandler.Blocks[0].Instrs[0], "req.Header.Del(name) — canonicalising delete — for each configured name")
		} else {
			c.bad(rule, "del|"+fnKey(stripHandler), stripHandler.Blocks[0].Instrs[0], "the strip handler does not delete configured names with the canonicalising http.Header.Del: client values in other letter case survive", nil, 0)
		}
		if okNext {
			c.ok(rule, "next|"+fnKey(stripHandler), stripHandler.Blocks[0].Instrs[0], "next.ServeHTTP after stripping")
		}
		// no conditional on the session in the strip handler
		for _, b := range stripHandler.Blocks {
			for _, in := range b.Instrs {
				if call, ok := in.(*ssa.Call); ok && call.Call.StaticCallee() != nil && call.Call.StaticCallee().Name() == "GetRequestScope" {
					c.bad(rule, "session-independent|"+fnKey(stripHandler), in, "stripping consults the request scope/session: it must be unconditional", nil, 0)
				}
			}
		}
	}

	// ---- R3 ---------------------------------------------------------------------------------
	rule = "R3-only-through-chain"
	chainF := c.Field(rule, "main.OAuthProxy.headersChain")
	upstreamF := c.Field(rule, "main.OAuthProxy.upstreamProxy")
	ctor := c.Fn(rule, "main.NewOAuthProxy")
	bhc := c.Fn(rule, "main.buildHeadersChain")
	authOnly := c.Fn(rule, "(*main.OAuthProxy).AuthOnly")
	if chainF != nil && upstreamF != nil && ctor != nil && bhc != nil && authOnly != nil {
		isChainThen := func(call *ssa.Call, arg ssa.Value) bool {
			sc := call.Call.StaticCallee()
			return sc != nil && sc.Name() == "Then" && sc.Pkg != nil && sc.Pkg.Pkg.Path() == "github.com/justinas/alice" &&
				len(call.Call.Args) == 2 && unwrap(call.Call.Args[1]) == arg && isFieldLoadOf(call.Call.Args[0], chainF)
		}
		servedOnly := func(then *ssa.Call) bool {
			for _, u := range *then.Referrers() {
				if ci, ok := u.(ssa.CallInstruction); ok && ci.Common().IsInvoke() && ci.Common().Method.Name() == "ServeHTTP" && ci.Common().Value == then {
					continue
				}
				if _, ok := u.(*ssa.DebugRef); ok {
					continue
				}
				return false
			}
			return true
		}
		for _, ref := range c.fieldRefs(upstreamF) {
			if ref.Kind != "load" {
				continue
			}
			ld := ref.In.(*ssa.UnOp)
			key := "upstream-through-chain|" + fnKey(ref.Fn)
			okUse := len(*ld.Referrers()) > 0
			for _, u := range *ld.Referrers() {
				if _, ok := u.(*ssa.DebugRef); ok {
					continue
				}
				call, ok := u.(*ssa.Call)
				if !ok || !isChainThen(call, ld) || !servedOnly(call) {
					okUse = false
				}
			}
			if okUse {
				c.ok(rule, key, ref.In, "p.headersChain.Then(p.upstreamProxy).ServeHTTP(rw, req)")
			} else {
				c.bad(rule, key, ref.In, "the upstream handler is used other than as p.headersChain.Then(upstream).ServeHTTP: a path to the upstream without strip+inject", nil, 0)
			}
		}
		// 202 writer
		for _, an := range authOnly.AnonFuncs {
			writes := false
			for _, b := range an.Blocks {
				for _, in := range b.Instrs {
					if ci, ok := in.(ssa.CallInstruction); ok && isInvokeOf(ci.Common(), "net/http.ResponseWriter", "WriteHeader", c.P) {
						writes = true
					}
				}
			}
			if !writes {
				continue
			}
			key := "202-writer-through-chain|" + fnKey(an)
			okUse := false
			for _, b := range authOnly.Blocks {
				for _, in := range b.Instrs {
					call, ok := in.(*ssa.Call)
					if !ok || len(call.Call.Args) != 2 {
						continue
					}
					arg := unwrap(call.Call.Args[1])
					if ct, ok := arg.(*ssa.ChangeType); ok {
						arg = ct.X
					}
					target := false
					switch x := arg.(type) {
					case *ssa.Function:
						target = x == an
					case *ssa.MakeClosure:
						target = x.Fn == an
					}
					if target && isChainThen(call, unwrap(call.Call.Args[1])) && servedOnly(call) {
						okUse = true
					}
				}
			}
			// and no other reference to the writer
			refs := 0
			for _, b := range authOnly.Blocks {
				for _, in := range b.Instrs {
					if refersTo(in, an) {
						refs++
					}
				}
			}
			if okUse && refs == 1 {
				c.ok(rule, key, an.Blocks[0].Instrs[0], "p.headersChain.Then(202 writer).ServeHTTP(rw, req)")
			} else {
				c.bad(rule, key, an.Blocks[0].Instrs[0], "the auth-only 202 writer is not served exclusively through p.headersChain.Then(...): response headers are not derived from the session", nil, 0)
			}
		}
		for _, ref := range c.fieldRefs(chainF) {
			if ref.Kind == "load" {
				continue
			}
			key := "chain-writer|" + fnKey(ref.Fn)
			okSrc := ref.Kind == "store" && ref.Fn == ctor
			if okSrc {
				okSrc = false
				for _, o := range c.origins(ref.Store.Val, 0) {
					if ex, ok := o.(*ssa.Extract); ok {
						if call, ok := ex.Tuple.(*ssa.Call); ok && call.Call.StaticCallee() == bhc {
							okSrc = true
						}
					}
				}
			}
			if okSrc {
				c.ok(rule, key, ref.In, "constructor stores buildHeadersChain's result")
			} else {
				c.bad(rule, key, ref.In, "headersChain is written other than by the constructor from buildHeadersChain", nil, 0)
			}
		}
		// buildHeadersChain = alice.New(requestInjector, responseInjector)
		nrhi2 := c.P.Func("pkg/middleware.NewRequestHeaderInjector")
		nresp := c.P.Func("pkg/middleware.NewResponseHeaderInjector")
		okChain := false
		for _, b := range bhc.Blocks {
			for _, in := range b.Instrs {
				call, ok := in.(*ssa.Call)
				if !ok || call.Call.StaticCallee() == nil || call.Call.StaticCallee().Name() != "New" || call.Call.StaticCallee().Pkg == nil || call.Call.StaticCallee().Pkg.Pkg.Path() != "github.com/justinas/alice" {
					continue
				}
				e0, e1 := varargElem(call.Call.Args[0], 0), varargElem(call.Call.Args[0], 1)
				from := func(v ssa.Value, fn *ssa.Function) bool {
					ex, ok := v.(*ssa.Extract)
					if !ok || ex.Index != 0 {
						return false
					}
					cl, ok := ex.Tuple.(*ssa.Call)
					return ok && cl.Call.StaticCallee() == fn
				}
				if e0 != nil && e1 != nil && from(e0, nrhi2) && from(e1, nresp) {
					okChain = true
				}
			}
		}
		if okChain {
			c.ok(rule, "chain-content|"+fnKey(bhc), bhc.Blocks[0].Instrs[0], "alice.New(NewRequestHeaderInjector(InjectRequestHeaders), NewResponseHeaderInjector(InjectResponseHeaders))")
		} else {
			c.bad(rule, "chain-content|"+fnKey(bhc), bhc.Blocks[0].Instrs[0], "the headers chain is not (request injector, response injector)", nil, 0)
		}
	}

	runC07R4R5(c)
	runC07R6(c)
	runC07R7(c, "R7-claim-field-table")
	runC07R8(c, "R8-gap-auth-replaced")
	runC04R8(c, "R9-session-belongs-to-request")
	if a := c.c12Anchors("R9-session-belongs-to-request"); a != nil {
		c.checkRefreshProtocol("R9-session-belongs-to-request", a)
	}
}

// fromRequestParam: v is *(&req.Header) for the given request parameter.
func fromRequestParam(v ssa.Value, req ssa.Value) bool {
	u, ok := v.(*ssa.UnOp)
	if !ok {
		return false
	}
	fa, ok := u.X.(*ssa.FieldAddr)
	return ok && fa.X == req && walk.FieldOf(fa.X.Type(), fa.Field).Name() == "Header"
}

// indexOfFreeVar: v is an element of a slice loaded from a captured variable.
func indexOfFreeVar(v ssa.Value) bool {
	u, ok := v.(*ssa.UnOp)
	if !ok {
		return false
	}
	ia, ok := u.X.(*ssa.IndexAddr)
	if !ok {
		return false
	}
	ld, ok := ia.X.(*ssa.UnOp)
	if !ok {
		_, isFV := ia.X.(*ssa.FreeVar)
		return isFV
	}
	_, isFV := ld.X.(*ssa.FreeVar)
	return isFV
}

func runC07R4R5(c *Ctx) {
	rule := "R4-value-provenance"
	getClaim := c.Fn(rule, "(*pkg/apis/sessions.SessionState).GetClaim")
	if getClaim == nil {
		return
	}
	// every Header.Add/Set in pkg/header: value provenance
	n := 0
	for _, fn := range c.P.ModFns {
		if prog.Short(prog.FnPkg(fn).Path()) != "pkg/header" {
			continue
		}
		for _, b := range fn.Blocks {
			for _, in := range b.Instrs {
				call, ok := in.(*ssa.Call)
				if !ok {
					continue
				}
				sc := call.Call.StaticCallee()
				if sc == nil || sc.Signature.Recv() == nil || !isHTTPHeader(sc.Signature.Recv().Type()) || (sc.Name() != "Add" && sc.Name() == "Set") {
					continue
				}
				if sc.Name() != "Add" && sc.Name() != "Set" {
					if sc.Name() == "Get" || sc.Name() == "Values" {
						c.bad(rule, "header-read|"+fnKey(fn), in, "the injector reads a header: client-supplied values can flow into injected ones", nil, 0)
					}
					continue
				}
				n++
				key := "write|" + fnKey(fn)
				if why := c.injectedValueOK(call.Call.Args[2], getClaim, 0); why == "" {
					c.ok(rule, key, in, "value derives only from GetClaim / configured values / constants")
				} else {
					c.bad(rule, key, in, "an injected header value derives from "+why, nil, 0)
				}
				// the name is the configured name (captured), not request data
				if why := c.injectedValueOK(call.Call.Args[1], getClaim, 0); why != "" {
					c.bad(rule, key+"|name", in, "an injected header name derives from "+why, nil, 0)
				}
				// the session used is the injector's parameter
			}
		}
	}
	if n < 3 {
		c.R.Unknown(rule, "write|count", "-", sprintf("only %d header writes found in pkg/header (expected the secret, basic-auth, prefix and plain claim injectors)", n))
	}
	// GetClaim: nil receiver => empty result
	c.Walk(rule, getClaim, func(p *walk.Path) {
		if n, k := p.Nil(walk.DV{V: getClaim.Params[0]}, p.End()); !(k && n) {
			return
		}
		rv, ok := p.ReturnDV(0)
		if !ok {
			return
		}
		key := "nil-session-no-values|" + fnKey(getClaim)
		empty := false
		switch x := p.Resolve(rv).V.(type) {
		case *ssa.Slice:
			if al, ok := x.X.(*ssa.Alloc); ok && strings.Contains(al.Type().String(), "[0]") {
				empty = true
			}
		case *ssa.MakeSlice:
			if n, ok := ConstInt(x.Len); ok && n == 0 {
				empty = true
			}
		case *ssa.Const:
			empty = x.Value == nil
		}
		if empty {
			c.ok(rule, key, p.Exit, "nil session yields no claim values")
		} else {
			c.bad(rule, key, p.Exit, "GetClaim returns values for a nil session", p, p.End())
		}
	})
	// the inject handlers: Inject(req.Header / rw.Header(), scope.Session) then next
	injectM := c.Method(rule, "pkg/header.Injector.Inject")
	scopeSessF := c.Field(rule, "pkg/apis/middleware.RequestScope.Session")
	getScope := c.Fn(rule, "pkg/apis/middleware.GetRequestScope")
	if injectM != nil && scopeSessF != nil && getScope != nil {
		for _, spec := range []struct {
			name    string
			request bool
		}{{"pkg/middleware.injectRequestHeaders$1", true}, {"pkg/middleware.injectResponseHeaders$1", false}} {
			h := c.Fn(rule, spec.name)
			if h == nil {
				continue
			}
			spec := spec
			c.Walk(rule, h, func(p *walk.Path) {
				if _, ok := p.Exit.(*ssa.Return); !ok {
					return
				}
				key := "handler|" + fnKey(h)
				ic, ok := Has(p, p.End(), Need{M: walk.Invoke(c.P, injectM), Out: Called})
				if !ok {
					c.bad(rule, key, p.Exit, "the handler returns without injecting", p, p.End())
					return
				}
				hdr := p.Resolve(p.Arg(ic, 0)).V
				okHdr := false
				if spec.request {
					okHdr = fromRequestParam(hdr, h.Params[1])
				} else if call, ok := hdr.(*ssa.Call); ok && call.Call.IsInvoke() && call.Call.Method.Name() == "Header" && call.Call.Value == h.Params[0] {
					okHdr = true
				}
				sess := p.Resolve(p.Arg(ic, 1))
				okSess := false
				if b, ok := walk.FieldLoadBase(sess.V, scopeSessF); ok {
					if gs, ok := extractOfCall(p, p.Op(b, p.Op(sess.V.(*ssa.UnOp).X, sess)), 0); ok && gs.C.StaticCallee() == getScope && p.Resolve(p.Arg(gs, 0)).V == h.Params[1] {
						okSess = true
					}
				}
				next := false
				for _, cl := range p.Calls() {
					if cl.C.IsInvoke() && cl.C.Method.Name() == "ServeHTTP" && cl.Idx > ic.Idx {
						next = true
					}
				}
				if okHdr && okSess && next {
					c.ok(rule, key, p.Exit, "Inject(own header map, GetRequestScope(req).Session) before next")
				} else {
					c.bad(rule, key, p.Exit, sprintf("inject handler wiring broken (own header map:%v scope session:%v next after inject:%v)", okHdr, okSess, next), p, p.End())
				}
			})
		}
	}

	// ---- R5 ---------------------------------------------------------------------------------
	rule = "R5-legacy-conversion"
	grh := c.Fn(rule, "(*pkg/apis/options.LegacyHeaders).getRequestHeaders")
	preserveF := c.Field(rule, "pkg/apis/options.Header.PreserveRequestValue")
	skipF := c.Field(rule, "pkg/apis/options.LegacyHeaders.SkipAuthStripHeaders")
	if grh != nil && preserveF != nil && skipF != nil {
		okPaths, stores := true, 0
		c.Walk(rule, grh, func(p *walk.Path) {
			if _, ok := p.Exit.(*ssa.Return); !ok {
				return
			}
			lastAppend, firstStore := -1, -1
			for i, s := range p.Steps {
				if call, ok := s.In.(*ssa.Call); ok {
					if bi, ok := call.Call.Value.(*ssa.Builtin); ok && bi.Name() == "append" {
						lastAppend = i
					}
				}
				if st, ok := s.In.(*ssa.Store); ok {
					if fa, ok := st.Addr.(*ssa.FieldAddr); ok && walk.FieldOf(fa.X.Type(), fa.Field) == preserveF {
						stores++
						if firstStore < 0 {
							firstStore = i
						}
						// value: !l.SkipAuthStripHeaders
						u, ok := st.Val.(*ssa.UnOp)
						if !ok || u.Op != token.NOT || !isFieldLoadOf(u.X, skipF) {
							okPaths = false
							c.bad(rule, "value|"+fnKey(grh), s.In, "PreserveRequestValue is not set to !SkipAuthStripHeaders", p, i)
						}
						// element of the returned slice indexed by the range variable
						if _, ok := fa.X.(*ssa.IndexAddr); !ok {
							okPaths = false
							c.bad(rule, "element|"+fnKey(grh), s.In, "the flag is not written into an element of the header list", p, i)
						}
					}
				}
			}
			if firstStore >= 0 && lastAppend > firstStore {
				okPaths = false
				c.bad(rule, "after-last-append|"+fnKey(grh), p.Exit, "a header is appended after the PreserveRequestValue loop: it keeps the zero value (strip) regardless of skip-auth-strip-headers", p, p.End())
			}
		})
		if stores == 0 {
			c.bad(rule, "loop|"+fnKey(grh), grh.Blocks[0].Instrs[0], "getRequestHeaders no longer applies SkipAuthStripHeaders to the converted headers", nil, 0)
		} else if okPaths {
			c.ok(rule, "loop|"+fnKey(grh), grh.Blocks[0].Instrs[0], "every element gets PreserveRequestValue = !SkipAuthStripHeaders after the last append")
		}
	}
}

// injectedValueOK returns "" if the value derives only from allowed origins, else a description of the offending origin.
func (c *Ctx) injectedValueOK(v ssa.Value, getClaim *ssa.Function, depth int) string {
	if depth > 24 {
		return "a derivation too deep to decide"
	}
	v = unwrap0(v)
	switch x := v.(type) {
	case *ssa.Const, *ssa.FreeVar, *ssa.Parameter:
		if pa, ok := x.(*ssa.Parameter); ok && isHTTPHeader(pa.Type()) {
			return "the header map itself"
		}
		return ""
	case *ssa.Phi:
		for _, e := range x.Edges {
			if why := c.injectedValueOK(e, getClaim, depth+1); why != "" {
				return why
			}
		}
		return ""
	case *ssa.BinOp:
		if why := c.injectedValueOK(x.X, getClaim, depth+1); why != "" {
			return why
		}
		return c.injectedValueOK(x.Y, getClaim, depth+1)
	case *ssa.Convert:
		return c.injectedValueOK(x.X, getClaim, depth+1)
	case *ssa.MakeInterface:
		return c.injectedValueOK(x.X, getClaim, depth+1)
	case *ssa.Slice:
		return c.injectedValueOK(x.X, getClaim, depth+1)
	case *ssa.UnOp:
		if x.Op != token.MUL {
			return c.injectedValueOK(x.X, getClaim, depth+1)
		}
		switch a := x.X.(type) {
		case *ssa.Global:
			return "" // package-level constant-like value (base64.StdEncoding)
		case *ssa.FreeVar:
			return "" // captured configuration (name, prefix, secret bytes, source)
		case *ssa.FieldAddr:
			// field of captured configuration (source.Claim, source.Prefix)
			return c.injectedValueOK(a.X, getClaim, depth+1)
		case *ssa.IndexAddr:
			// element of a slice: the slice must be GetClaim's result or configuration
			return c.injectedValueOK(a.X, getClaim, depth+1)
		case *ssa.Alloc:
			for _, st := range storesTo(a) {
				if why := c.injectedValueOK(st.Val, getClaim, depth+1); why != "" {
					return why
				}
			}
			return ""
		}
		return "memory of unknown origin (" + x.String() + ")"
	case *ssa.Call:
		sc := x.Call.StaticCallee()
		if sc == getClaim {
			return ""
		}
		if sc != nil && sc.Pkg != nil {
			switch sc.Pkg.Pkg.Path() + "." + sc.Name() {
			case "fmt.Sprintf", "encoding/base64.EncodeToString", "strings.Join":
				for _, a := range x.Call.Args {
					if why := c.injectedValueOK(a, getClaim, depth+1); why != "" {
						return why
					}
				}
				return ""
			}
			if sc.Signature.Recv() != nil && isHTTPHeader(sc.Signature.Recv().Type()) {
				return "a header read (" + sc.Name() + ")"
			}
		}
		return "the result of " + walk.CalleeName(&x.Call)
	case *ssa.Alloc:
		// varargs backing array
		for _, r := range *x.Referrers() {
			if ia, ok := r.(*ssa.IndexAddr); ok {
				for _, r2 := range *ia.Referrers() {
					if st, ok := r2.(*ssa.Store); ok && st.Addr == ia {
						if why := c.injectedValueOK(st.Val, getClaim, depth+1); why != "" {
							return why
						}
					}
				}
			}
		}
		return ""
	case *ssa.Global:
		return ""
	case *ssa.Lookup:
		if isHTTPHeader(x.X.Type()) {
			return "a header read (index)"
		}
	}
	return "an unrecognised origin (" + v.String() + ")"
}

// runC07R6: empty claims inject nothing; legacy flags select their header groups as documented.
func runC07R6(c *Ctx) {
	rule := "R6-empty-claims-and-legacy-table"
	getClaim := c.Fn(rule, "(*pkg/apis/sessions.SessionState).GetClaim")
	if getClaim == nil {
		return
	}
	// every Header.Add in a claim injector closure happens on a path where the claim element itself is known non-empty
	n := 0
	for _, fn := range c.P.ModFns {
		if prog.Short(prog.FnPkg(fn).Path()) != "pkg/header" || fn.Parent() == nil {
			continue
		}
		usesClaims := false
		for _, b := range fn.Blocks {
			for _, in := range b.Instrs {
				if call, ok := in.(*ssa.Call); ok && call.Call.StaticCallee() == getClaim {
					usesClaims = true
				}
			}
		}
		if !usesClaims {
			continue
		}
		fn := fn
		c.Walk(rule, fn, func(p *walk.Path) {
			for i, s := range p.Steps {
				call, ok := s.In.(*ssa.Call)
				if !ok || call.Call.StaticCallee() == nil || call.Call.StaticCallee().Name() != "Add" || call.Call.StaticCallee().Signature.Recv() == nil || !isHTTPHeader(call.Call.StaticCallee().Signature.Recv().Type()) {
					continue
				}
				n++
				key := "non-empty-claim|" + fnKey(fn)
				// some element of GetClaim's result is assumed != "" before the Add
				okGuard := eqConstAtom(p, i, false, "", func(x walk.DV) bool {
					u, ok := p.Resolve(x).V.(*ssa.UnOp)
					if !ok {
						return false
					}
					ia, ok := u.X.(*ssa.IndexAddr)
					if !ok {
						return false
					}
					gc, ok := ia.X.(*ssa.Call)
					return ok && gc.Call.StaticCallee() == getClaim
				})
				if okGuard {
					c.ok(rule, key, s.In, "header added only for a non-empty claim value")
				} else {
					c.bad(rule, key, s.In, "a header is added without the claim value itself having been tested non-empty: an empty claim yields a header (e.g. a bare prefix)", p, i)
				}
			}
		})
	}
	if n == 0 {
		c.R.Unknown(rule, "non-empty-claim|none", "-", "no claim-driven Header.Add found in pkg/header")
	}
	// legacy request headers: flag -> header group table (from the option documentation)
	grh := c.Fn(rule, "(*pkg/apis/options.LegacyHeaders).getRequestHeaders")
	if grh == nil {
		return
	}
	type row struct {
		helper string
		cond   func(f map[string]bool, known map[string]bool, pwNonEmpty, pwKnown bool) (must, mustNot bool)
	}
	flagF := map[string]*types.Var{}
	for _, n := range []string{"PassBasicAuth", "PassUserHeaders", "PassAccessToken", "PassAuthorization"} {
		flagF[n] = c.Field(rule, "pkg/apis/options.LegacyHeaders."+n)
	}
	pwF := c.Field(rule, "pkg/apis/options.LegacyHeaders.BasicAuthPassword")
	helpers := map[string]*ssa.Function{}
	for _, h := range []string{"getBasicAuthHeader", "getPassUserHeaders", "getPreferredUsernameHeader", "getPassAccessTokenHeader", "getAuthorizationHeader"} {
		helpers[h] = c.Fn(rule, "pkg/apis/options."+h)
	}
	for _, v := range flagF {
		if v == nil {
			return
		}
	}
	if pwF == nil {
		return
	}
	c.Walk(rule, grh, func(p *walk.Path) {
		if _, ok := p.Exit.(*ssa.Return); !ok {
			return
		}
		at := p.End()
		val, known := map[string]bool{}, map[string]bool{}
		for _, a := range p.Atoms(at) {
			if a.IsNil {
				continue
			}
			for n, f := range flagF {
				if isFieldLoadOf(a.DV.V, f) {
					if known[n] && val[n] != a.Val {
						return // the same (never written) option read twice with different outcomes: infeasible path
					}
					val[n], known[n] = a.Val, true
				}
			}
		}
		pwEmpty, pwKnown := false, false
		for _, a := range p.Atoms(at) {
			if b, ok := a.DV.V.(*ssa.BinOp); ok && !a.IsNil {
				for _, pair := range [][2]ssa.Value{{b.X, b.Y}, {b.Y, b.X}} {
					if s, ok := ConstString(pair[1]); ok && s == "" && isFieldLoadOf(pair[0], pwF) {
						if pwKnown && pwEmpty != a.Val {
							return
						}
						pwEmpty, pwKnown = a.Val, true
					}
				}
			}
		}
		called := map[string]bool{}
		for _, cl := range p.Calls() {
			for h, fn := range helpers {
				if fn != nil && cl.C.StaticCallee() == fn {
					called[h] = true
				}
			}
		}
		check := func(helper string, must, mustNot bool, why string) {
			key := "legacy|" + helper
			switch {
			case must && !called[helper]:
				c.bad(rule, key, p.Exit, "legacy flags on this path require the "+helper+" headers ("+why+") but they are not added: configured names are then neither stripped nor injected", p, at)
			case mustNot && called[helper]:
				c.bad(rule, key, p.Exit, helper+" headers are added although the flags on this path do not ask for them ("+why+")", p, at)
			default:
				c.ok(rule, key, p.Exit, why)
			}
		}
		// the path fixes a flag only if it tested it; a flag it never tested is unconstrained
		T := func(n string) bool { return known[n] && val[n] }
		F := func(n string) bool { return known[n] && !val[n] }
		check("getPassUserHeaders", T("PassBasicAuth") || T("PassUserHeaders"), F("PassBasicAuth") && F("PassUserHeaders"), "PassBasicAuth || PassUserHeaders")
		check("getPreferredUsernameHeader", T("PassBasicAuth") || T("PassUserHeaders"), F("PassBasicAuth") && F("PassUserHeaders"), "PassBasicAuth || PassUserHeaders")
		check("getPassAccessTokenHeader", T("PassAccessToken"), F("PassAccessToken"), "PassAccessToken")
		check("getAuthorizationHeader", T("PassAuthorization"), F("PassAuthorization"), "PassAuthorization")
		check("getBasicAuthHeader", T("PassBasicAuth") && pwKnown && !pwEmpty, F("PassBasicAuth") || (pwKnown && pwEmpty), "PassBasicAuth && BasicAuthPassword != \"\"")
	})
}

// runC07R7: GetClaim hands out, for each claim name, only the session field of that name — never a
// substitute taken from another (user-editable) field, and nothing for an unknown claim or a nil session.
func runC07R7(c *Ctx, rule string) {
	gc := c.Fn(rule, "(*pkg/apis/sessions.SessionState).GetClaim")
	if gc == nil {
		return
	}
	table := map[string]string{
		"access_token": "AccessToken", "id_token": "IDToken", "refresh_token": "RefreshToken",
		"created_at": "CreatedAt", "expires_on": "ExpiresOn",
		"email": "Email", "user": "User", "groups": "Groups", "preferred_username": "PreferredUsername",
	}
	recv, claimP := gc.Params[0], gc.Params[1]
	// fieldsOf: the receiver fields a value derives from (through loads, String(), conversions, copies)
	var fieldsOf func(p *walk.Path, dv walk.DV, out map[string]bool, depth int)
	fieldsOf = func(p *walk.Path, dv walk.DV, out map[string]bool, depth int) {
		if depth > 8 {
			out["?"] = true
			return
		}
		r := p.Resolve(dv)
		switch v := r.V.(type) {
		case *ssa.Const:
		case *ssa.UnOp:
			if fa, ok := v.X.(*ssa.FieldAddr); ok && p.Resolve(p.Op(fa.X, r)).V == ssa.Value(recv) {
				out[walk.FieldOf(fa.X.Type(), fa.Field).Name()] = true
				return
			}
			fieldsOf(p, p.Op(v.X, r), out, depth+1)
		case *ssa.Call:
			if len(v.Call.Args) == 0 {
				out["?"] = true
				return
			}
			for _, a := range v.Call.Args {
				fieldsOf(p, p.Op(a, r), out, depth+1)
			}
		case *ssa.Convert:
			fieldsOf(p, p.Op(v.X, r), out, depth+1)
		case *ssa.ChangeType:
			fieldsOf(p, p.Op(v.X, r), out, depth+1)
		case *ssa.Phi, *ssa.Parameter:
			out["?"] = true
		default:
			out["?"] = true
		}
	}
	c.Walk(rule, gc, func(p *walk.Path) {
		rv, ok := p.ReturnDV(0)
		if !ok {
			return
		}
		at := p.End()
		claim := ""
		for k := range table {
			if eqConstAtom(p, at, true, k, func(x walk.DV) bool { return p.Resolve(x).V == ssa.Value(claimP) }) {
				claim = k
			}
		}
		// what flows into the returned slice: stores into its backing array, copy() sources
		got := map[string]bool{}
		r := p.Resolve(rv)
		var backing ssa.Value
		if sl, ok := r.V.(*ssa.Slice); ok {
			backing = sl.X
		}
		for _, s := range p.Steps {
			switch v := s.In.(type) {
			case *ssa.Store:
				if ia, ok := v.Addr.(*ssa.IndexAddr); ok && backing != nil && ia.X == backing {
					fieldsOf(p, p.StepOp(v.Val, s), got, 0)
				}
			case *ssa.Call:
				if bi, ok := v.Call.Value.(*ssa.Builtin); ok && bi.Name() == "copy" && p.Same(p.StepOp(v.Call.Args[0], s), rv) {
					fieldsOf(p, p.StepOp(v.Call.Args[1], s), got, 0)
				}
			}
		}
		if _, isSlice := r.V.(*ssa.Slice); !isSlice {
			if _, isMake := r.V.(*ssa.MakeSlice); !isMake {
				fieldsOf(p, rv, got, 0) // the field itself is returned
			}
		}
		var names []string
		for k := range got {
			names = append(names, k)
		}
		sort.Strings(names)
		key := "claim|" + claim
		switch {
		case claim == "":
			if len(got) == 0 {
				c.ok(rule, "claim|<other>", p.Exit, "unknown claim or nil session: empty result")
			} else if got["?"] {
				c.bad(rule, "claim|<other>", p.Exit, "GetClaim returns a value of unknown origin for a claim name the rule table does not know", p, at)
			} else {
				c.ok(rule, "claim|<new>", p.Exit, "claim outside the table: value taken from session field(s) "+strings.Join(names, ","))
			}
		case len(got) == 0:
			c.ok(rule, key+"|empty", p.Exit, "no value (field unset)")
		case len(got) == 1 && got[table[claim]]:
			c.ok(rule, key, p.Exit, "value of session field "+table[claim])
		default:
			c.bad(rule, key, p.Exit, sprintf("claim %q is answered from session field(s) %s instead of only %s: a header configured for this claim carries another, possibly user-editable, value", claim, strings.Join(names, ","), table[claim]), p, at)
		}
	})
}

// runC07R8: the upstream proxy replaces a client-supplied GAP-Auth header (and signs) before it hands
// the request to ANY upstream handler whenever request signing is configured.
func runC07R8(c *Ctx, rule string) {
	fn := c.Fn(rule, "(*pkg/upstream.httpUpstreamProxy).ServeHTTP")
	authF := c.Field(rule, "pkg/upstream.httpUpstreamProxy.auth")
	hdrSet := c.StdFunc(rule, "net/http.Header.Set")
	hdrGet := c.StdFunc(rule, "net/http.Header.Get")
	reqHeaderF := c.P.Field("net/http.Request.Header")
	if fn == nil || authF == nil || hdrSet == nil || hdrGet == nil || reqHeaderF == nil {
		return
	}
	n := 0
	c.Walk(rule, fn, func(p *walk.Path) {
		for _, cl := range p.Calls() {
			if !cl.C.IsInvoke() || cl.C.Method.Name() != "ServeHTTP" {
				continue
			}
			n++
			key := "gap-auth-replaced|" + fnKey(fn)
			// signing not configured on this path?
			authNil := false
			for _, a := range p.Atoms(cl.Idx) {
				if a.IsNil && a.Val && walk.IsFieldLoad(p.Resolve(a.DV).V, authF) {
					authNil = true
				}
			}
			if authNil {
				c.ok(rule, key+"|no-signing", cl.In, "request signing is not configured on this path")
				continue
			}
			replaced := false
			for _, sc := range p.Find(walk.Static(hdrSet), cl.Idx) {
				k, isK := ConstString(p.Resolve(p.Arg(sc, 1)).V)
				if !isK || !strings.EqualFold(k, "GAP-Auth") {
					continue
				}
				base, isReqHdr := walk.FieldLoadBase(p.Resolve(p.Arg(sc, 0)).V, reqHeaderF)
				if !isReqHdr || base != ssa.Value(fn.Params[2]) {
					continue
				}
				if gcl, ok := extractOfCall(p, p.Arg(sc, 2), 0); ok && gcl.C.StaticCallee() == hdrGet {
					if hc, ok := extractOfCall(p, p.Arg(gcl, 0), 0); ok && hc.C.IsInvoke() && hc.C.Method.Name() == "Header" && p.Resolve(p.Recv(hc)).V == ssa.Value(fn.Params[1]) {
						replaced = true
					}
				}
			}
			if replaced {
				c.ok(rule, key, cl.In, "req.Header.Set(\"GAP-Auth\", rw.Header().Get(\"GAP-Auth\")) precedes the hand-off")
			} else {
				c.bad(rule, key, cl.In, "with request signing configured the request reaches an upstream handler without its GAP-Auth header having been replaced by the proxy's own value: a client-supplied identity header passes through", p, cl.Idx)
			}
		}
	})
	if n == 0 {
		c.R.Unknown(rule, "gap-auth-replaced|none", c.P.Pos(fn.Pos()), "the upstream proxy hands the request to no handler")
	}
}

// stripHandlerFn finds the request handler that strips the configured header names: the closure created
// within (static reach 2 of) newStripHeaders that calls http.Header.Del. It is found by what it does, so
// inlining the stripHeaders helper into its caller, or renaming it, does not lose the anchor.
func (c *Ctx) stripHandlerFn(rule string) *ssa.Function {
	newStrip := c.P.Func("pkg/middleware.newStripHeaders")
	headerDel := c.P.SSA.FuncValue(c.P.Method("net/http.Header.Del"))
	if newStrip == nil || headerDel == nil {
		c.R.Unknown(rule, "anchor:strip-handler", "-", "newStripHeaders or http.Header.Del not found")
		return nil
	}
	var found []*ssa.Function
	for fn := range c.staticReach(newStrip, 2) {
		for _, b := range fn.Blocks {
			for _, in := range b.Instrs {
				mc, ok := in.(*ssa.MakeClosure)
				if !ok {
					continue
				}
				cl := mc.Fn.(*ssa.Function)
				for _, b2 := range cl.Blocks {
					for _, in2 := range b2.Instrs {
						if call, ok := in2.(*ssa.Call); ok && call.Call.StaticCallee() == headerDel {
							found = append(found, cl)
						}
					}
				}
			}
		}
	}
	if len(found) == 0 {
		c.R.Unknown(rule, "anchor:strip-handler", "-", "no closure reachable from newStripHeaders deletes request headers")
		return nil
	}
	sort.Slice(found, func(i, j int) bool { return found[i].String() < found[j].String() })
	if c.anchors == nil {
		c.anchors = map[*ssa.Function]bool{}
	}
	c.anchors[found[0]] = true
	return found[0]
}

// runC07R10: the injectors are built at start-up from Options.InjectRequestHeaders / InjectResponseHeaders, after
// validation has looked at the same slices. Every use of those two lists and of each Header.Values outside
// pkg/apis/options is read-only — no element store, no sort/copy into them, no append into a shortened alias (the
// filter-in-place idiom), also through helpers — so the values a header carries are the ones configured.
func runC07R10(c *Ctx, rule string) {
	var fields []*types.Var
	for _, n := range []string{"pkg/apis/options.Options.InjectRequestHeaders", "pkg/apis/options.Options.InjectResponseHeaders", "pkg/apis/options.Header.Values"} {
		if f := c.Field(rule, n); f != nil {
			fields = append(fields, f)
		}
	}
	for _, f := range fields {
		n, bad := 0, false
		for _, ref := range c.fieldRefs(f) {
			if strings.HasPrefix(prog.Short(prog.FnPkg(ref.Fn).Path()), "pkg/apis/options") {
				continue
			}
			if ref.Store != nil {
				bad = true
				c.bad(rule, "field-store|"+f.Name()+"|"+fnKey(ref.Fn), ref.In, f.Name()+" is reassigned outside option loading", nil, 0)
				continue
			}
			v, ok := ref.In.(ssa.Value)
			if !ok || v.Referrers() == nil {
				continue
			}
			if _, isSlice := v.Type().Underlying().(*types.Slice); !isSlice {
				continue
			}
			n++
			if why := mutatesSlice(c, v, 0); why != "" {
				bad = true
				c.bad(rule, "mutated|"+f.Name()+"|"+fnKey(ref.Fn), ref.In, "the operator's "+f.Name()+" list is "+why+" before the injectors are built from it: a header then carries other values than configured (a static value lost, session values repeated)", nil, 0)
			}
		}
		switch {
		case n == 0:
			c.R.Unknown(rule, "readers|"+f.Name(), "-", "no reader of "+f.Name()+" found")
		case !bad:
			c.R.OK(rule, "read-only|"+f.Name(), "-", sprintf("%d use(s) of %s outside option loading, all read-only", n, f.Name()))
		}
	}
}

// runC07R12 (round 7): the group list of a session is shared by everything that handles the request after the session
// was loaded — Authorize, the auth-only constraints, the header injectors, the store that re-saves it. None of them
// edits it in place: a helper that filters "the allowed ones" into groups[:0], sorts or de-duplicates the slice it was
// handed overwrites the elements the injectors read next (X-Forwarded-Groups then carries a list the session never
// had). Providers REPLACE the field (s.Groups = …); that is a store to the field, not an edit of the shared array.
func runC07R12(c *Ctx, rule string) {
	f := c.Field(rule, "pkg/apis/sessions.SessionState.Groups")
	if f == nil {
		return
	}
	n, bad := 0, false
	for _, fn := range c.P.ModFns {
		for _, b := range fn.Blocks {
			for _, in := range b.Instrs {
				ld, ok := in.(*ssa.UnOp)
				if !ok || !walk.IsFieldLoad(ld, f) {
					continue
				}
				n++
				if why := mutatesSlice(c, ld, 0); why != "" {
					bad = true
					c.bad(rule, "groups-edited-in-place|"+fnKey(fn), in, "the session's group list is "+why+": the array is the one the header injectors and the store read afterwards, so upstream and auth-only response headers carry groups that are not the authenticated session's", nil, 0)
				}
			}
		}
	}
	switch {
	case n == 0:
		c.R.Unknown(rule, "groups-edited-in-place|none", "-", "no reader of SessionState.Groups found")
	case !bad:
		c.R.OK(rule, "groups-edited-in-place|none", "-", sprintf("%d load(s) of SessionState.Groups, none edits the list in place", n))
	}
}
