package prog

import (
	_ "embed"
	"encoding/json"
	"fmt"
	"go/types"
	"sort"
	"strings"
	"sync"

	"golang.org/x/tools/go/ssa"
)

// Rename tolerance.
//
// Rules name about a hundred functions and fields of the repository ("anchors"). A pure rename (or a
// move to another package) of one of them changes no behaviour, but would leave the rule without its
// anchor, which by policy is a failure. To keep such refactorings silent, anchors.json — generated
// from the reference tree with `oapsa -dump-anchors`, committed, embedded in the binary — records a
// fingerprint of every module function (signature without parameter names, receiver type, callee
// set) and every struct field (struct, type). When the analysed tree lacks a reference name and
// contains exactly one new function/field with a matching fingerprint, the old name is kept as an
// alias for it; everything the checker prints or keys by name uses the reference name, so reviewed
// tables keep matching. The aliases applied are listed in the evidence. Anything ambiguous stays
// unresolved (and fails as before).

//go:embed anchors.json
var refJSON []byte

// FnPrint is the fingerprint of one module function.
type FnPrint struct {
	Name    string   `json:"name"`
	Recv    string   `json:"recv,omitempty"` // receiver type, short-qualified, without pointer
	Sig     string   `json:"sig"`            // parameter and result types only
	Callees []string `json:"callees,omitempty"`
}

// FieldPrint is the fingerprint of one struct field of a module type.
type FieldPrint struct {
	Struct string `json:"struct"`
	Name   string `json:"name"`
	Type   string `json:"type"`
}

// Ref is the content of anchors.json.
type Ref struct {
	Funcs  []FnPrint    `json:"funcs"`
	Fields []FieldPrint `json:"fields"`
}

var canon sync.Map // *ssa.Function -> reference name

func shortQual(p *types.Package) string { return Short(p.Path()) }

func sigString(sig *types.Signature) string {
	var sb strings.Builder
	sb.WriteString("(")
	for i := 0; i < sig.Params().Len(); i++ {
		if i > 0 {
			sb.WriteString(",")
		}
		sb.WriteString(types.TypeString(sig.Params().At(i).Type(), shortQual))
	}
	if sig.Variadic() {
		sb.WriteString("...")
	}
	sb.WriteString(")(")
	for i := 0; i < sig.Results().Len(); i++ {
		if i > 0 {
			sb.WriteString(",")
		}
		sb.WriteString(types.TypeString(sig.Results().At(i).Type(), shortQual))
	}
	sb.WriteString(")")
	return sb.String()
}

func fnPrint(fn *ssa.Function) FnPrint {
	fp := FnPrint{Name: Short(fn.String()), Sig: sigString(fn.Signature)}
	if r := fn.Signature.Recv(); r != nil {
		t := r.Type()
		if pt, ok := t.(*types.Pointer); ok {
			t = pt.Elem()
		}
		fp.Recv = types.TypeString(t, shortQual)
	}
	set := map[string]bool{}
	for _, b := range fn.Blocks {
		for _, in := range b.Instrs {
			ci, ok := in.(ssa.CallInstruction)
			if !ok {
				continue
			}
			cc := ci.Common()
			switch {
			case cc.IsInvoke():
				set["invoke:"+cc.Method.Name()] = true
			case cc.StaticCallee() != nil:
				set[Short(cc.StaticCallee().String())] = true
			}
		}
	}
	for k := range set {
		fp.Callees = append(fp.Callees, k)
	}
	sort.Strings(fp.Callees)
	return fp
}

// Fingerprints computes the reference data for the loaded program.
func (p *Program) Fingerprints() Ref {
	var r Ref
	for _, fn := range p.ModFns {
		if fn.Parent() != nil {
			continue // closures follow their parent
		}
		r.Funcs = append(r.Funcs, fnPrint(fn))
	}
	sort.Slice(r.Funcs, func(i, j int) bool { return r.Funcs[i].Name < r.Funcs[j].Name })
	for _, pk := range p.SortedMod() {
		scope := p.Mod[pk].Types.Scope()
		for _, n := range scope.Names() {
			tn, ok := scope.Lookup(n).(*types.TypeName)
			if !ok || tn.IsAlias() {
				continue
			}
			st, ok := tn.Type().Underlying().(*types.Struct)
			if !ok {
				continue
			}
			for i := 0; i < st.NumFields(); i++ {
				r.Fields = append(r.Fields, FieldPrint{pk + "." + n, st.Field(i).Name(), types.TypeString(st.Field(i).Type(), shortQual)})
			}
		}
	}
	return r
}

// applyRenames installs aliases for reference names that the analysed tree lacks.
func (p *Program) applyRenames() {
	var ref Ref
	if len(refJSON) == 0 || json.Unmarshal(refJSON, &ref) != nil {
		return
	}
	cur := p.Fingerprints()
	curByName := map[string]FnPrint{}
	for _, f := range cur.Funcs {
		curByName[f.Name] = f
	}
	refByName := map[string]FnPrint{}
	for _, f := range ref.Funcs {
		refByName[f.Name] = f
	}
	var missing, novel []FnPrint
	for _, f := range ref.Funcs {
		if _, ok := curByName[f.Name]; !ok {
			missing = append(missing, f)
		}
	}
	for _, f := range cur.Funcs {
		if _, ok := refByName[f.Name]; !ok {
			novel = append(novel, f)
		}
	}
	unstable := map[string]bool{} // names that exist on one side only: ignored when comparing callee sets
	for _, f := range missing {
		unstable[f.Name] = true
	}
	for _, f := range novel {
		unstable[f.Name] = true
	}
	jaccard := func(a, b []string) float64 {
		sa, sb := map[string]bool{}, map[string]bool{}
		for _, x := range a {
			if !unstable[x] {
				sa[x] = true
			}
		}
		for _, x := range b {
			if !unstable[x] {
				sb[x] = true
			}
		}
		if len(sa) == 0 && len(sb) == 0 {
			return 1
		}
		inter := 0
		for x := range sa {
			if sb[x] {
				inter++
			}
		}
		return float64(inter) / float64(len(sa)+len(sb)-inter)
	}
	pkgOf := func(name string) string {
		name = strings.TrimPrefix(strings.TrimPrefix(name, "("), "*")
		if i := strings.LastIndex(name, "/"); i >= 0 {
			if j := strings.Index(name[i:], "."); j >= 0 {
				return name[:i+j]
			}
		}
		if j := strings.Index(name, "."); j >= 0 {
			return name[:j]
		}
		return name
	}
	type cand struct {
		m, n  int
		score float64
	}
	var cands []cand
	for i, m := range missing {
		for j, n := range novel {
			if m.Sig != n.Sig || (m.Recv == "") != (n.Recv == "") {
				continue
			}
			s := jaccard(m.Callees, n.Callees)
			if m.Recv != n.Recv {
				s -= 0.2 // method moved to another (renamed) type
			}
			if pkgOf(m.Name) != pkgOf(n.Name) {
				s -= 0.1
			}
			if s >= 0.5 {
				cands = append(cands, cand{i, j, s})
			}
		}
	}
	sort.Slice(cands, func(a, b int) bool {
		if cands[a].score != cands[b].score {
			return cands[a].score > cands[b].score
		}
		if cands[a].m != cands[b].m {
			return cands[a].m < cands[b].m
		}
		return cands[a].n < cands[b].n
	})
	usedM, usedN := map[int]bool{}, map[int]bool{}
	for k, c := range cands {
		if usedM[c.m] || usedN[c.n] {
			continue
		}
		// ambiguity: another unused candidate for the same missing name scoring almost as well
		ambiguous := false
		for _, d := range cands[k+1:] {
			if (d.m == c.m && !usedN[d.n] || d.n == c.n && !usedM[d.m]) && c.score-d.score < 0.15 {
				ambiguous = true
			}
		}
		if ambiguous {
			usedM[c.m] = true // leave unresolved rather than guess
			continue
		}
		usedM[c.m], usedN[c.n] = true, true
		oldName, newName := missing[c.m].Name, novel[c.n].Name
		fn := p.byName[newName]
		if fn == nil {
			continue
		}
		p.alias(oldName, fn)
		p.Renames = append(p.Renames, fmt.Sprintf("function %s is %s in this tree (matched by signature and callees, score %.2f)", oldName, newName, c.score))
		// closures keep their index under the new parent
		for i, anon := range fn.AnonFuncs {
			p.aliasClosures(fmt.Sprintf("%s$%d", oldName, i+1), anon)
		}
	}
	// struct types: a reference struct that no longer exists under its name, and exactly one new struct in the same
	// package with the same field names and the same field types (up to the renamed type's own name)
	p.typeAlias = map[string]string{}
	refStructs, curStructs := map[string][]FieldPrint{}, map[string][]FieldPrint{}
	for _, f := range ref.Fields {
		refStructs[f.Struct] = append(refStructs[f.Struct], f)
	}
	for _, f := range cur.Fields {
		curStructs[f.Struct] = append(curStructs[f.Struct], f)
	}
	structPkg := func(n string) string { return n[:strings.LastIndex(n, ".")] }
	shape := func(fs []FieldPrint, self string) string {
		var parts []string
		base := self[strings.LastIndex(self, ".")+1:]
		for _, f := range fs {
			parts = append(parts, f.Name+":"+strings.ReplaceAll(f.Type, structPkg(self)+"."+base, "<self>"))
		}
		sort.Strings(parts)
		return strings.Join(parts, ";")
	}
	for old, ofs := range refStructs {
		if _, still := curStructs[old]; still {
			continue
		}
		var cands []string
		for nw, nfs := range curStructs {
			if _, known := refStructs[nw]; known || structPkg(nw) != structPkg(old) {
				continue
			}
			if shape(nfs, nw) == shape(ofs, old) {
				cands = append(cands, nw)
			}
		}
		if len(cands) == 1 {
			p.typeAlias[old] = cands[0]
			p.Renames = append(p.Renames, fmt.Sprintf("type %s is %s in this tree (only new struct of that package with the same fields)", old, cands[0]))
		}
	}
	// fields
	type fkey struct{ st, typ string }
	refFields, curFields := map[fkey][]string{}, map[fkey][]string{}
	curHas, refHas := map[string]bool{}, map[string]bool{}
	for _, f := range ref.Fields {
		refHas[f.Struct+"."+f.Name] = true
	}
	for _, f := range cur.Fields {
		curHas[f.Struct+"."+f.Name] = true
	}
	for _, f := range ref.Fields {
		if !curHas[f.Struct+"."+f.Name] {
			refFields[fkey{f.Struct, f.Type}] = append(refFields[fkey{f.Struct, f.Type}], f.Name)
		}
	}
	for _, f := range cur.Fields {
		if !refHas[f.Struct+"."+f.Name] {
			curFields[fkey{f.Struct, f.Type}] = append(curFields[fkey{f.Struct, f.Type}], f.Name)
		}
	}
	p.fieldAlias = map[string]string{}
	for k, olds := range refFields {
		news := curFields[k]
		if len(olds) == 1 && len(news) == 1 {
			p.fieldAlias[k.st+"."+olds[0]] = k.st + "." + news[0]
			p.Renames = append(p.Renames, fmt.Sprintf("field %s.%s is %s in this tree (only new field of type %s in that struct)", k.st, olds[0], news[0], k.typ))
		}
	}
	sort.Strings(p.Renames)
}

func (p *Program) alias(oldName string, fn *ssa.Function) {
	p.byName[oldName] = fn
	canon.Store(fn, oldName)
}

func (p *Program) aliasClosures(oldName string, fn *ssa.Function) {
	p.alias(oldName, fn)
	for i, anon := range fn.AnonFuncs {
		p.aliasClosures(fmt.Sprintf("%s$%d", oldName, i+1), anon)
	}
}
