// Package prog loads the resolved program (A1) and answers identity questions about it:
// functions, fields, interface methods and positions, all by type-checker object identity.
package prog

import (
	"fmt"
	"go/ast"
	"go/token"
	"go/types"
	"os"
	"path/filepath"
	"sort"
	"strings"

	"golang.org/x/tools/go/callgraph"
	"golang.org/x/tools/go/callgraph/cha"
	"golang.org/x/tools/go/callgraph/vta"
	"golang.org/x/tools/go/packages"
	"golang.org/x/tools/go/ssa"
	"golang.org/x/tools/go/ssa/ssautil"
)

// ModPath is the module path of the analysed repository.
const ModPath = "github.com/oauth2-proxy/oauth2-proxy/v7"

// Program is the type-checked, SSA-built production program: package main and its dependency closure.
type Program struct {
	Repo   string
	GOOS   string
	Fset   *token.FileSet
	Main   *packages.Package
	All    []*packages.Package          // every package in deps(main), including std and third party
	Mod    map[string]*packages.Package // module packages in deps(main), keyed by short path ("main", "pkg/encryption", ...)
	SSA    *ssa.Program
	ModFns []*ssa.Function // every function (incl. anonymous, excl. synthetic wrappers) whose package is in Mod, sorted
	byName map[string]*ssa.Function
	// Renames lists the reference anchors that were found under another name (see anchors.go).
	Renames    []string
	fieldAlias map[string]string
	typeAlias  map[string]string
	astFn      map[*ssa.Function]ast.Node
	cg         *callgraph.Graph
	allFns     map[*ssa.Function]bool
	Outside    []string // module packages outside deps(main) (test helpers)
	unstable   map[*ssa.Global]bool
}

// Short strips the module path from a qualified name.
func Short(s string) string {
	s = strings.ReplaceAll(s, ModPath+"/", "")
	s = strings.ReplaceAll(s, ModPath+".", "main.")
	if s == ModPath {
		return "main"
	}
	return s
}

// Load type-checks and builds SSA for package main of repo and its dependencies.
func Load(repo, goos string) (*Program, error) {
	env := os.Environ()
	if goos != "" {
		env = append(env, "GOOS="+goos)
	}
	fset := token.NewFileSet()
	cfg := &packages.Config{
		Mode:  packages.LoadAllSyntax,
		Dir:   repo,
		Fset:  fset,
		Tests: false,
		Env:   env,
	}
	pkgs, err := packages.Load(cfg, ".")
	if err != nil {
		return nil, fmt.Errorf("load: %v", err)
	}
	if len(pkgs) != 1 || pkgs[0].Name != "main" {
		return nil, fmt.Errorf("load: expected exactly package main, got %d packages", len(pkgs))
	}
	p := &Program{Repo: repo, GOOS: goos, Fset: fset, Main: pkgs[0], Mod: map[string]*packages.Package{}}
	var errs []string
	packages.Visit(pkgs, nil, func(pk *packages.Package) {
		p.All = append(p.All, pk)
		for _, e := range pk.Errors {
			errs = append(errs, e.Error())
		}
		if pk.PkgPath == ModPath || strings.HasPrefix(pk.PkgPath, ModPath+"/") {
			p.Mod[Short(pk.PkgPath)] = pk
		}
	})
	if len(errs) > 0 {
		sort.Strings(errs)
		if len(errs) > 5 {
			errs = errs[:5]
		}
		return nil, fmt.Errorf("type errors: %s", strings.Join(errs, "; "))
	}
	if len(p.Mod) < 29 {
		return nil, fmt.Errorf("only %d production packages loaded (expected >= 29)", len(p.Mod))
	}
	// Syntax-free second load: every module package outside deps(main) must be a known test helper.
	cfg2 := &packages.Config{Mode: packages.NeedName, Dir: repo, Env: env}
	all, err := packages.Load(cfg2, "./...")
	if err != nil {
		return nil, fmt.Errorf("load ./...: %v", err)
	}
	for _, pk := range all {
		if _, ok := p.Mod[Short(pk.PkgPath)]; !ok {
			p.Outside = append(p.Outside, Short(pk.PkgPath))
		}
	}
	sort.Strings(p.Outside)

	prog, _ := ssautil.AllPackages(p.All, ssa.InstantiateGenerics)
	prog.Build()
	p.SSA = prog
	p.allFns = ssautil.AllFunctions(prog)
	p.byName = map[string]*ssa.Function{}
	for fn := range p.allFns {
		if !p.InModule(fn) {
			continue
		}
		if fn.Synthetic != "" && fn.Syntax() == nil {
			// wrappers, bound-method thunks, init: keep them addressable but not in ModFns
			p.byName[Short(fn.String())] = fn
			continue
		}
		p.ModFns = append(p.ModFns, fn)
		p.byName[Short(fn.String())] = fn
	}
	sort.Slice(p.ModFns, func(i, j int) bool { return p.ModFns[i].String() < p.ModFns[j].String() })
	p.applyRenames()
	return p, nil
}

// InModule reports whether fn belongs to a production package of the module.
func (p *Program) InModule(fn *ssa.Function) bool {
	pk := FnPkg(fn)
	if pk == nil {
		return false
	}
	_, ok := p.Mod[Short(pk.Path())]
	return ok
}

// FnPkg returns the types.Package a function (or its outermost parent) is declared in.
func FnPkg(fn *ssa.Function) *types.Package {
	for fn.Parent() != nil {
		fn = fn.Parent()
	}
	if fn.Pkg != nil {
		return fn.Pkg.Pkg
	}
	if o := fn.Object(); o != nil {
		return o.Pkg()
	}
	if fn.Origin() != nil {
		return FnPkg(fn.Origin())
	}
	return nil
}

// Name is the short qualified name of a function, e.g. "(*main.OAuthProxy).Proxy", "pkg/encryption.Validate".
func Name(fn *ssa.Function) string {
	if fn == nil {
		return "<nil>"
	}
	if n, ok := canon.Load(fn); ok {
		return n.(string)
	}
	return Short(fn.String())
}

// Func returns the function with the given short name or nil.
func (p *Program) Func(name string) *ssa.Function { return p.byName[name] }

// Pos renders a position relative to the repository root.
func (p *Program) Pos(pos token.Pos) string {
	if !pos.IsValid() {
		return "-"
	}
	ps := p.Fset.Position(pos)
	rel, err := filepath.Rel(p.Repo, ps.Filename)
	if err != nil || strings.HasPrefix(rel, "..") {
		rel = ps.Filename
	}
	return fmt.Sprintf("%s:%d", rel, ps.Line)
}

// InstrPos finds the best position for an instruction (falls back to the enclosing function).
func (p *Program) InstrPos(in ssa.Instruction) string {
	if in == nil {
		return "-"
	}
	if in.Pos().IsValid() {
		return p.Pos(in.Pos())
	}
	if v, ok := in.(ssa.Value); ok {
		for _, r := range *v.Referrers() {
			if r.Pos().IsValid() {
				return p.Pos(r.Pos())
			}
		}
	}
	if in.Parent() != nil {
		return p.Pos(in.Parent().Pos())
	}
	return "-"
}

// Pkg returns the types.Package of a module package given by short path.
func (p *Program) Pkg(short string) *types.Package {
	if pk, ok := p.Mod[short]; ok {
		return pk.Types
	}
	for _, pk := range p.All {
		if pk.PkgPath == short {
			return pk.Types
		}
	}
	return nil
}

// Named looks up a named type "pkgshort.Name".
func (p *Program) Named(qual string) *types.Named {
	i := strings.LastIndex(qual, ".")
	if i < 0 {
		return nil
	}
	pk := p.Pkg(qual[:i])
	if pk == nil {
		return nil
	}
	o := pk.Scope().Lookup(qual[i+1:])
	if o == nil {
		if a, ok := p.typeAlias[qual]; ok && a != qual {
			return p.Named(a)
		}
		return nil
	}
	n, _ := o.Type().(*types.Named)
	return n
}

// Field looks up a struct field object "pkgshort.Type.Field".
func (p *Program) Field(qual string) *types.Var {
	if f := p.field(qual); f != nil {
		return f
	}
	if a, ok := p.fieldAlias[qual]; ok {
		return p.field(a)
	}
	return nil
}

func (p *Program) field(qual string) *types.Var {
	i := strings.LastIndex(qual, ".")
	if i < 0 {
		return nil
	}
	n := p.Named(qual[:i])
	if n == nil {
		return nil
	}
	st, ok := n.Underlying().(*types.Struct)
	if !ok {
		return nil
	}
	for j := 0; j < st.NumFields(); j++ {
		if st.Field(j).Name() == qual[i+1:] {
			return st.Field(j)
		}
	}
	return nil
}

// Method looks up a method object "pkgshort.Type.Method" (interface or concrete; pointer receiver included).
func (p *Program) Method(qual string) *types.Func {
	i := strings.LastIndex(qual, ".")
	if i < 0 {
		return nil
	}
	n := p.Named(qual[:i])
	if n == nil {
		return nil
	}
	var T types.Type = types.NewPointer(n)
	if types.IsInterface(n) {
		T = n
	}
	o, _, _ := types.LookupFieldOrMethod(T, true, n.Obj().Pkg(), qual[i+1:])
	f, _ := o.(*types.Func)
	return f
}

// Global looks up a package-level object "pkgshort.Name".
func (p *Program) Global(qual string) types.Object {
	i := strings.LastIndex(qual, ".")
	if i < 0 {
		return nil
	}
	pk := p.Pkg(qual[:i])
	if pk == nil {
		return nil
	}
	return pk.Scope().Lookup(qual[i+1:])
}

// Implementations returns the concrete module functions implementing an interface method.
func (p *Program) Implementations(m *types.Func) []*ssa.Function {
	recv := m.Type().(*types.Signature).Recv()
	if recv == nil {
		return nil
	}
	iface, ok := recv.Type().Underlying().(*types.Interface)
	if !ok {
		return nil
	}
	var out []*ssa.Function
	seen := map[*ssa.Function]bool{}
	for _, T := range p.SSA.RuntimeTypes() {
		_ = T
	}
	for _, pk := range p.All {
		sc := pk.Types.Scope()
		for _, nm := range sc.Names() {
			tn, ok := sc.Lookup(nm).(*types.TypeName)
			if !ok || tn.IsAlias() {
				continue
			}
			for _, T := range []types.Type{tn.Type(), types.NewPointer(tn.Type())} {
				if types.IsInterface(T) || !types.Implements(T, iface) {
					continue
				}
				sel := p.SSA.MethodSets.MethodSet(T).Lookup(m.Pkg(), m.Name())
				if sel == nil {
					continue
				}
				fn := p.SSA.MethodValue(sel)
				if fn == nil {
					continue
				}
				// unwrap promoted-method wrappers to the declared method when it is in the module
				if fn.Synthetic != "" {
					if decl := p.SSA.FuncValue(sel.Obj().(*types.Func)); decl != nil {
						fn = decl
					}
				}
				if !seen[fn] {
					seen[fn] = true
					out = append(out, fn)
				}
			}
		}
	}
	sort.Slice(out, func(i, j int) bool { return out[i].String() < out[j].String() })
	return out
}

// CallGraph builds (once) the VTA call graph seeded by CHA.
func (p *Program) CallGraph() *callgraph.Graph {
	if p.cg == nil {
		p.cg = vta.CallGraph(p.allFns, cha.CallGraph(p.SSA))
	}
	return p.cg
}

// Reachable returns the module functions reachable in the call graph from the roots.
func (p *Program) Reachable(roots ...*ssa.Function) map[*ssa.Function]bool {
	cg := p.CallGraph()
	seen := map[*ssa.Function]bool{}
	var stack []*ssa.Function
	for _, r := range roots {
		if r != nil && !seen[r] {
			seen[r] = true
			stack = append(stack, r)
		}
	}
	for len(stack) > 0 {
		f := stack[len(stack)-1]
		stack = stack[:len(stack)-1]
		n := cg.Nodes[f]
		if n == nil {
			continue
		}
		for _, e := range n.Out {
			c := e.Callee.Func
			if !seen[c] {
				seen[c] = true
				stack = append(stack, c)
			}
		}
		// anonymous functions created here are considered reachable when referenced
		for _, an := range f.AnonFuncs {
			if !seen[an] && referenced(an) {
				seen[an] = true
				stack = append(stack, an)
			}
		}
	}
	out := map[*ssa.Function]bool{}
	for f := range seen {
		if p.InModule(f) {
			out[f] = true
		}
	}
	return out
}

func referenced(fn *ssa.Function) bool { return true }

// Syntax returns the AST node (FuncDecl or FuncLit) of a function, or nil.
func (p *Program) Syntax(fn *ssa.Function) ast.Node { return fn.Syntax() }

// FileOf returns the *ast.File and package containing pos.
func (p *Program) FileOf(pos token.Pos) (*ast.File, *packages.Package) {
	for _, pk := range p.Mod {
		for _, f := range pk.Syntax {
			if f.FileStart <= pos && pos <= f.FileEnd {
				return f, pk
			}
		}
	}
	return nil, nil
}

// SortedMod returns module package short names, sorted.
func (p *Program) SortedMod() []string {
	var out []string
	for k := range p.Mod {
		out = append(out, k)
	}
	sort.Strings(out)
	return out
}

// StableGlobal reports whether a package-level variable is never stored to outside package
// initialisation (so two loads of it yield the same value).
func (p *Program) StableGlobal(g *ssa.Global) bool {
	if p.unstable == nil {
		p.unstable = map[*ssa.Global]bool{}
		for fn := range p.allFns {
			if fn.Name() == "init" && fn.Parent() == nil {
				continue
			}
			for _, b := range fn.Blocks {
				for _, in := range b.Instrs {
					if st, ok := in.(*ssa.Store); ok {
						if gg, ok := st.Addr.(*ssa.Global); ok {
							p.unstable[gg] = true
						}
					}
				}
			}
		}
	}
	return !p.unstable[g]
}
