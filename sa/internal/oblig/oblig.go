// Package oblig collects the obligations a property's rules generate, applies the known-findings
// file, writes the evidence and replay files and decides the exit status.
package oblig

import (
	"crypto/sha1"
	"encoding/json"
	"fmt"
	"os"
	"path/filepath"
	"sort"
	"strings"
	"time"
)

type Status string

const (
	Discharged Status = "discharged"
	Violated   Status = "violated"
	Undecided  Status = "undecided"
	Known      Status = "known"
)

// Obligation is one rule instance.
type Obligation struct {
	Property string   `json:"property"`
	Rule     string   `json:"rule"`
	Key      string   `json:"key"` // rule | function | construct — never a line number
	Pos      string   `json:"pos"`
	Status   Status   `json:"status"`
	How      string   `json:"how"`
	Path     []string `json:"path,omitempty"`
	Assumed  []string `json:"assumed,omitempty"`
}

// Report accumulates the obligations of one property run.
type Report struct {
	Property    string
	Tier        string
	Seed        int
	Start       time.Time
	Obls        []*Obligation
	byKey       map[string]*Obligation
	RuleMin     map[string]int
	RuleDoc     map[string]string
	Funcs       map[string]bool
	Paths       int
	Pruned      int
	CallSites   int
	Notes       []string
	Explanation string
	NotDecided  string
	Trusted     []string
	Assumptions []string

	// alias, when set, is in force while another property's monolithic rule body runs on behalf of this property
	// (WithAlias): obligations of the rules it names are recorded under the alias, all others are dropped.
	alias map[string]string
}

// WithAlias runs body with obligations and rule declarations filtered and renamed: rule ids in the map are recorded
// under their alias, every other rule id is ignored. Used to share single rules of a property whose rules live in one
// function (C16.R1 as C18.R11, C16.R3 as C15.R10).
func (r *Report) WithAlias(alias map[string]string, body func()) {
	old := r.alias
	r.alias = alias
	defer func() { r.alias = old }()
	body()
}

func New(property, tier string, seed int) *Report {
	return &Report{Property: property, Tier: tier, Seed: seed, Start: time.Now(), byKey: map[string]*Obligation{},
		RuleMin: map[string]int{}, RuleDoc: map[string]string{}, Funcs: map[string]bool{}}
}

// Rule declares a rule with its documentation and the minimum number of instances confirmed by hand.
func (r *Report) Rule(rule, doc string, min int) {
	if r.alias != nil {
		return // the sharing property declares the aliased rule itself
	}
	r.RuleMin[rule] = min
	r.RuleDoc[rule] = doc
}

// Set records the outcome of an obligation. A violation or undecided verdict is sticky: once any
// path violates an instance, later discharges of the same key do not clear it.
func (r *Report) Set(rule, key, pos string, st Status, how string, path, assumed []string) *Obligation {
	if r.alias != nil {
		a, ok := r.alias[rule]
		if !ok {
			return &Obligation{}
		}
		rule = a
	}
	k := rule + "|" + key
	if o, ok := r.byKey[k]; ok {
		if o.Status == Discharged && st != Discharged {
			o.Status, o.How, o.Pos, o.Path, o.Assumed = st, how, pos, path, assumed
		}
		return o
	}
	o := &Obligation{Property: r.Property, Rule: rule, Key: k, Pos: pos, Status: st, How: how, Path: path, Assumed: assumed}
	r.byKey[k] = o
	r.Obls = append(r.Obls, o)
	return o
}

func (r *Report) OK(rule, key, pos, how string) { r.Set(rule, key, pos, Discharged, how, nil, nil) }
func (r *Report) Bad(rule, key, pos, why string, path, assumed []string) {
	r.Set(rule, key, pos, Violated, why, path, assumed)
}
func (r *Report) Unknown(rule, key, pos, why string) { r.Set(rule, key, pos, Undecided, why, nil, nil) }

// KnownFile is /verif/known_findings.json.
type KnownFile struct {
	Known []struct {
		Property string `json:"property"`
		Rule     string `json:"rule"`
		Key      string `json:"key"`
		What     string `json:"what"`
	} `json:"known"`
	Fixed []struct {
		Property string `json:"property"`
		Commit   string `json:"commit"`
		What     string `json:"what"`
	} `json:"fixed"`
}

// enforced is the vacuity threshold derived from the hand-confirmed instance count: exact for tiny
// rules, 60% for enumerations, so that a benign edit that merges or removes a site does not trip it
// while a moved anchor (count collapsing towards zero) still does.
func enforced(confirmed int) int {
	if confirmed <= 2 {
		return confirmed
	}
	return (confirmed*6 + 9) / 10
}

func posLess(a, b string) bool {
	fa, la := splitPos(a)
	fb, lb := splitPos(b)
	if fa != fb {
		return fa < fb
	}
	return la < lb
}

func splitPos(s string) (string, int) {
	i := strings.LastIndex(s, ":")
	if i < 0 {
		return s, 0
	}
	n := 0
	fmt.Sscanf(s[i+1:], "%d", &n)
	return s[:i], n
}

// Finish checks instance minimums, applies known findings, writes evidence and replays, prints the
// verdict lines and returns the process exit code.
func (r *Report) Finish(root string) int {
	// vacuity guard
	counts := map[string]int{}
	for _, o := range r.Obls {
		counts[o.Rule]++
	}
	var rules []string
	for rule := range r.RuleMin {
		rules = append(rules, rule)
	}
	sort.Strings(rules)
	for _, rule := range rules {
		if counts[rule] < enforced(r.RuleMin[rule]) {
			r.Unknown(rule, "instance-count", "-", fmt.Sprintf("rule matched %d instances; %d were confirmed by hand on the reference tree and at least %d are required: anchors have moved and the rule would pass vacuously", counts[rule], r.RuleMin[rule], enforced(r.RuleMin[rule])))
			counts[rule]++
		}
	}
	sort.SliceStable(r.Obls, func(i, j int) bool {
		a, b := r.Obls[i], r.Obls[j]
		if a.Rule != b.Rule {
			return a.Rule < b.Rule
		}
		if a.Pos != b.Pos {
			return posLess(a.Pos, b.Pos)
		}
		return a.Key < b.Key
	})
	// known findings
	var kf KnownFile
	if data, err := os.ReadFile(filepath.Join(root, "known_findings.json")); err == nil {
		if err := json.Unmarshal(data, &kf); err != nil {
			r.Unknown("meta", "known_findings.json", "-", "cannot parse known_findings.json: "+err.Error())
		}
	}
	for _, o := range r.Obls {
		if o.Status != Violated {
			continue
		}
		for _, k := range kf.Known {
			if k.Property == r.Property && k.Rule+"|"+k.Key == o.Key {
				o.Status = Known
				fmt.Printf("KNOWN-FINDING: property=%s %s\n", r.Property, k.What)
			}
		}
	}
	nd, nv, nu, nk := 0, 0, 0, 0
	replayDir := filepath.Join(root, "replays")
	var samples []any
	perRule := map[string]map[string]any{}
	for _, rule := range rules {
		perRule[rule] = map[string]any{"doc": r.RuleDoc[rule], "instances": counts[rule], "min_confirmed": r.RuleMin[rule], "min_enforced": enforced(r.RuleMin[rule]), "discharged": 0}
	}
	sampled := map[string]int{}
	code := 0
	for _, o := range r.Obls {
		if _, ok := perRule[o.Rule]; !ok {
			perRule[o.Rule] = map[string]any{"instances": counts[o.Rule], "discharged": 0}
		}
		switch o.Status {
		case Discharged:
			nd++
			perRule[o.Rule]["discharged"] = perRule[o.Rule]["discharged"].(int) + 1
		case Known:
			nk++
		case Violated, Undecided:
			if o.Status == Violated {
				nv++
			} else {
				nu++
			}
			code = 1
			os.MkdirAll(replayDir, 0o755)
			h := sha1.Sum([]byte(o.Key))
			name := fmt.Sprintf("%s-%s-%x.json", r.Property, sanitize(o.Rule), h[:5])
			path := filepath.Join(replayDir, name)
			data, _ := json.MarshalIndent(map[string]any{"kind": o.Status, "obligation": o,
				"replay_cmd": fmt.Sprintf("scripts/check.sh %s %s --replay %s", r.Property, r.Tier, path)}, "", " ")
			os.WriteFile(path, data, 0o644)
			fmt.Printf("%s: [%s %s] %s: %s\n", o.Pos, r.Property, o.Rule, o.Status, o.How)
			fmt.Printf("    key: %s\n", o.Key)
			fmt.Printf("VIOLATION property=%s replay=%s\n", r.Property, path)
		}
		if sampled[o.Rule] < 2 || o.Status != Discharged {
			sampled[o.Rule]++
			s := map[string]any{"rule": o.Rule, "key": o.Key, "pos": o.Pos, "status": o.Status, "how": o.How}
			if len(o.Assumed) > 0 {
				s["path_assumptions"] = o.Assumed
			}
			samples = append(samples, s)
		}
	}
	var funcs []string
	for f := range r.Funcs {
		funcs = append(funcs, f)
	}
	sort.Strings(funcs)
	expl := r.Explanation
	if r.NotDecided != "" {
		expl += " NOT DECIDED: " + r.NotDecided
	}
	ev := map[string]any{
		"property_id": r.Property,
		"tier":        r.Tier,
		"seed":        r.Seed,
		"level":       "other",
		"coverage": map[string]any{
			"explanation":        expl,
			"obligations":        len(r.Obls),
			"discharged":         nd,
			"known_findings":     nk,
			"undecided":          nu,
			"rule_instances":     perRule,
			"functions_analysed": funcs,
			"functions":          len(funcs),
			"paths_enumerated":   r.Paths,
			"paths_pruned":       r.Pruned,
			"call_sites":         r.CallSites,
			"samples":            samples,
			"exhaustive":         true,
			"checker_cmd":        fmt.Sprintf("scripts/check.sh %s %s", r.Property, r.Tier),
			"trusted_base":       r.Trusted,
			"notes":              r.Notes,
		},
		"assumptions": r.Assumptions,
		"wall_s":      time.Since(r.Start).Seconds(),
		"violations":  nv + nu,
	}
	os.MkdirAll(filepath.Join(root, "evidence"), 0o755)
	data, _ := json.MarshalIndent(ev, "", " ")
	if err := os.WriteFile(filepath.Join(root, "evidence", r.Property+".json"), data, 0o644); err != nil {
		fmt.Println("cannot write evidence:", err)
		return 1
	}
	for _, rule := range rules {
		fmt.Printf("%s %-28s instances=%d (min %d) discharged=%d\n", r.Property, rule, counts[rule], r.RuleMin[rule], perRule[rule]["discharged"])
	}
	fmt.Printf("%s %s: obligations=%d discharged=%d known=%d violated=%d undecided=%d functions=%d paths=%d wall=%.1fs\n",
		r.Property, r.Tier, len(r.Obls), nd, nk, nv, nu, len(funcs), r.Paths, time.Since(r.Start).Seconds())
	return code
}

func sanitize(s string) string {
	return strings.Map(func(r rune) rune {
		if r >= 'a' && r <= 'z' || r >= 'A' && r <= 'Z' || r >= '0' && r <= '9' || r == '-' {
			return r
		}
		return '_'
	}, s)
}

// Replay re-evaluates the property (already done by the caller) and reports only the obligation stored in the replay file.
func (r *Report) Replay(root, file string) int {
	data, err := os.ReadFile(file)
	if err != nil {
		fmt.Println("cannot read replay file:", err)
		return 2
	}
	var rf struct {
		Obligation Obligation `json:"obligation"`
	}
	if err := json.Unmarshal(data, &rf); err != nil {
		fmt.Println("cannot parse replay file:", err)
		return 2
	}
	code := r.Finish(root)
	for _, o := range r.Obls {
		if o.Key == rf.Obligation.Key {
			fmt.Printf("REPLAY %s: obligation %s is now %s: %s (%s)\n", r.Property, o.Key, o.Status, o.How, o.Pos)
			if o.Status == Violated || o.Status == Undecided {
				return 1
			}
			return 0
		}
	}
	fmt.Printf("REPLAY %s: obligation %s no longer exists on this tree (overall exit %d)\n", r.Property, rf.Obligation.Key, code)
	return code
}
