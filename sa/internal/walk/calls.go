package walk

import (
	"go/token"
	"go/types"

	"golang.org/x/tools/go/ssa"

	"oapsa/internal/prog"
)

// Call is a call (or defer/go) executed on a path.
type Call struct {
	Idx  int // index in Path.Steps
	Step Step
	C    *ssa.CallCommon
	In   ssa.CallInstruction
}

// DV returns the dynamic value of the call's result (nil Value for defer/go).
func (c Call) DV() DV {
	v, _ := c.In.(ssa.Value)
	return DV{v, c.Step.I, c.Step.F}
}

// Calls lists the calls executed on the path, in order.
func (p *Path) Calls() []Call {
	var out []Call
	for i, s := range p.Steps {
		if ci, ok := s.In.(ssa.CallInstruction); ok {
			out = append(out, Call{i, s, ci.Common(), ci})
		}
	}
	return out
}

// Arg returns the dynamic value of argument i of the call (receiver excluded for invoke calls,
// included as argument 0 for static method calls, as in go/ssa).
func (p *Path) Arg(c Call, i int) DV {
	if i >= len(c.C.Args) {
		return DV{}
	}
	return p.StepOp(c.C.Args[i], c.Step)
}

// Recv returns the receiver of an invoke call, or argument 0 of a static method call.
func (p *Path) Recv(c Call) DV {
	if c.C.IsInvoke() {
		return p.StepOp(c.C.Value, c.Step)
	}
	if len(c.C.Args) > 0 {
		return p.StepOp(c.C.Args[0], c.Step)
	}
	return DV{}
}

// Matcher selects calls.
type Matcher func(p *Path, c Call) bool

// Static matches direct calls of fn (or of a bound/wrapper thunk of fn).
func Static(fns ...*ssa.Function) Matcher {
	return func(_ *Path, c Call) bool {
		sc := c.C.StaticCallee()
		if sc == nil {
			return false
		}
		for _, fn := range fns {
			if fn != nil && (sc == fn || sc.Origin() == fn) {
				return true
			}
		}
		return false
	}
}

// SameMethod compares two method objects by identity, falling back to (receiver type name, name).
func SameMethod(a, b *types.Func) bool {
	if a == nil || b == nil {
		return false
	}
	if a == b || a.Origin() == b.Origin() {
		return true
	}
	return a.Name() == b.Name() && a.Pkg() == b.Pkg() && types.Identical(a.Type().(*types.Signature).Recv().Type(), b.Type().(*types.Signature).Recv().Type())
}

// Invoke matches dynamic calls of interface method m, and static calls of any function whose
// declared object is m or implements it by name on a type implementing m's interface.
func Invoke(pg *prog.Program, ms ...*types.Func) Matcher {
	return func(_ *Path, c Call) bool {
		for _, m := range ms {
			if m == nil {
				continue
			}
			if c.C.IsInvoke() {
				if SameMethod(c.C.Method, m) {
					return true
				}
				// interface embedding another interface: same name and identical signature declared in the embedded interface
				if c.C.Method.Name() == m.Name() && c.C.Method.Pkg() == m.Pkg() {
					if it, ok := c.C.Value.Type().Underlying().(*types.Interface); ok {
						for i := 0; i < it.NumMethods(); i++ {
							if it.Method(i) == m || it.Method(i).Origin() == m.Origin() {
								return true
							}
						}
					}
				}
				continue
			}
			sc := c.C.StaticCallee()
			if sc == nil || sc.Signature.Recv() == nil || sc.Name() != m.Name() {
				continue
			}
			recv := m.Type().(*types.Signature).Recv()
			if recv == nil {
				continue
			}
			if iface, ok := recv.Type().Underlying().(*types.Interface); ok {
				if types.Implements(sc.Signature.Recv().Type(), iface) {
					return true
				}
			} else if obj, ok := sc.Object().(*types.Func); ok && SameMethod(obj, m) {
				return true
			}
		}
		return false
	}
}

// ThroughField matches calls of a func-typed value loaded from the given struct field
// (e.g. p.Validator(...), s.sessionRefresher(...)).
func ThroughField(f *types.Var) Matcher {
	return func(p *Path, c Call) bool {
		if c.C.IsInvoke() || f == nil {
			return false
		}
		v := p.Resolve(p.StepOp(c.C.Value, c.Step)).V
		return IsFieldLoad(v, f)
	}
}

// Or combines matchers.
func Or(ms ...Matcher) Matcher {
	return func(p *Path, c Call) bool {
		for _, m := range ms {
			if m(p, c) {
				return true
			}
		}
		return false
	}
}

// IsFieldLoad reports whether v is a load (or value projection) of struct field f.
func IsFieldLoad(v ssa.Value, f *types.Var) bool {
	_, ok := FieldLoadBase(v, f)
	return ok
}

// FieldLoadBase returns the struct (pointer) value whose field f is read by v.
func FieldLoadBase(v ssa.Value, f *types.Var) (ssa.Value, bool) {
	switch x := v.(type) {
	case *ssa.UnOp:
		if x.Op == token.MUL {
			if fa, ok := x.X.(*ssa.FieldAddr); ok && FieldOf(fa.X.Type(), fa.Field) == f {
				return fa.X, true
			}
		}
	case *ssa.Field:
		if FieldOf(x.X.Type(), x.Field) == f {
			return x.X, true
		}
	case *ssa.ChangeType:
		return FieldLoadBase(x.X, f)
	}
	return nil, false
}

// FieldOf returns the field object number i of (pointer to) struct type t.
func FieldOf(t types.Type, i int) *types.Var {
	if pt, ok := t.Underlying().(*types.Pointer); ok {
		t = pt.Elem()
	}
	if st, ok := t.Underlying().(*types.Struct); ok && i < st.NumFields() {
		return st.Field(i)
	}
	return nil
}

// Find returns the calls before step index `before` that satisfy m.
func (p *Path) Find(m Matcher, before int) []Call {
	var out []Call
	for _, c := range p.Calls() {
		if c.Idx < before && m(p, c) {
			out = append(out, c)
		}
	}
	return out
}

// FindTop is Find restricted to calls made by the function under analysis itself (not by inlined callees):
// for sinks that must not be confused with the callees' own, separately checked sinks.
func (p *Path) FindTop(m Matcher, before int) []Call {
	var out []Call
	for _, c := range p.Find(m, before) {
		if c.Step.F == 0 {
			out = append(out, c)
		}
	}
	return out
}

// ReturnDV returns the dynamic value of result i at a Return exit.
func (p *Path) ReturnDV(i int) (DV, bool) {
	r, ok := p.Exit.(*ssa.Return)
	if !ok || i >= len(r.Results) {
		return DV{}, false
	}
	return p.OperandF(r.Results[i], r.Block(), p.ExitI, p.ExitF), true
}

// CalleeName renders the callee of a call for reports.
func CalleeName(c *ssa.CallCommon) string {
	if c.IsInvoke() {
		return "invoke " + prog.Short(c.Method.FullName())
	}
	switch f := c.Value.(type) {
	case *ssa.Function:
		return prog.Name(f)
	case *ssa.Builtin:
		return f.Name()
	case *ssa.MakeClosure:
		return prog.Name(f.Fn.(*ssa.Function))
	}
	return "dynamic " + c.Value.Name()
}
