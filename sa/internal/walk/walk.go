// Package walk is the path-sensitive fact walker (A4): it enumerates the CFG paths of one SSA
// function, resolving phis to the edge actually taken, tracking local cells, numbering pure calls
// and pruning paths whose branch assumptions contradict each other.
package walk

import (
	"fmt"
	"go/constant"
	"go/token"
	"go/types"
	"sort"
	"strings"

	"golang.org/x/tools/go/ssa"

	"oapsa/internal/prog"
)

// DV is a dynamic value: an SSA value together with the visit number of its defining block on the
// current path (0 for parameters, constants, globals).
type DV struct {
	V ssa.Value
	I int
	F int // frame: 0 for the function under analysis, >0 for an inlined callee instance
}

// Step is one executed instruction.
type Step struct {
	In ssa.Instruction
	I  int // visit number of the instruction's block
	F  int // frame (0 = the function under analysis)
}

type bi struct {
	b *ssa.BasicBlock
	i int
	f int
}

// frame is one activation: the function under analysis or an inlined static callee.
type frame struct {
	id     int
	fn     *ssa.Function
	visits map[*ssa.BasicBlock]int
	depth  int
	parent *frame
}

type assump struct {
	key   string
	isNil bool // nil-ness atom rather than boolean atom
	val   bool
	step  int
	dv    DV // the atomic value: a call, an extract, a load, or the == BinOp of a generic equality atom
}

// Walker enumerates the paths of one function.
type Walker struct {
	P        *prog.Program
	Fn       *ssa.Function
	MaxPaths int
	MaxVisit int // visits per block per path (default 2)

	// InlineDepth > 0 explores static module callees inline (their calls, assumptions and results become
	// part of the caller's path), which keeps rules quiet when a check is moved into a helper.
	InlineDepth int
	Inline      func(callee *ssa.Function) bool // optional filter

	Paths    int // complete paths reported
	Pruned   int // branches cut as infeasible
	Overflow bool

	tracked map[*ssa.Alloc]bool
}

// Path is the view of the walker state handed to the visitor at each exit. It must not be retained.
type Path struct {
	W      *Walker
	Steps  []Step
	Exit   ssa.Instruction // *ssa.Return or *ssa.Panic (nil when the visitor is called at a sink)
	ExitI  int
	assume []assump
	boolE  map[string]bool
	nilE   map[string]bool
	snaps  map[bi]map[*ssa.BasicBlock]int
	res    map[DV]DV
	inl    map[DV][]DV // results of inlined multi-result calls
	cells  map[string]DV
	Blocks []bi
	frames map[int]*frame
	nextF  int
	ExitF  int
}

// New creates a walker for fn.
func New(p *prog.Program, fn *ssa.Function) *Walker {
	w := &Walker{P: p, Fn: fn, MaxPaths: 200000, MaxVisit: 2, tracked: map[*ssa.Alloc]bool{}}
	for _, b := range fn.Blocks {
		for _, in := range b.Instrs {
			if a, ok := in.(*ssa.Alloc); ok && trackable(a) {
				w.tracked[a] = true
			}
		}
	}
	return w
}

// trackable: the cell's address never escapes except into closures that only read it.
func trackable(a *ssa.Alloc) bool {
	for _, r := range *a.Referrers() {
		switch x := r.(type) {
		case *ssa.Store:
			if x.Val == a {
				return false
			}
		case *ssa.UnOp:
			if x.Op != token.MUL {
				return false
			}
		case *ssa.DebugRef:
		case *ssa.MakeClosure:
			fn := x.Fn.(*ssa.Function)
			for i, b := range x.Bindings {
				if b != a {
					continue
				}
				fv := fn.FreeVars[i]
				if !readOnlyFreeVar(fv, 0) {
					return false
				}
			}
		default:
			return false
		}
	}
	return true
}

func readOnlyFreeVar(fv *ssa.FreeVar, depth int) bool {
	if depth > 3 {
		return false
	}
	for _, r := range *fv.Referrers() {
		switch x := r.(type) {
		case *ssa.UnOp:
			if x.Op != token.MUL {
				return false
			}
		case *ssa.DebugRef:
		case *ssa.MakeClosure:
			fn := x.Fn.(*ssa.Function)
			for i, b := range x.Bindings {
				if b == fv && !readOnlyFreeVar(fn.FreeVars[i], depth+1) {
					return false
				}
			}
		default:
			return false
		}
	}
	return true
}

// Run enumerates every path from entry to an exit and calls visit for each.
func (w *Walker) Run(visit func(*Path)) {
	if len(w.Fn.Blocks) == 0 {
		return
	}
	p := &Path{
		W:      w,
		boolE:  map[string]bool{},
		nilE:   map[string]bool{},
		snaps:  map[bi]map[*ssa.BasicBlock]int{},
		res:    map[DV]DV{},
		inl:    map[DV][]DV{},
		cells:  map[string]DV{},
		frames: map[int]*frame{},
	}
	root := &frame{id: 0, fn: w.Fn, visits: map[*ssa.BasicBlock]int{}}
	p.frames[0] = root
	w.explore(p, root, w.Fn.Blocks[0], nil, visit, nil)
}

type mark struct {
	steps, assume, blocks int
	resKeys               []DV
	cellUndo              []cellUndo
}

type cellUndo struct {
	key  string
	prev DV
	had  bool
}

// cont is the continuation of an inlined callee: it receives the Return reached and its block visit.
type cont func(ret *ssa.Return, inst int)

func (w *Walker) explore(p *Path, fr *frame, b *ssa.BasicBlock, pred *ssa.BasicBlock, visit func(*Path), k cont) {
	if w.Overflow {
		return
	}
	if fr.visits[b] >= w.MaxVisit {
		return // bounded unrolling: this path is abandoned (not an exit)
	}
	fr.visits[b]++
	inst := fr.visits[b]
	key := bi{b, inst, fr.id}
	snap := make(map[*ssa.BasicBlock]int, len(fr.visits))
	for kk, v := range fr.visits {
		snap[kk] = v
	}
	p.snaps[key] = snap
	p.Blocks = append(p.Blocks, key)
	st := &blockState{stepMark: len(p.Steps), assumeMark: len(p.assume)}

	defer func() {
		p.dropAssumptions(st.assumeMark)
		p.Steps = p.Steps[:st.stepMark]
		for _, kk := range st.resAdded {
			delete(p.res, kk)
		}
		for _, kk := range st.inlAdded {
			delete(p.inl, kk)
		}
		for i := len(st.cellsUndo) - 1; i >= 0; i-- {
			u := st.cellsUndo[i]
			if u.had {
				p.cells[u.key] = u.prev
			} else {
				delete(p.cells, u.key)
			}
		}
		delete(p.snaps, key)
		p.Blocks = p.Blocks[:len(p.Blocks)-1]
		fr.visits[b]--
		if fr.visits[b] == 0 {
			delete(fr.visits, b)
		}
	}()

	// phis first: resolve to the operand of the edge taken; all phis read their operands simultaneously
	predIdx := -1
	if pred != nil {
		for i, q := range b.Preds {
			if q == pred {
				predIdx = i
				break
			}
		}
	}
	type pr struct{ dv, val DV }
	var prs []pr
	for _, in := range b.Instrs {
		phi, ok := in.(*ssa.Phi)
		if !ok {
			break
		}
		if predIdx < 0 {
			continue
		}
		e := phi.Edges[predIdx]
		ei := 0
		if ein, ok := e.(ssa.Instruction); ok {
			ei = fr.visits[ein.Block()]
			if ein.Block() == b {
				ei = inst - 1 // value flowing round a self loop comes from the previous visit
			}
		}
		prs = append(prs, pr{DV{phi, inst, fr.id}, DV{e, ei, fr.id}})
	}
	for _, x := range prs {
		p.res[x.dv] = x.val
		st.resAdded = append(st.resAdded, x.dv)
	}
	w.runFrom(p, fr, b, inst, 0, st, visit, k)
}

type blockState struct {
	stepMark, assumeMark int
	resAdded, inlAdded   []DV
	cellsUndo            []cellUndo
}

func (p *Path) dropAssumptions(mark int) {
	for i := len(p.assume) - 1; i >= mark; i-- {
		a := p.assume[i]
		if a.isNil {
			delete(p.nilE, a.key)
		} else {
			delete(p.boolE, a.key)
		}
	}
	p.assume = p.assume[:mark]
}

// inlinable decides whether a call is explored inline.
func (w *Walker) inlinable(fr *frame, c *ssa.Call) *ssa.Function {
	if w.InlineDepth <= 0 || fr.depth >= w.InlineDepth {
		return nil
	}
	callee := c.Call.StaticCallee()
	if callee == nil || len(callee.Blocks) == 0 || len(callee.Blocks) > 60 || len(callee.FreeVars) > 0 || !w.P.InModule(callee) {
		return nil
	}
	if callee.Signature.Variadic() {
		return nil
	}
	for f := fr; f != nil; f = f.parent {
		if f.fn == callee {
			return nil // recursion
		}
	}
	for _, b := range callee.Blocks {
		for _, in := range b.Instrs {
			switch x := in.(type) {
			case *ssa.Go:
				return nil
			case *ssa.Defer:
				// a deferred call in an inlined helper is recorded where it is registered; it runs at the helper's
				// return, which still precedes everything the caller does afterwards. Deferred closures are not followed.
				if _, isClosure := x.Call.Value.(*ssa.MakeClosure); isClosure {
					return nil
				}
			}
		}
	}
	if w.Inline != nil && !w.Inline(callee) {
		return nil
	}
	return callee
}

// runFrom executes the instructions of block b starting at index j.
func (w *Walker) runFrom(p *Path, fr *frame, b *ssa.BasicBlock, inst, j int, st *blockState, visit func(*Path), k cont) {
	for ; j < len(b.Instrs); j++ {
		in := b.Instrs[j]
		p.Steps = append(p.Steps, Step{in, inst, fr.id})
		switch x := in.(type) {
		case *ssa.Store:
			if a, ok := x.Addr.(*ssa.Alloc); ok && w.isTracked(a) {
				ck := p.Key(p.OperandF(x.Addr, b, inst, fr.id))
				prev, had := p.cells[ck]
				st.cellsUndo = append(st.cellsUndo, cellUndo{ck, prev, had})
				p.cells[ck] = p.OperandF(x.Val, b, inst, fr.id)
			}
		case *ssa.UnOp:
			if x.Op == token.MUL {
				if a, ok := x.X.(*ssa.Alloc); ok && w.isTracked(a) {
					ck := p.Key(p.OperandF(x.X, b, inst, fr.id))
					dv := DV{x, inst, fr.id}
					if v, ok := p.cells[ck]; ok {
						p.res[dv] = v
					} else {
						p.res[dv] = DV{zeroConst(x.Type()), 0, 0}
					}
					st.resAdded = append(st.resAdded, dv)
				}
			}
		case *ssa.Extract:
			tdv := p.Resolve(p.OperandF(x.Tuple, b, inst, fr.id))
			if rs, ok := p.inl[tdv]; ok && x.Index < len(rs) {
				dv := DV{x, inst, fr.id}
				p.res[dv] = rs[x.Index]
				st.resAdded = append(st.resAdded, dv)
			}
		case *ssa.Call:
			callee := w.inlinable(fr, x)
			if callee == nil {
				continue
			}
			p.nextF++
			nf := &frame{id: p.nextF, fn: callee, visits: map[*ssa.BasicBlock]int{}, depth: fr.depth + 1, parent: fr}
			p.frames[nf.id] = nf
			var bound []DV
			for i, pa := range callee.Params {
				if i < len(x.Call.Args) {
					pdv := DV{pa, 0, nf.id}
					p.res[pdv] = p.OperandF(x.Call.Args[i], b, inst, fr.id)
					bound = append(bound, pdv)
				}
			}
			callDV := DV{x, inst, fr.id}
			jj := j
			w.explore(p, nf, callee.Blocks[0], nil, visit, func(ret *ssa.Return, rinst int) {
				var rs []DV
				for _, r := range ret.Results {
					rs = append(rs, p.OperandF(r, ret.Block(), rinst, nf.id))
				}
				switch len(rs) {
				case 0:
				case 1:
					p.res[callDV] = rs[0]
				default:
					p.inl[callDV] = rs
				}
				mark, amark := len(p.Steps), len(p.assume)
				inner := &blockState{stepMark: mark, assumeMark: amark}
				w.runFrom(p, fr, b, inst, jj+1, inner, visit, k)
				// undo what the continuation added
				p.dropAssumptions(amark)
				p.Steps = p.Steps[:mark]
				for _, kk := range inner.resAdded {
					delete(p.res, kk)
				}
				for _, kk := range inner.inlAdded {
					delete(p.inl, kk)
				}
				for i := len(inner.cellsUndo) - 1; i >= 0; i-- {
					u := inner.cellsUndo[i]
					if u.had {
						p.cells[u.key] = u.prev
					} else {
						delete(p.cells, u.key)
					}
				}
				delete(p.res, callDV)
				delete(p.inl, callDV)
			})
			for _, pdv := range bound {
				delete(p.res, pdv)
			}
			delete(p.frames, nf.id)
			return
		case *ssa.If:
			cond := p.OperandF(x.Cond, b, inst, fr.id)
			for kk, succ := range b.Succs {
				want := kk == 0
				am := len(p.assume)
				if p.assumeTruth(cond, want) {
					w.explore(p, fr, succ, b, visit, k)
				} else {
					w.Pruned++
				}
				p.dropAssumptions(am)
			}
			return
		case *ssa.Jump:
			w.explore(p, fr, b.Succs[0], b, visit, k)
			return
		case *ssa.Return:
			if k != nil {
				k(x, inst)
				return
			}
			w.Paths++
			if w.Paths > w.MaxPaths {
				w.Overflow = true
				return
			}
			p.Exit, p.ExitI, p.ExitF = in, inst, fr.id
			visit(p)
			p.Exit = nil
			return
		case *ssa.Panic:
			w.Paths++
			if w.Paths > w.MaxPaths {
				w.Overflow = true
				return
			}
			p.Exit, p.ExitI, p.ExitF = in, inst, fr.id
			visit(p)
			p.Exit = nil
			return
		}
	}
}

// isTracked: the cell is a non-escaping local of the function under analysis or of an inlined callee.
func (w *Walker) isTracked(a *ssa.Alloc) bool {
	if v, ok := w.tracked[a]; ok {
		return v
	}
	v := trackable(a)
	w.tracked[a] = v
	return v
}

var nil0 *ssa.BasicBlock

func zeroConst(t types.Type) *ssa.Const {
	if b, ok := t.Underlying().(*types.Basic); ok {
		switch {
		case b.Info()&types.IsBoolean != 0:
			return ssa.NewConst(constant.MakeBool(false), t)
		case b.Info()&types.IsString != 0:
			return ssa.NewConst(constant.MakeString(""), t)
		case b.Info()&types.IsNumeric != 0:
			return ssa.NewConst(constant.MakeInt64(0), t)
		}
	}
	return ssa.NewConst(nil, t)
}

// Operand returns the dynamic value of operand o as seen by an instruction in block b at visit i.
func (p *Path) Operand(o ssa.Value, b *ssa.BasicBlock, i int) DV { return p.OperandF(o, b, i, 0) }

// OperandF is Operand for a user in frame f.
func (p *Path) OperandF(o ssa.Value, b *ssa.BasicBlock, i, f int) DV {
	switch o.(type) {
	case *ssa.Parameter, *ssa.FreeVar:
		return DV{o, 0, f}
	}
	in, ok := o.(ssa.Instruction)
	if !ok {
		return DV{o, 0, 0}
	}
	ob := in.Block()
	if b == nil {
		return DV{o, 0, f}
	}
	if ob == b {
		return DV{o, i, f}
	}
	if ob == nil || ob.Parent() != b.Parent() {
		return DV{o, 0, f}
	}
	if s, ok := p.snaps[bi{b, i, f}]; ok {
		return DV{o, s[ob], f}
	}
	if fr := p.frames[f]; fr != nil {
		return DV{o, fr.visits[ob], f}
	}
	return DV{o, 0, f}
}

// Op is Operand for a user given as a dynamic value.
func (p *Path) Op(o ssa.Value, user DV) DV {
	in, ok := user.V.(ssa.Instruction)
	if !ok || in.Block() == nil {
		return p.OperandF(o, nil0, 0, user.F)
	}
	return p.OperandF(o, in.Block(), user.I, user.F)
}

// StepOp is Operand for a user given as a step.
func (p *Path) StepOp(o ssa.Value, s Step) DV { return p.OperandF(o, s.In.Block(), s.I, s.F) }

// Resolve follows phi and tracked-cell-load resolutions and transparent conversions.
func (p *Path) Resolve(dv DV) DV {
	for n := 0; n < 64; n++ {
		if r, ok := p.res[dv]; ok {
			dv = r
			continue
		}
		switch x := dv.V.(type) {
		case *ssa.ChangeType:
			dv = p.Op(x.X, dv)
			continue
		case *ssa.ChangeInterface:
			dv = p.Op(x.X, dv)
			continue
		}
		break
	}
	return dv
}

// PureFuncs lists std callees whose result depends only on their (immutable) arguments.
var PureFuncs = map[string]bool{
	"errors.Is": true, "strings.HasPrefix": true, "strings.HasSuffix": true, "strings.Contains": true,
	"strings.EqualFold": true, "strings.ToLower": true, "strings.ToUpper": true, "strings.TrimSpace": true,
	"strings.Index": true, "strings.TrimRight": true, "strings.TrimLeft": true, "strings.TrimPrefix": true,
	"strings.TrimSuffix": true, "strings.Count": true, "bytes.Equal": true, "len": true, "cap": true,
	"(time.Duration).Seconds": true, "(time.Time).IsZero": true,
}

func calleeName(c *ssa.CallCommon) string {
	if c.IsInvoke() {
		return ""
	}
	switch f := c.Value.(type) {
	case *ssa.Function:
		return f.String()
	case *ssa.Builtin:
		return f.Name()
	}
	return ""
}

// Key is the canonical name of a dynamic value on this path: structural for pure expressions,
// identity (name@visit) for everything whose value depends on memory or effects.
func (p *Path) Key(dv DV) string {
	if dv.V == nil {
		return "<none>"
	}
	dv = p.Resolve(dv)
	id := func() string {
		if dv.F != 0 {
			return fmt.Sprintf("#%s@%d/f%d", dv.V.Name(), dv.I, dv.F)
		}
		return fmt.Sprintf("#%s@%d", dv.V.Name(), dv.I)
	}
	switch v := dv.V.(type) {
	case *ssa.Const:
		if v.Value == nil {
			if isNilable(v.Type()) {
				return "nil"
			}
			return "zero<" + v.Type().String() + ">"
		}
		return "c:" + v.Value.ExactString()
	case *ssa.Parameter:
		if dv.F != 0 {
			return fmt.Sprintf("p:%s/f%d", v.Name(), dv.F)
		}
		return "p:" + v.Name()
	case *ssa.FreeVar:
		return "fv:" + v.Name()
	case *ssa.Global:
		return "g:" + prog.Short(v.String())
	case *ssa.Function:
		return "fn:" + prog.Name(v)
	case *ssa.Builtin:
		return "bi:" + v.Name()
	case *ssa.MakeInterface:
		return "mi(" + p.Key(p.Op(v.X, dv)) + ")"
	case *ssa.Convert:
		return "cv<" + v.Type().String() + ">(" + p.Key(p.Op(v.X, dv)) + ")"
	case *ssa.UnOp:
		if v.Op == token.MUL {
			if g, ok := v.X.(*ssa.Global); ok && p.W.P.StableGlobal(g) {
				return "gl:" + prog.Short(g.String())
			}
			return id()
		}
		return v.Op.String() + "(" + p.Key(p.Op(v.X, dv)) + ")"
	case *ssa.BinOp:
		l, r := p.Key(p.Op(v.X, dv)), p.Key(p.Op(v.Y, dv))
		op := v.Op
		if (op == token.EQL || op == token.NEQ) && r < l {
			l, r = r, l
		}
		return "(" + l + " " + op.String() + " " + r + ")"
	case *ssa.Extract:
		return fmt.Sprintf("x%d(%s)", v.Index, p.Key(p.Op(v.Tuple, dv)))
	case *ssa.Call:
		if n := calleeName(&v.Call); n != "" && PureFuncs[n] {
			var args []string
			for _, a := range v.Call.Args {
				args = append(args, p.Key(p.Op(a, dv)))
			}
			return "call:" + n + "(" + strings.Join(args, ",") + ")"
		}
		return id()
	case *ssa.FieldAddr:
		return "&(" + p.Key(p.Op(v.X, dv)) + ")." + fieldName(v.X.Type(), v.Field)
	case *ssa.Field:
		return "(" + p.Key(p.Op(v.X, dv)) + ")." + fieldName(v.X.Type(), v.Field)
	case *ssa.IndexAddr:
		return "&(" + p.Key(p.Op(v.X, dv)) + ")[" + p.Key(p.Op(v.Index, dv)) + "]"
	case *ssa.Index:
		return "(" + p.Key(p.Op(v.X, dv)) + ")[" + p.Key(p.Op(v.Index, dv)) + "]"
	case *ssa.Slice:
		k := "sl(" + p.Key(p.Op(v.X, dv))
		for _, o := range []ssa.Value{v.Low, v.High, v.Max} {
			if o == nil {
				k += ",_"
			} else {
				k += "," + p.Key(p.Op(o, dv))
			}
		}
		return k + ")"
	case *ssa.TypeAssert:
		return fmt.Sprintf("ta<%s,%v>(%s)", v.AssertedType, v.CommaOk, p.Key(p.Op(v.X, dv)))
	}
	return id()
}

func fieldName(t types.Type, i int) string {
	if pt, ok := t.Underlying().(*types.Pointer); ok {
		t = pt.Elem()
	}
	if st, ok := t.Underlying().(*types.Struct); ok && i < st.NumFields() {
		return st.Field(i).Name()
	}
	return fmt.Sprint(i)
}

func isNilable(t types.Type) bool {
	switch t.Underlying().(type) {
	case *types.Pointer, *types.Interface, *types.Slice, *types.Map, *types.Chan, *types.Signature:
		return true
	case *types.Basic:
		return t.Underlying().(*types.Basic).Kind() == types.UnsafePointer || t.Underlying().(*types.Basic).Kind() == types.UntypedNil
	}
	return false
}

func (p *Path) set(key string, isNil, val bool, dv DV) bool {
	m := p.boolE
	if isNil {
		m = p.nilE
	}
	if prev, ok := m[key]; ok {
		return prev == val
	}
	m[key] = val
	p.assume = append(p.assume, assump{key, isNil, val, len(p.Steps), dv})
	return true
}

func constBool(c *ssa.Const) (bool, bool) {
	if c.Value != nil && c.Value.Kind() == constant.Bool {
		return constant.BoolVal(c.Value), true
	}
	return false, false
}

func isNilConst(p *Path, dv DV) bool {
	c, ok := p.Resolve(dv).V.(*ssa.Const)
	return ok && c.Value == nil && isNilable(c.Type())
}

// assumeTruth records that dv evaluates to want; false means the path is infeasible.
func (p *Path) assumeTruth(dv DV, want bool) bool {
	dv = p.Resolve(dv)
	switch v := dv.V.(type) {
	case *ssa.Const:
		if b, ok := constBool(v); ok {
			return b == want
		}
	case *ssa.UnOp:
		if v.Op == token.NOT {
			return p.assumeTruth(p.Op(v.X, dv), !want)
		}
	case *ssa.BinOp:
		// integer comparisons both of whose sides are known on this path (a constant, or len() of a slice that is
		// definitely empty here: s[:0], nil, make(T, 0) with no append yet) are decided, not assumed: the path on
		// which a filter loop appended nothing and yet "len(result) > 0" holds is infeasible (round 7)
		switch v.Op {
		case token.EQL, token.NEQ, token.LSS, token.LEQ, token.GTR, token.GEQ:
			if a, ok := p.knownInt(p.Op(v.X, dv)); ok {
				if b, ok := p.knownInt(p.Op(v.Y, dv)); ok {
					var res bool
					switch v.Op {
					case token.EQL:
						res = a == b
					case token.NEQ:
						res = a != b
					case token.LSS:
						res = a < b
					case token.LEQ:
						res = a <= b
					case token.GTR:
						res = a > b
					case token.GEQ:
						res = a >= b
					}
					return res == want
				}
			}
		}
		if v.Op == token.EQL || v.Op == token.NEQ {
			eq := want == (v.Op == token.EQL)
			l, r := p.Resolve(p.Op(v.X, dv)), p.Resolve(p.Op(v.Y, dv))
			ln, rn := isNilConst(p, l), isNilConst(p, r)
			switch {
			case ln && rn:
				return eq
			case rn:
				return p.assumeNil(l, eq)
			case ln:
				return p.assumeNil(r, eq)
			}
			lc, lok := l.V.(*ssa.Const)
			rc, rok := r.V.(*ssa.Const)
			if lok && rok && lc.Value != nil && rc.Value != nil {
				return constant.Compare(lc.Value, token.EQL, rc.Value) == eq
			}
			if rok {
				if b, ok := constBool(rc); ok {
					return p.assumeTruth(l, b == eq)
				}
			}
			if lok {
				if b, ok := constBool(lc); ok {
					return p.assumeTruth(r, b == eq)
				}
			}
			// generic equality atom, always stored in == form
			lk, rk := p.Key(l), p.Key(r)
			if rk < lk {
				lk, rk = rk, lk
			}
			if lk == rk {
				return eq
			}
			// two different constants compared against the same value: x==c1 true => x==c2 false
			if eq {
				for _, a := range p.assume {
					if !a.isNil && a.val && strings.HasPrefix(a.key, "(") {
						if ol, or, ok := splitEq(a.key); ok {
							if c1, c2, same := otherConst(ol, or, lk, rk); same && c1 != c2 {
								return false
							}
						}
					}
				}
			}
			return p.set("("+lk+" == "+rk+")", false, eq, dv)
		}
	}
	// errors.Is(err, target)==true implies err != nil
	if call, ok := dv.V.(*ssa.Call); ok && want && calleeName(&call.Call) == "errors.Is" {
		if !p.assumeNil(p.Op(call.Call.Args[0], dv), false) {
			return false
		}
	}
	return p.set(p.Key(dv), false, want, dv)
}

// knownCompare decides an integer comparison both of whose sides are known on this path.
func (p *Path) knownCompare(v *ssa.BinOp, dv DV) (res, ok bool) {
	switch v.Op {
	case token.EQL, token.NEQ, token.LSS, token.LEQ, token.GTR, token.GEQ:
	default:
		return false, false
	}
	a, ok1 := p.knownInt(p.Op(v.X, dv))
	b, ok2 := p.knownInt(p.Op(v.Y, dv))
	if !ok1 || !ok2 {
		return false, false
	}
	switch v.Op {
	case token.EQL:
		return a == b, true
	case token.NEQ:
		return a != b, true
	case token.LSS:
		return a < b, true
	case token.LEQ:
		return a <= b, true
	case token.GTR:
		return a > b, true
	}
	return a >= b, true
}

// knownInt: the integer value of dv on this path when it is a constant or len() of a definitely empty slice.
func (p *Path) knownInt(dv DV) (int64, bool) {
	dv = p.Resolve(dv)
	switch v := dv.V.(type) {
	case *ssa.Const:
		if v.Value != nil && v.Value.Kind() == constant.Int {
			if n, ok := constant.Int64Val(v.Value); ok {
				return n, true
			}
		}
	case *ssa.Call:
		if b, ok := v.Call.Value.(*ssa.Builtin); ok && b.Name() == "len" && len(v.Call.Args) == 1 {
			x := p.Resolve(p.Op(v.Call.Args[0], dv))
			if _, isCall := x.V.(*ssa.Call); isCall {
				if rd, ok := p.InlinedResult(x, 0); ok { // the slice a module helper, inlined on this path, returned
					x = p.Resolve(rd)
				}
			}
			if _, isSlice := x.V.Type().Underlying().(*types.Slice); !isSlice {
				return 0, false
			}
			switch s := x.V.(type) {
			case *ssa.Const:
				if s.IsNil() {
					return 0, true
				}
			case *ssa.Slice:
				if s.High != nil {
					if k, ok := s.High.(*ssa.Const); ok && k.Value != nil && constant.Sign(k.Value) == 0 {
						return 0, true
					}
				}
			case *ssa.MakeSlice:
				if k, ok := s.Len.(*ssa.Const); ok && k.Value != nil && constant.Sign(k.Value) == 0 {
					return 0, true
				}
			}
		}
	}
	return 0, false
}

func splitEq(k string) (string, string, bool) {
	if !strings.HasPrefix(k, "(") || !strings.HasSuffix(k, ")") {
		return "", "", false
	}
	in := k[1 : len(k)-1]
	i := strings.Index(in, " == ")
	if i < 0 {
		return "", "", false
	}
	return in[:i], in[i+4:], true
}

// otherConst: given two equality atoms (a1==b1) and (a2==b2) sharing one non-constant side, return the constant sides.
func otherConst(a1, b1, a2, b2 string) (string, string, bool) {
	isC := func(s string) bool { return strings.HasPrefix(s, "c:") }
	switch {
	case a1 == a2 && isC(b1) && isC(b2):
		return b1, b2, true
	case b1 == b2 && isC(a1) && isC(a2):
		return a1, a2, true
	case a1 == b2 && isC(b1) && isC(a2):
		return b1, a2, true
	case b1 == a2 && isC(a1) && isC(b2):
		return a1, b2, true
	}
	return "", "", false
}

func (p *Path) knownNilFromValue(dv DV) (isNil, known bool) {
	dv = p.Resolve(dv)
	switch v := dv.V.(type) {
	case *ssa.Const:
		if v.Value == nil && isNilable(v.Type()) {
			return true, true
		}
		return false, true
	case *ssa.Alloc, *ssa.MakeInterface, *ssa.MakeClosure, *ssa.MakeMap, *ssa.MakeChan, *ssa.MakeSlice,
		*ssa.FieldAddr, *ssa.IndexAddr, *ssa.Function, *ssa.Global:
		return false, true
	case *ssa.Call:
		// constructors that never return nil
		switch calleeName(&v.Call) {
		case "fmt.Errorf", "errors.New":
			return false, true
		}
	}
	return false, false
}

func (p *Path) assumeNil(dv DV, isNil bool) bool {
	if n, known := p.knownNilFromValue(dv); known {
		return n == isNil
	}
	return p.set(p.Key(dv), true, isNil, p.Resolve(dv))
}

// ---- queries -------------------------------------------------------------------------------

// At is a time bound for queries: assumptions made strictly before step index At are visible.
// Use len(p.Steps) (or End()) for "at the exit".
func (p *Path) End() int { return len(p.Steps) }

func (p *Path) lookup(key string, isNil bool, at int) (val, known bool) {
	m := p.boolE
	if isNil {
		m = p.nilE
	}
	v, ok := m[key]
	if !ok {
		return false, false
	}
	if at >= len(p.Steps) {
		return v, true
	}
	for _, a := range p.assume {
		if a.key == key && a.isNil == isNil {
			return v, a.step <= at
		}
	}
	return false, false
}

// Truth evaluates a boolean dynamic value under the assumptions made before step at.
func (p *Path) Truth(dv DV, at int) (val, known bool) {
	dv = p.Resolve(dv)
	switch v := dv.V.(type) {
	case *ssa.Const:
		if b, ok := constBool(v); ok {
			return b, true
		}
	case *ssa.UnOp:
		if v.Op == token.NOT {
			b, k := p.Truth(p.Op(v.X, dv), at)
			return !b, k
		}
	case *ssa.BinOp:
		if res, ok := p.knownCompare(v, dv); ok {
			return res, true
		}
		if v.Op == token.EQL || v.Op == token.NEQ {
			l, r := p.Resolve(p.Op(v.X, dv)), p.Resolve(p.Op(v.Y, dv))
			ln, rn := isNilConst(p, l), isNilConst(p, r)
			var eq, known bool
			switch {
			case ln && rn:
				eq, known = true, true
			case rn:
				eq, known = p.Nil(l, at)
			case ln:
				eq, known = p.Nil(r, at)
			default:
				lk, rk := p.Key(l), p.Key(r)
				if rk < lk {
					lk, rk = rk, lk
				}
				if lk == rk {
					eq, known = true, true
				} else {
					eq, known = p.lookup("("+lk+" == "+rk+")", false, at)
				}
			}
			if !known {
				return false, false
			}
			return eq == (v.Op == token.EQL), true
		}
	}
	return p.lookup(p.Key(dv), false, at)
}

// Nil evaluates the nil-ness of a dynamic value under the assumptions made before step at.
func (p *Path) Nil(dv DV, at int) (isNil, known bool) {
	if n, k := p.knownNilFromValue(dv); k {
		return n, true
	}
	return p.lookup(p.Key(dv), true, at)
}

// ResultKey is the key of result idx of a call (idx < 0: the single result).
func (p *Path) ResultKey(call DV, idx int) string {
	if rd, ok := p.InlinedResult(call, idx); ok {
		return p.Key(rd)
	}
	if idx < 0 {
		return p.Key(call)
	}
	return fmt.Sprintf("x%d(%s)", idx, p.Key(call))
}

// InlinedResult returns the value an inlined call returned as result idx on this path.
func (p *Path) InlinedResult(call DV, idx int) (DV, bool) {
	if rs, ok := p.inl[call]; ok {
		if idx >= 0 && idx < len(rs) {
			return rs[idx], true
		}
		return DV{}, false
	}
	if r, ok := p.res[call]; ok {
		if _, isCall := call.V.(*ssa.Call); isCall && idx <= 0 {
			return r, true
		}
	}
	return DV{}, false
}

// ResultNil reports the assumed nil-ness of result idx of call before step at.
func (p *Path) ResultNil(call DV, idx, at int) (isNil, known bool) {
	if rd, ok := p.InlinedResult(call, idx); ok {
		return p.Nil(rd, at)
	}
	return p.lookup(p.ResultKey(call, idx), true, at)
}

// ResultTruth reports the assumed truth of boolean result idx of call before step at.
func (p *Path) ResultTruth(call DV, idx, at int) (val, known bool) {
	if rd, ok := p.InlinedResult(call, idx); ok {
		return p.Truth(rd, at)
	}
	return p.lookup(p.ResultKey(call, idx), false, at)
}

// Same reports whether two dynamic values are the same value on this path.
func (p *Path) Same(a, b DV) bool { return p.Key(a) == p.Key(b) }

// SameKey compares a value with a key.
func (p *Path) SameKey(a DV, key string) bool { return p.Key(a) == key }

// DVOf returns the dynamic value defined by step i (must be a value instruction).
func (p *Path) DVOf(i int) DV {
	s := p.Steps[i]
	v, _ := s.In.(ssa.Value)
	return DV{v, s.I, s.F}
}

// Assumptions renders the assumptions made before step at, for reports.
func (p *Path) Assumptions(at int) []string {
	var out []string
	for _, a := range p.assume {
		if a.step > at {
			continue
		}
		if a.isNil {
			if a.val {
				out = append(out, a.key+" == nil")
			} else {
				out = append(out, a.key+" != nil")
			}
		} else {
			out = append(out, fmt.Sprintf("%s = %v", a.key, a.val))
		}
	}
	return out
}

// BlockTrace renders the block sequence with source lines, for replay files.
func (p *Path) BlockTrace() []string {
	var out []string
	for _, b := range p.Blocks {
		line := "-"
		for _, in := range b.b.Instrs {
			if in.Pos().IsValid() {
				line = p.W.P.Pos(in.Pos())
				break
			}
		}
		out = append(out, fmt.Sprintf("b%d#%d(%s)", b.b.Index, b.i, line))
	}
	return out
}

// SortedKeys is a helper for deterministic output.
func SortedKeys[M ~map[string]V, V any](m M) []string {
	out := make([]string, 0, len(m))
	for k := range m {
		out = append(out, k)
	}
	sort.Strings(out)
	return out
}

// Atom is one atomic assumption of the path. For IsNil atoms Val means "is nil". For equality
// atoms (V is an EQL/NEQ BinOp) Val is the truth of the == form, whatever the operator.
type Atom struct {
	DV    DV
	IsNil bool
	Val   bool
	Step  int
}

// Atoms lists the atomic assumptions made before step at.
func (p *Path) Atoms(at int) []Atom {
	var out []Atom
	for _, a := range p.assume {
		if a.step <= at {
			out = append(out, Atom{a.dv, a.isNil, a.val, a.step})
		}
	}
	return out
}
