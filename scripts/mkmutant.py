#!/usr/bin/env python3
"""Developer tool: create mutants/<name>.patch from an (file, old, new) edit of /repo's HEAD and check it still builds.
usage: mkmutant.py <name> <expect e.g. 'C01 R3-authenticated-returns' or 'neutral C01,C03'> <file> <<< 'OLD\n=====\nNEW'
"""
import sys, os, subprocess, difflib, shutil, tempfile
name, expect, path = sys.argv[1], sys.argv[2], sys.argv[3]
old, new = sys.stdin.read().split("\n=====\n")
new = new.rstrip("\n") if not old.endswith("\n") else new
src = open(os.path.join("/repo", path)).read()
if src.count(old) != 1:
    sys.exit(f"old text occurs {src.count(old)} times in {path}")
dst = src.replace(old, new)
diff = "".join(difflib.unified_diff(src.splitlines(True), dst.splitlines(True), "a/" + path, "b/" + path))
out = f"/verif/mutants/{name}.patch"
open(out, "w").write(f"# expect: {expect}\n" + diff)
# build check in a scratch copy
scratch = tempfile.mkdtemp(prefix="mk-", dir="/var/tmp")
try:
    subprocess.check_call(["rsync", "-a", "--exclude", ".git", "/repo/", scratch + "/"])
    subprocess.check_call(["git", "apply", "--unsafe-paths", "--directory", scratch, out], cwd="/") if False else subprocess.check_call(["patch", "-s", "-p1", "-i", out], cwd=scratch)
    r = subprocess.run("bash -c '. /verif/scripts/env.sh && go build ./... && go vet ./" + os.path.dirname(path) + "'", shell=True, cwd=scratch, capture_output=True, text=True)
    if r.returncode != 0:
        print("BUILD/VET FAILED:\n" + r.stdout + r.stderr)
        os.remove(out)
        sys.exit(1)
    print("ok", out)
finally:
    shutil.rmtree(scratch, ignore_errors=True)
