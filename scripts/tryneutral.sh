#!/bin/bash
# Developer tool: run ALL claimed checks against a behaviour-preserving patch; any firing is a false alarm.
patch="$1"; tier="${2:-quick}"
d=/var/tmp/neut-$$; rm -rf $d; mkdir -p $d/.out
rsync -a --exclude .git /repo/ $d/ && (cd $d && patch -s -p1 -i "$patch") || { echo "patch failed"; rm -rf $d; exit 2; }
cp /verif/known_findings.json $d/.out/
fail=0
for p in $(python3 -c "import json;print(' '.join(c['property_id'] for c in json.load(open('/verif/MANIFEST.json'))['checks']))"); do
  out=$(VERIF_REPO=$d VERIF_ROOT=$d/.out /verif/bin/oapsa -property $p -tier $tier 2>&1)
  if echo "$out" | grep -q "VIOLATION"; then fail=1; echo "$out" | grep -E "violated|undecided:" | cut -c1-260; fi
done
rm -rf $d
[ $fail = 0 ] && echo "SILENT (no alarm) $(basename $patch)" || echo "FALSE-ALARM $(basename $patch)"
