#!/usr/bin/env python3
"""Developer tool: merge the incremental records of filtered selftest runs (SELFTEST_OUT=<file>, one JSON line per case)
into selftest_results.json. usage: mergeselftest.py <file>..."""
import json, sys
res = json.load(open("/verif/selftest_results.json"))
n = 0
for f in sys.argv[1:]:
    for l in open(f):
        res.update(json.loads(l)); n += 1
json.dump(res, open("/verif/selftest_results.json", "w"), indent=1, sort_keys=True)
bad = [k for k, v in res.items() if not v["as_expected"]]
print(n, "records merged;", len(res), "cases;", len(bad), "not as expected:", bad)
