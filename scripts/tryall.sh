#!/bin/bash
# Developer tool: apply a patch to a scratch copy of /repo and run ALL claimed checks against it in parallel;
# prints every violated/undecided line per property. usage: tryall.sh <abs patch> [jobs]
patch="$1"; jobs="${2:-6}"
d=/var/tmp/tryall-$$; rm -rf $d; mkdir -p $d/.out
rsync -a --exclude .git /repo/ $d/ && (cd $d && patch -s -p1 -i "$patch") || { echo "patch failed"; rm -rf $d; exit 2; }
props=$(python3 -c "import json;print(' '.join(c['property_id'] for c in json.load(open('/verif/MANIFEST.json'))['checks']))")
for p in $props; do mkdir -p $d/.out/$p; cp /verif/known_findings.json $d/.out/$p/; done
echo $props | tr ' ' '\n' | xargs -P $jobs -I{} sh -c "VERIF_REPO=$d VERIF_ROOT=$d/.out/{} ${OAPSA_BIN:-/verif/bin/oapsa} -property {} > $d/.out/{}.log 2>&1"
for p in $props; do grep -E "violated|undecided:" $d/.out/$p.log | cut -c1-300; done
echo "fired: $(for p in $props; do grep -q VIOLATION $d/.out/$p.log && echo -n "$p "; done)"
rm -rf $d
