#!/bin/bash
# The repository's own test suite with the (unused) verif guard off: no hooks are compiled in.
set -uo pipefail
. "$(dirname "$0")/env.sh"
cd /repo && go test -vet=off -count=1 -timeout 25m ./...
