#!/usr/bin/env python3
"""Generates /verif/MANIFEST.json from the table below (kept in one place so it is always valid)."""
import json, os, subprocess
ROOT = os.path.dirname(os.path.dirname(os.path.abspath(__file__)))

# id -> (claimed?, technique, level text, level_note / reason)
T = {}
def claim(i, technique, text, note, ref):
    T[i] = dict(claimed=True, technique=technique, text=text, note=note, ref=ref)
def na(i, reason):
    T[i] = dict(claimed=False, reason=reason)

TRUST = ("Trusted: go/types+go/ssa model of the built program (linux, repository toolchain), semantics of named std/third-party callees, "
         "reviewed tables in sa/rules. A pass means the named structural necessary condition holds on every path/site, not that the behaviour holds for all values.")

claim("C01", "path-sensitive SSA fact walk + closed-world field/call-site enumeration",
      "Structural necessary condition, decided for all inputs/configurations at once: every protected sink is gated by getAuthenticatedSession err==nil; its nil-error returns need bypass or the full authorisation conjunction; RequestScope.Session has a closed writer set fed only by verified getters; stores/tickets succeed only behind the signature check; session-consuming routes go through sessionChain. Level 'other': a static argument over code shape, not a behavioural proof.",
      TRUST + " Not decided: that valid credentials always verify; crypto correctness; validator string semantics.", "DESIGN.md §5 C01")

claim("C03", "path-sensitive SSA fact walk + sibling agreement",
      "Structural necessary condition of the state<->CSRF-cookie binding, for all inputs/configurations: every saving path of the callback passed decodeState -> LoadCSRFCookie(name derived from that nonce) -> CheckOAuthState(that nonce) on that object; the cookie loader/decoder accept only a same-named, Validate-ok cookie; start side sends the hashes of the object whose cookie it set; name derivations and state encoding agree. Level 'other'.",
      TRUST + " Not decided: the 'succeeds' direction and concurrent-login orderings.", "DESIGN.md §5 C03")

claim("C08", "path-sensitive SSA fact walk over the serving paths and the authorisation predicates",
      "Structural necessary condition for all sessions/configurations: every serving path (authenticated return of getAuthenticatedSession, callback save, auth-only 202) is gated by the authorisation predicates evaluated on the same session with outcome true; denied paths clear the cookie; each small predicate (authOnlyAuthorize, checkAllowed*, ProviderData.Authorize) returns true only via 'not configured' or a membership test on the session's own field. Level 'other'.",
      TRUST + " Not decided: string semantics of e-mail/domain validators and allow-list contents.", "DESIGN.md §5 C08")

claim("C05", "path-sensitive SSA fact walk + value provenance + closed reader sets + constant evaluation",
      "Structural necessary condition of the nonce/PKCE binding for all logins/configurations: nonce set from the loaded CSRF cookie before ValidateSession on every saving path; OIDC validation true only with Verify ok and (SkipNonce or nonce claim hash-matches, constant-time); verifier fresh from crypto/rand, RFC 7636 length/alphabet constants, used only for challenge + CSRF cookie, redeemed from the loaded cookie and sent as code_verifier by every Redeem; only hashed state/nonce reach the login URL; raw fields have a closed reader set. Level 'other'.",
      TRUST + " Not decided: IdP behaviour, entropy, msgpack reflection reads of csrf fields.", "DESIGN.md §5 C05")
claim("C09", "path-sensitive SSA fact walk + operand provenance + pass-through chain checks",
      "Structural necessary condition of the lifetime threshold for all durations: Validate ok only with expiration==0 or t in (now-expiration, now+5m) with exactly those operands and t parsed from the MAC-covered timestamp; all callers pass Cookie.Expire; signed timestamp is *CreatedAt of the saved session; Save stamps only unset sessions; refresh re-stamps before saving; Max-Age and store TTL flow unchanged from Cookie.Expire. Level 'other'.",
      TRUST + " Not decided: off-by-one/second-granularity value semantics of time comparisons; Redis TTL behaviour.", "DESIGN.md §5 C09")

claim("C11", "path-sensitive SSA fact walk + error-propagation chain + constant-regex probe + sibling agreement",
      "Structural necessary condition of sign-out for all histories/configurations: success redirect only after Clear returned nil; Manager.Clear always emits the cookie deletion and passes the store-delete error up unchanged (nil only for a missing cookie); the cookie store sweeps every presented cookie matching the quoted name(_N)? pattern and deletes it under its presented name; setters and deleters agree on name and options. Level 'other'.",
      TRUST + " Not decided: replaying histories against a live store, 251-256 byte name truncation, browser behaviour.", "DESIGN.md §5 C11")

claim("C13", "closed-world enumeration of store-family call sites + path-sensitive error-propagation / guard checks",
      "Structural necessary condition of fail-closed store handling for every fault position at once: no store/lock/ping error is dropped at any of the enumerated call sites (propagated or examined; two reviewed exceptions are structurally checked), cookie only after persist, redirects only after save, readiness 200 only after ping ok, decrypt slicing bounds-guarded. Level 'other'.",
      TRUST + " Not decided: fault sequences (lost replies, pairs), codec behaviour on corrupt bytes, time-outs.", "DESIGN.md §5 C13")

claim("C12", "path-sensitive SSA fact walk (lock protocol order, release-on-all-exits) + who-may-call + sentinel agreement",
      "Structural necessary condition only: the SHAPE of the refresh protocol (single refresh site; refresh reachable only after lock obtained -> reload -> overwrite -> second needsRefresh; releasing defer on every lock-holding exit; stale sessions accepted only via validateSession's verdict; loader clears on failure; ticket reuse; lock sentinel mapping). Level 'other': schedules are NOT explored, so 'exactly one refresh' is not claimed.",
      TRUST + " Not decided: interleavings, lock expiry vs IdP latency, token rotation behaviour.", "DESIGN.md §5 C12")

claim("C04", "path-sensitive SSA fact walk (same-token rule) + composite-literal field enumeration + closed writer sets + override delegation",
      "Structural necessary condition for all tokens/configurations: a session is built from claims only on paths where that same token passed Verify; Verify succeeds only with go-oidc ok and the own audience-membership check; no oidc.Config disables expiry/signature and issuer skipping comes only from the explicit option; email_verified gate on every success return; bearer loader list closed; OIDC-embedding overrides delegate. Level 'other'.",
      TRUST + " Not decided: claim-value equality, go-oidc internals; legacy Azure extractClaimsIntoSession is an unclaimed site.", "DESIGN.md §5 C04")

claim("C14", "path-sensitive SSA fact walk + provider call-site error discipline + panic-source enumeration (SSA + compiler BCE residue) on provider code",
      "Structural necessary condition of fail-closed IdP handling for every fault position: no save/extension on any IdP-error path (callback facts, redeemCode, stale-result rule, createSession failure clause), no Provider result dropped at any enumerated call site, and every nameable panic source on decoded IdP data in request-reachable provider code guarded or reviewed. Level 'other'.",
      TRUST + " Not decided: time-outs, oversized bodies, third-party decoder internals.", "DESIGN.md §5 C14")
claim("C19", "panic-source enumeration over the VTA request-reachable set: SSA instructions + compiler prove-pass residue + nullable-field path facts",
      "Structural necessary condition: every nameable panic source reachable from ServeHTTP (explicit panic, unchecked assertion, compiler-unproven index/slice, dynamic Must*, nullable timestamp / decoder-filled pointer dereference) is discharged by a guard found on every path or by a reviewed one-construct-one-reason table; scope presence; SameSite agreement. Level 'other': absence of the enumerated panic classes, not of all crashes.",
      TRUST + " Also trusted: the Go compiler's prove pass for eliminated bounds checks. Not decided: third-party library panics, nil-map writes, division, exhaustion.", "DESIGN.md §5 C19")

claim("C15", "value provenance / taint (query-free operand) + path-sensitive predicate structure + sibling agreement (NetSet add/has)",
      "Structural necessary condition for all requests/rule sets: the string matched by skip-auth regexes is query- and fragment-free on every path; method/path predicates and negate wired exactly; preflight needs flag && OPTIONS; trusted-IP verdict only as NetSet.Has(GetClientIP result); NetSet inserts into the same-mask map it looks up, keyed identically; host-bit CIDRs rejected. Level 'other'.",
      TRUST + " Not decided: regex engine, CIDR arithmetic over all addresses, net.IP normalisation.", "DESIGN.md §5 C15")

claim("C16", "closed-world enumeration of request-header reads + guard dominance on SSA paths + field writer/reader sets",
      "Structural necessary condition of non-interference (absence of a dependence path), for all requests/configurations: forwarding-header names are read only inside the three IsProxied-guarded accessors, their value is returned only under IsProxied==true, the flag has one writer fed from configuration, the client-IP parser exists only in reverse-proxy mode and reads its one configured header. Level 'other'.",
      TRUST + " Not decided: pairwise equality of whole responses (relational over values).", "DESIGN.md §5 C16")

claim("C07", "SSA structure + path facts (strip/inject composition), who-may-use (handlers only through the chain), value provenance of injected values",
      "Structural necessary condition for all sessions/header sets/option combinations: same list to strip and inject, strip first with canonicalising Del for exactly the non-preserved names, unconditionally; upstream handler and 202 writer reachable only through headersChain.Then; injected values only from GetClaim/config/constants; nil session injects nothing; legacy conversion applies skip-auth-strip-headers to every entry. Level 'other'.",
      TRUST + " Not decided: legacy flag -> claim value tables, upstream header-name normalisation, GetClaim's per-claim values.", "DESIGN.md §5 C07")

claim("C20", "must-hold lockset walk over SSA paths + atomic-pointer discipline + immutability-after-publication + swap gating",
      "Structural necessary condition only (the discipline, not the schedules): every shared access to htpasswdMap.users holds rwm; published credential maps are immutable and replaced by locally built ones; Validate compares against the entry it read; UserMap.m only via sync/atomic with frozen stored maps and index-only readers; swaps only after error-free parsing. Level 'other'.",
      TRUST + " Not decided: interleavings, fsnotify semantics, file-system atomicity.", "DESIGN.md §5 C20")

claim("C18", "closed-world enumeration (cookie allocations, SetCookie arguments, field stores) + value provenance + constructor wiring on SSA paths",
      "Structural necessary condition for all responses/option combinations: every cookie sent derives from the single constructor, which wires each attribute from its option and selects the domain by first suffix match in the validated longest-first order; nobody rewrites attributes or reorders the domain list afterwards; copies keep all attributes; deletions reuse name and options. Level 'other'.",
      TRUST + " Not decided: the 4096-byte bound, suffix-match value semantics incl. host-with-port, http.Cookie serialisation.", "DESIGN.md §5 C18")

claim("C06", "sanitiser dominance on SSA paths + accepting-path structure of the validators + bounded exhaustive language probe of the extracted regex/prefix constants",
      "Structural necessary condition for all redirect strings/whitelists: every redirect and page-link sink takes GetRedirect's result, \"/\" or a value validated on the path; GetRedirect returns only validated candidates; login URL is the configured endpoint with only the query rewritten; validators accept only through the whitelist branch (non-empty host, label-boundary suffix, port rule) or the relative test, whose extracted acceptance language is disjoint from scheme-relative targets on all strings up to length 5 over a 15-symbol adversarial alphabet. Level 'other'.",
      TRUST + " Also trusted: the model of net/http.Redirect rewriting and WHATWG preprocessing used as the 'bad' oracle. Not decided: absolute-URL parser differentials, longer strings, byte-for-byte landing.", "DESIGN.md §5 C06")

claim("C17", "closed-world who-may-write enumeration on request fields + call-graph reachability of body consumers + accepting-path structure of the order comparator",
      "PARTIAL: four structural necessary conditions only — request line/host/body written only in pkg/upstream or on clones; no body consumer on the pass path; the registration-order comparator is rewrite-first only against a plain upstream and longer-path-first otherwise; the rewrite query merge appends. Routing by gorilla/mux, percent-encoding fidelity and response relay are NOT decided. Level 'other'.",
      TRUST + " Not decided: longest-prefix routing, encoding fidelity, response relay (third-party behaviour over all inputs).", "DESIGN.md §5 C17")

claim("C02", "signer/verifier sibling agreement on SSA + value provenance (signed-before-emit, encrypt-before-emit) + path facts (validate-before-decode, full constant-time compare)",
      "Structural necessary condition for all cookies/edits/secrets: the MAC covers name, value and timestamp with identical roles on both sides; compare is hmac.Equal on complete decoded signatures; every non-empty cookie value derives from SignedValue; payloads decode only from Validate's value; the joined split cookie is what is validated; serialised sessions/CSRF flow only into Encrypt and only ciphertext is stored or signed. Level 'other'.",
      TRUST + " Not decided: the cryptography, ambiguity of unkeyed concatenation, base64 laxness, value-exact decoding over all edits.", "DESIGN.md §5 C02")

claim("C10", "sibling agreement on SSA and types (encode/decode flags and ciphers, splitter/loader part naming, ticket encoder/decoders, struct tags) + path facts on the codec + reachability of a jar reader from Save + constant evaluation of the split threshold",
      "PARTIAL: structural necessary conditions of the save/load round trip only — each store encodes and decodes with the same flag and cipher source and addresses its backend by the ticket id; EncodeSessionState/DecodeSessionState mirror each other; every SessionState field is serialised under a unique key; splitter and loader number parts identically, the loader joins in order onto a copy of part 0 named like the whole, chunks are consecutive; Save reads the presented jar and expires every presented session cookie it did not write; the split threshold is <= 4096 and every emitted cookie was measured against it; Clear sweeps; ticket encoder and decoders agree. The round trip as behaviour (all sizes, all field contents, boundary arithmetic) is NOT decided. Level 'other'.",
      TRUST + " Not decided: msgpack/lz4/AES value semantics, byte arithmetic at the split boundary, part names for cookie names over 250 bytes, browser jar semantics, Redis.", "DESIGN.md §6 and §11.7")

for i in range(2, 21):
    pid = "C%02d" % i
    if pid not in T:
        na(pid, "check not built yet in this round (design in DESIGN.md §5); will be claimed once its rules run green and are mutant-tested")


import re
def addendum(pid):
    """Rules added during the build are described once, in the rule file's Explanation; reuse that text."""
    try:
        src = open(os.path.join(ROOT, "sa", "rules", pid.lower() + ".go")).read()
    except OSError:
        return ""
    m = re.search(r'Explanation: "((?:[^"\\]|\\.)*)"', src)
    if not m or "Added during the build:" not in m.group(1):
        return ""
    return " Added during the build:" + m.group(1).split("Added during the build:", 1)[1].replace('\\"', '"')

checks, nas = [], []
for pid in sorted(T):
    e = T[pid]
    if e["claimed"]:
        e["text"] += addendum(pid)
        e["ref"] += "; as built: DESIGN.md §11"
        checks.append({
            "property_id": pid,
            "quick_cmd": f"scripts/check.sh {pid} quick",
            "thorough_cmd": f"scripts/check.sh {pid} thorough",
            "evidence_file": f"/verif/evidence/{pid}.json",
            "replay_cmd_template": f"scripts/check.sh {pid} quick --replay {{path}}",
            "engine": "oapsa",
            "level_claimed": {"category": "other", "text": e["text"], "design_ref": e["ref"]},
            "level_note": e["note"],
            "technique": "static analysis: " + e["technique"],
        })
    else:
        nas.append({"property_id": pid, "reason": e["reason"]})

m = {
    "version": 1,
    "setup_cmd": "scripts/setup.sh",
    "hooks": {
        "guard": "verif",
        "enable": "none needed: the analysis reads source; no guarded code is added to /repo",
        "baseline_off_cmd": "scripts/baseline_off.sh",
        "source_commits": [],
        "add_only": True,
    },
    "engines": [{
        "name": "oapsa", "path": "/verif/sa",
        "serves_properties": [c["property_id"] for c in checks],
        "kind_free_text": "repository-specific static analyser on go/packages + go/ssa (x/tools v0.29.0): path-sensitive fact walker, value provenance, closed-world who-may enumerations, lockset, panic-source enumeration, sibling agreement, regex-language obligations",
    }],
    "checks": checks,
    "not_applicable": nas,
    "notes": "All checks decide properties from /repo's current source without running it. Known findings: /verif/known_findings.json. Self-test with seeded changes: /verif/seeded, scripts/selftest.py (developer tool).",
}
json.dump(m, open(os.path.join(ROOT, "MANIFEST.json"), "w"), indent=1)
print("MANIFEST.json:", len(checks), "checks,", len(nas), "not applicable")
