#!/usr/bin/env python3
"""Developer tool (not a registered check): run the checks against every mutant / seeded change in a scratch copy
of /repo and require the expected verdict. usage: selftest.py [filter-substring] [-j N]
  mutants/<name>.patch   first line '# expect: <PROP> [rule-substring]' or '# expect: neutral <PROP,PROP,...>'
  seeded/<id>/patch.diff with meta.json {"property": "Cxx"}
"""
import sys, os, subprocess, shutil, json, glob, concurrent.futures as cf
ROOT = "/verif"
SCRATCH = os.environ.get("VERIF_SCRATCH", "/var/tmp/verif-scratch")
flt = [a for a in sys.argv[1:] if not a.startswith("-")]
jobs = int(os.environ.get("SELFTEST_JOBS", "12"))
RESULTS = {}
claimed = {c["property_id"] for c in json.load(open(ROOT + "/MANIFEST.json"))["checks"]}

def cases():
    for p in sorted(glob.glob(ROOT + "/mutants/*.patch")):
        first = open(p).readline().strip()
        assert first.startswith("# expect:"), p
        exp = first[len("# expect:"):].split()
        name = os.path.basename(p)[:-6]
        if exp[0] == "neutral":
            allp = os.environ.get("SELFTEST_NEUTRAL_PROPS", "").split() or sorted(claimed)  # developer shortcut: a subset
            yield name, p, "neutral", (allp if exp[1] == "ALL" else exp[1].split(",")), ""
        else:
            yield name, p, "violation", [exp[0]], " ".join(exp[1:])
    for d in sorted(glob.glob(ROOT + "/seeded/*/")):
        if not os.path.exists(d + "meta.json"):
            continue  # a seed still being confirmed
        meta = json.load(open(d + "meta.json"))
        props = meta["property"] if isinstance(meta["property"], list) else [meta["property"]]
        yield "seeded-" + os.path.basename(d.rstrip("/")), d + "patch.diff", meta.get("expect", "violation"), props, meta.get("rule", "")

def run(case):
    name, patch, kind, props, rule = case
    d = os.path.join(SCRATCH, name)
    shutil.rmtree(d, ignore_errors=True)
    os.makedirs(d)
    try:
        subprocess.check_call(["rsync", "-a", "--exclude", ".git", "/repo/", d + "/"])
        r = subprocess.run(["patch", "-s", "-p1", "-i", patch], cwd=d, capture_output=True, text=True)
        if r.returncode != 0:
            return name, "PATCH-FAILED", r.stdout + r.stderr
        res = []
        fired_rules = []
        okall = True
        expected = list(props)
        if kind == "neutral" and set(props) == claimed:
            # all checks against a behaviour-preserving patch: one process, one load of the program (oapsa -property ALL)
            env = dict(os.environ, VERIF_REPO=d, VERIF_ROOT=os.path.join(d, ".verif-out"))
            os.makedirs(env["VERIF_ROOT"], exist_ok=True)
            shutil.copy(ROOT + "/known_findings.json", env["VERIF_ROOT"])
            r = subprocess.run([os.environ.get("OAPSA_BIN", ROOT + "/bin/oapsa"), "-property", "ALL", "-tier", os.environ.get("TIER", "quick")], env=env, capture_output=True, text=True, cwd=ROOT)
            import re as _re
            viol = [l for l in r.stdout.splitlines() if "] violated:" in l or "] undecided:" in l]
            fired = r.returncode != 0 or "VIOLATION property=" in r.stdout
            fired_rules = sorted({m.group(1) + "." + m.group(2) for l in viol for m in [_re.search(r"\[(C\d+) ([^\]]+)\]", l)] if m})
            if fired and not fired_rules:
                fired_rules = ["ALL.meta"]
            okall = not fired
            res.append(f"ALL: {'fired' if fired else 'silent'} rc={r.returncode} " + " / ".join(v[:160] for v in viol[:3]))
            props = []
        for prop in props:
            if prop not in claimed:
                res.append(f"{prop}: not claimed")
                if kind == "violation":
                    okall = False
                continue
            env = dict(os.environ, VERIF_REPO=d, VERIF_ROOT=os.path.join(d, ".verif-out"))
            os.makedirs(env["VERIF_ROOT"], exist_ok=True)
            shutil.copy(ROOT + "/known_findings.json", env["VERIF_ROOT"])
            r = subprocess.run([os.environ.get("OAPSA_BIN", ROOT + "/bin/oapsa"), "-property", prop, "-tier", os.environ.get("TIER", "quick")], env=env, capture_output=True, text=True, cwd=ROOT)
            viol = [l for l in r.stdout.splitlines() if "] violated:" in l or "] undecided:" in l]
            fired = r.returncode != 0 and "VIOLATION property=" + prop in r.stdout
            import re as _re
            fired_rules += sorted({m.group(1) + "." + m.group(2) for l in viol for m in [_re.search(r"\[(C\d+) ([^\]]+)\]", l)] if m})
            if kind == "violation":
                good = fired and (not rule or any(rule in l for l in r.stdout.splitlines()))
            else:
                good = not fired and r.returncode == 0
            okall &= good
            res.append(f"{prop}: {'fired' if fired else 'silent'} rc={r.returncode} " + " / ".join(v[:160] for v in viol[:3]))
        RESULTS[name] = {"kind": kind, "expected": expected, "as_expected": bool(okall), "fired": fired_rules}
        if os.environ.get("SELFTEST_OUT"):  # incremental record, one JSON line per case (merged by scripts/mergeselftest.py)
            with open(os.environ["SELFTEST_OUT"], "a") as fh:
                fh.write(json.dumps({name: RESULTS[name]}, sort_keys=True) + "\n")
        return name, ("OK " if okall else "MISS") + f" [{kind}]", "\n     ".join(res)
    finally:
        shutil.rmtree(d, ignore_errors=True)

if not os.environ.get("OAPSA_BIN"):
    subprocess.check_call([ROOT + "/scripts/setup.sh"], stdout=subprocess.DEVNULL)
cs = [c for c in cases() if not flt or any(f in c[0] for f in flt)]
if os.environ.get("SELFTEST_OUT") and os.path.exists(os.environ["SELFTEST_OUT"]):  # resume: skip what is recorded
    done = set()
    for l in open(os.environ["SELFTEST_OUT"]):
        done.update(json.loads(l).keys())
    cs = [c for c in cs if c[0] not in done]
bad = 0
with cf.ThreadPoolExecutor(jobs) as ex:
    for name, verdict, detail in ex.map(run, cs):
        print(f"{verdict:18s} {name}\n     {detail}")
        bad += not verdict.startswith("OK")
print(f"{len(cs)} cases, {bad} not as expected")
if not flt:
    json.dump(RESULTS, open(ROOT + "/selftest_results.json", "w"), indent=1, sort_keys=True)
shutil.rmtree(SCRATCH, ignore_errors=True)
sys.exit(1 if bad else 0)
