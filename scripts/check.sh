#!/bin/bash
# usage: scripts/check.sh <property> <quick|thorough> [--replay <file>]
# Rebuilds the analyser if needed and decides the property on $VERIF_REPO's (default /repo) current working tree.
set -uo pipefail
cd "$(dirname "$0")/.."
. scripts/env.sh
id="${1:?property id}"; tier="${2:-${VERIF_TIER:-quick}}"; shift; shift || true
mkdir -p bin evidence replays
if ! (cd sa && go build -o ../bin/oapsa ./cmd/oapsa) >&2; then
  echo "VIOLATION property=$id replay=/verif/replays/$id-build-failure.txt"
  echo "analyser build failed" > "replays/$id-build-failure.txt"
  exit 1
fi
exec bin/oapsa -property "$id" -tier "$tier" "$@"
