#!/usr/bin/env python3
"""Developer tool: write the prompts for a seeding round under /tmp (sub-agents never read /verif).
usage: mkseedprompts.py <round-number> [ids...]   -> /tmp/seedout<r>/<id>.prompt, /tmp/seedout/<id>.property.json
Each agent gets: the property's JSON line (copied to /tmp), its own worktree /tmp/seed<r>/<id> (create with
`git -C /repo worktree add --detach /tmp/seed<r>/<id> HEAD`), and a list of the code sites earlier rounds used."""
import json, glob, re, os, sys
r = sys.argv[1]
ids = sys.argv[2:]
tmpl = open("/verif/scripts/seed_prompt.tmpl").read()
os.makedirs("/tmp/seedout", exist_ok=True)
os.makedirs(f"/tmp/seedout{r}", exist_ok=True)
for l in open("/verif/properties.jsonl"):
    d = json.loads(l)
    pid = d["id"]
    if ids and pid not in ids:
        continue
    json.dump(d, open(f"/tmp/seedout/{pid}.property.json", "w"), indent=1)
    sites = set()
    for sd in glob.glob(f"/verif/seeded/{pid}-*/"):
        t = open(sd + "patch.diff").read()
        sites.update(re.findall(r"^\+\+\+ b/(\S+)", t, re.M))
        sites.update("func " + h for h in re.findall(r"^@@ .* @@ func (?:\([^)]*\) )?(\w+)", t, re.M))
    u = (tmpl.replace("{WT}", f"/tmp/seed{r}/{pid}").replace("{PROPFILE}", f"/tmp/seedout/{pid}.property.json")
         .replace("{OUT}", f"/tmp/seedout{r}/{pid}").replace("{DEMO}", f"zz_seed{r}_{pid}").replace("{ID}", pid))
    u += f"""

DIVERSITY NOTE: earlier independent attempts at this property already used changes in these places: {", ".join(sorted(sites))}. Choose DIFFERENT code sites and different mechanisms from those for both A and B — other functions, other files, other clauses of the property statement, other providers/stores/configuration branches. Read the property statement clause by clause and pick clauses that the places above do not implement. Unusual but realistic mechanisms are welcome: an off-by-one in a boundary, a wrong default for an unset option, an error swallowed in a rarely taken branch, state shared between requests, a check applied to the wrong one of two similar values, a change in a helper used by the anchored code rather than in the anchored code itself, a change in option parsing/validation/conversion that feeds the anchored code a wrong value.
Save your results under /tmp/seedout{r}/{pid}/a and /tmp/seedout{r}/{pid}/b, name the demo files zz_seed{r}_{pid}_<a|b>_test.go, and work in the worktree /tmp/seed{r}/{pid}.
"""
    open(f"/tmp/seedout{r}/{pid}.prompt", "w").write(u)
    os.makedirs(f"/tmp/seedout{r}/{pid}", exist_ok=True)
    print(pid, len(sites), "excluded sites")
