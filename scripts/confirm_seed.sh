#!/bin/bash
# Developer tool: confirm a seeded change independently and file it under /verif/seeded/<name>/.
# usage: confirm_seed.sh <dir with patch.diff + zz_seed*_test.go + notes.md> <name e.g. C08-a> <property>
# Confirms in a scratch worktree of /repo (outside /repo and /verif): demo passes clean; with the patch the tree
# builds, vets, the demo FAILS, and the unedited existing suite passes. Removes the worktree afterwards.
set -uo pipefail
src="$1"; name="$2"; prop="$3"
. /verif/scripts/env.sh
wt="/var/tmp/confirm-$name"
log="/var/tmp/confirm-$name.log"
exec > >(tee "$log") 2>&1
git -C /repo worktree remove --force "$wt" 2>/dev/null; rm -rf "$wt"
git -C /repo worktree add -q --detach "$wt" HEAD || exit 2
cleanup() { git -C /repo worktree remove --force "$wt" 2>/dev/null; rm -rf "$wt"; }
trap cleanup EXIT
demo=$(ls "$src"/zz_seed*_test.go 2>/dev/null | head -1)
[ -f "$src/patch.diff" ] && [ -n "$demo" ] || { echo "RESULT $name: missing patch or demo"; exit 2; }
pkgdir=$(grep -m1 -o 'PKGDIR:.*' "$src/notes.md" 2>/dev/null | cut -d: -f2 | tr -d ' ')
# find the package dir: package clause of the demo must match a dir touched by or named in notes; try candidates
pkgname=$(grep -m1 '^package ' "$demo" | awk '{print $2}')
cands=$( (grep '^+++ b/' "$src/patch.diff" | sed 's#^+++ b/##' | xargs -n1 dirname; grep -o '[a-zA-Z0-9_/.-]*zz_seed[a-zA-Z0-9_]*_test.go' "$src/notes.md" | xargs -n1 dirname 2>/dev/null) | sort -u)
place=""
if [ -n "$pkgdir" ] && [ -d "$wt/$pkgdir" ]; then cands="$pkgdir"; fi
for d in $cands . ; do
  d=${d#/tmp/seed/*/}; [ -d "$wt/$d" ] || continue
  p=$(cd "$wt/$d" && ls *.go 2>/dev/null | head -1); [ -n "$p" ] || continue
  dn=$(grep -m1 '^package ' "$wt/$d/$p" | awk '{print $2}')
  if [ "$dn" = "$pkgname" ] || [ "${dn}_test" = "$pkgname" ]; then place="$d"; break; fi
done
if [ -z "$place" ]; then
  base=${pkgname%_test}
  place=$(cd "$wt" && grep -rl --include=*.go "^package $base\$" . | grep -v _test.go | xargs -n1 dirname | sort -u | sed 's#^\./##' | head -1)
fi
[ -n "$place" ] || { echo "RESULT $name: cannot place demo (package $pkgname; candidates: $cands)"; exit 2; }
echo "demo $(basename $demo) -> $place"
cp "$demo" "$wt/$place/"
runre=$(grep -o '^func Test[A-Za-z0-9_]*' "$demo" | sed 's/func //' | paste -sd'|')
cd "$wt"
echo "== 1. demo on clean tree (must pass)"
if ! go test -vet=off -count=1 -run "^($runre)\$" "./$place" ; then echo "RESULT $name: REJECT demo fails on clean tree"; exit 1; fi
echo "== 2. apply patch, build, vet"
git apply "$src/patch.diff" || { echo "RESULT $name: REJECT patch does not apply"; exit 1; }
go build ./... || { echo "RESULT $name: REJECT does not build"; exit 1; }
for d in $(git diff --name-only | xargs -n1 dirname | sort -u); do go vet "./$d" || { echo "RESULT $name: REJECT vet fails in $d"; exit 1; }; done
echo "== 3. demo with change (must fail)"
if go test -vet=off -count=1 -run "^($runre)\$" "./$place" ; then echo "RESULT $name: REJECT demo still passes with the change"; exit 1; fi
echo "== 4. existing suite with change, demo absent (must pass)"
rm -f "$wt/$place/$(basename $demo)"
if ! go test -vet=off -count=1 ./... > "$log.suite" 2>&1 ; then
  failed=$(grep '^FAIL\s' "$log.suite" | awk '{print $2}' | sort -u)
  # pkg/clock is timing-flaky under load (listed as flaky in the baseline): retry it alone
  if [ "$failed" = "github.com/oauth2-proxy/oauth2-proxy/v7/pkg/clock" ] && (go test -vet=off -count=1 ./pkg/clock || go test -vet=off -count=1 ./pkg/clock) >/dev/null 2>&1; then
    echo "pkg/clock flaked once, passed on retry"
  else
    grep -v '^ok\|no test files' "$log.suite" | head -30; echo "RESULT $name: REJECT existing suite fails with the change"; exit 1
  fi
fi
echo "suite ok ($(grep -c '^ok' "$log.suite") packages)"
dst="/verif/seeded/$name"; mkdir -p "$dst"
cp "$src/patch.diff" "$dst/patch.diff"; cp "$demo" "$dst/"; cp "$src/notes.md" "$dst/notes.md" 2>/dev/null
python3 - "$dst" "$prop" "$place" "$(basename $demo)" "$runre" <<'PY'
import json,sys
dst,prop,place,demo,runre=sys.argv[1:]
json.dump({"property":prop,"breaks":"see notes.md","needs_to_manifest":"see notes.md","demo":{"file":demo,"package_dir":place,"run":runre},
 "confirmed":{"by":"scripts/confirm_seed.sh in a scratch worktree of /repo HEAD","steps":["demo passes on clean tree","patch applies; go build ./... and go vet of touched packages succeed","demo fails with the patch","go test -vet=off -count=1 ./... passes with the patch and the demo absent"]},
 "author":"independent sub-agent given only the property text"}, open(dst+"/meta.json","w"), indent=1)
PY
python3 /verif/scripts/fillmeta.py "/$name/"
echo "RESULT $name: CONFIRMED -> $dst"
