#!/bin/bash
# Developer tool: apply a patch to a scratch copy of /repo and run the given properties' checks against it.
# usage: trypatch.sh <patch> <prop> [prop...]
patch="$1"; shift
d=/var/tmp/try-$$; rm -rf $d; mkdir -p $d/.out
rsync -a --exclude .git /repo/ $d/ && (cd $d && patch -s -p1 -i "$patch") || { echo "patch failed"; rm -rf $d; exit 2; }
cp /verif/known_findings.json $d/.out/
for p in "$@"; do
  VERIF_REPO=$d VERIF_ROOT=$d/.out /verif/bin/oapsa -property $p 2>&1 | grep -E "violated|undecided|^$p quick" | cut -c1-260
done
rm -rf $d
