# Sourced by every script: deterministic offline Go environment for analysing /repo.
# /repo/go.mod needs go >= 1.23.7; the default `go` is 1.23.5, so put the cached
# 1.23.7 toolchain (the one the repository's own build auto-switches to) first on PATH.
export GOTOOLCHAIN=local GOPROXY=off GOSUMDB=off GOFLAGS=-mod=mod CGO_ENABLED=0
unset GOWORK
_modcache="${GOMODCACHE:-$(GOTOOLCHAIN=local go env GOMODCACHE 2>/dev/null)}"
[ -n "$_modcache" ] || _modcache=/root/go/pkg/mod
_t="$_modcache/golang.org/toolchain@v0.0.1-go1.23.7.linux-amd64"
if [ -x "$_t/bin/go" ]; then
  export PATH="$_t/bin:$PATH"
elif [ -x /opt/veriftools/go1.26.8/bin/go ]; then
  export PATH="/opt/veriftools/go1.26.8/bin:$PATH"
fi
export VERIF_ROOT="${VERIF_ROOT:-/verif}"
export VERIF_REPO="${VERIF_REPO:-/repo}"
