#!/usr/bin/env python3
"""Developer tool: copy the 'needs to manifest' and 'clause broken' sections of each seed's notes.md into its meta.json."""
import json, glob, re, sys
def section(txt, pats):
    lines = txt.split('\n')
    for i, l in enumerate(lines):
        if re.match(r'^\s*(#+|\*\*)', l) and any(re.search(p, l, re.I) for p in pats):
            out = []
            for m in lines[i + 1:]:
                if re.match(r'^\s*#+\s', m) or (re.match(r'^\*\*[^*]+\*\*\s*$', m) and out):
                    break
                out.append(m)
            t = ' '.join(x.strip() for x in out if x.strip())
            if t:
                return re.sub(r'\s+', ' ', t)[:700]
    return None
for d in sorted(glob.glob('/verif/seeded/*/')):
    if len(sys.argv) > 1 and not any(a in d for a in sys.argv[1:]):
        continue
    notes = open(d + 'notes.md').read()
    meta = json.load(open(d + 'meta.json'))
    needs = section(notes, [r'need', r'manifest', r'trigger'])
    breaks = section(notes, [r'clause', r'breaks', r'broken'])
    if needs:
        meta['needs_to_manifest'] = needs
    if breaks:
        meta['breaks'] = breaks
    json.dump(meta, open(d + 'meta.json', 'w'), indent=1)
