#!/usr/bin/env python3
"""Developer tool: render the 'which check catches which change' tables of DESIGN.md §11.5 from
selftest_results.json (written by selftest.py) and the seeds' meta.json / notes."""
import json, os, re, glob
ROOT = "/verif"
res = json.load(open(ROOT + "/selftest_results.json"))

def first_line(path, n=140):
    try:
        for l in open(path):
            l = l.strip().lstrip("#").strip()
            if l and not l.lower().startswith(("notes", "seed", "change", "c0", "c1", "c2")):
                return l[:n]
    except OSError:
        pass
    return ""

def touched(patch):
    fs = re.findall(r"^\+\+\+ b/(\S+)", open(patch).read(), re.M)
    return ", ".join(sorted(set(fs)))

out = []
out.append("**Seeded changes (sub-agents, confirmed).** `caught by` lists the rules of the seed's *own* property that fire (first three).\n")
out.append("| seed | property | files touched | needs to manifest (from the seed's notes) | caught by |")
out.append("|------|----------|---------------|-------------------------------------------|-----------|")
for d in sorted(glob.glob(ROOT + "/seeded/*/")):
    name = os.path.basename(d.rstrip("/"))
    meta = json.load(open(d + "meta.json"))
    r = res.get("seeded-" + name, {})
    fired = ", ".join(x.split(".", 1)[1] for x in r.get("fired", [])[:3]) or "—"
    ok = "" if r.get("as_expected") else (" **MISSED**" if r else " (not in the last full run)")
    needs = str(meta.get("needs_to_manifest", "")).replace("|", "/").replace("\n", " ")[:170]
    out.append(f"| {name} | {meta['property']} | {touched(d + 'patch.diff')} | {needs} | {fired}{ok} |")
out.append("")
out.append("**Hand-written mutants and reverted fixes** (`mutants/*.patch`, one broken instance each).\n")
out.append("| patch | expected | fired |")
out.append("|-------|----------|-------|")
neutral = []
for p in sorted(glob.glob(ROOT + "/mutants/*.patch")):
    name = os.path.basename(p)[:-6]
    exp = open(p).readline().strip()[len("# expect:"):].strip()
    r = res.get(name, {})
    if exp.startswith("neutral"):
        neutral.append((name, r))
        continue
    fired = ", ".join(r.get("fired", [])[:3]) or "—"
    ok = "" if r.get("as_expected") else (" **MISSED**" if r else " (not in the last full run)")
    out.append(f"| {name} | {exp} | {fired}{ok} |")
out.append("")
out.append(f"**Behaviour-preserving patches** ({len(neutral)}; every claimed check must stay silent): " +
           ", ".join(n + ("" if r.get("as_expected") else (" **FALSE ALARM**" if r else " (not in the last full run)")) for n, r in neutral) + ".")
tot = len(res); bad = sum(1 for r in res.values() if not r.get("as_expected"))
out.append(f"\nLast full self-test: {tot} cases, {bad} not as expected.")
table = "\n".join(out)

p = ROOT + "/DESIGN.md"
s = open(p).read()
B, E = "<!-- SEEDTABLE-BEGIN -->", "<!-- SEEDTABLE-END -->"
if "SEEDTABLE\n" in s and B not in s:
    s = s.replace("SEEDTABLE\n", B + "\n" + table + "\n" + E + "\n", 1)
else:
    s = s[:s.index(B)] + B + "\n" + table + "\n" + s[s.index(E):]
open(p, "w").write(s)
print("table:", tot, "cases,", bad, "bad")
