#!/bin/bash
# MANIFEST.setup_cmd: build the analyser from files on disk only (offline; module cache + Go toolchain cache).
set -euo pipefail
cd "$(dirname "$0")/.."
. scripts/env.sh
mkdir -p bin evidence replays
(cd sa && go build -o ../bin/oapsa ./cmd/oapsa)
echo "setup ok: $(bin/oapsa -version 2>/dev/null || echo oapsa built) with $(go version)"
